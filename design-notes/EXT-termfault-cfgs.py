#!/usr/bin/env python3
"""Writes every TermFault configuration (spec/MCTermFault_*.cfg, spec/GenTermFault_*.cfg): the cfg files are what the
check uses; this script only records how they were produced (python3 design-notes/EXT-termfault-cfgs.py)."""
import os
SPEC=os.path.join(os.path.dirname(os.path.dirname(os.path.abspath(__file__))),"spec")
DEVS=["Dev_LateRegisterAccepted","Dev_StopAtFailedSend","Dev_KeepHandlerOnFailedSend","Dev_KeepTableOnTerminate",
      "Dev_CloseBoxOnRemove","Dev_MailboxStopsOnRemove","Dev_BoxKeptAfterRemove","Dev_SendUnderReadLock","Dev_TerminateCallEndsService",
      "Dev_ForgetDropsLast","Dev_AddUnderLock"]
INV="""INVARIANTS Sanity NoCrash RemainingSubscribersTold OnlyRemainingTold ToldAtMostOnce HandlersReleased
           NoSubscriberLeftBehind LateRefused NothingStuck OthersKeepAnswering NoWaitCycle
PROPERTIES OnlyTheRemovedLeaves"""
def cfg(name, tab, reg, objs, boxcap, removable, svcterm, breaks, drops, dev=None, inv=None, spec="Spec", fill=False, extra="", conns='{"c1", "c2", "c3"}', devs_on=(), locks=False):
    L=["SPECIFICATION "+spec,"CONSTANTS","  Objs = "+objs,"  Conns = "+conns,"  MsgTab <- "+tab,"  InitReg <- "+reg,
       "  BoxCap = %d"%boxcap,"  WithFill = %s"%("TRUE" if fill else "FALSE"),"  Removable = "+removable,
       "  WithSvcTerm = %s"%("TRUE" if svcterm else "FALSE"),"  MaxBreaks = %d"%breaks,"  MaxDrops = %d"%drops,
       "  LockSteps = %s"%("TRUE" if locks else "FALSE")]
    for d in DEVS:
        L.append("  %s = %s"%(d,"TRUE" if (d==dev or d in devs_on) else "FALSE"))
    if extra: L.append(extra)
    L.append(inv if inv else INV)
    L.append("CHECK_DEADLOCK FALSE")
    open(os.path.join(SPEC,name),"w").write("\n".join(L)+"\n")
# exhaustive design checks
cfg("MCTermFault_a.cfg","TabA","RegA","{1, 2}",2,"{1}",False,1,0)
cfg("MCTermFault_b.cfg","TabB","RegB","{1, 2}",1,"{1}",False,0,0)
cfg("MCTermFault_c.cfg","TabCq","RegC","{1, 2, 3}",1,"{1, 2}",False,1,0)
cfg("MCTermFault_h.cfg","TabHq","RegH","{1, 2}",2,"{1}",False,0,1)
cfg("MCTermFault_h_thorough.cfg","TabH","RegH","{1, 2}",2,"{1}",False,0,1)
# (2) with the code as found (late registrations run): everything but NoSubscriberLeftBehind must hold
LINV=INV.replace("NoSubscriberLeftBehind LateRefused","LateRefused").replace("HandlersReleased\n           ","HandlersReleased ")
cfg("MCTermFault_l.cfg","TabL","RegL","{1, 2}",2,"{1}",False,0,0,locks=True,dev="Dev_LateRegisterAccepted",inv=LINV)
cfg("MCTermFault_l_thorough.cfg","TabL","RegL","{1, 2}",2,"{1}",False,1,1,locks=True,dev="Dev_LateRegisterAccepted",inv=LINV)
cfg("MCTermFault_s.cfg","TabA","RegA","{1, 2}",2,"{1}",True,0,0)
cfg("MCTermFault_a_thorough.cfg","TabA","RegA","{1, 2}",2,"{1}",True,1,1)
cfg("MCTermFault_b_thorough.cfg","TabB","RegB","{1, 2}",1,"{1}",False,1,1)
cfg("MCTermFault_c_thorough.cfg","TabCq","RegC","{1, 2, 3}",1,"{1, 2}",True,1,0)
# the deviations: each must break its invariant
for dev,inv,tab,reg,cap,br,dr in [
  ("Dev_LateRegisterAccepted","NoSubscriberLeftBehind","TabB","RegB",1,0,0),
  ("Dev_StopAtFailedSend","RemainingSubscribersTold","TabA","RegA",2,1,0),
  ("Dev_KeepHandlerOnFailedSend","HandlersReleased","TabA","RegA",2,1,0),
  ("Dev_KeepTableOnTerminate","ToldAtMostOnce","TabA","RegA",2,0,0),
  ("Dev_CloseBoxOnRemove","NoCrash","TabB","RegB",1,0,0),
  ("Dev_MailboxStopsOnRemove","NothingStuck","TabB","RegB",1,0,0),
  ("Dev_BoxKeptAfterRemove","LateRefused","TabB","RegB",1,0,0),
  ("Dev_SendUnderReadLock","OthersKeepAnswering","TabB","RegB",1,0,0),
  ("Dev_TerminateCallEndsService","OnlyTheRemovedLeaves","TabB","RegB",1,0,0),
  ("Dev_ForgetDropsLast","OnlyRemainingTold","TabH","RegH",2,0,0),
  ("Dev_AddUnderLock","NoWaitCycle","TabL","RegL",2,0,0)]:
    i = "PROPERTIES OnlyTheRemovedLeaves" if inv=="OnlyTheRemovedLeaves" else "INVARIANTS Sanity "+inv
    cfg("MCTermFault_dev_%s.cfg"%dev[4:],tab,reg,"{1, 2}",cap,"{1}",False,br,dr,dev=dev,inv=i,locks=(dev=="Dev_AddUnderLock"),
        devs_on=(("Dev_LateRegisterAccepted",) if dev=="Dev_AddUnderLock" else ()))
# behaviour export (the conforming design: since /repo fix "a terminated object accepts no subscriber" a late registration is refused)
GINV="INVARIANTS Sanity NoCrash RemainingSubscribersTold OnlyRemainingTold ToldAtMostOnce HandlersReleased NoSubscriberLeftBehind LateRefused"
def gen(name, tab, reg, objs, removable, svcterm, breaks, drops, fine, mod, maxlen=99, fill=True, locks=False):
    cfg(name,tab,reg,objs,10,removable,svcterm,breaks,drops,spec="GSpec",fill=fill,dev=None,locks=locks,
        extra="  FineSteps = %s\n  SampleMod = %d\n  MaxLen = %d\nVIEW View\nCONSTRAINT Short"%("TRUE" if fine else "FALSE",mod,maxlen),inv=GINV)
# thorough tier
gen("GenTermFault_a.cfg","TabA","RegA","{1, 2}","{1}",True,1,1,True,30)
gen("GenTermFault_b.cfg","TabB","RegB","{1, 2}","{1}",False,1,0,True,30)
gen("GenTermFault_c.cfg","TabC","RegC","{1, 2, 3}","{1, 2}",True,1,0,True,90)
# quick tier (the thorough tier replays them completely: SampleMod is overridden by the check through a copy)
gen("GenTermFault_qa.cfg","TabGa","RegGa","{1, 2}","{1}",True,1,0,True,24)
gen("GenTermFault_qb.cfg","TabGb","RegB","{1, 2}","{1}",False,0,0,True,14)
gen("GenTermFault_qc.cfg","TabGc","RegGc","{1, 2}","{1, 2}",False,1,0,True,12)
gen("GenTermFault_qd.cfg","TabGa","RegGa","{1, 2}","{1}",True,1,1,False,24)
gen("GenTermFault_qe.cfg","TabGe","RegGe","{1, 2}","{1}",False,0,0,True,1,fill=False)
gen("GenTermFault_qh.cfg","TabH","RegH","{1, 2}","{1}",False,0,1,True,12,fill=False)
gen("GenTermFault_ql.cfg","TabL","RegL","{1, 2}","{1}",False,0,0,True,1,fill=False,locks=True)
for q,t in [("qa",3),("qb",2),("qc",2),("qd",3),("qe",1),("qh",2),("ql",1)]:
    src=open(os.path.join(SPEC,"GenTermFault_%s.cfg"%q)).read()
    import re
    open(os.path.join(SPEC,"GenTermFault_%s_thorough.cfg"%q),"w").write(re.sub(r"SampleMod = \d+","SampleMod = %d"%t,src))
