#!/usr/bin/env python3
"""Writes the TLC configurations of spec/ServerLife.tla / GenServerLife.tla / TraceServerLife.tla
(spec/MCServerLife_*.cfg, spec/GenServerLife_*.cfg, spec/TraceServerLife.cfg).  The configurations are
checked in; this script only keeps the three scenarios consistent when a constant is added.

  term    Server.Terminate with connections open and calls in flight, a concurrent Service.Terminate
  listen  the listener: connections arriving, a listener that starts failing, Terminate twice, clients leaving
  svc     services added and terminated while clients call them (one connection is a Server.Client())
"""
import os

SPEC = os.path.join(os.path.dirname(os.path.dirname(os.path.abspath(__file__))), "spec")
DEVS = ["SecondTerminatePanics", "TerminateAfterStopPanics", "LateAcceptStaysOpen", "FailedNewServiceKeepsName", "CloseAllStopsAtError",
        "SplitSvcSwap", "TerminatorKeepsName", "TerminatorRemovesAll", "TerminateKeepsService",
        "EnqueueDropsAfterTerminate", "ListenFailNoStop"]


def cfg(spec, consts, devs=(), invs="", props="", extra=""):
    out = ["SPECIFICATION " + spec, "CONSTANTS"]
    for k, v in consts.items():
        out.append("  %s = %s" % (k, v))
    for d in DEVS:
        out.append("  Dev_%s = %s" % (d, "TRUE" if d in devs else "FALSE"))
    if invs:
        out.append("INVARIANTS " + invs)
    if props:
        out.append("PROPERTIES " + props)
    if extra:
        out.append(extra)
    out.append("CHECK_DEADLOCK FALSE")
    return "\n".join(out) + "\n"


def w(name, text):
    open(os.path.join(SPEC, name), "w").write(text)


INV = "TypeOK NoPanic TermAtMostOnce ServerDownComplete AllConnectionsClosed ListenFailStops SvcDownComplete LateCallsRefused FailedNewServiceFreesName"
PROP = "OthersKeepAnswering"
LIVE = "CallsEnd ThreadsEnd WaitReleased"
base = dict(LocalConns="{}", FreeOrder="FALSE", DevBoth="FALSE", PinConn="FALSE", WithGates="FALSE", MaxGates="0", Modes='{"fast"}', CloseErr="{1}")
term = dict(base, Svcs="{1, 2}", Objs="{11, 12, 21}", InitSvcs="{1, 2}", Conns="{1, 2}", InitConns="{1, 2}", Calls="{1, 2}",
            MaxSrvTerm="1", TermSvcs="{1}", CallConns="{1, 2}", CallObjs="{11, 21}", EnvOps="{}")
lis = dict(base, Svcs="{1}", Objs="{11}", InitSvcs="{1}", Conns="{1, 2}", InitConns="{1}", Calls="{1}",
           MaxSrvTerm="2", TermSvcs="{}", CallConns="{1, 2}", CallObjs="{11}", EnvOps='{"offer", "cclose", "listenfail"}')
svc = dict(base, Svcs="{1, 2}", Objs="{11, 12, 21}", InitSvcs="{1}", Conns="{1}", InitConns="{1}", Calls="{1, 2}",
           MaxSrvTerm="1", TermSvcs="{1, 2}", CallConns="{1}", CallObjs="{11, 21}", EnvOps='{"newsvcfail"}')

# ---- exhaustive design checks (safety); *_thorough: larger constants
w("MCServerLife_term.cfg", cfg("Spec", dict(term, CallConns="{1}", Objs="{11, 21}"), invs=INV, props=PROP))
w("MCServerLife_term_thorough.cfg", cfg("Spec", term, invs=INV, props=PROP))
w("MCServerLife_listen.cfg", cfg("Spec", lis, invs=INV, props=PROP))
w("MCServerLife_listen_thorough.cfg", cfg("Spec", dict(lis, Calls="{1, 2}"), invs=INV, props=PROP))
w("MCServerLife_svc.cfg", cfg("Spec", dict(svc, MaxSrvTerm="0"), invs=INV, props=PROP))
w("MCServerLife_svc_thorough.cfg", cfg("Spec", dict(svc, Calls="{1}", CallObjs="{11, 12, 21}"), invs=INV, props=PROP))
# ---- liveness (weak fairness of the internal steps, no gates): small constants
w("MCServerLife_live_term.cfg", cfg("Spec", dict(term, Calls="{1}", CallConns="{1}", Conns="{1}", InitConns="{1}", Objs="{11, 21}"), props=LIVE))
w("MCServerLife_live_term_thorough.cfg", cfg("Spec", dict(term, Calls="{1}", CallConns="{1}"), props=LIVE))
w("MCServerLife_live_listen.cfg", cfg("Spec", dict(lis, Calls="{}"), props="ThreadsEnd WaitReleased"))
w("MCServerLife_live_listen_thorough.cfg", cfg("Spec", lis, props=LIVE))
w("MCServerLife_live_svc.cfg", cfg("Spec", dict(svc, MaxSrvTerm="0", Calls="{1}"), props=LIVE))
# ---- deviations: each must break the demand named (vacuity guard of that demand)
small_term = dict(term, Calls="{1}", CallConns="{1}")
small_svc = dict(svc, MaxSrvTerm="0", Calls="{1}")
DEVCFG = {
    "SecondTerminatePanics": (lis, "NoPanic", ""),
    "TerminateAfterStopPanics": (lis, "NoPanic", ""),
    "LateAcceptStaysOpen": (lis, "AllConnectionsClosed", ""),
    "CloseAllStopsAtError": (small_term, "AllConnectionsClosed", ""),
    "SplitSvcSwap": (small_term, "TermAtMostOnce", ""),
    "TerminatorKeepsName": (small_svc, "SvcDownComplete", ""),
    "TerminatorRemovesAll": (small_svc, "", "OthersKeepAnswering"),
    "TerminateKeepsService": (small_svc, "LateCallsRefused", ""),
    "ListenFailNoStop": (lis, "ListenFailStops", ""),
    "FailedNewServiceKeepsName": (small_svc, "FailedNewServiceFreesName", ""),
}
for d, (consts, inv, prop) in DEVCFG.items():
    w("MCServerLife_dev_%s.cfg" % d, cfg("Spec", consts, devs=(d,), invs=inv, props=prop))
w("MCServerLife_dev2_TerminatorKeepsName.cfg", cfg("Spec", small_term, devs=("TerminatorKeepsName",), invs="ServerDownComplete"))
w("MCServerLife_dev2_EnqueueDropsAfterTerminate.cfg",
  cfg("Spec", dict(small_svc, CallObjs="{11}"), devs=("EnqueueDropsAfterTerminate",), props="CallsEnd"))
w("MCServerLife_dev2_ListenFailNoStop.cfg", cfg("Spec", dict(lis, Calls="{}", MaxSrvTerm="0"), devs=("ListenFailNoStop",), props="WaitReleased"))
w("MCServerLife_dev2_SecondTerminatePanics.cfg",
  cfg("Spec", dict(lis, Calls="{}", EnvOps="{}"), devs=("SecondTerminatePanics",), props="ThreadsEnd"))

# ---- behaviour export (gates armed by commands, both branches at the deviations of the code as found)
gates = dict(WithGates="TRUE", DevBoth="TRUE", PinConn="TRUE")
gterm = dict(term, **gates, MaxGates="1", Modes='{"fast", "slow", "parkS"}', MaxSrvTerm="2")
w("GenServerLife_term.cfg", cfg("GSpec", dict(gterm, MaxLen="4"), extra="VIEW View"))
w("GenServerLife_term_thorough.cfg", cfg("GSpec", dict(gterm, MaxLen="6"), extra="VIEW View"))
glis = dict(lis, **gates, MaxGates="2", Modes='{"fast", "slow"}', Calls="{1, 2}")
w("GenServerLife_listen.cfg", cfg("GSpec", dict(glis, MaxLen="5"), extra="VIEW View"))
w("GenServerLife_listen_thorough.cfg", cfg("GSpec", dict(glis, MaxLen="7"), extra="VIEW View"))
gsvc = dict(svc, **gates, MaxGates="1", Modes='{"fast", "slow", "parkS", "parkR"}', Conns="{1, 2}", InitConns="{1, 2}",
            LocalConns="{2}", CallConns="{1, 2}")
w("GenServerLife_svc.cfg", cfg("GSpec", dict(gsvc, MaxLen="4", Modes='{"fast", "slow", "parkS"}'), extra="VIEW View"))
w("GenServerLife_svc_thorough.cfg", cfg("GSpec", dict(gsvc, MaxLen="5"), extra="VIEW View"))

# ---- trace validation of recorded concurrent rounds
trace = dict(term, Calls="{1, 2, 3, 4}", CallObjs="{11, 12, 21}", TermSvcs="{1, 2}", FreeOrder="TRUE", EnvOps='{"listenfail"}')
w("TraceServerLife.cfg", cfg("TSpec", trace, invs="TypeOK NoPanic TermAtMostOnce ServerDownComplete AllConnectionsClosed ListenFailStops SvcDownComplete LateCallsRefused",
                             extra="CONSTRAINT Track\nPOSTCONDITION Accepted"))
