#!/usr/bin/env python3
"""writes the configurations of spec/Federation.tla and spec/GenFederation.tla (run in /verif/spec)"""
base = dict(Srv="{1, 2}", Names='{"a", "b"}', Clients="{1}", MaxAtt=3, MaxCuts=1, MaxProxies=1, MaxDrops=0,
            Dev_NoCleanup="TRUE", Dev_RouterFirst="TRUE", Dev_NoLease="TRUE", Dev_StaleKept="TRUE",
            Dev_StagingUnchecked="FALSE", Dev_IdReuse="FALSE", Dev_LookupStaged="FALSE", Dev_RemovedForStaged="FALSE", Dev_EnableErrorIgnored="FALSE")
STMT = "TypeOK UniqueNames IdsIncreasing VisibleExactly EventsOnce LiveVisible"
OUT = "VisibleReachable StagedOwned NoOrphan TerminatedInvisible NoStalePool StaleOnlyDown"
def cfg(name, inv, **over):
    c = dict(base); c.update(over)
    s = "SPECIFICATION Spec\nCONSTANTS\n" + "".join("  %s = %s\n" % kv for kv in c.items()) + "INVARIANTS %s\nVIEW MCView\nCHECK_DEADLOCK FALSE\n" % inv
    open(name, "w").write(s)
ideal = dict(Dev_NoCleanup="FALSE", Dev_RouterFirst="FALSE", Dev_NoLease="FALSE", Dev_StaleKept="FALSE")
small = dict(MaxAtt=2, MaxProxies=2, MaxDrops=1)
# the code / the demands met
cfg("MCFederation.cfg", STMT)
cfg("MCFederation_clients.cfg", STMT, **small)
cfg("MCFederation_thorough.cfg", STMT, MaxCuts=2, MaxProxies=2, MaxDrops=1)
cfg("MCFederation_ideal.cfg", STMT + " " + OUT, **dict(ideal, **small))
cfg("MCFederation_ideal_thorough.cfg", STMT + " " + OUT, **dict(ideal, MaxProxies=2, MaxDrops=1))
# the code's deviations, one at a time over the ideal rendering: each must break its demand
cfg("Dev_Federation_nocleanup.cfg", "StagedOwned", **dict(ideal, Dev_NoCleanup="TRUE"))
cfg("Dev_Federation_nocleanup_orphan.cfg", "NoOrphan", **dict(ideal, Dev_NoCleanup="TRUE"))
cfg("Dev_Federation_routerfirst.cfg", "VisibleReachable", **dict(ideal, Dev_RouterFirst="TRUE"))
cfg("Dev_Federation_nolease.cfg", "VisibleReachable", **dict(ideal, Dev_NoLease="TRUE"))
cfg("Dev_Federation_nolease_term.cfg", "TerminatedInvisible", **dict(ideal, Dev_NoLease="TRUE"))
cfg("Dev_Federation_stalekept.cfg", "StaleOnlyDown", **dict(ideal, Dev_StaleKept="TRUE", **small))
# renderings that are not the code: the statement breaks
cfg("Dev_Federation_stagingunchecked.cfg", "UniqueNames", Dev_StagingUnchecked="TRUE")
cfg("Dev_Federation_idreuse.cfg", "IdsIncreasing", Dev_IdReuse="TRUE")
cfg("Dev_Federation_lookupstaged.cfg", "VisibleExactly", Dev_LookupStaged="TRUE")
cfg("Dev_Federation_removedforstaged.cfg", "EventsOnce", **dict(ideal, Dev_RemovedForStaged="TRUE"))
cfg("Dev_Federation_enableerrorignored.cfg", "LiveVisible", Dev_EnableErrorIgnored="TRUE")
# the code, against the demands outside the statement
for inv in ("VisibleReachable", "StagedOwned", "NoOrphan", "TerminatedInvisible"):
    cfg("Obs_Federation_%s.cfg" % inv.lower(), inv)
for inv in ("NoStalePool", "StaleOnlyDown"):
    cfg("Obs_Federation_%s.cfg" % inv.lower(), inv, **small)
gbase = dict(base, Tag='"T"', MaxLen=99, SampleMod=20)
def gcfg(name, view=True, **over):
    c = dict(gbase); c.update(over)
    s = "SPECIFICATION GSpec\nCONSTANTS\n" + "".join("  %s = %s\n" % kv for kv in c.items()) + ("VIEW View\n" if view else "CONSTRAINT Short\n") + "CHECK_DEADLOCK FALSE\n"
    open(name, "w").write(s)
gcfg("GenFederation.cfg", MaxProxies=0)
gcfg("GenFederation_clients.cfg", **small)
gcfg("GenFederation_seq.cfg", view=False, Tag='"S"', MaxLen=5, MaxProxies=2, MaxDrops=1, SampleMod=10)
gcfg("GenFederation_thorough.cfg", SampleMod=10, MaxDrops=1)
gcfg("GenFederation_seq_thorough.cfg", view=False, Tag='"S"', MaxLen=6, MaxProxies=2, MaxDrops=1, SampleMod=20)
