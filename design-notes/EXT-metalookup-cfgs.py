#!/usr/bin/env python3
"""Writes the TLC configurations of spec/MetaLookup.tla / spec/GenMetaLookup.tla (run from /verif)."""
ALL = '{"m", "s", "p"}'
EVERY = '{"lookup", "names", "full", "action"}'
LOOKUP_THEOREMS = "SoundName ExactWins ErrorOnlyIfNothing OwnActionReachable PropertyEventId"
REST = "NamesDistinct NamesCover NamesStable FirstKeepsBare FullKeepsIdsUnique FullKeepsActions FullHasGeneric FullIdempotent ActionNameSound"


def cfg(name, spec="Spec", universe="quick", maporder="{}", lastany="{}", walk="TRUE", rng="TRUE", queries=EVERY, inv="", extra=""):
    with open("spec/" + name, "w") as f:
        f.write("SPECIFICATION %s\nCONSTANTS\n  Universe = \"%s\"\n  MapOrder = %s\n  LastChanceAny = %s\n  WalkSorted = %s\n"
                "  AssumeUserRange = %s\n  QueryTypes = %s\n%sINVARIANTS %s\nCHECK_DEADLOCK FALSE\n"
                % (spec, universe, maporder, lastany, walk, rng, queries, extra, inv))


for u, sfx in (("quick", ""), ("thorough", "_thorough")):
    # code = intent: every theorem
    cfg("MCMetaLookup%s.cfg" % sfx, universe=u, inv=LOOKUP_THEOREMS + " NeverAnotherOverload Deterministic " + REST)
    # the code's constants (after the repair of MethodID): the theorems about lookups that the code keeps
    cfg("MCMetaLookup_code%s.cfg" % sfx, universe=u, maporder='{"s", "p"}', lastany=ALL, queries='{"lookup"}', inv=LOOKUP_THEOREMS)
    cfg("GenMetaLookup%s.cfg" % sfx, spec="GSpec", universe=u, maporder='{"s", "p"}', lastany=ALL, inv="Export",
        extra="  SampleMod = %d\n" % (2 if u == "quick" else 1))
# configurations that must break the named theorem
cfg("Dev_MetaLookup_code_overload.cfg", maporder='{"s", "p"}', lastany=ALL, queries='{"lookup"}', inv="NeverAnotherOverload")
cfg("Dev_MetaLookup_code_maporder.cfg", maporder='{"s", "p"}', lastany=ALL, queries='{"lookup"}', inv="Deterministic")
cfg("Dev_MetaLookup_pinned_methods.cfg", maporder=ALL, lastany=ALL, queries="{}", inv="OwnActionReachable")
cfg("Dev_MetaLookup_lastchance_only.cfg", lastany='{"m"}', queries='{"lookup"}', inv="NeverAnotherOverload")
cfg("Dev_MetaLookup_walkunsorted.cfg", walk="FALSE", queries='{"names"}', inv="NamesStable")
cfg("Obs_MetaLookup_lowids_dropped.cfg", rng="FALSE", queries='{"full"}', inv="FullKeepsActions")
cfg("Obs_MetaLookup_lowids_twice.cfg", rng="FALSE", queries='{"full"}', inv="FullKeepsIdsUnique")
cfg("Obs_MetaLookup_derived.cfg", queries='{"names"}', inv="ProxyIdentsDistinct")
