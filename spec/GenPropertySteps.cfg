SPECIFICATION GSpec
CONSTANTS
  Updaters = {"u1"}
  Subs = {"s1", "s2"}
  ValuesOf <- ValuesQ
  MaxOps <- OpsQ
CHECK_DEADLOCK FALSE
