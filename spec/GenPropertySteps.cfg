SPECIFICATION GSpec
CONSTANTS
  Updaters = {"u1"}
  Subs = {"s1", "s2"}
  ValuesOf <- ValuesQ
  MaxOps <- OpsQ
  InitTables <- TabNone
  Foreign = {}
  Movers = {}
  Closers = {}
  MaxMoves = 0
  Atomic = TRUE
  Dev_IterateLiveSlice = FALSE
  Dev_SendErrorFailsWrite = FALSE
CHECK_DEADLOCK FALSE
