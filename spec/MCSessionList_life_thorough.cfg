SPECIFICATION Spec
CONSTANTS
  Names = {"a"}
  Eps = {"E", "F"}
  MaxReg = 2
  Gor = {"g1"}
  Terms = {"t1", "t2"}
  QCap = 1
  WithGone = TRUE
  WithIdReq = TRUE
  Dev_ListBeforeSubscribe = FALSE
  Dev_AddedIgnored = FALSE
  Dev_RemovedIgnored = FALSE
  Dev_RefreshThenDrain = FALSE
  Dev_StoreNotAtomic = FALSE
  Dev_CancelNotCleared = FALSE
  Dev_CancelCheckOutsideLock = FALSE
  Dev_FailedRefreshKeepsSession = FALSE
  Dev_TerminateLeavesDirectory = FALSE
  Dev_ResolveByNameAgain = FALSE
INVARIANTS TypeOK ProcessAlive CancelAtMostOnce ListIsSnapshot QuiescentListCurrent ResolvedWhatWasFound
           FailedRefreshClosesSession TerminatedIsStopped LoopStopsOnce
CHECK_DEADLOCK FALSE
