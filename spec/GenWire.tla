------------------------------- MODULE GenWire -------------------------------
(***************************************************************************)
(* Vector export for Wire (DESIGN.md 2.2 b; "behaviour" = one vector).     *)
(*  "V": type tree, signature, abstract value (dynamic values annotated    *)
(*       with their signature and data bytes), every valid encoding        *)
(*       (canonical map order first) and the prefix that turns the typed   *)
(*       encoding into the dynamic-value encoding (ThDynamicIsPrefixed).   *)
(*  "M": hostile mutants of the canonical encoding: position, field kind,  *)
(*       least element size, hostile constant (4 bytes to patch in) and    *)
(*       the reference decoder's verdict.                                  *)
(*  "F": message frames around a payload, with hostile size mutants.       *)
(*  "G": the signatures of the protocol's own types (binding self-check).  *)
(***************************************************************************)
EXTENDS MCWire, Json

RECURSIVE Annot(_, _)
Annot(T, v) ==
  CASE T.k = "m" -> [t |-> v[1], sig |-> Sig(v[1]), v |-> Annot(v[1], v[2]), data |-> EncOrd(v[1], v[2])]
    [] T.k = "list" -> [i \in 1..Len(v) |-> Annot(T.e, v[i])]
    [] T.k = "map" -> [i \in 1..Len(v) |-> <<Annot(T.key, v[i][1]), Annot(T.val, v[i][2])>>]
    [] T.k \in {"tuple", "struct"} -> [i \in 1..Len(T.ms) |-> Annot(T.ms[i], v[i])]
    [] T.k = "o" -> Annot(ObjRefT, v)
    [] OTHER -> v

Canon == EncOrd(T_, V_)
Vec == [t |-> T_, sig |-> Sig(T_), v |-> Annot(T_, V_),
        encs |-> <<Canon>> \o SetToSeq(Enc(T_, V_) \ {Canon}),
        vprefix |-> Str(Sig(T_))]

(* the dynamic-value encodings are exactly the typed ones behind the signature string *)
ThDynamicIsPrefixed == Chosen => Enc(S("m"), <<T_, V_>>) = {Str(Sig(T_)) \o e : e \in Enc(T_, V_)}

MutRec(T, m) == [pos |-> m.pos, kind |-> m.kind, esz |-> m.esz, h |-> m.h,
                 q |-> SubSeq(m.bytes, m.pos + 1, m.pos + 4),
                 exp |-> IF IsErr(Dec(T, m.bytes)) THEN "err" ELSE "ok"]
FieldRec(f) == [pos |-> f.pos, kind |-> f.kind, n |-> f.n, esz |-> f.esz, fix |-> f.fix]
MutVec == [t |-> T_, sig |-> Sig(T_), enc |-> Canon, vprefix |-> Str(Sig(T_)),
           flds |-> SetToSeq({FieldRec(f) : f \in Fields(T_, V_, 0)}),
           muts |-> SetToSeq({MutRec(T_, m) : m \in Mutants(T_, V_)}),
           vmuts |-> SetToSeq({MutRec(S("m"), m) : m \in {x \in Mutants(S("m"), <<T_, V_>>) : x.pos = 0}})]

ExportV == Chosen => PrintT(<<"V", ToJson(Vec)>>)
ExportM == (Chosen /\ Fields(T_, V_, 0) # {}) => PrintT(<<"M", ToJson(MutVec)>>)

FramePayloads == {<<>>, <<1>>, EncValue(S("s"), Str_hi), EncOrd(CapabilityMapT, Dflt(CapabilityMapT))}
FrameVec(type, p) == [type |-> type, payload |-> p, bytes |-> Frame(type, p),
                      muts |-> SetToSeq({[pos |-> m.pos, kind |-> m.kind, esz |-> m.esz, h |-> m.h,
                                          q |-> SubSeq(m.bytes, m.pos + 1, m.pos + 4), exp |-> "?"]
                                         : m \in FrameMutants(type, p)})]
ASSUME \A type \in {1, 2, 8} : \A p \in FramePayloads : PrintT(<<"F", ToJson(FrameVec(type, p))>>)
\* "B": values exactly at and just below a documented cap (list of values: 4096 elements)
ASSUME \A n \in {ListValueCap - 1, ListValueCap} :
         PrintT(<<"B", ToJson([kind |-> "list-of-values", n |-> n, bytes |-> ListOfVoidValues(n)])>>)
ASSUME PrintT(<<"G", ToJson([metaobject |-> Sig(MetaObjectT), objref |-> Sig(ObjRefT),
                             serviceinfo |-> Sig(ServiceInfoT), capmap |-> Sig(CapabilityMapT)])>>)
=============================================================================
