SPECIFICATION TSpec
CONSTANTS
  Valid <- ValidRange
  Invalid <- InvalidRange
  Subs = {"s1", "s2", "s3", "f"}
  WrongKinds <- AllWrong
  Dev_ValidateByBytesOnly = FALSE
  MaxWrites = 0
  Dev_SendErrorFailsWrite = TRUE
VIEW TView
INVARIANT NotAccepted
ALIAS Tiny
CHECK_DEADLOCK FALSE
