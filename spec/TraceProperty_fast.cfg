SPECIFICATION TSpec
CONSTANTS
  Valid <- ValidRange
  Invalid <- InvalidRange
  Subs = {"s1", "s2"}
  WrongKinds <- AllWrong
  Dev_ValidateByBytesOnly = FALSE
  MaxWrites = 0
VIEW TView
INVARIANT NotAccepted
ALIAS Tiny
CHECK_DEADLOCK FALSE
