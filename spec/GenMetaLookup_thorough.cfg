SPECIFICATION GSpec
CONSTANTS
  Universe = "thorough"
  MapOrder = {"s", "p"}
  LastChanceAny = {"m", "s", "p"}
  WalkSorted = TRUE
  AssumeUserRange = TRUE
  QueryTypes = {"lookup", "names", "full", "action"}
  SampleMod = 1
INVARIANTS Export
CHECK_DEADLOCK FALSE
