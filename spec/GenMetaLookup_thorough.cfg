SPECIFICATION GSpec
CONSTANTS
  Universe = "thorough"
  MapOrder = {"s", "p"}
  LastChanceAny = {"m", "s", "p"}
  WalkSorted = TRUE
  AssumeUserRange = TRUE
  SampleMod = 1
INVARIANTS Export
CHECK_DEADLOCK FALSE
