----------------------------- MODULE GenCancel -----------------------------
(***************************************************************************)
(* Behaviour export for Cancel.tla (GenClient's command / settle machinery) *)
(* The harness (harness/cmd/endpoint/cancel.go) plays the environment one    *)
(* command at a time on a real bus.Client over a stream it owns:             *)
(*   start k      a goroutine enters Call (odd k: proxy.WithContext(ctx)     *)
(*                .CallID, even k: client.Call with a channel)               *)
(*   release k    the request's Write returns (it was held at its entry)     *)
(*   cancel k     the context is cancelled / the channel closed              *)
(*   crelease k   the Cancel frame's Write returns (held at its entry too)   *)
(*   reply k t    the peer's answer to request k: t = 2 Reply, 3 Error,      *)
(*                5 Cancelled - early, in time or late                       *)
(*   disc, fail, eof, close   disconnect callback, the three losses          *)
(* Between two commands the client's goroutines and the end point run to     *)
(* quiescence in EVERY order (the history is part of the state meanwhile);   *)
(* every (quiescent state, command) transition is exported with the          *)
(* observation reached; a command whose outcome depends on Go's choice among *)
(* ready select branches is exported once per outcome: the check accepts any.*)
(* Observation: per call 0 idle | 1 waiting | 4 in the request's Write |     *)
(* 6 in the Cancel frame's Write | 2 value | 3 error | 5 ErrCancelled; the   *)
(* frames written (10 t + request named by the id, t = 1 Call, 7 Cancel);    *)
(* the number of occupied handler slots (`occ`), of which `left` belong to   *)
(* calls that have returned; callback count; reader goroutine finished.      *)
(***************************************************************************)
EXTENDS Cancel, Json

VARIABLES hist, settled
gvars == <<xall, hist, settled>>

GInit == XInit /\ hist = <<>> /\ settled = TRUE

CallCode(k) == CASE cst[k] = "idle" -> 0
                 [] cst[k] = "writing" -> 4
                 [] cst[k] = "cwriting" -> 6
                 [] cst[k] = "done" -> out[k]
                 [] OTHER -> 1
Obs == [c |-> [k \in Calls |-> CallCode(k)],
        w |-> [i \in 1..Len(wire) |-> 10 * wire[i].t + wire[i].k],
        occ |-> Cardinality(LiveIdx),
        left |-> Cardinality({k \in Calls : cst[k] = "done" /\ hst[k] = "live"}),
        cb |-> closerN[HD],
        dead |-> IF proc = "stopped" THEN 1 ELSE 0]

Cmd(o, a, b) == /\ hist' = Append(hist, [o |-> o, a |-> a, b |-> b, post |-> Obs])
                /\ settled' = FALSE

Command ==
  \/ \E k \in Calls : \/ XStart(k) /\ Cmd("start", k, 0)
                      \/ (XSendEnd(k) \/ XSendFail(k)) /\ Cmd("release", k, 0)
                      \/ (CancelSendEnd(k) \/ CancelSendFail(k)) /\ Cmd("crelease", k, 0)
                      \/ CancelReq(k) /\ Cmd("cancel", k, 0)
                      \/ \E t \in Kinds : XPeerReply(k, t) /\ Cmd("reply", k, t)
  \/ StartDisc /\ UNCHANGED xvars /\ Cmd("disc", 0, 0)
  \/ Fail /\ UNCHANGED xvars /\ Cmd("fail", 0, 0)
  \/ PeerCloseC /\ UNCHANGED xvars /\ Cmd("eof", 0, 0)
  \/ LocalClose /\ UNCHANGED xvars /\ Cmd("close", 0, 0)

Settle == /\ ~settled /\ settled' = TRUE
          /\ hist' = [hist EXCEPT ![Len(hist)].post = Obs]
          /\ PrintT(<<"T", ToJson(hist')>>)
          /\ UNCHANGED xall

GNext == IF ENABLED XInternal THEN (XInternal /\ UNCHANGED <<hist, settled>>)
         ELSE IF ~settled THEN Settle
         ELSE Command
GSpec == GInit /\ [][GNext]_gvars
View == <<xall, settled, IF settled THEN <<>> ELSE hist>>
=============================================================================
