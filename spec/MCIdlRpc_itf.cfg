SPECIFICATION RSpec
CONSTANTS
  Pool = "c"
  MaxActions = 2
  MaxOps = 0
  MaxPick = 1
  Layouts = {"aux-first"}
  Devs = {}
INVARIANTS RTypeOK ItfTheorems SubsConsistent GetSeesLastSet GetDenotesLastSet DeliveredIffSubscribed RefsDenoteSent ExecutedOnce RightOverloadRuns ImplHoldsServiceIds ClientRefsResolvable ForwardersSound HandlesFresh
CHECK_DEADLOCK FALSE
