----------------------------- MODULE SendAtomic -----------------------------
(***************************************************************************)
(* N goroutines send messages on ONE stream (endpoint.Send -> Message.Write *)
(* -> stream.Write).  A Send is a sequence of WritesPerSend stream Write    *)
(* calls; Write calls of different goroutines are serialised by the stream, *)
(* but calls of different goroutines interleave freely.  The receiver       *)
(* decodes the byte stream frame by frame.                                  *)
(* With WritesPerSend = 1 (the code: header and payload in one buffer) the  *)
(* receiver gets every message intact, exactly once, each sender's in       *)
(* order.  With WritesPerSend = 2 TLC exhibits a corrupted stream: the      *)
(* property rests on the single write.                                      *)
(***************************************************************************)
EXTENDS Integers, Sequences, FiniteSets, TLC

CONSTANTS Senders, PerSender, WritesPerSend

VARIABLES next,    \* [Senders -> 1..PerSender+1]  message each sender sends next
          piece,   \* [Senders -> 0..WritesPerSend] pieces of that message already written
          wire     \* sequence of <<sender, message, piece>> in the order the stream took them

vars == <<next, piece, wire>>

Init == /\ next = [s \in Senders |-> 1]
        /\ piece = [s \in Senders |-> 0]
        /\ wire = <<>>

\* one stream.Write call of sender s
Write(s) ==
  /\ next[s] <= PerSender
  /\ wire' = Append(wire, <<s, next[s], piece[s] + 1>>)
  /\ IF piece[s] + 1 = WritesPerSend
       THEN /\ piece' = [piece EXCEPT ![s] = 0]
            /\ next' = [next EXCEPT ![s] = @ + 1]
       ELSE /\ piece' = [piece EXCEPT ![s] = @ + 1]
            /\ UNCHANGED next

Next == \E s \in Senders : Write(s)
Spec == Init /\ [][Next]_vars

(* The receiver: frame i is made of the WritesPerSend consecutive pieces
   starting at (i-1)*WritesPerSend+1; it is intact iff they are pieces
   1..WritesPerSend of one message of one sender.                         *)
NFrames == Len(wire) \div WritesPerSend
FramePieces(i) == [j \in 1..WritesPerSend |-> wire[(i - 1) * WritesPerSend + j]]
IntactFrame(i) == LET p == FramePieces(i) IN
                  \A j \in 1..WritesPerSend : p[j][1] = p[1][1] /\ p[j][2] = p[1][2] /\ p[j][3] = j
Received == [i \in 1..NFrames |-> <<FramePieces(i)[1][1], FramePieces(i)[1][2]>>]

Intact == \A i \in 1..NFrames : IntactFrame(i)
ExactlyOnce == \A i, j \in 1..NFrames : i # j => Received[i] # Received[j]
PerSenderFIFO == \A i, j \in 1..NFrames :
                   (i < j /\ Received[i][1] = Received[j][1]) => Received[i][2] < Received[j][2]
\* when everybody is done the receiver has everything
Complete == (\A s \in Senders : next[s] = PerSender + 1) =>
              {Received[i] : i \in 1..NFrames} = Senders \X (1..PerSender)
=============================================================================
