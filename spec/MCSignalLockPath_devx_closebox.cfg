SPECIFICATION Spec
CONSTANTS
  HConns = {"h1"}
  Objs = {"o1", "o2"}
  HTargets = {"o1"}
  Kinds = {"call", "term"}
  MaxLen = 3
  MaxFlood = 2
  MaxReg = 0
  Closes = {}
  PMax = 1
  QCap = 1
  BCap = 1
  NoRead = {}
  OutCap = 1
  Dev_ReceiveHoldsLockWhileEnqueuing = FALSE
  Dev_DispatchBlocksOnFullQueue = FALSE
  Dev_ConsumerGivesUpOnFullMailbox = FALSE
  Dev_RemoveClosesMailbox = TRUE
INVARIANTS ExportCrashes

CHECK_DEADLOCK FALSE
