----------------------------- MODULE MetaLookup -----------------------------
(* How a call, a subscription or a property access finds its ACTION ID at run time (extension of C05; the
   property half is also C14's): type/object/metaobject_decorator.go, type/object/server.go and their users
   bus/proxy.go, bus/object.go (line numbers: the tree before the repair of MethodID).

   A META-OBJECT is a finite set of entries [k, uid, name, sig, ret]: k = "m" method (sig = the parameter
   signature, ret = the return signature), "s" signal, "p" property (ret = "").  Go keeps one map uid -> entry
   per kind, so (k, uid) is a key; the same uid in two kinds, two entries of one name, two entries of one name
   AND signature are all representable, and the lookups must say what they do with them.

     MetaObject.MethodID(name, sig)      l.35-48    MethodAnswers      exact (name, parameter signature), else the
                                                                      last chance: the method that carries the name
     MetaObject.SignalID(name, sig)      l.54-78    SPAnswers("s")     exact; a signature that is not a tuple is tried
     MetaObject.PropertyID(name, sig)    l.84-110   SPAnswers("p")     again as "(sig)"; else the last chance; a
                                                                      signature that does not parse is an error
     MetaObject.ActionName(id)           l.14-31    ActionNameOf       methods, then signals, then properties
     MetaObject.PropertyName(id)         l.112-118  PropertyNameOf
     registerName / ForEachMethodAndSignal l.120-192 Fresh / NameWalk   methods, signals, properties, each by
                                                                      ascending uid; strings.Title(name), else
                                                                      Title_0, Title_1, ...
     FullMetaObject(from)                l.215-242  FullOf             from's entries, then the generic object's
                                                                      (ObjectMetaObject, server.go l.34-130) over them
     proxy.Call2 / Call / CallID         bus/proxy.go l.37-87          E2EPlan: the id MethodID answers is the id
                                                                      called; Call refuses another return signature
     proxy.SubscribeID(id)               l.91-137   Subscribable       id of a signal or a property of the proxy's
                                                                      meta-object, else an error
     objectImpl.SetProperty(name|id, v)  bus/object.go l.162-215       E2EPlan "setname" / "setid" (a string is the
                                                                      name, an unsigned integer the id), SetAccepted
                                                                      (every property of the name declares v's
                                                                      signature or "(sig)"), the event goes to
                                                                      PropertyID(name, v's signature)
     objectImpl.Property(name)           l.146-160  a string only (E2EPlan "getid": what an id gets)

   TWO RENDERINGS of the lookups, selected by constants:
     MapOrder       the kinds whose table is walked in the order of a Go map walk, i.e. ANY order: among several
                    candidates any one may be answered.  {} = the intent (the candidate declared last, i.e. with
                    the greatest uid: an action of the interface shadows the generic object's action of the same
                    name and signature, ids below 100).  The code as found: {"m","s","p"}; since the repair of
                    MethodID (fix: among the candidates the one with the highest id): {"s","p"}.
     LastChanceAny  the kinds whose last chance "the first entry that carries the name" (documented for signals
                    and properties, undocumented for methods) also applies when SEVERAL entries carry the name:
                    then an overload the caller did not ask for is answered.  {} = the intent (last chance only for
                    a name that is not overloaded, else an error); the code: {"m","s","p"}.
     WalkSorted     ForEachMethodAndSignal sorts the ids before it walks (TRUE = the code and the intent; FALSE =
                    a rendering that is NOT the code: the names then depend on the map walk)
     AssumeUserRange  TRUE: the theorems about FullMetaObject are stated for meta-objects whose ids are >= 100
                    (what the IDL generator assigns); FALSE: for all of them - they then fail, which records what
                    the code does with an id of the generic range (observation, outside C05's statement)

   THEOREMS (invariants of the generator machine below: a state is a row = a meta-object, then a query on it):
     SoundName            an answered id belongs to an entry of the asked kind that carries the asked name
     ExactWins            when an entry has the asked name and signature, the answer is such an entry (never an
                          error, never the last chance)
     NeverAnotherOverload an answered entry has a compatible signature (equal, or equal after wrapping the asked
                          one into a tuple) - unless it is the only entry of that name (the documented last chance)
     Deterministic        one answer, whatever the map order
     OwnActionReachable   every action of an interface is found by its own name and signature in the merged
                          meta-object FullOf(interface) - the query a generated proxy makes (C05's statement)
     PropertyEventId      the change event of a write accepted by setProperty goes to the id of the property, for a
                          value that carries the declared signature or, when that is "(T)", the bare T (C14)
     ErrorOnlyIfNothing   "missing" only when no entry has the name (or, in the intent, the name is overloaded and
                          no signature fits), "unparsable" only for a signature outside the grammar
     NamesDistinct / NamesCover / NamesStable / FirstKeepsBare   the names handed to the generators
     FullKeepsIdsUnique / FullKeepsActions / FullHasGeneric / FullIdempotent
     ActionNameSound      the name of THE entry with that id when ids are unique
   Code = intent in MCMetaLookup.cfg (everything holds).  MCMetaLookup_code.cfg: the code's constants with the
   theorems the code keeps.  Dev_MetaLookup_*.cfg: the code's constants / a rendering that is not the code with a
   theorem that must break; Obs_MetaLookup_*.cfg: what the code does outside the preconditions
   (design-notes/EXT-metalookup-cfgs.py writes all of them).                                                    *)
EXTENDS Integers, Sequences, FiniteSets, TLC

CONSTANTS Universe,          \* "quick" | "thorough": how many entries a row may have
          MapOrder, LastChanceAny, WalkSorted, AssumeUserRange,
          QueryTypes         \* the kinds of query the generator asks: a subset of {"lookup", "names", "full", "action"}

Kinds == {"m", "s", "p"}

(***************************************************************************)
(* Signatures: a small alphabet with what signature.Parse says about them   *)
(***************************************************************************)
SigClass == [s \in {"()", "(i)", "(s)", "(ii)", "((i))", "(b)", "(I)", "(m)", "(mm)", "(IIL)", "(IILs)", "@trace"} |-> "tuple"] @@
            [s \in {"i", "s", "b", "(i)<P,a>"} |-> "plain"] @@
            [s \in {"(i"} |-> "bad"]
\* "(i)<P,a>" is a STRUCTURE for the parser, not a tuple: it is wrapped like a scalar
Wrap(s) == "(" \o s \o ")"
\* what an answer may declare for what was asked: the same signature; for signals and properties also the asked one
\* wrapped into a tuple (MethodID has no such step)
Compatible(k, asked, declared) == asked = declared \/ (k # "m" /\ SigClass[asked] = "plain" /\ Wrap(asked) = declared)

(***************************************************************************)
(* The generic object (type/object/server.go ObjectMetaObject); "@meta",    *)
(* "@stats", "@trace" stand for the three long signatures                   *)
(***************************************************************************)
Ent(k, uid, name, sig, ret) == [k |-> k, uid |-> uid, name |-> name, sig |-> sig, ret |-> ret]
Generic == {Ent("m", 0, "registerEvent", "(IIL)", "L"), Ent("m", 1, "unregisterEvent", "(IIL)", "v"),
            Ent("m", 2, "metaObject", "(I)", "@meta"), Ent("m", 3, "terminate", "(I)", "v"),
            Ent("m", 5, "property", "(m)", "m"), Ent("m", 6, "setProperty", "(mm)", "v"),
            Ent("m", 7, "properties", "()", "[s]"), Ent("m", 8, "registerEventWithSignature", "(IILs)", "L"),
            Ent("m", 80, "isStatsEnabled", "()", "b"), Ent("m", 81, "enableStats", "(b)", "v"),
            Ent("m", 82, "stats", "()", "@stats"), Ent("m", 83, "clearStats", "()", "v"),
            Ent("m", 84, "isTraceEnabled", "()", "b"), Ent("m", 85, "enableTrace", "(b)", "v"),
            Ent("s", 86, "traceObject", "@trace", "")}
UserBase == 100          \* the IDL generator numbers the actions of an interface from 100

(***************************************************************************)
(* The pool of shapes (entries without uid) and the rows                    *)
(***************************************************************************)
Sh(k, name, sig, ret) == [k |-> k, name |-> name, sig |-> sig, ret |-> ret]
Pool == << Sh("m", "set", "(i)", "v"),         \*  1  three overloads of one name
           Sh("m", "set", "(s)", "v"),         \*  2
           Sh("m", "set", "(ii)", "i"),        \*  3
           Sh("m", "Set", "(i)", "v"),         \*  4  another name for the lookups, the same Go name
           Sh("m", "set_0", "()", "v"),        \*  5  the name registerName gives to the second "set"
           Sh("m", "clearStats", "()", "v"),   \*  6  name AND signature of the generic action 83
           Sh("m", "clearStats", "(i)", "v"),  \*  7  an overload of a generic name
           Sh("m", "get", "()", "i"),          \*  8
           Sh("m", "set", "(i)", "i"),         \*  9  differs from 1 by the return signature only: ill-formed
           Sh("m", "setLevel", "(i)", "v"),    \* 10  the Go name of the setter of the property "level"
           Sh("s", "set", "i", ""),            \* 11  a signal named like a method
           Sh("s", "tick", "i", ""),           \* 12
           Sh("s", "tick", "(i)", ""),         \* 13  differs from 12 by the tuple wrapping only
           Sh("s", "tick", "(s)", ""),         \* 14
           Sh("s", "tick", "(ii)", ""),        \* 15
           Sh("s", "tick", "(i)<P,a>", ""),    \* 16  a structure
           Sh("p", "set", "i", ""),            \* 17  a property named like a method and a signal
           Sh("p", "level", "i", ""),          \* 18
           Sh("p", "level", "(i)", ""),        \* 19  a second property of the name: ill-formed (a property is
           Sh("p", "level", "s", ""),          \* 20  addressed by its name alone)
           Sh("p", "mode", "(s)", "") >>       \* 21  declared as a tuple: a value "s" is accepted
PoolIx == DOMAIN Pool
IxOf(k) == {i \in PoolIx : Pool[i].k = k}

Layouts == {"up", "down", "low"}
\* uid of the shape i in the selection I: "up" 100, 101, .. in pool order (methods, signals, properties: what the
\* IDL generator does); "down" the reverse (the uid order is not the order of the IDL text); "low": the first
\* shape sits in the generic range, on an id the generic object occupies (3 terminate, 86 traceObject, 5 property)
Rank(I, i) == Cardinality({j \in I : j <= i})
LowId(k) == CASE k = "m" -> 3 [] k = "s" -> 86 [] k = "p" -> 5
UidOf(I, lay, i) == CASE lay = "up" -> UserBase + Rank(I, i) - 1
                      [] lay = "down" -> UserBase + Cardinality(I) - Rank(I, i)
                      [] lay = "low" -> IF Rank(I, i) = 1 THEN LowId(Pool[i].k) ELSE UserBase + Rank(I, i) - 1
MetaOf(I, lay) == {Ent(Pool[i].k, UidOf(I, lay, i), Pool[i].name, Pool[i].sig, Pool[i].ret) : i \in I}

SubsetsUpTo(S, n) == {X \in SUBSET S : Cardinality(X) <= n}
\* rows of ONE kind (the lookups see one table), up to MaxOne entries; rows that MIX the kinds (names, merge,
\* action names, the end-to-end plan): up to MaxM methods, one signal, one property
MaxOne == IF Universe = "thorough" THEN 4 ELSE 3
MaxM == IF Universe = "thorough" THEN 3 ELSE 2
OneKindSel == UNION {SubsetsUpTo(IxOf(k), MaxOne) \ {{}} : k \in Kinds}
MixedSel == {M \cup S \cup P : M \in SubsetsUpTo(IxOf("m"), MaxM), S \in SubsetsUpTo(IxOf("s"), 1), P \in SubsetsUpTo(IxOf("p"), 1)}
\* a row: the selection of shapes, the layout of the ids, merged with the generic object or not.  The generator
\* chooses family, layout and merge first and the selection in a second step (sel = Unset until then), so that
\* TLC's workers share the rows
Unset == {0}
Families == {"m", "s", "p", "mixed"}
Row(fam, I, lay, full) == [fam |-> fam, sel |-> I, lay |-> lay, full |-> full]
Stems == {Row(fam, Unset, lay, full) : fam \in Families \ {"mixed"}, lay \in Layouts, full \in BOOLEAN}
         \cup {Row("mixed", Unset, lay, TRUE) : lay \in Layouts}
SelsOf(fam) == IF fam = "mixed" THEN MixedSel \ OneKindSel ELSE SubsetsUpTo(IxOf(fam), MaxOne) \ {{}}
OneKind(r) == r.fam # "mixed"
(***************************************************************************)
(* Lookups                                                                  *)
(***************************************************************************)
OfKind(mo, k) == {e \in mo : e.k = k}
Named(mo, k, n) == {e \in OfKind(mo, k) : e.name = n}
Exact(mo, k, n, s) == {e \in Named(mo, k, n) : e.sig = s}
Ok(e) == [e |-> "ok", id |-> e.uid, ret |-> e.ret]
Missing == [e |-> "missing", id |-> 0, ret |-> ""]
Unparsable == [e |-> "unparsable", id |-> 0, ret |-> ""]
Top(S) == CHOOSE e \in S : \A f \in S : f.uid <= e.uid       \* declared last (ids are unique inside a kind)

Pick(mapOrder, k, S) == IF k \in mapOrder THEN {Ok(e) : e \in S} ELSE {Ok(Top(S))}
LastChance(mapOrder, lastAny, mo, k, n) ==
  LET N == Named(mo, k, n)
  IN IF N = {} THEN {Missing}
     ELSE IF k \in lastAny THEN Pick(mapOrder, k, N)
     ELSE IF Cardinality(N) = 1 THEN {Ok(Top(N))} ELSE {Missing}

MethodAnswers(mapOrder, lastAny, mo, n, s) ==
  LET X == Exact(mo, "m", n, s)
  IN IF X # {} THEN Pick(mapOrder, "m", X) ELSE LastChance(mapOrder, lastAny, mo, "m", n)

SPAnswers(mapOrder, lastAny, mo, k, n, s) ==
  LET X == Exact(mo, k, n, s)
  IN IF X # {} THEN Pick(mapOrder, k, X)
     ELSE IF SigClass[s] = "bad" THEN {Unparsable}
     ELSE IF SigClass[s] = "plain"
          THEN LET Y == Exact(mo, k, n, Wrap(s))
               IN IF Y # {} THEN Pick(mapOrder, k, Y) ELSE LastChance(mapOrder, lastAny, mo, k, n)
          ELSE LastChance(mapOrder, lastAny, mo, k, n)

AnswersWith(mapOrder, lastAny, mo, k, n, s) ==
  IF k = "m" THEN MethodAnswers(mapOrder, lastAny, mo, n, s) ELSE SPAnswers(mapOrder, lastAny, mo, k, n, s)
Code(mo, k, n, s) == AnswersWith(MapOrder, LastChanceAny, mo, k, n, s)
Intent(mo, k, n, s) == CHOOSE a \in AnswersWith({}, {}, mo, k, n, s) : TRUE

(***************************************************************************)
(* FullMetaObject, ActionName, PropertyName                                 *)
(***************************************************************************)
FullOf(mo) == {e \in mo : ~\E g \in Generic : g.k = e.k /\ g.uid = e.uid} \cup Generic
IdsUnique(S) == \A e, f \in S : e.uid = f.uid => e = f
UserRangeOK(mo) == \A e \in mo : e.uid >= UserBase
EntryAt(mo, k, id) == {e \in OfKind(mo, k) : e.uid = id}
NameAt(S) == (CHOOSE e \in S : TRUE).name
NoName == ""
ActionNameOf(mo, id) == IF EntryAt(mo, "m", id) # {} THEN NameAt(EntryAt(mo, "m", id))
                        ELSE IF EntryAt(mo, "s", id) # {} THEN NameAt(EntryAt(mo, "s", id))
                        ELSE IF EntryAt(mo, "p", id) # {} THEN NameAt(EntryAt(mo, "p", id))
                        ELSE NoName
PropertyNameOf(mo, id) == IF EntryAt(mo, "p", id) # {} THEN NameAt(EntryAt(mo, "p", id)) ELSE NoName

(***************************************************************************)
(* The names handed to the generators                                       *)
(***************************************************************************)
Title == [n \in {"set", "Set"} |-> "Set"] @@ [n \in {"set_0"} |-> "Set_0"] @@ [n \in {"clearStats"} |-> "ClearStats"] @@
         [n \in {"get"} |-> "Get"] @@ [n \in {"setLevel"} |-> "SetLevel"] @@ [n \in {"tick"} |-> "Tick"] @@
         [n \in {"level"} |-> "Level"] @@ [n \in {"mode"} |-> "Mode"]
KindRank(k) == CASE k = "m" -> 1 [] k = "s" -> 2 [] k = "p" -> 3
Before(e, f) == KindRank(e.k) < KindRank(f.k) \/ (e.k = f.k /\ e.uid < f.uid)
RECURSIVE SortedWalk(_)
SortedWalk(S) == IF S = {} THEN <<>>
                 ELSE LET m == CHOOSE e \in S : \A f \in S \ {e} : Before(e, f) IN <<m>> \o SortedWalk(S \ {m})
RECURSIVE Perms(_)
Perms(S) == IF S = {} THEN {<<>>} ELSE UNION {{<<e>> \o p : p \in Perms(S \ {e})} : e \in S}
Walks(mo) == IF WalkSorted THEN {SortedWalk(mo)}
             ELSE {a \o b \o c : a \in Perms(OfKind(mo, "m")), b \in Perms(OfKind(mo, "s")), c \in Perms(OfKind(mo, "p"))}
Suffixed(base, i) == base \o "_" \o ToString(i)
Fresh(base, used) == IF base \notin used THEN base
                     ELSE Suffixed(base, CHOOSE i \in 0..98 : Suffixed(base, i) \notin used /\ \A j \in 0..(i - 1) : Suffixed(base, j) \in used)
RECURSIVE NameWalk(_, _)
NameWalk(w, used) == IF w = <<>> THEN <<>>
                     ELSE LET g == Fresh(Title[Head(w).name], used)
                          IN <<[k |-> Head(w).k, uid |-> Head(w).uid, go |-> g]>> \o NameWalk(Tail(w), used \cup {g})
Namings(mo) == {NameWalk(w, {}) : w \in Walks(mo)}
\* the identifiers the generators derive from a Go name, on the proxy type
ProxyIdents(x) == CASE x.k = "m" -> {x.go}
                    [] x.k = "s" -> {"Subscribe" \o x.go}
                    [] x.k = "p" -> {"Get" \o x.go, "Set" \o x.go, "Subscribe" \o x.go}

(***************************************************************************)
(* Through the proxy and the generic object                                 *)
(***************************************************************************)
\* SubscribeID(id) accepts the id of a signal or a property of the proxy's meta-object
Subscribable(mo, id) == EntryAt(mo, "s", id) # {} \/ EntryAt(mo, "p", id) # {}
\* setProperty: every property of the name must declare the signature of the value, or that signature wrapped
SetAccepted(mo, n, vs) == \A f \in Named(mo, "p", n) : f.sig = vs \/ f.sig = Wrap(vs)
OtherRet(r) == IF r = "v" THEN "i" ELSE "v"
\* what makes a meta-object an interface the IDL generator can have produced (C05's universe)
WellFormed(mo) == /\ UserRangeOK(mo) /\ IdsUnique(mo)
                  /\ \A e, f \in mo : (e.k = "m" /\ f.k = "m" /\ e.name = f.name /\ e.sig = f.sig) => e = f
                  /\ \A e, f \in mo : (e.k = f.k /\ e.k # "m" /\ e.name = f.name /\ e.sig = f.sig) => e = f
                  /\ \A e, f \in mo : (e.k = "p" /\ f.k = "p" /\ e.name = f.name) => e = f
\* the plan of the end-to-end replay of a well-formed interface served by a real object (mo = FullOf(interface)):
\* every operation a generated proxy performs, with the action that must be reached
E2EPlan(user, mo) ==
  {[op |-> "call2", k |-> "m", name |-> e.name, sig |-> e.sig, ret |-> e.ret, byid |-> 0, ans |-> Code(mo, "m", e.name, e.sig)] : e \in OfKind(user, "m")}
  \cup {[op |-> "call", k |-> "m", name |-> e.name, sig |-> e.sig, ret |-> e.ret, byid |-> 0, ans |-> Code(mo, "m", e.name, e.sig)] : e \in OfKind(user, "m")}
  \* Call2 with a response of a wider type than the method declares: the result is converted (bus/proxy.go l.75-84)
  \cup {[op |-> "call2wide", k |-> "m", name |-> e.name, sig |-> e.sig, ret |-> e.ret, byid |-> 0, ans |-> Code(mo, "m", e.name, e.sig)] : e \in {x \in OfKind(user, "m") : x.ret = "i"}}
  \cup {[op |-> "call", k |-> "m", name |-> e.name, sig |-> e.sig, ret |-> OtherRet(e.ret), byid |-> 0, ans |-> {Missing}] : e \in OfKind(user, "m")}
  \cup {[op |-> "callid", k |-> "m", name |-> e.name, sig |-> e.sig, ret |-> e.ret, byid |-> e.uid, ans |-> {Ok(e)}] : e \in OfKind(user, "m")}
  \cup {[op |-> "sub", k |-> e.k, name |-> e.name, sig |-> e.sig, ret |-> "", byid |-> 0, ans |-> Code(mo, e.k, e.name, e.sig)] : e \in OfKind(user, "s") \cup OfKind(user, "p")}
  \cup {[op |-> "subid", k |-> "m", name |-> e.name, sig |-> e.sig, ret |-> "", byid |-> e.uid, ans |-> IF Subscribable(mo, e.uid) THEN {Ok(e)} ELSE {Missing}] : e \in OfKind(user, "m")}
  \cup {[op |-> "setname", k |-> "p", name |-> e.name, sig |-> e.sig, ret |-> "", byid |-> 0, ans |-> IF SetAccepted(mo, e.name, e.sig) THEN Code(mo, "p", e.name, e.sig) ELSE {Missing}] : e \in OfKind(user, "p")}
  \cup {[op |-> "setid", k |-> "p", name |-> e.name, sig |-> e.sig, ret |-> "", byid |-> e.uid, ans |-> IF SetAccepted(mo, e.name, e.sig) THEN Code(mo, "p", e.name, e.sig) ELSE {Missing}] : e \in OfKind(user, "p")}
  \* objectImpl.Property takes the name only: an id (which setProperty accepts) is refused.  What the code does, not
  \* a demand: the harness reports the refusal under metalookup/outside/
  \cup {[op |-> "getid", k |-> "p", name |-> e.name, sig |-> e.sig, ret |-> "", byid |-> e.uid, ans |-> {Missing}] : e \in OfKind(user, "p")}
  \* the value travels with the bare signature although the property declares the tuple "(T)"
  \cup {[op |-> "setname", k |-> "p", name |-> e.name, sig |-> "s", ret |-> "", byid |-> 0, ans |-> IF SetAccepted(mo, e.name, "s") THEN Code(mo, "p", e.name, "s") ELSE {Missing}] : e \in {x \in OfKind(user, "p") : x.sig = "(s)"}}

(***************************************************************************)
(* Two-step generator: a row, then a query on it                            *)
(***************************************************************************)
VARIABLES row, q
vars == <<row, q>>
NoQ == [t |-> "none", k |-> "", name |-> "", sig |-> "", id |-> 0]
User(r) == MetaOf(r.sel, r.lay)
Meta(r) == IF r.full THEN FullOf(User(r)) ELSE User(r)

QNames(mo, k) == {e.name : e \in OfKind(mo, k)} \cup {"nope"}
QSigs(k) == IF k = "m" THEN {"()", "(i)", "(s)", "(ii)", "i", "(b)", "(i"}
            ELSE {"i", "(i)", "s", "(s)", "(ii)", "((i))", "b", "(i", "(i)<P,a>"}
LookupQ(k, n, s) == [t |-> "lookup", k |-> k, name |-> n, sig |-> s, id |-> 0]
\* one-kind rows: the whole alphabet; mixed rows: what a generated proxy asks (every entry by its own name and
\* signature), and for signals and properties also the signature with the other wrapping
SelfQ(mo) == {LookupQ(e.k, e.name, e.sig) : e \in mo}
AllQueries(r) ==
  LET mo == Meta(r)
      ks == {e.k : e \in User(r)}
  IN (IF OneKind(r) THEN UNION {{LookupQ(k, n, s) : n \in QNames(User(r), k) \cup (IF r.full /\ k = "m" THEN {"clearStats"} ELSE {}), s \in QSigs(k)} : k \in ks}
                            \cup (IF r.full /\ "s" \in ks THEN {LookupQ("s", "traceObject", s) : s \in {"@trace", "i"}} ELSE {})
      ELSE SelfQ(User(r)) \cup {LookupQ(e.k, e.name, Wrap(e.sig)) : e \in {x \in User(r) : x.k # "m" /\ SigClass[x.sig] = "plain" /\ Wrap(x.sig) \in DOMAIN SigClass}})
     \cup {[t |-> "names", k |-> "", name |-> "", sig |-> "", id |-> 0]}
     \cup {[t |-> "full", k |-> "", name |-> "", sig |-> "", id |-> 0]}
     \cup {[t |-> "action", k |-> "", name |-> "", sig |-> "", id |-> i] : i \in {e.uid : e \in User(r)} \cup {3, 4, 86, 200}}
Queries(r) == {x \in AllQueries(r) : x.t \in QueryTypes}

Init == row \in Stems /\ q = NoQ
Choose == /\ row.sel = Unset
          /\ \E I \in SelsOf(row.fam) : row' = [row EXCEPT !.sel = I]
          /\ UNCHANGED q
Ask == /\ q = NoQ /\ row.sel # Unset
       /\ q' \in Queries(row)
       /\ UNCHANGED row
Next == Choose \/ Ask
Spec == Init /\ [][Next]_vars

IsLookup == q.t = "lookup"
Ans == Code(Meta(row), q.k, q.name, q.sig)
EntryOf(a) == CHOOSE e \in OfKind(Meta(row), q.k) : e.uid = a.id

SoundName == IsLookup => \A a \in Ans : a.e = "ok" =>
               \E e \in OfKind(Meta(row), q.k) : e.uid = a.id /\ e.name = q.name /\ e.ret = a.ret
ExactWins == IsLookup => LET X == Exact(Meta(row), q.k, q.name, q.sig)
                         IN X # {} => \A a \in Ans : a.e = "ok" /\ \E e \in X : e.uid = a.id
NeverAnotherOverload ==
  IsLookup => \A a \in Ans : a.e = "ok" =>
     \/ Compatible(q.k, q.sig, EntryOf(a).sig)
     \/ Cardinality(Named(Meta(row), q.k, q.name)) = 1
Deterministic == IsLookup => Cardinality(Ans) = 1
ErrorOnlyIfNothing ==
  IsLookup => \A a \in Ans :
     /\ a.e = "unparsable" => SigClass[q.sig] = "bad" /\ q.k # "m"
     /\ a.e = "missing" => \/ Named(Meta(row), q.k, q.name) = {}
                           \/ /\ q.k \notin LastChanceAny
                              /\ Cardinality(Named(Meta(row), q.k, q.name)) > 1
                              /\ \A e \in Named(Meta(row), q.k, q.name) : ~Compatible(q.k, q.sig, e.sig)
\* C05: what a generated proxy asks the meta-object of the generated stub (the interface merged with the generic
\* object) - every action of a well-formed interface by its own name and signature
OwnActionReachable ==
  (q = NoQ /\ row.sel # Unset /\ WellFormed(User(row))) =>
     \A e \in User(row) : Code(FullOf(User(row)), e.k, e.name, e.sig) = {Ok(e)}
\* C14: the id the change event of an accepted write goes to is the id of the property (by the declared signature
\* and by the bare one when the declaration is "(T)")
PropertyEventId ==
  (q = NoQ /\ row.sel # Unset /\ WellFormed(User(row))) =>
     \A e \in OfKind(User(row), "p") : \A vs \in {e.sig} \cup {s \in {"i", "s"} : Wrap(s) = e.sig} :
        SetAccepted(FullOf(User(row)), e.name, vs) /\ Code(FullOf(User(row)), "p", e.name, vs) = {Ok(e)}

IsNames == q.t = "names"
GoNamesOf(nm) == {nm[i].go : i \in DOMAIN nm}
NamesDistinct == IsNames => \A nm \in Namings(User(row)) : Cardinality(GoNamesOf(nm)) = Len(nm)
NamesCover == IsNames => \A nm \in Namings(User(row)) :
                 /\ Len(nm) = Cardinality(User(row))
                 /\ \A e \in User(row) : \E i \in DOMAIN nm : nm[i].k = e.k /\ nm[i].uid = e.uid
                 /\ \A i, j \in DOMAIN nm : i < j => KindRank(nm[i].k) <= KindRank(nm[j].k)
NamesStable == IsNames => Cardinality(Namings(User(row))) = 1
\* an action keeps the bare Title of its name unless an earlier action of the walk carries it
FirstKeepsBare == IsNames => \A nm \in Namings(User(row)) : \A i \in DOMAIN nm :
                    LET e == CHOOSE x \in User(row) : x.k = nm[i].k /\ x.uid = nm[i].uid
                    IN nm[i].go # Title[e.name] => \E j \in 1..(i - 1) : nm[j].go = Title[e.name]
\* NOT a theorem of the code (Obs_MetaLookup_derived.cfg must break it): the identifiers derived from the names on
\* the proxy type are pairwise distinct - "setLevel" next to the property "level" gives SetLevel twice
ProxyIdentsDistinct == IsNames => \A nm \in Namings(User(row)) : \A i, j \in DOMAIN nm :
                         i # j => ProxyIdents(nm[i]) \cap ProxyIdents(nm[j]) = {}

IsFull == q.t = "full"
InRange(mo) == AssumeUserRange => UserRangeOK(mo)
FullKeepsIdsUnique == (IsFull /\ InRange(User(row)) /\ IdsUnique(User(row))) => IdsUnique(FullOf(User(row)))
FullKeepsActions == (IsFull /\ InRange(User(row))) => User(row) \subseteq FullOf(User(row))
FullHasGeneric == IsFull => Generic \subseteq FullOf(User(row))
FullIdempotent == IsFull => FullOf(FullOf(User(row))) = FullOf(User(row))

IsAction == q.t = "action"
ActionNameSound == IsAction => LET mo == Meta(row) IN
                     /\ IdsUnique(mo) => \A e \in mo : e.uid = q.id => ActionNameOf(mo, q.id) = e.name
                     /\ (ActionNameOf(mo, q.id) = NoName) <=> ~\E e \in mo : e.uid = q.id
                     /\ (PropertyNameOf(mo, q.id) = NoName) <=> EntryAt(mo, "p", q.id) = {}
=============================================================================
