\* demand (2) + (4): what the providers are told when two listeners change their settings / go away while the manager
\* adds a provider, removes one or creates a third listener; the design (every Dev_* off)
SPECIFICATION Spec
CONSTANTS
  Listeners = {1, 2, 3}
  Providers = {1, 2}
  RealProv = {}
  LevelsUsed = {2, 6}
  BadLevel = 7
  Pats = {"core"}
  BadPat = "("
  Cats = {"core", "core.net", "app"}
  MgrOps = {"addprov", "rmprov", "create"}
  LstOps = {"setlevel", "addfilter", "clear", "terminate", "drop"}
  MaxMgr = 1
  MaxLst = 1
  InitLive = {1, 2}
  InitProv = {1}
  Hist = FALSE
  MaxHold = 0
  Match <- MCMatch
  PCat <- MCPCat
  ClientOf <- MCClientOf
  Batches <- MCBatches1
  Dev_FilterOnlyWidens = FALSE
  Dev_MinCategoryJoin = FALSE
  Dev_NoRecomputeOnTerminate = FALSE
  Dev_LostListenerKept = FALSE
  Dev_StalePush = FALSE
  Dev_SetLevelBypassesProperty = FALSE
  Dev_AddFilterHoldsLock = FALSE
  Dev_UnlockedFilterRead = FALSE
  Dev_RejectedWriteSaved = FALSE
INVARIANTS TypeOK NoDataRace DeliveredExactly VerbosityIsJoin NeverTooQuiet FiltersAreJoin LogLevelIsRegister LevelIsProperty NotStuck
CHECK_DEADLOCK FALSE
