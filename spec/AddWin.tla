------------------------------- MODULE AddWin -------------------------------
(* serviceImpl.Add (bus/service.go l.87-120) as the code runs it: a RESERVATION under the lock, the
   object's Activate OUTSIDE the lock, a COMMIT under the lock again - and everything that can happen in
   between (extension of C16; Service.tla takes Add as one step, ServiceRace.tla only its first critical
   section).

     s.Lock()                                                   AddStart(a)
     index = (rand.Uint32() << 1) >> 1                            the next value of the generator
     if _, ok := s.objects[index]; ok || index < 2 { retry }      taken -> draw again (same critical section,
                                                                  the lock is released and taken again at once)
     s.objects[index] = pendingObject{}                           the reservation: both maps
     s.boxes[index]   = NewMailBox(pendingObject{})
     s.Unlock()
     err = obj.Activate(...)                                    user code: as long as it likes, other
                                                                goroutines run Add / Remove / Receive / Terminate
     s.Lock()                                                   AddFinish(a, ok)
     err != nil: delete(s.objects, index); delete(s.boxes, index)
     else:       s.objects[index] = obj; s.boxes[index] = NewMailBox(obj)
     s.Unlock()

   The identifiers are 31 random bits: two draws collide once in 2^31, which no test waits for.  The
   generator is therefore part of the model: `Stream` is the sequence of values it yields after a (re)seed,
   `rng` the position; the environment's step Reseed puts the position back - on the real code the
   harness calls rand.Seed with the seed it used before, so that the next Add draws the identifier an
   earlier Add drew (still reserved, live, or removed meanwhile).  Without a Reseed all draws differ.

   pendingObject.Receive answers nothing by itself: what a call that meets a reservation gets is the
   constant PendingAnswers (TRUE: an error, the repair; FALSE: the message is only logged - the caller
   waits for ever, the code as found).

   Named renderings that are NOT the code (classes of defect; each must break an invariant):
     ReserveMode = "boxes"    only the mailbox is reserved, the freshness test reads s.objects
     ReserveMode = "none"     no reservation at all (check, unlock, activate, insert)
     CommitMode  = "boxonly"  the commit replaces the object and keeps the reservation's mailbox
   Steps of the environment outside C16's statement are switched on by RemoveReserved / WithTerminate;
   what the code does then is recorded, not demanded:
     RemoveReserved  Remove(id) while id is only reserved (nobody was given it yet - or it is the stale
                     identifier of an object removed earlier that a colliding draw reserved again): the code
                     deletes the reservation and reports success; a third Add can then reserve the identifier
                     a second time and both commits succeed (TLC: UniqueLiveIds, 11 steps, two collisions)
     WithTerminate   Service.Terminate between the two critical sections of an Add: the commit enters the
                     object into the fresh tables of a terminated service; OnTerminate never runs for it   *)
EXTENDS Naturals, Sequences, FiniteSets, TLC

CONSTANTS NAdd,            \* adders: instances 2 .. NAdd+1 (instance 1 is the service's main object, identifier 1)
          StreamLen,       \* the generator yields StreamLen distinct identifiers after a (re)seed (Stream)
          MaxReseed, MaxCalls, MaxRemoves,
          ReserveMode, CommitMode, PendingAnswers,
          RemoveReserved, WithTerminate

Stream == [i \in 1..StreamLen |-> i + 1]      \* abstract identifiers 2, 3, ...: the harness maps them to the real draws
Inst == 1..(NAdd + 1)
Adders == 2..(NAdd + 1)
Ids == {1} \cup {Stream[i] : i \in 1..Len(Stream)}
NONE == 0
PEND == 99               \* pendingObject{} / its mailbox

VARIABLES objects, boxes,      \* id -> NONE | PEND | instance      (s.objects; s.boxes: whose Receive the mailbox runs)
          rng, reseeds,        \* position in Stream; Reseed steps taken
          pc, aid, ret,        \* per adder: "idle" | "reserved" | "done"; the identifier drawn; "none" | "ok" | "err"
          live,                \* instance -> BOOLEAN: added successfully and not removed since (history)
          term, exec,          \* instance -> OnTerminate calls / method executions
          ghost,               \* instance -> executions while not live (history)
          up,                  \* the service has not been terminated
          ncalls, nrem, unanswered,
          out                  \* outcome of the last step: [e |-> "ok" | "err" | "none" | "-", v |-> Nat]
vars == <<objects, boxes, rng, reseeds, pc, aid, ret, live, term, exec, ghost, up, ncalls, nrem, unanswered, out>>

Out(e, v) == [e |-> e, v |-> v]

Init == /\ objects = [i \in Ids |-> IF i = 1 THEN 1 ELSE NONE]
        /\ boxes = [i \in Ids |-> IF i = 1 THEN 1 ELSE NONE]
        /\ rng = 1 /\ reseeds = 0
        /\ pc = [a \in Adders |-> "idle"] /\ aid = [a \in Adders |-> 0] /\ ret = [a \in Adders |-> "none"]
        /\ live = [k \in Inst |-> k = 1]
        /\ term = [k \in Inst |-> 0] /\ exec = [k \in Inst |-> 0] /\ ghost = [k \in Inst |-> 0]
        /\ up = TRUE /\ ncalls = 0 /\ nrem = 0 /\ unanswered = 0
        /\ out = Out("-", 0)

(* rand.Seed(the seed used before): the generator starts over *)
Reseed == /\ reseeds < MaxReseed /\ rng > 1
          /\ rng' = 1 /\ reseeds' = reseeds + 1 /\ out' = Out("-", 0)
          /\ UNCHANGED <<objects, boxes, pc, aid, ret, live, term, exec, ghost, up, ncalls, nrem, unanswered>>

(* first critical section of Add: draw until the identifier is free, reserve it *)
Free(i) == objects[Stream[i]] = NONE
AddStart(a) ==
  /\ pc[a] = "idle" /\ up
  /\ \E i \in rng..Len(Stream) :
       /\ Free(i) /\ \A j \in rng..(i - 1) : ~Free(j)
       /\ rng' = i + 1
       /\ aid' = [aid EXCEPT ![a] = Stream[i]]
       /\ CASE ReserveMode = "both"  -> /\ objects' = [objects EXCEPT ![Stream[i]] = PEND]
                                        /\ boxes' = [boxes EXCEPT ![Stream[i]] = PEND]
            [] ReserveMode = "boxes" -> /\ boxes' = [boxes EXCEPT ![Stream[i]] = PEND]
                                        /\ UNCHANGED objects
            [] OTHER                 -> UNCHANGED <<objects, boxes>>
       /\ out' = Out("-", Stream[i])
  /\ pc' = [pc EXCEPT ![a] = "reserved"]
  /\ UNCHANGED <<reseeds, ret, live, term, exec, ghost, up, ncalls, nrem, unanswered>>

(* Activate returns (ok or not), second critical section *)
AddFinish(a, ok) ==
  /\ pc[a] = "reserved"
  /\ LET id == aid[a] IN
     IF ok THEN /\ objects' = [objects EXCEPT ![id] = a]
                /\ boxes' = [boxes EXCEPT ![id] = IF CommitMode = "boxonly" /\ boxes[id] # NONE THEN @ ELSE a]
                /\ live' = [live EXCEPT ![a] = TRUE]
                /\ ret' = [ret EXCEPT ![a] = "ok"]
                /\ out' = Out("ok", id)
          ELSE /\ objects' = [objects EXCEPT ![id] = NONE]
               /\ boxes' = [boxes EXCEPT ![id] = NONE]
               /\ ret' = [ret EXCEPT ![a] = "err"]
               /\ out' = Out("err", 0)
               /\ UNCHANGED live
  /\ pc' = [pc EXCEPT ![a] = "done"]
  /\ UNCHANGED <<rng, reseeds, aid, term, exec, ghost, up, ncalls, nrem, unanswered>>

(* identifiers the environment knows: returned by an Add; with RemoveReserved also the ones in activation *)
Returned == {aid[a] : a \in {b \in Adders : pc[b] = "done" /\ ret[b] = "ok"}}
Reserved == {aid[a] : a \in {b \in Adders : pc[b] = "reserved"}}

(* Service.Remove(id), one critical section + the hook outside *)
Remove(id) ==
  /\ nrem < MaxRemoves
  /\ id \in (IF RemoveReserved THEN Returned \cup Reserved ELSE Returned \ Reserved)
  /\ nrem' = nrem + 1
  /\ LET o == objects[id] IN
     IF o # NONE
       THEN /\ objects' = [objects EXCEPT ![id] = NONE]
            /\ boxes' = [boxes EXCEPT ![id] = NONE]
            /\ IF o \in Inst THEN /\ term' = [term EXCEPT ![o] = @ + 1]
                                  /\ live' = [live EXCEPT ![o] = FALSE]
                             ELSE UNCHANGED <<term, live>>       \* pendingObject.OnTerminate: nothing
            /\ out' = Out("ok", id)
       ELSE /\ out' = Out("err", id)
            /\ UNCHANGED <<objects, boxes, term, live>>
  /\ UNCHANGED <<rng, reseeds, pc, aid, ret, exec, ghost, up, ncalls, unanswered>>

(* a call from another connection, addressed to identifier id: serviceImpl.Receive looks the MAILBOX up *)
Call(id) ==
  /\ ncalls < MaxCalls
  /\ id \in Returned \cup Reserved
  /\ ncalls' = ncalls + 1
  /\ LET b == IF up THEN boxes[id] ELSE NONE IN      \* a terminated service is gone from the router: an error
     CASE b = NONE -> /\ out' = Out("err", id) /\ UNCHANGED <<exec, ghost, unanswered>>
       [] b = PEND -> IF PendingAnswers
                        THEN /\ out' = Out("err", id) /\ UNCHANGED <<exec, ghost, unanswered>>
                        ELSE /\ out' = Out("none", id) /\ unanswered' = unanswered + 1 /\ UNCHANGED <<exec, ghost>>
       [] OTHER    -> /\ exec' = [exec EXCEPT ![b] = @ + 1]
                      /\ ghost' = [ghost EXCEPT ![b] = IF live[b] THEN @ ELSE @ + 1]
                      /\ out' = Out("ok", b) /\ UNCHANGED unanswered
  /\ UNCHANGED <<objects, boxes, rng, reseeds, pc, aid, ret, live, term, up, nrem>>

(* Service.Terminate: the tables are swapped for empty ones, OnTerminate of every object taken *)
Terminate ==
  /\ WithTerminate /\ up
  /\ up' = FALSE
  /\ LET taken == {objects[i] : i \in Ids} \cap Inst IN
       /\ term' = [k \in Inst |-> IF k \in taken THEN term[k] + 1 ELSE term[k]]
       /\ live' = [k \in Inst |-> IF k \in taken THEN FALSE ELSE live[k]]
  /\ objects' = [i \in Ids |-> NONE] /\ boxes' = [i \in Ids |-> NONE]
  /\ out' = Out("-", 0)
  /\ UNCHANGED <<rng, reseeds, pc, aid, ret, exec, ghost, ncalls, nrem, unanswered>>

Next == \/ Reseed \/ Terminate
        \/ \E a \in Adders : AddStart(a) \/ AddFinish(a, TRUE) \/ AddFinish(a, FALSE)
        \/ \E id \in Ids : Remove(id) \/ Call(id)
Spec == Init /\ [][Next]_vars

-----------------------------------------------------------------------------
TypeOK == /\ \A i \in Ids : objects[i] \in Inst \cup {NONE, PEND} /\ boxes[i] \in Inst \cup {NONE, PEND}
          /\ rng \in 1..(Len(Stream) + 1)
(* C16: identifiers unique among the live objects *)
UniqueLiveIds == \A j, k \in Adders : (j # k /\ live[j] /\ live[k]) => aid[j] # aid[k]
(* C16: an added object is callable - the table and the mailbox under its identifier are its own *)
Callable == up => \A k \in Adders : live[k] => (objects[aid[k]] = k /\ boxes[aid[k]] = k)
(* C16: the hook runs exactly once, when the object leaves, and never for an object that is still there *)
HookExactlyOnce == \A k \in Inst : term[k] <= 1 /\ (live[k] => term[k] = 0)
                                   /\ (k \in Adders /\ ret[k] = "ok" /\ ~live[k] => term[k] = 1)
(* C16: nothing runs a method of an object that is not (or no longer) there *)
NoGhostExecution == \A k \in Inst : ghost[k] = 0
(* C04: every call is answered *)
AllAnswered == unanswered = 0
(* nobody is left between the two critical sections with an entry of another owner: after the last Add
   returned there is no reservation in the tables *)
NoReservationLeft == (\A a \in Adders : pc[a] # "reserved") => \A i \in Ids : objects[i] # PEND /\ boxes[i] # PEND
(* outside the statement: an object committed after the service was terminated is never terminated *)
NoLiveAfterTerminate == ~up => \A k \in Inst : ~live[k]
=============================================================================
