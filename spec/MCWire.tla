------------------------------- MODULE MCWire -------------------------------
(***************************************************************************)
(* Bounded universe of (type, value) pairs for Wire and the theorems of    *)
(* the format as invariants over it.                                       *)
(*                                                                         *)
(* All state variables are integers (indexes into constant sequences), so  *)
(* no variable changes type along a behaviour.                             *)
(*   ti : index into TypeSeq;  vi : 0 (type chosen) or index into the      *)
(*   value sequence of that type.                                          *)
(* Init picks the type, the single step picks the value: TLC evaluates the *)
(* theorems on the successor states, in parallel across types.             *)
(***************************************************************************)
EXTENDS Wire, SequencesExt

CONSTANTS Level,    \* 2: types nested to depth 2; 3: plus a depth-3 layer
          DynDepth  \* how deep dynamic values nest inside dynamic values

N_P == <<80>>
N_Q == <<81>>
N_R == <<82>>
N_a == <<97>>
N_b == <<98>>
N_x == <<120>>
N_y == <<121>>

(* scalar kinds that may appear anywhere in a signature *)
Plain == NumKinds \cup {"b", "s"}
PlainSeq == <<"c", "C", "w", "W", "i", "I", "l", "L", "f", "d", "b", "s">>
KeyKinds == {"c", "C", "w", "W", "i", "I", "l", "L", "b", "s"}   \* map keys (floats left out)

(* ---- type universe ---- *)
L0 == {S(k) : k \in Plain} \cup {S("m"), S("v")}
Pairs == {Tup(<<S(PlainSeq[i]), S(PlainSeq[(i % Len(PlainSeq)) + 1])>>) : i \in 1..Len(PlainSeq)}
L1 == {List(S(k)) : k \in Plain \cup {"m"}}
      \cup {Map(S("s"), S(k)) : k \in Plain \cup {"m"}}
      \cup {Map(S(k), S("i")) : k \in KeyKinds}
      \cup {Tup(<<>>), Tup(<<S("m"), S("i")>>), Tup(<<S("s"), S("m"), S("b")>>),
            Tup(<<S("C"), S("w"), S("s"), S("l")>>)}
      \cup {Tup(<<S(k)>>) : k \in Plain}
      \cup Pairs
      \cup {Struct(N_P, <<N_a>>, <<S(k)>>) : k \in Plain \cup {"m"}}
      \cup {Struct(N_Q, <<N_a, N_b>>, p.ms) : p \in Pairs}
      \cup {Struct(N_R, <<>>, <<>>)}
(* representatives nested one level deeper *)
R1 == {List(S("i")), List(S("s")), List(S("C")), List(S("m")), Map(S("s"), S("i")), Map(S("I"), S("s")),
       Map(S("s"), S("m")), Tup(<<S("C"), S("s")>>), Tup(<<S("m"), S("i")>>), Tup(<<>>),
       Struct(N_Q, <<N_a, N_b>>, <<S("i"), S("s")>>), Struct(N_P, <<N_a>>, <<S("m")>>),
       Struct(N_P, <<N_a>>, <<S("c")>>)}
Wrap(c) == {List(c), Map(S("s"), c), Tup(<<S("C"), c>>), Struct(N_R, <<N_x, N_y>>, <<c, S("w")>>)}
(* containers of members that have a FIXED size on the wire but different widths (a Go struct of them is   *)
(* padded, the wire is not): every adjacent pair of scalar kinds as list element and as map value, and a    *)
(* tuple of fixed-size members holding another one                                                          *)
FixedMixed == {List(p) : p \in Pairs} \cup {Map(S("s"), p) : p \in Pairs}
              \cup {List(Tup(<<S("b"), Tup(<<S("i"), S("l")>>)>>)), List(Tup(<<S("b"), S("i")>>)),
                    List(Struct(N_Q, <<N_a, N_b>>, <<S("c"), S("L")>>))}
(* WIDE tuples and structures: more members than a machine word has bits (a per-type table of members kept as *)
(* a bit mask ends at 64), every scalar kind in turn, one string among them                                  *)
WideN == 67
WideMs == [i \in 1..WideN |-> S(PlainSeq[(i % Len(PlainSeq)) + 1])]
WideNames == [i \in 1..WideN |-> <<102, 48 + (i \div 10), 48 + (i % 10)>>]      \* "f01" .. "f67"
N_W == <<87>>
Wide == {Tup(WideMs), Struct(N_W, WideNames, WideMs)}
L2 == UNION {Wrap(c) : c \in R1} \cup FixedMixed \cup Wide
R2 == {List(List(S("s"))), Map(S("s"), List(S("m"))), Tup(<<S("C"), Map(S("s"), S("i"))>>),
       List(Struct(N_Q, <<N_a, N_b>>, <<S("i"), S("s")>>)), Map(S("s"), Map(S("s"), S("m"))),
       Struct(N_R, <<N_x, N_y>>, <<List(S("m")), S("w")>>)}
L3 == UNION {Wrap(c) : c \in R2}
Protocol == {MetaObjectT, ObjRefT, ServiceInfoT, CapabilityMapT, MetaMethodT}
(* r (raw) and o (object reference) only at the top level: r is a dynamic value only, o is *)
(* the same bytes as ObjRefT under the one-letter signature                               *)
(* ... and o nested in each container kind (the reader attached to a nested "o" is another code  *)
(* site than the one used for a top-level object reference)                                        *)
NestedO == {List(S("o")), Map(S("s"), S("o")), Tup(<<S("s"), S("o")>>), Struct(N_Q, <<N_a, N_b>>, <<S("o"), S("i")>>)}
Universe == L0 \cup L1 \cup L2 \cup (IF Level >= 3 THEN L3 ELSE {}) \cup Protocol \cup {S("r"), S("o")} \cup NestedO

(* types a dynamic value nested at depth d may have *)
DynTypes(d) == IF d <= 0 THEN {S("i"), S("s"), S("v")}
               ELSE L0 \cup {S("r")} \cup R1

(* ---- values ---- *)
Str_hi == <<104, 105>>
RECURSIVE Dflt(_), Alt(_)
Dflt(T) ==
  CASE T.k \in NumKinds -> NumSeq(T.k)[1][1]
    [] T.k = "b" -> TRUE
    [] T.k = "s" -> Str_hi
    [] T.k = "r" -> <<1, 255>>
    [] T.k = "v" -> "void"
    [] T.k = "m" -> <<S("i"), "16909060">>
    [] T.k = "o" -> Dflt(ObjRefT)
    [] T.k = "list" -> <<Dflt(T.e)>>
    [] T.k = "map" -> << <<Dflt(T.key), Dflt(T.val)>> >>
    [] T.k \in {"tuple", "struct"} -> [i \in 1..Len(T.ms) |-> Dflt(T.ms[i])]
Alt(T) ==
  CASE T.k \in NumKinds -> NumSeq(T.k)[2][1]
    [] T.k = "b" -> FALSE
    [] T.k = "s" -> <<>>
    [] T.k = "r" -> <<>>
    [] T.k = "v" -> "void"
    [] T.k = "m" -> <<S("s"), Str_hi>>
    [] T.k = "o" -> Alt(ObjRefT)
    [] T.k = "list" -> <<>>
    [] T.k = "map" -> <<>>
    [] T.k \in {"tuple", "struct"} -> [i \in 1..Len(T.ms) |-> Alt(T.ms[i])]

(* Vals(T, d, full): d = remaining dynamic depth; full = all boundary      *)
(* values of scalars (top level) or the reduced set (inside containers).   *)
(* Containers grow linearly: every element value once, plus sizes 0 and 2. *)
RECURSIVE Vals(_, _, _)
Vals(T, d, full) ==
  CASE T.k \in NumKinds -> IF full THEN NumNames(T.k) ELSE NumSmall(T.k)
    [] T.k = "b" -> BOOLEAN
    [] T.k = "s" -> IF full THEN {<<>>, <<97>>, Str_hi, <<97, 0>>, <<97, 98, 226, 130, 172>>} ELSE {<<>>, Str_hi}
    [] T.k = "r" -> IF full THEN {<<>>, <<0>>, <<1, 255>>} ELSE {<<>>, <<1, 255>>}
    [] T.k = "v" -> {"void"}
    [] T.k = "o" -> {Dflt(ObjRefT), Alt(ObjRefT)}
    [] T.k = "m" -> UNION {{<<U, x>> : x \in Vals(U, d - 1, FALSE)} : U \in DynTypes(d)}
    [] T.k = "list" ->
         LET E == Vals(T.e, d, FALSE) da == Dflt(T.e) al == Alt(T.e) IN
         {<<>>} \cup {<<x>> : x \in E} \cup {<<da, al>>, <<al, da>>, <<da, da>>}
    [] T.k = "map" ->
         LET K == Vals(T.key, d, FALSE) E == Vals(T.val, d, FALSE)
             dk == Dflt(T.key) ak == Alt(T.key) dv == Dflt(T.val) av == Alt(T.val) IN
         {<<>>} \cup {<< <<a, dv>> >> : a \in K} \cup {<< <<dk, x>> >> : x \in E}
         \cup (IF dk = ak THEN {} ELSE {<< <<dk, dv>>, <<ak, av>> >>, << <<ak, dv>>, <<dk, av>> >>})
    [] T.k \in {"tuple", "struct"} ->
         {[i \in 1..Len(T.ms) |-> Dflt(T.ms[i])], [i \in 1..Len(T.ms) |-> Alt(T.ms[i])]}
         \cup UNION {{[i \in 1..Len(T.ms) |-> IF i = j THEN x ELSE Dflt(T.ms[i])] : x \in Vals(T.ms[j], d, FALSE)}
                     : j \in 1..Len(T.ms)}

(* SetToSeq: SequencesExt (linear-time Java override in TLC) *)

TypeSeq == SetToSeq(Universe)
ValSeqs == [i \in 1..Len(TypeSeq) |-> SetToSeq(Vals(TypeSeq[i], DynDepth, TRUE))]

VARIABLES ti, vi
vars == <<ti, vi>>
Init == ti \in 1..Len(TypeSeq) /\ vi = 0
Next == vi = 0 /\ vi' \in 1..Len(ValSeqs[ti]) /\ UNCHANGED ti
Spec == Init /\ [][Next]_vars

T_ == TypeSeq[ti]
V_ == ValSeqs[ti][vi]
Chosen == vi > 0

TypeOK == ti \in 1..Len(TypeSeq) /\ vi \in 0..Len(ValSeqs[ti])

(* the theorems, for the typed encoding and for the same value carried as  *)
(* a dynamic value (signature-prefixed)                                    *)
ThRoundTrip        == Chosen => RoundTrip(T_, V_) /\ RoundTrip(S("m"), <<T_, V_>>)
ThSelfDelimiting   == Chosen => SelfDelimiting(T_, V_) /\ SelfDelimiting(S("m"), <<T_, V_>>)
ThPrefixFree       == Chosen => PrefixFree(T_, V_) /\ PrefixFree(S("m"), <<T_, V_>>)
ThReencodeIdentity == Chosen => ReencodeIdentity(T_, V_) /\ ReencodeIdentity(S("m"), <<T_, V_>>)
ThSigRoundTrip     == SigRoundTrip(T_)
ThScaleLaw         == Chosen => ScaleLaw(T_, V_)
ThEncValue         == Chosen => EncValue(T_, V_) = Str(Sig(T_)) \o EncOrd(T_, V_)
(* every hostile mutant: the reference decoder stays linear *)
ThWorkBounded      == Chosen => /\ \A b \in Enc(T_, V_) : WorkBounded(T_, b)
                                /\ \A m \in Mutants(T_, V_) : WorkBounded(T_, m.bytes)
                                /\ \A m \in Mutants(S("m"), <<T_, V_>>) : WorkBounded(S("m"), m.bytes)
(* mutants that claim more than the input holds are refused by the reference decoder *)
ThOverlongRefused  == Chosen => \A m \in Mutants(T_, V_) :
                                   (m.h \in {"ff", "hi", "max31", "strcap1", "big16"} \/ (m.h = "rem1" /\ m.esz > 0))
                                   => IsErr(Dec(T_, m.bytes))

ASSUME TablesAgreeWithArithmetic
ASSUME \A T \in Protocol : SigRoundTrip(T)
=============================================================================
