SPECIFICATION Spec
CONSTANTS
  Gor = {"g1", "g2", "g3"}
  Addrs = {"A"}
  MaxReq = 1
  ConnLoss = FALSE
  Dev_RUnlockUnderWriteLock = TRUE
INVARIANTS TypeOK NoBadUnlock NoDeadlock
CHECK_DEADLOCK FALSE
