SPECIFICATION Spec
CONSTANTS
  Universe = "quick"
  MapOrder = {}
  LastChanceAny = {}
  WalkSorted = TRUE
  AssumeUserRange = TRUE
  QueryTypes = {"lookup", "names", "full", "action"}
INVARIANTS SoundName ExactWins ErrorOnlyIfNothing OwnActionReachable PropertyEventId NeverAnotherOverload Deterministic NamesDistinct NamesCover NamesStable FirstKeepsBare FullKeepsIdsUnique FullKeepsActions FullHasGeneric FullIdempotent ActionNameSound
CHECK_DEADLOCK FALSE
