\* vacuity guard: with Dev_StalePush the demand NeverTooQuiet must FAIL
SPECIFICATION Spec
CONSTANTS
  Listeners = {1, 2, 3}
  Providers = {1, 2}
  RealProv = {}
  LevelsUsed = {2, 6}
  BadLevel = 7
  Pats = {"core"}
  BadPat = "("
  Cats = {"core", "core.net", "app"}
  MgrOps = {"addprov", "rmprov", "create"}
  LstOps = {"setlevel", "addfilter", "clear", "terminate", "drop"}
  MaxMgr = 1
  MaxLst = 1
  InitLive = {1, 2}
  InitProv = {1}
  Hist = FALSE
  MaxHold = 0
  Match <- MCMatch
  PCat <- MCPCat
  ClientOf <- MCClientOf
  Batches <- MCBatches1
  Dev_FilterOnlyWidens = FALSE
  Dev_MinCategoryJoin = FALSE
  Dev_NoRecomputeOnTerminate = FALSE
  Dev_LostListenerKept = FALSE
  Dev_StalePush = TRUE
  Dev_SetLevelBypassesProperty = FALSE
  Dev_AddFilterHoldsLock = FALSE
  Dev_UnlockedFilterRead = FALSE
  Dev_RejectedWriteSaved = FALSE
INVARIANTS NeverTooQuiet
CHECK_DEADLOCK FALSE
