SPECIFICATION SysFairSpec
CONSTANTS
  Conns <- AllConns
  InitAuthed <- AllConns
  Svcs = {1}
  Objs <- OneObj
  Methods = {100}
  GenericActs = {8}
  FailTags = {}
  QCap = 1
  MCap = 1
  SrvAccept <- CodeFilter
  StubRuns <- ReqTypes
  AuthRuns <- CallOnly
  AuthMode = "yes"
  Script <- NoScript
  PeerMsgs <- NoPeerMsgs
  MaxSends = 0
  Hangups = FALSE
  Dev_CapMapUnsynchronised = FALSE
  Calls <- KA
  ClientOf <- clientA
  EpOf <- epA
  SvcOf <- svcA
  ObjOf <- objA
  ActOf <- actA
  Raws <- rawA
  Deviations <- NoDev
INVARIANTS TypeOK AtMostOneOutcome OwnResult ExecOnceIfOk ExecAtMostOnce PostAtMostOnce PostNoResponse FramesOwed OnlyCallAndPostExecute ErrorIsOwn
PROPERTIES EveryCallAnswered
CHECK_DEADLOCK FALSE
