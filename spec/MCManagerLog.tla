---------------------------- MODULE MCManagerLog ----------------------------
(* Model-checking instances of ManagerLog.tla: the constants that a configuration file cannot express. *)
EXTENDS ManagerLog

MCMatch == [q \in {"core", "app"} |-> IF q = "core" THEN {"core", "core.net"} ELSE {"app"}]
MCPCat == [p \in Providers |-> IF p \in RealProv THEN "core" ELSE ""]
MCClientOf == [l \in Listeners |-> l]
\* listener 3 belongs to the client of listener 1 (two listeners of one client)
MCClientOf31 == [l \in Listeners |-> IF l = 3 THEN 1 ELSE l]
M(l, c) == [lvl |-> l, cat |-> c]
\* batches of the design checks: one or two messages around the levels used
MCBatches1 == {<<M(4, "core")>>, <<M(6, "core.net"), M(2, "app")>>}
MCBatches2 == {<<M(2, "app")>>, <<M(4, "app")>>, <<M(6, "core")>>, <<M(4, "core.net"), M(0, "app")>>, <<M(6, "core.net"), M(2, "app")>>}
=============================================================================
