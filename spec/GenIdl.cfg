SPECIFICATION ISpec
CONSTANTS
  Pool = "a"
  MaxActions = 3
INVARIANTS UniqueIds SigsInGrammar TupleShaped BareIsSingle Consistent VoidOnlyReturned AtMostOneSpecial Export
CHECK_DEADLOCK FALSE
