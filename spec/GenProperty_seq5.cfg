SPECIFICATION GSpec
CONSTANTS
  Valid = {1, 2}
  Invalid <- DefInvalid
  Subs = {"s1"}
  WrongKinds <- SeqWrong1
  Dev_ValidateByBytesOnly = FALSE
  MaxWrites = 9
  Mode = "seq"
  Depth = 5
  Hows = {"name"}
CHECK_DEADLOCK FALSE
