SPECIFICATION FairSpec
CONSTANTS
  Gor = {"g1", "g2", "g3"}
  Eps = {"E"}
  Svcs = {"xe", "e", "t"}
  Adv <- AdvAll
  MaxReq = 1
  MaxLoss = 1
  AuthMayRefuse = TRUE
  Dev_RUnlockUnderWriteLock = FALSE
  Dev_NilChannelWhenAllSkipped = FALSE
  Dev_AuthFailureLeaksConnection = FALSE
  Dev_DeadClientStaysInPool = FALSE
  Dev_PoolKeyedByAdvertised = FALSE
  Dev_CloserBeforeInsert = FALSE
INVARIANTS TypeOK ProcessAlive NoBadUnlock MutexOK RequestOutcome ReturnedIsOpen AtMostOneConnPerEndpoint ExtraConnectionsClosed PoolHoldsLiveClients AllGetTheSharedClient NoDeadlock
PROPERTIES Terminates LostIsForgotten
CHECK_DEADLOCK FALSE
