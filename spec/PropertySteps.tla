---------------------------- MODULE PropertySteps ----------------------------
(* C14 - the property code path of bus/object.go + bus/signal.go as the goroutines
   really run it: validate, save and notify are separate steps, the notification is
   a snapshot of the subscriber table followed by one send per subscriber of the
   snapshot, and the table changes meanwhile.  Executed by

     "m"            the object's mailbox goroutine: remote setProperty / property /
                    registerEvent / unregisterEvent calls, one at a time
                    (mailbox.go l.28-44)
     u \in Updaters  goroutines of the service calling the generated Update<Prop>
                    helper (stubObject.UpdateProperty, object.go l.29-53), which
                    runs on the caller's goroutine without any serialisation
     subscribers    each on its own connection; its goroutine on the server side
                    runs the disconnection closer (signal.go l.86-90)

   step          | code
   --------------+--------------------------------------------------------------
   Start(a,n)    | the call is made (remote: the request is taken from the mailbox)
   Validate(a)   | onPropertyChange(name, data)   (gate prop.{set,update}.validate)
   Save(a)       | saveProperty under propertiesMutex (gate prop.*.save) - the
                 | linearization point of an accepted write
   Snapshot(a)   | signalHandler.UpdateProperty -> UpdateSignal l.213-221: the
                 | registrations of this signal id are COPIED in slice order under
                 | signalsMutex.RLock (gate prop.*.notify sits before the call)
   Send(a)       | l.223-233: replyEvent to the next user of the copy, outside the
                 | lock (gate signal.update.send, once per user); after the last
                 | one the call returns
   Get           | objectImpl.Property under RLock, served by the mailbox goroutine
   SubReq/Register/SubAck(s)      | registerEvent: taken from the mailbox (gate
                 | signal.register), addSignalUser appends under signalsMutex, reply
   UnsubReq/Unregister/UnsubAck(s)| unregisterEvent: gate signal.unregister,
                 | forgetSignalUser = SWAP-REMOVE under signalsMutex (l.117-121:
                 | signals[i] = signals[last]; truncate), gate signal.unregister.ack,
                 | reply
   Disconnect(s) | the subscriber's connection closes: endpoint.closeWith -> the
                 | closer of its registration -> forgetSignalUser (same swap-remove)

   The mailbox goroutine serves one mail at a time, hence a (un)registration can
   only fall inside the emission of a *service-side* update; a disconnection can
   fall inside any emission.

   Checked: (1) every step is a step of the sequential register Property.tla or
   leaves it unchanged (refinement, the linearization points above);
   (2) event accounting per subscriber while the set of subscribers changes, as
   C14 states it:
     StableExactlyOnce  a subscriber whose subscription was acknowledged before the
                        write was accepted (Save) and that has not asked to leave
                        (unregister request, disconnection) before the emission of
                        that write ended has received exactly one event for it;
     NeverTwice         nobody - stable, leaving or joining - ever receives two
                        events for one accepted write;
     NoEventOutsideWindow  an event for a write only reaches somebody who was
                        subscribed, joining or leaving at some moment of the write's
                        emission (a leaving/joining subscriber may or may not
                        receive it: no verdict);
     EventCarriesValue, NoForeignEvent (a subscriber of another signal of the same
                        object never receives the property's events),
     OrderPerWriter     the events of one writer arrive in the order of its writes;
   (3) NOT implied (and not demanded by the property): events of different writers
   arrive in write order - EventsInWriteOrder is violated by `u saves 3; m saves 1;
   m notifies 1; u notifies 3`, see MCPropertySteps_order.cfg.

   Deviations (DESIGN.md 3.3; FALSE in the property configurations):
     Dev_IterateLiveSlice     the emitter does not copy: it keeps the slice header
                              (array, len at snapshot time) and reads element k of
                              the LIVE backing array when it reaches it, filtering on
                              the signal id there.  Swap-remove then aliases: the last
                              registration is moved into a slot not yet visited and is
                              still at its old index => NeverTwice is violated (or a
                              later append hides it => StableExactlyOnce).  This is a
                              vacuity guard of the accounting invariants
                              (MCPropertySteps_live.cfg must fail).
     Dev_SendErrorFailsWrite  what the pinned code does: the error of a send to a
                              disconnected subscriber of the snapshot becomes the
                              result of setProperty / Update<Prop>, although the write
                              was accepted, saved and broadcast to the others
                              (AcceptedWriteReturnsOK; signal.go l.230-231).

   The complete schedules of this module are exported by GenPropertySteps and
   forced on the real code with the gates.

   Not a step of this module, by design: a subscriber asking for ANOTHER signal of the
   object under the user id its property subscription holds (refused by the code: an id
   in use), and cancelling it again if it was acknowledged.  The property's subscribers
   are unchanged either way; the churn replay performs the pair in every other schedule
   and demands the schedule's expectations as they are (harness c14churn.go). *)
EXTENDS Integers, Sequences, FiniteSets, TLC

CONSTANTS
  Updaters,     \* service-side goroutines
  Subs,         \* subscribers, each on its own connection
  ValuesOf,     \* [Actors -> SUBSET Int]: the values an actor may write (disjoint)
  MaxOps,       \* [Actors -> Nat]: number of calls per actor
  InitTables,   \* set of Seq(Subs): the possible subscriber tables at the start (slice
                \* order); these subscribers are registered and acknowledged
  Foreign,      \* SUBSET Subs: their registration is for another signal of the object
  Movers,       \* SUBSET Subs: may unsubscribe / subscribe during the run
  Closers,      \* SUBSET Subs: may disconnect abruptly
  MaxMoves,     \* Nat: leave / join requests in one behaviour
  Atomic,       \* BOOLEAN: coarse emission (snapshot + all sends in one step): the schedule
                \* export without churn (GenPropertySteps.cfg) and the large configuration
                \* MCPropertySteps_thorough.cfg; FALSE everywhere else
  Dev_IterateLiveSlice,
  Dev_SendErrorFailsWrite

Actors == {"m"} \cup Updaters
\* configurations (cfg files cannot write functions or negative numbers)
ValuesQ == "m" :> {1, 2, -1} @@ "u1" :> {3, -3}
OpsQ    == "m" :> 2 @@ "u1" :> 1
ValuesT == "m" :> {1, 2, -1} @@ "u1" :> {3, -3} @@ "u2" :> {4}
OpsT    == "m" :> 2 @@ "u1" :> 1 @@ "u2" :> 1
OpsT2   == "m" :> 3 @@ "u1" :> 2 @@ "u2" :> 1
OpsT3   == "m" :> 3 @@ "u1" :> 2 @@ "u2" :> 2
\* churn configurations: few writes, three subscribers + one of another signal
ValuesC == "m" :> {1} @@ "u1" :> {3} @@ "u2" :> {4}
OpsC    == "m" :> 1 @@ "u1" :> 1 @@ "u2" :> 0
OpsCu   == "m" :> 0 @@ "u1" :> 1 @@ "u2" :> 0          \* one service-side update
OpsCm   == "m" :> 1 @@ "u1" :> 0 @@ "u2" :> 0          \* one remote set
OpsC2   == "m" :> 1 @@ "u1" :> 2 @@ "u2" :> 0
OpsC3   == "m" :> 1 @@ "u1" :> 1 @@ "u2" :> 1
ValuesC2 == "m" :> {1} @@ "u1" :> {3, 5} @@ "u2" :> {4}
TabNone == {<<"s1", "s2">>}                              \* the round-1 configurations
Tab3    == {<<"s1", "s2", "s3">>}
Tab3f   == {<<"s1", "s2", "s3">>, <<"f", "s1", "s2", "s3">>, <<"s1", "f", "s2", "s3">>,
            <<"s1", "s2", "f", "s3">>, <<"s1", "s2", "s3", "f">>, <<"s1", "s2">>}
Perm3   == {<<"s1", "s2", "s3">>, <<"s1", "s3", "s2">>, <<"s2", "s1", "s3">>,
            <<"s2", "s3", "s1">>, <<"s3", "s1", "s2">>, <<"s3", "s2", "s1">>}
Tab3g   == Perm3 \cup {<<"s1", "f", "s2", "s3">>, <<"f", "s2", "s1", "s3">>, <<"s1", "s2">>, <<"s2", "s3">>}
ValidatorOK(n) == n >= 0
DeclSig == "i"
LE32(n) == << n % 256, (n \div 256) % 256, (n \div 65536) % 256, (n \div 16777216) % 256 >>
I32(n) == [sig |-> DeclSig, bytes |-> LE32(n)]

PropSig  == "p"                                 \* the property's uid as a signal id
OtherSig == "x"                                 \* another signal of the same object
SigOf(s) == IF s \in Foreign THEN OtherSig ELSE PropSig
Entry(s) == [s |-> s, sig |-> SigOf(s)]

VARIABLES
  val, writes, ret, last,   \* as in Property
  delivered,                \* [Subs -> Seq([w, v])] events in arrival order: write index, value
  pc,                       \* [Actors -> {"idle","validate","save","notify","send"}]; for "m"
                            \* also "reg","regack","unreg","unregack"
  cur,                      \* [Actors -> Int] value of the call in progress
  nops,                     \* [Actors -> Nat] calls started
  wid,                      \* [Actors -> Nat] index in `writes` of the call in progress
  table,                    \* Seq([s, sig]): signalHandler.signals in slice order
  stale,                    \* the backing array beyond len(signals) (kept only under
                            \* Dev_IterateLiveSlice: nobody else can see it)
  em,                       \* [Actors -> [tgt, q, k, n, failed]] the emission in progress:
                            \* tgt = the user the emitter is about to send to, q = rest of
                            \* the copy (conforming), k/n = next index / length of the kept
                            \* slice header (deviation), failed = a send returned an error
  cst,                      \* [Subs -> {"out","joining","in","leaving","closed"}] the
                            \* subscriber as it sees itself (acknowledgements)
  ms,                       \* the subscriber whose request the mailbox goroutine is serving
  moves,                    \* leave / join requests made
  cret,                     \* [Actors -> [saved, e]] how the last returned call ended
  \* observation only (ghosts)
  writer,                   \* Seq(Actors): who made write i
  stable,                   \* Seq(SUBSET Subs): entitled to the event of write i
  may                       \* Seq(SUBSET Subs): allowed to receive the event of write i

vars == <<val, writes, ret, last, delivered, pc, cur, nops, wid, table, stale, em, cst, ms,
          moves, cret, writer, stable, may>>
regvars == <<val, writes, ret, last>>
subvars == <<table, stale, cst, ms, moves>>
ghosts  == <<writer, stable, may>>

NoBytes == <<>>
OK  == [e |-> "", sig |-> "", bytes |-> NoBytes]
Err == [e |-> "err", sig |-> "", bytes |-> NoBytes]
NoEm == [tgt |-> "", q |-> <<>>, k |-> 0, n |-> 0, failed |-> FALSE]

Init == /\ val = [set |-> FALSE, sig |-> "", bytes |-> NoBytes]
        /\ writes = <<>> /\ ret = OK /\ last = [k |-> "init", w |-> FALSE]
        /\ delivered = [s \in Subs |-> <<>>]
        /\ pc = [a \in Actors |-> "idle"] /\ cur = [a \in Actors |-> 0]
        /\ nops = [a \in Actors |-> 0] /\ wid = [a \in Actors |-> 0]
        /\ \E t \in InitTables :
             /\ table = [i \in 1..Len(t) |-> Entry(t[i])]
             /\ cst = [s \in Subs |-> IF \E i \in 1..Len(t) : t[i] = s THEN "in" ELSE "out"]
        /\ stale = <<>> /\ em = [a \in Actors |-> NoEm] /\ ms = "" /\ moves = 0
        /\ cret = [a \in Actors |-> [saved |-> FALSE, e |-> ""]]
        /\ writer = <<>> /\ stable = <<>> /\ may = <<>>

\* ---- the subscriber table --------------------------------------------------------
InTable(s) == \E i \in 1..Len(table) : table[i].s = s
PosOf(s)   == CHOOSE i \in 1..Len(table) : table[i].s = s
Backing    == table \o stale                 \* the array the slice header points into
\* append(o.signals, user): capacity 10 is never exceeded here, the array is reused
TableAdd(s) == /\ table' = Append(table, Entry(s))
               /\ stale' = IF stale = <<>> THEN <<>> ELSE Tail(stale)
\* forgetSignalUser: signals[i] = signals[last]; signals = signals[:last]
TableRemove(s) ==
  LET i == PosOf(s)
      n == Len(table)
  IN /\ table' = [j \in 1..(n - 1) |-> IF j = i THEN table[n] ELSE table[j]]
     /\ stale' = IF Dev_IterateLiveSlice THEN <<table[n]>> \o stale ELSE <<>>

\* writes whose emission has not ended
Open == {wid[a] : a \in {b \in Actors : pc[b] \in {"notify", "send"}}}
Leave(s) == stable' = [i \in DOMAIN stable |-> IF i \in Open THEN stable[i] \ {s} ELSE stable[i]]
Join(s)  == may' = [i \in DOMAIN may |-> IF i \in Open THEN may[i] \cup {s} ELSE may[i]]

\* ---- writers -----------------------------------------------------------------------
Start(a, n) == /\ pc[a] = "idle" /\ nops[a] < MaxOps[a] /\ n \in ValuesOf[a]
               /\ pc' = [pc EXCEPT ![a] = "validate"] /\ cur' = [cur EXCEPT ![a] = n]
               /\ nops' = [nops EXCEPT ![a] = @ + 1]
               /\ UNCHANGED <<regvars, delivered, wid, em, cret, subvars, ghosts>>

OpKind(a) == IF a = "m" THEN "set" ELSE "update"

Validate(a) == /\ pc[a] = "validate"
               /\ IF ValidatorOK(cur[a])
                  THEN /\ pc' = [pc EXCEPT ![a] = "save"]
                       /\ UNCHANGED <<ret, last, cret>>
                  ELSE /\ pc' = [pc EXCEPT ![a] = "idle"]        \* the call returns the error
                       /\ ret' = Err /\ last' = [k |-> OpKind(a) \o "invalid", w |-> TRUE]
                       /\ cret' = [cret EXCEPT ![a] = [saved |-> FALSE, e |-> "err"]]
               /\ UNCHANGED <<val, writes, delivered, cur, nops, wid, em, subvars, ghosts>>

Save(a) == /\ pc[a] = "save"
           /\ val' = [set |-> TRUE, sig |-> DeclSig, bytes |-> LE32(cur[a])]
           /\ writes' = Append(writes, I32(cur[a]))
           /\ ret' = OK /\ last' = [k |-> OpKind(a), w |-> TRUE]
           /\ pc' = [pc EXCEPT ![a] = "notify"]
           /\ wid' = [wid EXCEPT ![a] = Len(writes) + 1]
           /\ writer' = Append(writer, a)
           /\ stable' = Append(stable, {s \in Subs \ Foreign : cst[s] = "in"})
           /\ may' = Append(may, {s \in Subs \ Foreign : cst[s] \in {"joining", "in", "leaving"}})
           /\ UNCHANGED <<delivered, cur, nops, em, cret, subvars>>

\* the users of the property in slice order (the copy made under the read lock)
Copy == LET t == SelectSeq(table, LAMBDA e : e.sig = PropSig) IN [i \in 1..Len(t) |-> t[i].s]
\* deviation: the next element at or after index k of the live array that passes the
\* filter (0 = none below n)
NextLive(k, n) == LET c == {j \in k..n : j <= Len(Backing) /\ Backing[j].sig = PropSig}
                  IN IF c = {} THEN 0 ELSE CHOOSE j \in c : \A i \in c : j <= i

Return(a, failed) ==
  /\ pc' = [pc EXCEPT ![a] = "idle"]
  /\ em' = [em EXCEPT ![a] = NoEm]
  /\ cret' = [cret EXCEPT ![a] = [saved |-> TRUE,
                                  e |-> IF failed /\ Dev_SendErrorFailsWrite THEN "err" ELSE ""]]

\* the emitter moves on to the next user (reads it, parks before sending) or returns
Advance(a, q, k, n, failed) ==
  IF Dev_IterateLiveSlice
  THEN LET j == NextLive(k, n) IN
       IF j = 0 THEN Return(a, failed)
       ELSE /\ em' = [em EXCEPT ![a] = [tgt |-> Backing[j].s, q |-> <<>>, k |-> j + 1, n |-> n, failed |-> failed]]
            /\ pc' = [pc EXCEPT ![a] = "send"] /\ UNCHANGED cret
  ELSE IF q = <<>> THEN Return(a, failed)
       ELSE /\ em' = [em EXCEPT ![a] = [tgt |-> Head(q), q |-> Tail(q), k |-> 0, n |-> 0, failed |-> failed]]
            /\ pc' = [pc EXCEPT ![a] = "send"] /\ UNCHANGED cret

Snapshot(a) == /\ ~Atomic /\ pc[a] = "notify"
               /\ Advance(a, Copy, 1, Len(table), FALSE)
               /\ UNCHANGED <<regvars, delivered, cur, nops, wid, subvars, ghosts>>

Event(a) == [w |-> wid[a], v |-> I32(cur[a])]
\* a closed connection receives nothing: the send fails
Send(a) == /\ pc[a] = "send"
           /\ LET s == em[a].tgt IN
              /\ delivered' = IF cst[s] = "closed" THEN delivered
                              ELSE [delivered EXCEPT ![s] = Append(@, Event(a))]
              /\ Advance(a, em[a].q, em[a].k, em[a].n, em[a].failed \/ cst[s] = "closed")
           /\ UNCHANGED <<regvars, cur, nops, wid, subvars, ghosts>>

\* coarse emission: no other step between the snapshot and the last send
Notify(a) == /\ Atomic /\ pc[a] = "notify"
             /\ LET c == Copy
                    T == {c[i] : i \in 1..Len(c)}
                IN /\ delivered' = [s \in Subs |-> IF s \in T /\ cst[s] # "closed"
                                                   THEN Append(delivered[s], Event(a)) ELSE delivered[s]]
                   /\ Return(a, \E s \in T : cst[s] = "closed")
             /\ UNCHANGED <<regvars, cur, nops, wid, subvars, ghosts>>

\* remote read: served by the mailbox goroutine between two remote calls
Get == /\ pc["m"] = "idle" /\ nops["m"] < MaxOps["m"]
       /\ nops' = [nops EXCEPT !["m"] = @ + 1]
       /\ ret' = IF val.set THEN [e |-> "", sig |-> val.sig, bytes |-> val.bytes] ELSE Err
       /\ last' = [k |-> "get", w |-> FALSE]
       /\ UNCHANGED <<val, writes, delivered, pc, cur, wid, em, cret, subvars, ghosts>>

\* ---- subscribers -------------------------------------------------------------------
CanMove(s) == moves < MaxMoves /\ s \in Movers
Unch == <<regvars, delivered, cur, nops, wid, em, cret, writer>>

SubReq(s) == /\ CanMove(s) /\ cst[s] = "out" /\ pc["m"] = "idle"
             /\ cst' = [cst EXCEPT ![s] = "joining"] /\ ms' = s /\ moves' = moves + 1
             /\ pc' = [pc EXCEPT !["m"] = "reg"]
             /\ IF s \in Foreign THEN UNCHANGED may ELSE Join(s)
             /\ UNCHANGED <<Unch, table, stale, stable>>
Register == /\ pc["m"] = "reg"
            /\ TableAdd(ms)
            /\ pc' = [pc EXCEPT !["m"] = "regack"]
            /\ UNCHANGED <<Unch, cst, ms, moves, stable, may>>
SubAck == /\ pc["m"] = "regack"
          /\ cst' = [cst EXCEPT ![ms] = "in"] /\ ms' = ""
          /\ pc' = [pc EXCEPT !["m"] = "idle"]
          /\ UNCHANGED <<Unch, table, stale, moves, stable, may>>

UnsubReq(s) == /\ CanMove(s) /\ cst[s] = "in" /\ pc["m"] = "idle"
               /\ cst' = [cst EXCEPT ![s] = "leaving"] /\ ms' = s /\ moves' = moves + 1
               /\ pc' = [pc EXCEPT !["m"] = "unreg"]
               /\ Leave(s)
               /\ UNCHANGED <<Unch, table, stale, may>>
Unregister == /\ pc["m"] = "unreg"
              /\ TableRemove(ms)
              /\ pc' = [pc EXCEPT !["m"] = "unregack"]
              /\ UNCHANGED <<Unch, cst, ms, moves, stable, may>>
UnsubAck == /\ pc["m"] = "unregack"
            /\ cst' = [cst EXCEPT ![ms] = "out"] /\ ms' = ""
            /\ pc' = [pc EXCEPT !["m"] = "idle"]
            /\ UNCHANGED <<Unch, table, stale, moves, stable, may>>

\* abrupt disconnection of an acknowledged subscriber; the server forgets it
Disconnect(s) == /\ moves < MaxMoves /\ s \in Closers /\ cst[s] = "in"
                 /\ cst' = [cst EXCEPT ![s] = "closed"] /\ moves' = moves + 1
                 /\ TableRemove(s)
                 /\ Leave(s)
                 /\ UNCHANGED <<Unch, pc, ms, may>>

Next == \/ \E a \in Actors : \/ \E n \in ValuesOf[a] : Start(a, n)
                             \/ Validate(a) \/ Save(a) \/ Snapshot(a) \/ Send(a) \/ Notify(a)
        \/ Get
        \/ \E s \in Subs : SubReq(s) \/ UnsubReq(s) \/ Disconnect(s)
        \/ Register \/ SubAck \/ Unregister \/ UnsubAck
Spec == Init /\ [][Next]_vars

\* ---- (1) refinement of the sequential register ---------------------------------
AllValues == UNION {ValuesOf[a] : a \in Actors}
Reg == INSTANCE Property WITH
         Valid <- {n \in AllValues : ValidatorOK(n)},
         Invalid <- {n \in AllValues : ~ValidatorOK(n)},
         WrongKinds <- {}, Dev_ValidateByBytesOnly <- FALSE, MaxWrites <- 99,
         subscribed <- [s \in Subs |-> TRUE], since <- [s \in Subs |-> 0],
         events <- [s \in Subs |-> writes]
RefinesRegister == [][Reg!Next]_(Reg!vars)
RegInvariants == /\ Reg!TypedReads /\ Reg!StoredTyped /\ Reg!ReadsLastWrite
                 /\ Reg!AcceptedWritesValidated /\ Reg!OneEventPerAcceptedWrite

\* ---- (2) events ------------------------------------------------------------------
Got(s, i) == Cardinality({j \in 1..Len(delivered[s]) : delivered[s][j].w = i})
Quiescent == \A a \in Actors : pc[a] = "idle"
Closed(i) == i \in 1..Len(writes) /\ i \notin Open        \* the emission of write i has ended

NeverTwice == \A s \in Subs : \A i \in 1..Len(writes) : Got(s, i) <= 1
StableExactlyOnce == \A i \in 1..Len(writes) : Closed(i) => \A s \in stable[i] : Got(s, i) = 1
NoEventOutsideWindow == \A s \in Subs : \A i \in 1..Len(writes) : Got(s, i) > 0 => s \in may[i]
EventCarriesValue == \A s \in Subs : \A j \in 1..Len(delivered[s]) :
                        /\ delivered[s][j].w \in 1..Len(writes)
                        /\ delivered[s][j].v = writes[delivered[s][j].w]
NoForeignEvent == \A s \in Foreign : delivered[s] = <<>>
OrderPerWriter == \A s \in Subs : \A j, k \in 1..Len(delivered[s]) :
                     (j < k /\ writer[delivered[s][j].w] = writer[delivered[s][k].w])
                        => delivered[s][j].w < delivered[s][k].w
Accounting == /\ NeverTwice /\ StableExactlyOnce /\ NoEventOutsideWindow
              /\ EventCarriesValue /\ NoForeignEvent /\ OrderPerWriter
\* the result of a call that saved is success
AcceptedWriteReturnsOK == \A a \in Actors : cret[a].saved => cret[a].e = ""
AtMostOneRegistration == \A i, j \in 1..Len(table) : table[i].s = table[j].s => i = j
TableMatchesAcks == \A s \in Subs : /\ cst[s] = "in" => InTable(s)
                                    /\ cst[s] \in {"out", "closed"} => ~InTable(s)

\* the round-1 formulations (no churn: every subscriber is stable for every write)
Count(seq, x) == Cardinality({i \in 1..Len(seq) : seq[i] = x})
Values(s) == [j \in 1..Len(delivered[s]) |-> delivered[s][j].v]
EventsAreWrites == \A s \in Subs : \A i \in 1..Len(delivered[s]) :
                      Count(Values(s), delivered[s][i].v) <= Count(writes, delivered[s][i].v)
OneEventPerWriteAtRest == Quiescent => \A i \in 1..Len(writes) : \A s \in stable[i] :
                             Count(Values(s), writes[i]) = Count(writes, writes[i])
\* an event is never ahead of its write
NotifyAfterSave == \A s \in Subs : Len(delivered[s]) <= Len(writes)
\* ---- (3) not demanded, and false ---------------------------------------------------
IsPrefix(p, q) == Len(p) <= Len(q) /\ SubSeq(q, 1, Len(p)) = p
EventsInWriteOrder == \A s \in Subs : IsPrefix(Values(s), writes)
=============================================================================
