---------------------------- MODULE PropertySteps ----------------------------
(* C14 - the property code path of bus/object.go as the goroutines really run it:
   validate, save and notify are separate steps, executed by

     "m"            the object's mailbox goroutine: remote setProperty / property
                    calls, one at a time (mailbox.go l.28-44)
     u \in Updaters  goroutines of the service calling the generated Update<Prop>
                    helper (stubObject.UpdateProperty, object.go l.29-49), which
                    runs on the caller's goroutine without any serialisation

   step        | code
   ------------+--------------------------------------------------------------
   Start(a,n)  | the call is made (remote: the request is taken from the mailbox)
   Validate(a) | onPropertyChange(name, data)   (gate prop.{set,update}.validate)
   Save(a)     | saveProperty under propertiesMutex (gate prop.*.save) - the
               | linearization point of an accepted write
   Notify(a)   | signalHandler.UpdateProperty -> UpdateSignal: one event per
               | subscriber (gate prop.*.notify); then the call returns
   Get         | objectImpl.Property under RLock, served by the mailbox goroutine

   Checked: (1) every step is a step of the sequential register Property.tla or
   leaves it unchanged (refinement, the linearization points above), (2) every
   subscriber receives exactly the accepted writes - each once - and nothing else;
   (3) NOT implied (and not demanded by the property): events arrive in write
   order - EventsInWriteOrder is violated by `u saves 3; m saves 1; m notifies 1;
   u notifies 3`, see MCPropertySteps_order.cfg.

   The complete schedules of this module are exported by GenPropertySteps and
   forced on the real code with the gates.                                     *)
EXTENDS Integers, Sequences, FiniteSets, TLC

CONSTANTS
  Updaters,     \* service-side goroutines
  Subs,         \* subscribers (registered before, unregistered after the run)
  ValuesOf,     \* [Actors -> SUBSET Int]: the values an actor may write (disjoint)
  MaxOps        \* [Actors -> Nat]: number of calls per actor

Actors == {"m"} \cup Updaters
\* configurations (cfg files cannot write functions or negative numbers)
ValuesQ == "m" :> {1, 2, -1} @@ "u1" :> {3, -3}
OpsQ    == "m" :> 2 @@ "u1" :> 1
ValuesT == "m" :> {1, 2, -1} @@ "u1" :> {3, -3} @@ "u2" :> {4}
OpsT    == "m" :> 2 @@ "u1" :> 1 @@ "u2" :> 1
OpsT2   == "m" :> 3 @@ "u1" :> 2 @@ "u2" :> 1
OpsT3   == "m" :> 3 @@ "u1" :> 2 @@ "u2" :> 2
ValidatorOK(n) == n >= 0
DeclSig == "i"
LE32(n) == << n % 256, (n \div 256) % 256, (n \div 65536) % 256, (n \div 16777216) % 256 >>
I32(n) == [sig |-> DeclSig, bytes |-> LE32(n)]

VARIABLES
  val, writes, ret, last,   \* as in Property
  delivered,                \* [Subs -> Seq(value)] events in arrival order
  pc,                       \* [Actors -> {"idle","validate","save","notify"}]
  cur,                      \* [Actors -> Int] value of the call in progress
  nops                      \* [Actors -> Nat] calls started

vars == <<val, writes, ret, last, delivered, pc, cur, nops>>

NoBytes == <<>>
OK  == [e |-> "", sig |-> "", bytes |-> NoBytes]
Err == [e |-> "err", sig |-> "", bytes |-> NoBytes]

Init == /\ val = [set |-> FALSE, sig |-> "", bytes |-> NoBytes]
        /\ writes = <<>> /\ ret = OK /\ last = [k |-> "init", w |-> FALSE]
        /\ delivered = [s \in Subs |-> <<>>]
        /\ pc = [a \in Actors |-> "idle"] /\ cur = [a \in Actors |-> 0]
        /\ nops = [a \in Actors |-> 0]

Start(a, n) == /\ pc[a] = "idle" /\ nops[a] < MaxOps[a] /\ n \in ValuesOf[a]
               /\ pc' = [pc EXCEPT ![a] = "validate"] /\ cur' = [cur EXCEPT ![a] = n]
               /\ nops' = [nops EXCEPT ![a] = @ + 1]
               /\ UNCHANGED <<val, writes, ret, last, delivered>>

OpKind(a) == IF a = "m" THEN "set" ELSE "update"

Validate(a) == /\ pc[a] = "validate"
               /\ IF ValidatorOK(cur[a])
                  THEN /\ pc' = [pc EXCEPT ![a] = "save"]
                       /\ UNCHANGED <<ret, last>>
                  ELSE /\ pc' = [pc EXCEPT ![a] = "idle"]        \* the call returns the error
                       /\ ret' = Err /\ last' = [k |-> OpKind(a) \o "invalid", w |-> TRUE]
               /\ UNCHANGED <<val, writes, delivered, cur, nops>>

Save(a) == /\ pc[a] = "save"
           /\ val' = [set |-> TRUE, sig |-> DeclSig, bytes |-> LE32(cur[a])]
           /\ writes' = Append(writes, I32(cur[a]))
           /\ ret' = OK /\ last' = [k |-> OpKind(a), w |-> TRUE]
           /\ pc' = [pc EXCEPT ![a] = "notify"]
           /\ UNCHANGED <<delivered, cur, nops>>

Notify(a) == /\ pc[a] = "notify"
             /\ delivered' = [s \in Subs |-> Append(delivered[s], I32(cur[a]))]
             /\ pc' = [pc EXCEPT ![a] = "idle"]                  \* the call returns nil
             /\ UNCHANGED <<val, writes, ret, last, cur, nops>>

\* remote read: served by the mailbox goroutine between two remote calls
Get == /\ pc["m"] = "idle" /\ nops["m"] < MaxOps["m"]
       /\ nops' = [nops EXCEPT !["m"] = @ + 1]
       /\ ret' = IF val.set THEN [e |-> "", sig |-> val.sig, bytes |-> val.bytes] ELSE Err
       /\ last' = [k |-> "get", w |-> FALSE]
       /\ UNCHANGED <<val, writes, delivered, pc, cur>>

Next == \/ \E a \in Actors : \/ \E n \in ValuesOf[a] : Start(a, n)
                             \/ Validate(a) \/ Save(a) \/ Notify(a)
        \/ Get
Spec == Init /\ [][Next]_vars

\* ---- (1) refinement of the sequential register ---------------------------------
AllValues == UNION {ValuesOf[a] : a \in Actors}
Reg == INSTANCE Property WITH
         Valid <- {n \in AllValues : ValidatorOK(n)},
         Invalid <- {n \in AllValues : ~ValidatorOK(n)},
         WrongKinds <- {}, Dev_ValidateByBytesOnly <- FALSE, MaxWrites <- 99,
         subscribed <- [s \in Subs |-> TRUE], since <- [s \in Subs |-> 0],
         events <- [s \in Subs |-> writes]
RefinesRegister == [][Reg!Next]_(Reg!vars)
RegInvariants == /\ Reg!TypedReads /\ Reg!StoredTyped /\ Reg!ReadsLastWrite
                 /\ Reg!AcceptedWritesValidated /\ Reg!OneEventPerAcceptedWrite

\* ---- (2) events ------------------------------------------------------------------
Count(seq, x) == Cardinality({i \in 1..Len(seq) : seq[i] = x})
Quiescent == \A a \in Actors : pc[a] = "idle"
\* nothing but accepted writes, none twice
EventsAreWrites == \A s \in Subs : \A i \in 1..Len(delivered[s]) :
                      Count(delivered[s], delivered[s][i]) <= Count(writes, delivered[s][i])
\* once every call has returned, each accepted write has produced exactly one event
OneEventPerWriteAtRest == Quiescent => \A s \in Subs : \A i \in 1..Len(writes) :
                             Count(delivered[s], writes[i]) = Count(writes, writes[i])
\* an event is never ahead of its write
NotifyAfterSave == \A s \in Subs : Len(delivered[s]) <= Len(writes)
\* a returned accepted call has emitted its event (the call returns after Notify)
\* ---- (3) not demanded, and false ---------------------------------------------------
IsPrefix(p, q) == Len(p) <= Len(q) /\ SubSeq(q, 1, Len(p)) = p
EventsInWriteOrder == \A s \in Subs : IsPrefix(delivered[s], writes)
=============================================================================
