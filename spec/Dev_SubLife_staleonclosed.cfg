SPECIFICATION SSpec
CONSTANTS
  Handlers = {1, 2}
  Subs = {1, 2}
  Msgs = {11, 19, 21}
  InitSlots = 2
  Designs = {TRUE}
  StaleOnClosed = TRUE
INVARIANTS TypeOK
           NotDisturbed

CHECK_DEADLOCK FALSE
