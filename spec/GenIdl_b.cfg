SPECIFICATION ISpec
CONSTANTS
  Pool = "b"
  MaxActions = 2
INVARIANTS UniqueIds SigsInGrammar TupleShaped BareIsSingle Consistent VoidOnlyReturned AtMostOneSpecial Export
CHECK_DEADLOCK FALSE
