SPECIFICATION SysSpec
CONSTANTS
  Conns <- OneConn
  InitAuthed <- OneConn
  Svcs = {1}
  Objs <- OneObj
  Methods = {100}
  GenericActs = {8}
  FailTags = {}
  QCap = 1
  MCap = 1
  SrvAccept <- CodeFilter
  StubRuns <- ReqTypes
  AuthRuns <- CallOnly
  AuthMode = "yes"
  Script <- NoScript
  PeerMsgs <- NoPeerMsgs
  MaxSends = 0
  Hangups = FALSE
  Dev_CapMapUnsynchronised = FALSE
  Calls <- KS
  ClientOf <- clientS
  EpOf <- epS
  SvcOf <- svcS
  ObjOf <- objS
  ActOf <- actS
  Raws <- rawS
  Deviations <- NoDev
INVARIANTS TypeOK AtMostOneOutcome OwnResult ExecOnceIfOk ExecAtMostOnce PostAtMostOnce PostNoResponse FramesOwed OnlyCallAndPostExecute ErrorIsOwn
CHECK_DEADLOCK FALSE
