SPECIFICATION GSpec
CONSTANTS
  Conns = {1, 2}
  Users = {1, 2, 3}
  Alphabet <- Alpha_three
  MaxMsgs = 4
  MaxStack = 12
  WithDisconnect = FALSE
  SendWhen = "idle"
  AutoOff = FALSE
  KeepOut = "delta"
  Dev_NoTraceGuard = FALSE
  Dev_CompareChannel = FALSE
  Dev_TracedWrapsRaw = FALSE
  Dev_StatAnyAction = FALSE
  Dev_ClearForgets = FALSE
  Dev_ReplyBypassesTrace = FALSE
  Dev_RemoveDropsLast = FALSE
  Dev_LateRegistrationKept = FALSE
VIEW View
CHECK_DEADLOCK FALSE
