SPECIFICATION Spec
CONSTANTS
  MaxMsgs = 2
  PLens = {0, 1, 2}
  WithCuts = TRUE
INVARIANTS TypeOK ConsumedExactly RejectedBeforePayload OutcomeIsExpected
PROPERTIES NoOverRead Terminates
CHECK_DEADLOCK FALSE
