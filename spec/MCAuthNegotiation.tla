-------------------------- MODULE MCAuthNegotiation --------------------------
(* Instances of AuthNegotiation.tla: alphabets of the raw peer (capability maps: every kind of value a
   dynamic value can hold for auth_user / auth_token, absent, extra keys, a preset __qi_auth_state, an
   undecodable map), of the real client (credential strings) and of a foreign server (answers).       *)
EXTENDS AuthNegotiation, IOUtils

WrongKindsAll == {"int", "uint", "bool", "long", "float", "list", "raw", "void"}
WrongKindsFew == {"int", "raw"}
UStr == {V("str", "alice"), V("str", "bob"), V("str", "")}
TStr == {V("str", "secret"), V("str", "wrong"), V("str", "")}
Decor == {<<"none", "none">>, <<"benign", "none">>, <<"newtok", "none">>, <<"garbage", "none">>,
          <<"none", "u3">>, <<"none", "i3">>, <<"none", "u2">>}
Sh(u, t, d) == [u |-> u, t |-> t, x |-> d[1], st |-> d[2]]
ShapesOver(wk) == LET uv == {Abs} \cup UStr \cup {V(k, "") : k \in wk}
                      tv == {Abs} \cup TStr \cup {V(k, "") : k \in wk}
                  IN  {Sh(u, t, d) : u \in uv, t \in tv, d \in Decor}
PlainD == <<"none", "none">>
Good == Sh(V("str", "alice"), V("str", "secret"), PlainD)
Bad  == Sh(V("str", "alice"), V("str", "wrong"), PlainD)
(* one representative of each class the negotiation can tell apart *)
TinyShapes == {Good, Bad, Sh(Abs, Abs, PlainD), Sh(Abs, V("str", "secret"), PlainD),
               Sh(V("int", ""), V("str", "secret"), PlainD), Sh(V("str", "alice"), V("raw", ""), PlainD),
               Sh(V("str", "alice"), V("str", "wrong"), <<"none", "u3">>), Sh(Abs, Abs, <<"none", "i3">>),
               Sh(V("str", "alice"), V("str", "wrong"), <<"newtok", "none">>),
               Sh(V("str", "alice"), V("str", "secret"), <<"garbage", "none">>),
               Sh(V("str", "bob"), Abs, <<"none", "u2">>)}
MidShapes == TinyShapes \cup {Sh(u, t, PlainD) : u \in {Abs} \cup UStr \cup {V("list", "")}, t \in {Abs} \cup TStr \cup {V("uint", "")}}

EnvShapes == CASE IOEnv.ALPHABET = "tiny" -> TinyShapes
               [] IOEnv.ALPHABET = "mid"  -> MidShapes
               [] IOEnv.ALPHABET = "few"  -> ShapesOver(WrongKindsFew)
               [] IOEnv.ALPHABET = "all"  -> ShapesOver(WrongKindsAll)
               [] IOEnv.ALPHABET = "none" -> {}
EnvAuthMode == IOEnv.AUTHMODE
EnvN(s) == CASE s = "0" -> 0 [] s = "1" -> 1 [] s = "2" -> 2 [] s = "3" -> 3 [] s = "4" -> 4 [] s = "5" -> 5 [] s = "6" -> 6
EnvMaxSends == EnvN(IOEnv.MAXSENDS)
EnvMaxProbes == EnvN(IOEnv.MAXPROBES)
EnvDriver == IOEnv.DRIVER
EnvForeign == IOEnv.FOREIGN = "1"
EnvHolds == IOEnv.HOLDS = "1"
EnvClients == IF IOEnv.NCLI = "2" THEN {1, 2} ELSE {1}

ScriptFTF == <<FALSE, TRUE, FALSE>>
A(k, nt) == [k |-> k, nt |-> nt]
AllAnswers == {A("done", ""), A("error", ""), A("nostate", ""), A("statestr", ""), A("stateint3", ""), A("state7", ""),
               A("cont", "tokB"), A("cont", "tokC"), A("cont", "#abs"), A("cont", "#int"),
               A("errmsg", ""), A("garbage", ""), A("capmsg", ""), A("badcap", ""), A("silent", ""), A("close", "")}
FewAnswers == {A("done", ""), A("error", ""), A("cont", "tokB"), A("cont", "tokC"), A("errmsg", ""), A("capmsg", ""), A("close", "")}
NoAnswers == {}
EnvAnswers == CASE IOEnv.ANSWERS = "all" -> AllAnswers [] IOEnv.ANSWERS = "few" -> FewAnswers [] IOEnv.ANSWERS = "none" -> NoAnswers
AllCreds == {<<"alice", "secret">>, <<"alice", "wrong">>, <<"", "">>, <<"alice", "">>, <<"", "secret">>}
FewCreds == {<<"alice", "secret">>, <<"alice", "wrong">>, <<"alice", "">>}
NoCreds == {}
EnvCreds == CASE IOEnv.CREDS = "all" -> AllCreds [] IOEnv.CREDS = "few" -> FewCreds [] IOEnv.CREDS = "none" -> NoCreds
One == {1}
Two == {1, 2}
=============================================================================
