SPECIFICATION TSpec
CONSTANTS
  Gor <- CallRange
  MaxCalls = 64
  Addrs = {"D", "A", "B"}
  MaxReq = 1
  ConnLoss = TRUE
  Dev_RUnlockUnderWriteLock = FALSE
CONSTRAINT Track
INVARIANTS NoBadUnlock MutexOK AtMostOneConnPerEndpoint
POSTCONDITION Accepted
CHECK_DEADLOCK FALSE
