SPECIFICATION TSpec
CONSTANTS
  Gor <- CallRange
  MaxCalls = 64
  Eps = {"D", "E", "F"}
  Svcs = {"dir", "e", "f", "xe", "te", "ef", "t", "x", "tx"}
  Adv <- AdvTrace
  MaxReq = 1
  MaxLoss = 0
  AuthMayRefuse = TRUE
  Dev_RUnlockUnderWriteLock = FALSE
  Dev_NilChannelWhenAllSkipped = FALSE
  Dev_AuthFailureLeaksConnection = FALSE
  Dev_DeadClientStaysInPool = FALSE
  Dev_PoolKeyedByAdvertised = FALSE
  Dev_CloserBeforeInsert = FALSE
CONSTRAINT Track
INVARIANTS ProcessAlive NoBadUnlock MutexOK RequestOutcome ReturnedIsOpen AtMostOneConnPerEndpoint ExtraConnectionsClosed PoolHoldsLiveClients AllGetTheSharedClient
POSTCONDITION Accepted
CHECK_DEADLOCK FALSE
