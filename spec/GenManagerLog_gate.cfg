\* schedules with one operation parked at a gate: 2 listeners and a provider exist; stale pushes, the AddFilter / Log / terminate deadlock
SPECIFICATION GSpec
CONSTANTS
  Listeners = {1, 2}
  Providers = {1}
  RealProv = {}
  LevelsUsed = {2, 6}
  BadLevel = 7
  Pats = {"core"}
  BadPat = "("
  Cats = {"core", "core.net", "app"}
  InitLive = {1, 2}
  InitProv = {1}
  Hist = TRUE
  MaxHold = 1
  MaxMgr = 1
  MaxLst = 1
  MgrOps = {"log"}
  LstOps = {"setlevel", "addfilter", "clear", "terminate"}
  MaxCmds = 99
  PrintAll = TRUE
  Match <- MCMatch
  PCat <- MCPCat
  ClientOf <- MCClientOf
  Batches <- MCBatches1
  Dev_FilterOnlyWidens = TRUE
  Dev_MinCategoryJoin = TRUE
  Dev_NoRecomputeOnTerminate = TRUE
  Dev_LostListenerKept = TRUE
  Dev_StalePush = TRUE
  Dev_SetLevelBypassesProperty = TRUE
  Dev_AddFilterHoldsLock = TRUE
  Dev_UnlockedFilterRead = TRUE
  Dev_RejectedWriteSaved = FALSE
VIEW View
CHECK_DEADLOCK FALSE
