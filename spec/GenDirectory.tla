---------------------------- MODULE GenDirectory ----------------------------
(* Behaviour export for Directory (DESIGN.md 2.2 b).

   "T": transition coverage.  `hist`, `ret` and `events` are hidden by the
        VIEW, so TLC's breadth-first search visits every abstract state
        <<staging, services, lastID, life>> once, through a shortest path; the
        PrintT sits inside the action, so it is evaluated for every generated
        transition: one replayable test (shortest prefix + the step) per
        transition of the abstract state graph, i.e. every operation with every
        argument from every reachable state.
   "S": (GenDirectory_seq.cfg, no VIEW) every operation sequence up to the
        depth given by the state constraint.

   Every step carries the expected observation: the return value, the
   listing (what List / Lookup must show) and the complete event log.       *)
EXTENDS Directory, Json, IOUtils

CONSTANTS UpdKinds,   \* kinds used for Update in the export (subset of Kinds)
          Tag, MaxLen,
          SampleMod   \* 1: export every transition; k > 1: a seeded 1/k sample (environment SEL = 0..k-1, k <= 10)

VARIABLE hist
gvars == <<vars, hist>>

Op(op, n, id, k, ep) == [op |-> op, n |-> n, id |-> id, kind |-> k, ep |-> ep]
Obs == [ret |-> ret, list |-> Listing, ev |-> events]
Digit(s) == CASE s = "0" -> 0 [] s = "1" -> 1 [] s = "2" -> 2 [] s = "3" -> 3 [] s = "4" -> 4
              [] s = "5" -> 5 [] s = "6" -> 6 [] s = "7" -> 7 [] s = "8" -> 8 [] s = "9" -> 9
Selected == SampleMod = 1 \/ TLCGet("generated") % SampleMod = Digit(IOEnv.SEL)
Step(o) == /\ hist' = Append(hist, [op |-> o, obs |-> Obs'])
           /\ Selected => PrintT(<<Tag, ToJson(hist')>>)

GInit == Init /\ hist = <<>>
GNext == \/ \E n \in AllNames, k \in Kinds : Register(n, k) /\ Step(Op("register", n, 0, k, "e1"))
         \/ \E id \in Ids : Ready(id) /\ Step(Op("ready", "", id, "ok", ""))
         \/ \E id \in Ids : Unregister(id) /\ Step(Op("unregister", "", id, "ok", ""))
         \/ \E id \in Ids, n \in AllNames, k \in UpdKinds, ep \in Eps :
               Update(id, n, k, ep) /\ Step(Op("update", n, id, k, ep))
         \/ \E n \in AllNames : Lookup(n) /\ Step(Op("lookup", n, 0, "ok", ""))
         \/ List /\ Step(Op("list", "", 0, "ok", ""))
GSpec == GInit /\ [][GNext]_gvars
View == <<staging, services, lastID, life>>
Short == Len(hist) < MaxLen
=============================================================================
