------------------------------ MODULE Framing ------------------------------
(***************************************************************************)
(* Message framing of QiMessaging (bus/net/message.go, type/basic ReadN):  *)
(*   * Hdr(h): the documented 28-byte header, byte exact                    *)
(*   * the reader state machine  header -> validate -> payload  over a      *)
(*     byte stream that the environment fragments arbitrarily               *)
(*     (ReadChunk(k, eof)), for streams of back-to-back messages that may   *)
(*     end in an invalid header or be cut anywhere.                         *)
(* Design-level theorems (checked by TLC on every reachable state):         *)
(*   the outcome (messages decoded, bytes consumed, final verdict) does not *)
(*   depend on the fragmentation -> it equals Expected(scenario).           *)
(***************************************************************************)
EXTENDS Integers, Sequences, FiniteSets, TLC

CONSTANTS MaxMsgs,      \* messages per stream (1..MaxMsgs)
          PLens,        \* payload lengths explored by the state machine
          WithCuts      \* BOOLEAN: also explore truncated streams

HeaderSize == 28
MaxPayload == 10 * 1024 * 1024

RECURSIVE LE(_, _)
LE(n, w) == IF w = 0 THEN <<>> ELSE <<n % 256>> \o LE(n \div 256, w - 1)

(* 32-bit field values as little-endian byte quadruples (TLC integers are
   32-bit signed: 0x80000000 and 0xFFFFFFFF cannot be numbers).            *)
U32Table == [zero  |-> <<0, 0, 0, 0>>,
             one   |-> <<1, 0, 0, 0>>,
             mixed |-> <<4, 3, 2, 1>>,          \* 0x01020304
             max31 |-> <<255, 255, 255, 127>>,  \* 0x7FFFFFFF
             hi    |-> <<0, 0, 0, 128>>,        \* 0x80000000
             ff    |-> <<255, 255, 255, 255>>]  \* 0xFFFFFFFF
U32Names == DOMAIN U32Table

MagicBE == <<66, 222, 173, 66>>                 \* 0x42dead42 big endian

(* h: [id, service, object, action : U32Names, size : Nat, version : 0..65535,
       type, flags : 0..255, magic : 4 bytes]                               *)
Hdr(h) == h.magic \o U32Table[h.id] \o LE(h.size, 4) \o LE(h.version, 2)
          \o <<h.type>> \o <<h.flags>>
          \o U32Table[h.service] \o U32Table[h.object] \o U32Table[h.action]

ValidHdr(h) == /\ h.magic = MagicBE /\ h.version = 0
               /\ h.type \in 1..8 /\ h.size <= MaxPayload

BaseHdr(plen) == [magic |-> MagicBE, id |-> "mixed", size |-> plen, version |-> 0,
                  type |-> 1, flags |-> 0, service |-> "one", object |-> "one",
                  action |-> "mixed"]

(* kinds of header defects; the declared size of a defective header is kept
   small or huge, but no payload byte follows a defective header in a stream *)
BadKinds == {"magic_swapped", "magic_zero", "version1", "versionFFFF", "type0", "type9",
             "type255", "oversize"}
BadHdr(kind) ==
  LET b == BaseHdr(2) IN
  CASE kind = "magic_swapped" -> [b EXCEPT !.magic = <<66, 173, 222, 66>>]
    [] kind = "magic_zero"    -> [b EXCEPT !.magic = <<0, 0, 0, 0>>]
    [] kind = "version1"      -> [b EXCEPT !.version = 1]
    [] kind = "versionFFFF"   -> [b EXCEPT !.version = 65535]
    [] kind = "type0"         -> [b EXCEPT !.type = 0]
    [] kind = "type9"         -> [b EXCEPT !.type = 9]
    [] kind = "type255"       -> [b EXCEPT !.type = 255]
    [] kind = "oversize"      -> [b EXCEPT !.size = MaxPayload + 1]

(***************************************************************************)
(* Scenarios: a stream = valid messages (payload lengths), optionally       *)
(* followed by one defective header (+ 3 junk bytes that must stay unread), *)
(* optionally cut at byte `cut` (cut = total: not cut).                     *)
(***************************************************************************)
RECURSIVE SeqsUpTo(_, _)
SeqsUpTo(S, n) == IF n = 0 THEN {<<>>}
                  ELSE LET R == SeqsUpTo(S, n - 1) IN
                       R \cup {Append(r, x) : r \in {r \in R : Len(r) = n - 1}, x \in S}

RECURSIVE SumLens(_)
SumLens(ps) == IF ps = <<>> THEN 0 ELSE HeaderSize + Head(ps) + SumLens(Tail(ps))

Junk == 3
Total(ps, bad) == SumLens(ps) + (IF bad = "none" THEN 0 ELSE HeaderSize + Junk)

Streams == {[ps |-> ps, bad |-> bad] :
              ps \in SeqsUpTo(PLens, MaxMsgs), bad \in {"bad", "none"}}
           \ {[ps |-> <<>>, bad |-> "none"]}
Scenarios == UNION {{[ps |-> s.ps, bad |-> s.bad, cut |-> c] :
                        c \in IF WithCuts THEN 0..Total(s.ps, s.bad) ELSE {Total(s.ps, s.bad)}} :
                    s \in Streams}

(* start offset of message i (1-based) and of the trailing bad header *)
RECURSIVE StartOf(_, _)
StartOf(ps, i) == IF i = 1 THEN 0 ELSE StartOf(ps, i - 1) + HeaderSize + ps[i - 1]

(* Fragmentation-independent expectation *)
Expected(sc) ==
  LET n == Len(sc.ps)
      ends == [i \in 1..n |-> StartOf(sc.ps, i) + HeaderSize + sc.ps[i]]
      whole == {i \in 1..n : ends[i] <= sc.cut}
      k == Cardinality(whole)
      endk == IF k = 0 THEN 0 ELSE ends[k]
      badstart == SumLens(sc.ps)
  IN [decoded |-> k,
      ends |-> [i \in 1..k |-> ends[i]],
      final |-> IF k < n
                  THEN (IF sc.cut = endk THEN "eof" ELSE "trunc")
                ELSE IF sc.bad = "none" THEN "eof"      \* cut = total here
                ELSE IF sc.cut >= badstart + HeaderSize THEN "reject"
                ELSE IF sc.cut = badstart THEN "eof" ELSE "trunc",
      \* upper bound of the bytes the reader may have consumed at the end
      maxpos |-> IF k < n THEN sc.cut
                 ELSE IF sc.bad = "none" THEN sc.cut
                 ELSE IF sc.cut >= badstart + HeaderSize THEN badstart + HeaderSize
                 ELSE sc.cut]

(***************************************************************************)
(* The reader                                                              *)
(***************************************************************************)
VARIABLES sc,      \* the scenario (constant along a behaviour)
          pos,     \* bytes consumed from the stream
          phase,   \* "hdr" | "payload" | "eof" | "trunc" | "reject"
          need,    \* bytes still needed in this phase
          cur,     \* message being read (1-based; Len(ps)+1 = the bad header)
          got,     \* bytes of the current Message.Read obtained so far
          out,     \* end offsets of the messages decoded so far
          sawEOF   \* the stream already reported end-of-stream with data

vars == <<sc, pos, phase, need, cur, got, out, sawEOF>>

Init == /\ sc \in Scenarios
        /\ pos = 0 /\ phase = "hdr" /\ need = HeaderSize /\ cur = 1 /\ got = 0
        /\ out = <<>> /\ sawEOF = FALSE

Avail == sc.cut - pos
Running == phase \in {"hdr", "payload"}

(* the header being completed is the defective one (the state machine does not
   care which defect: BadKinds only differ in their bytes, see GenFraming) *)
CurIsBad == cur = Len(sc.ps) + 1

(* completion of a phase, given that `need` reached 0 *)
AfterHeader ==
  IF CurIsBad
    THEN /\ phase' = "reject" /\ need' = 0 /\ UNCHANGED <<cur, out>> /\ got' = got
    ELSE IF sc.ps[cur] = 0
      THEN /\ out' = Append(out, pos')
           /\ cur' = cur + 1 /\ phase' = "hdr" /\ need' = HeaderSize /\ got' = 0
      ELSE /\ phase' = "payload" /\ need' = sc.ps[cur] /\ UNCHANGED <<cur, out>> /\ got' = got
AfterPayload ==
  /\ out' = Append(out, pos')
  /\ cur' = cur + 1 /\ phase' = "hdr" /\ need' = HeaderSize /\ got' = 0

(* One Read call of the underlying stream returning k >= 1 bytes; eof = the
   call returned io.EOF together with the data (allowed only at end of stream) *)
ReadChunk(k, eof) ==
  /\ Running /\ ~sawEOF
  /\ k \in 1..(IF need < Avail THEN need ELSE Avail)
  /\ eof \in BOOLEAN /\ (eof => k = Avail)
  /\ pos' = pos + k
  /\ sawEOF' = eof
  /\ UNCHANGED sc
  /\ IF k < need
       THEN IF eof   \* short read with EOF: "read n instead of m: EOF"
              THEN /\ phase' = "trunc" /\ need' = need - k /\ UNCHANGED <<cur, out>> /\ got' = got + k
              ELSE /\ need' = need - k /\ got' = got + k /\ UNCHANGED <<phase, cur, out>>
       ELSE IF phase = "hdr" THEN AfterHeader ELSE AfterPayload

(* A Read call that returns (0, EOF): nothing left (or EOF already signalled) *)
ReadEOF ==
  /\ Running /\ (Avail = 0 \/ sawEOF)
  /\ UNCHANGED <<sc, pos, need, cur, out, got, sawEOF>>
  /\ phase' = IF phase = "hdr" /\ need = HeaderSize THEN "eof" ELSE "trunc"

Next == (\E k \in 1..HeaderSize + 2, e \in BOOLEAN : ReadChunk(k, e)) \/ ReadEOF
Spec == Init /\ [][Next]_vars /\ WF_vars(Next)

(***************************************************************************)
(* Properties                                                              *)
(***************************************************************************)
TypeOK == /\ pos \in 0..sc.cut /\ need \in 0..(HeaderSize + 2) /\ phase \in {"hdr", "payload", "eof", "trunc", "reject"}

\* lossless & self delimiting: every decoded message ends exactly where it was written
ConsumedExactly == \A i \in 1..Len(out) : out[i] = StartOf(sc.ps, i) + HeaderSize + sc.ps[i]

\* a defective header is refused before any payload byte is read
RejectedBeforePayload == phase = "reject" => pos = SumLens(sc.ps) + HeaderSize

\* the outcome does not depend on the fragmentation
OutcomeIsExpected ==
  ~Running => LET e == Expected(sc) IN
              /\ Len(out) = e.decoded /\ out = e.ends /\ phase = e.final /\ pos <= e.maxpos

\* never read past what the current phase needs
NoOverRead == [][pos' - pos <= need]_vars

Terminates == <>(~Running)
=============================================================================
