------------------------------ MODULE SubLife ------------------------------
(***************************************************************************)
(* The life of client-side subscriptions that share one connection          *)
(* (bus/client.go client.Subscribe, l.141-182) on top of EndPoint.tla: who  *)
(* owns the handler slot of a subscription, and for how long.               *)
(*                                                                          *)
(* Subscribe registers a handler (MakeHandler returns the slot = the id it  *)
(* will pass to RemoveHandler) and starts a forwarding goroutine:           *)
(*                                                                          *)
(*   select { msg, ok := <-queue : !ok -> close(events), return             *)
(*                                 Event -> events <- payload (UNBUFFERED:  *)
(*                                          blocks while nobody reads)      *)
(*                                 Error -> see below                       *)
(*            <-abort            : RemoveHandler(id), close(events), return *)
(*   }                           both ready: Go picks either                *)
(*                                                                          *)
(* The remote object's termination arrives as an Error message for the      *)
(* signal.  FilterSelfRemoves = TRUE is the code as it was found: the FILTER       *)
(* answers keep = FALSE, so dispatch closes the handler and frees the slot  *)
(* while the goroutine still holds the id; the slot is handed to the next   *)
(* MakeHandler (lowest free first), and a cancel() that the goroutine sees  *)
(* before the closed queue removes THAT handler: another subscriber's       *)
(* channel is closed (C13: "one subscriber leaving does not disturb the     *)
(* others").  FilterSelfRemoves = FALSE is the repair: the filter keeps the        *)
(* handler, the goroutine removes it itself when it reads the Error - the   *)
(* slot is released by its owner only (or by the shutdown).                 *)
(* StaleOnClosed = TRUE is a further deviation: RemoveHandler(id) also on   *)
(* the closed-queue branch.                                                  *)
(*                                                                          *)
(*   Subscribe(x)   MakeHandler + go                                        *)
(*   GTake(x)       the goroutine receives from its queue                   *)
(*   GSend(x)       the blocked send completes: the subscriber reads        *)
(*   GClosed(x)     it finds the queue closed                               *)
(*   GAbort(x)      it takes the abort branch: RemoveHandler(id) begins     *)
(*   GErrRemove(x)  (repair) it read the Error: RemoveHandler(id) begins    *)
(*   GRemoved(x)    RemoveHandler returned: close(events)                   *)
(*   Cancel(x), Pause(x), Resume(x), PeerMsg(m), shutdown   environment     *)
(***************************************************************************)
EXTENDS EndPoint

CONSTANTS Subs,          \* the subscriptions (= their handlers' identities; Handlers = Subs)
          Designs,       \* which designs a behaviour may follow, subset of BOOLEAN: TRUE = the filter answers
                         \* keep = FALSE to the Error (the code as found), FALSE = the repair
          StaleOnClosed  \* deviation: RemoveHandler(id) on the closed-queue branch too

ASSUME Handlers = Subs
\* message m = 10 * subscription + n: an Event of that subscription's signal, n = 9: the Error that reports
\* the termination of the remote object
Target(m) == m \div 10
IsErr(m) == m % 10 = 9

VARIABLES design,    \* FilterSelfRemoves of this behaviour (never changes)
          gs,        \* [Subs -> "none" | "select" | "sending" | "removing" | "done"]
          slotOf,    \* [Subs -> Nat]   the id MakeHandler returned
          cancelReq, \* [Subs -> BOOLEAN]
          reading,   \* [Subs -> BOOLEAN] the subscriber reads its channel
          got,       \* [Subs -> Seq(Msgs)] payloads the subscriber received
          evClosed,  \* [Subs -> BOOLEAN] events channel closed
          remover,   \* whose RemoveHandler call is in progress (NULL: none)
          sentM      \* messages the peer has sent
svars == <<vars, design, gs, slotOf, cancelReq, reading, got, evClosed, remover, sentM>>
subv == <<design, gs, slotOf, cancelReq, reading, got, evClosed, remover, sentM>>

FilterSelfRemoves == design
SInit == /\ Init /\ design \in Designs
         /\ gs = [x \in Subs |-> "none"] /\ slotOf = [x \in Subs |-> 0]
         /\ cancelReq = [x \in Subs |-> FALSE] /\ reading = [x \in Subs |-> TRUE]
         /\ got = [x \in Subs |-> <<>>] /\ evClosed = [x \in Subs |-> FALSE]
         /\ remover = NULL /\ sentM = {}

FMatch(h) == Target(cur) = h
FKeep(h) == IF FilterSelfRemoves THEN ~(Target(cur) = h /\ IsErr(cur)) ELSE TRUE

\* (a subscription made on a connection that is already lost registers a handler nobody will close: C19's finding,
\* not this module's subject)
Subscribe(x) == /\ gs[x] = "none" /\ stream = "open" /\ MakeHandler(x, 3)
                /\ gs' = [gs EXCEPT ![x] = "select"] /\ slotOf' = [slotOf EXCEPT ![x] = res']
                /\ UNCHANGED <<design, cancelReq, reading, got, evClosed, remover, sentM>>

\* (the two halves of RemoveHandler's entry, leaving taken alone)
RemoveBeginS(i) == /\ mu = Free /\ i \in 1..Len(slots) /\ slots[i] # NULL
                   /\ mu' = [op |-> "remove", slot |-> i, h |-> slots[i], stage |-> "closer"]
                   /\ hst' = [hst EXCEPT ![slots[i]] = "closing"] /\ UNCHANGED <<slots, res>>
RemoveErrS(i) == /\ mu = Free /\ ~(i \in 1..Len(slots) /\ slots[i] # NULL)
                 /\ res' = ResErr /\ UNCHANGED <<slots, hst, mu>>

\* RemoveHandler(id) called for subscription x: the critical section begins, or the id is refused at once
RemoveCall(x) == \/ RemoveBeginS(slotOf[x]) /\ remover' = x
                 \/ RemoveErrS(slotOf[x]) /\ UNCHANGED remover
Head1(x) == delivered[x][taken[x] + 1]
\* the goroutine receives a message
GTake(x) ==
  /\ gs[x] = "select" /\ QLen(x) > 0 /\ (IsErr(Head1(x)) /\ ~FilterSelfRemoves => mu = Free)
  /\ taken' = [taken EXCEPT ![x] = @ + 1]
  /\ IF IsErr(Head1(x))
       THEN IF FilterSelfRemoves
              THEN /\ UNCHANGED <<design, gs, remover, slots, hst, mu, res>>             \* ignored; the closed queue follows
              ELSE \* the repair: the goroutine releases its own slot
                   /\ gs' = [gs EXCEPT ![x] = "removing"]
                   /\ RemoveCall(x)
       ELSE /\ gs' = [gs EXCEPT ![x] = "sending"] /\ UNCHANGED <<design, remover, slots, hst, mu, res>>
  /\ UNCHANGED <<delivered, cap, closerN, closeN, stream, proc, inbox, cur>>
  /\ UNCHANGED <<design, slotOf, cancelReq, reading, got, evClosed, sentM>>

GSend(x) == /\ gs[x] = "sending" /\ reading[x]
            /\ got' = [got EXCEPT ![x] = Append(@, delivered[x][taken[x]])]
            /\ gs' = [gs EXCEPT ![x] = "select"]
            /\ UNCHANGED <<design, vars, slotOf, cancelReq, reading, evClosed, remover, sentM>>

GClosed(x) == /\ gs[x] = "select" /\ QLen(x) = 0 /\ closeN[x] = 1
              /\ IF StaleOnClosed
                   THEN /\ mu = Free /\ gs' = [gs EXCEPT ![x] = "removing"]
                        /\ RemoveCall(x)
                        /\ UNCHANGED evClosed
                   ELSE /\ gs' = [gs EXCEPT ![x] = "done"] /\ evClosed' = [evClosed EXCEPT ![x] = TRUE]
                        /\ UNCHANGED <<design, remover, slots, hst, mu, res>>
              /\ UNCHANGED <<delivered, taken, cap, closerN, closeN, stream, proc, inbox, cur>>
              /\ UNCHANGED <<design, slotOf, cancelReq, reading, got, sentM>>

GAbort(x) == /\ gs[x] = "select" /\ cancelReq[x] /\ mu = Free
             /\ gs' = [gs EXCEPT ![x] = "removing"]
             /\ RemoveCall(x)
             /\ UNCHANGED <<delivered, taken, cap, closerN, closeN, stream, proc, inbox, cur>>
             /\ UNCHANGED <<design, slotOf, cancelReq, reading, got, evClosed, sentM>>

\* RemoveHandler has returned (with or without an error)
GRemoved(x) == /\ gs[x] = "removing" /\ ~(mu.op = "remove" /\ remover = x)
               /\ gs' = [gs EXCEPT ![x] = "done"] /\ evClosed' = [evClosed EXCEPT ![x] = TRUE] /\ UNCHANGED remover
               /\ UNCHANGED <<design, vars, slotOf, cancelReq, reading, got, sentM>>

\* the end point's own steps with the subscriptions' filters
EPStep == \/ \E h \in Handlers : \/ SyncCloser(h) \/ SyncQClose(h) \/ Visit(h, FMatch(h), FKeep(h))
                                 \/ Deliver(h) \/ Blocked(h) \/ SelfRemove(h) \/ AsyncCloser(h) \/ AsyncQClose(h) \/ Detach(h)
          \/ RemoveEnd \/ ReadMsg \/ DispatchBegin \/ ReadErr \/ ProcShutdown

Internal == \/ (EPStep /\ UNCHANGED subv)
            \/ \E x \in Subs : GTake(x) \/ GSend(x) \/ GClosed(x) \/ GAbort(x) \/ GRemoved(x)

\* environment
Cancel(x) == /\ gs[x] # "none" /\ ~cancelReq[x] /\ cancelReq' = [cancelReq EXCEPT ![x] = TRUE]
             /\ UNCHANGED <<design, vars, gs, slotOf, reading, got, evClosed, remover, sentM>>
Pause(x) == /\ reading[x] /\ reading' = [reading EXCEPT ![x] = FALSE]
            /\ UNCHANGED <<design, vars, gs, slotOf, cancelReq, got, evClosed, remover, sentM>>
Resume(x) == /\ ~reading[x] /\ reading' = [reading EXCEPT ![x] = TRUE]
             /\ UNCHANGED <<design, vars, gs, slotOf, cancelReq, got, evClosed, remover, sentM>>
PeerMsg(m) == /\ m \notin sentM /\ stream = "open" /\ gs[Target(m)] # "none" /\ Len(inbox) < 2
              /\ inbox' = Append(inbox, m) /\ sentM' = sentM \cup {m}
              /\ UNCHANGED <<slots, hst, delivered, taken, cap, closerN, closeN, stream, mu, proc, cur, res>>
              /\ UNCHANGED <<design, gs, slotOf, cancelReq, reading, got, evClosed, remover>>
LocalClose == ShutdownBegin /\ UNCHANGED subv
PeerGone == PeerClose /\ UNCHANGED subv

Env == \/ \E x \in Subs : Subscribe(x) \/ Cancel(x) \/ Pause(x) \/ Resume(x)
       \/ \E m \in Msgs : PeerMsg(m)
       \/ LocalClose \/ PeerGone
SNext == Internal \/ Env
SSpec == SInit /\ [][SNext]_svars /\ WF_svars(Internal)
         /\ \A x \in Subs : WF_svars(GTake(x)) /\ WF_svars(GSend(x)) /\ WF_svars(GClosed(x)) /\ WF_svars(GAbort(x))
                            /\ WF_svars(GRemoved(x)) /\ WF_svars(Resume(x))
         /\ \A h \in Handlers : WF_svars((AsyncCloser(h) \/ AsyncQClose(h)) /\ UNCHANGED subv)

(***************************************************************************)
(* Properties                                                               *)
(***************************************************************************)
ErrSent(x) == \E m \in sentM : Target(m) = x /\ IsErr(m)
\* a RemoveHandler issued for a subscription removes that subscription's handler, nobody else's
\* (on a connection that was shut down the table is empty and the identifiers of handlers registered afterwards
\* mean nothing any more: nobody will ever close them, see C19's finding)
OwnSlotOnly == (mu.op = "remove" /\ stream = "open") => mu.h = remover
\* C13: a subscriber's handler / channel is closed only for a reason of its own: it cancelled, its object
\* reported an error, or the connection went away
NotDisturbed == \A x \in Subs : (evClosed[x] \/ hst[x] \in {"closing", "qclosing", "closed"})
                                   => (cancelReq[x] \/ ErrSent(x) \/ stream = "closed")
\* what a subscriber received is a prefix-ordered subsequence of the events sent to it: each once, in order
InOrderOnce == \A x \in Subs : /\ \A i, j \in 1..Len(got[x]) : i < j => got[x][i] # got[x][j]
                               /\ \A i \in 1..Len(got[x]) : Target(got[x][i]) = x /\ ~IsErr(got[x][i])
\* nothing after the channel was closed
ClosedIsFinal == [][\A x \in Subs : evClosed[x] => (evClosed'[x] /\ got'[x] = got[x])]_svars
\* a cancelled subscription whose subscriber reads is closed; so is one whose object reported an error,
\* and every one when the connection is lost (for handlers registered before the shutdown)
CancelCloses == \A x \in Subs : (cancelReq[x] /\ gs[x] # "none") ~> (evClosed[x] \/ ~reading[x])
ErrorCloses == \A x \in Subs : (ErrSent(x) /\ \A m \in sentM : m \notin {inbox[i] : i \in 1..Len(inbox)}) ~> (evClosed[x] \/ ~reading[x])
\* the repair leaves no handler behind once the subscription ended
NoHandlerLeft == \A x \in Subs : evClosed[x] => hst[x] # "live"
=============================================================================
