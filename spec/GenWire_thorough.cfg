SPECIFICATION Spec
CONSTANTS
  Level = 3
  DynDepth = 3
INVARIANTS TypeOK ThRoundTrip ThSelfDelimiting ThPrefixFree ThReencodeIdentity ThSigRoundTrip ThEncValue ThDynamicIsPrefixed ExportV
CHECK_DEADLOCK FALSE
