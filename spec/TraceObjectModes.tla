-------------------------- MODULE TraceObjectModes --------------------------
(***************************************************************************)
(* Validation of recorded executions of a real served object against        *)
(* ObjectModes.tla (DESIGN.md 2.2 c).  Two or three raw clients send random *)
(* requests CONCURRENTLY (one of them may hang up in the middle); the hooks *)
(* of bus/object.go and bus/signal.go write one line per event, in the      *)
(* order of the process-wide sequence counter:                              *)
(*   tracer(n, c, a, sig, u, b, stats, trace, next)  objectImpl.Tracer: the *)
(*         mode flags it read and nextTrace afterwards; the request (what   *)
(*         the harness sent under wire id n) is joined by the harness       *)
(*   trace(id, kind, slot) / trace_skip(kind)   objectImpl.Trace            *)
(*   snapshot(sig, size) / send(u, sig)         signalHandler.UpdateSignal  *)
(*   stat(a, ok, cnt)    updateMethodStatistics, under statsMutex           *)
(*   mode(stats, trace)  EnableStats / EnableTrace   clear   ClearStats     *)
(*   add / add_dup / remove / remove_unknown    the subscriber table, under *)
(*         signalsMutex (c: the connection of the end point)                *)
(*   disc(c)      the harness closes connection c (the server notices later)*)
(*   statsres(counts)    at rest: the counters a client read last           *)
(*   reset        a new round (fresh server)                                *)
(* Each line must be the specification's action with the logged values;     *)
(* steps without a hook (answers, deliveries, plain method bodies, the      *)
(* server noticing a lost connection) are left to TLC between two lines.    *)
(* Every invariant of ObjectModes is evaluated at every step.               *)
(***************************************************************************)
EXTENDS MCObjectModes, Json, IOUtils, TLCExt

ASSUME TLCSet(2, ndJsonDeserialize(IOEnv.TRACE))
TraceLog == TLCGet(2)
ASSUME TLCSet(3, Len(TraceLog))
TraceLen == TLCGet(3)

VARIABLES l, discReq, lastStats
tvars == <<vars, l, discReq, lastStats>>
T == TraceLog[l]
Is(k) == l <= TraceLen /\ T.ev = k
Adv == l' = l + 1
Keep == UNCHANGED <<discReq, lastStats>>

TInit == Init /\ l = 1 /\ discReq = {} /\ lastStats = ZeroCounts

TReset ==
  /\ Is("reset")
  /\ conn' = [c \in Conns |-> "open"] /\ mbox' = <<>> /\ stack' = <<>>
  /\ statsOn' = FALSE /\ traceOn' = FALSE /\ nextTrace' = 0 /\ subs' = <<>>
  /\ hnd' = [c \in Conns |-> {}] /\ closers' = {} /\ counts' = ZeroCounts /\ tracked' = Methods /\ sent' = 0
  /\ out' = [c \in Conns |-> <<>>]
  /\ ans' = [n \in 1..MaxMsgs |-> 0] /\ nEmit' = 0 /\ flowT' = 0 /\ nFire' = 0
  /\ lastE' = [n \in 1..MaxMsgs |-> 0] /\ lastF' = [n \in 1..MaxMsgs |-> 0] /\ dead' = {} /\ live' = {} /\ want' = ZeroCounts
  /\ unregBad' = FALSE /\ lateEvent' = FALSE /\ evBad' = FALSE /\ overflow' = FALSE
  /\ discReq' = {} /\ lastStats' = ZeroCounts /\ Adv

\* the mail reaches the object: send + dequeue + Tracer in one step (the queue order is the order of the tracer lines)
TTracer ==
  /\ Is("tracer") /\ Alive /\ stack = <<>> /\ T.n \in 1..MaxMsgs /\ ans[T.n] = 0
  /\ Tmpl(T.a, T.sig, T.u, T.b) \in FullAlphabet
  /\ T.stats = statsOn /\ T.trace = traceOn
  /\ TracerStep([F0 EXCEPT !.op = "tracer", !.n = T.n, !.c = T.c, !.a = T.a, !.sig = T.sig, !.u = T.u, !.b = T.b], <<>>)
  /\ T.next = nextTrace'
  /\ sent' = sent + 1
  /\ UNCHANGED <<conn, mbox, statsOn, traceOn, subs, hnd, closers, counts, tracked, out,
                 ans, nEmit, nFire, lastE, lastF, dead, live, want, unregBad, lateEvent, evBad>>
  /\ Keep /\ Adv

TTrace == Is("trace") /\ stack # <<>> /\ Top.k = T.kind /\ Top.a = T.slot /\ T.id = nextTrace /\ TraceEmit /\ Keep /\ Adv
TSkip == Is("trace_skip") /\ stack # <<>> /\ Top.k = T.kind /\ TraceSkip /\ Keep /\ Adv
TSnap == /\ Is("snapshot") /\ stack # <<>> /\ Top.sig = T.sig
         /\ T.size = Cardinality({i \in 1..Len(subs) : subs[i].sig = T.sig})
         /\ Snapshot /\ Keep /\ Adv
TSend == Is("send") /\ stack # <<>> /\ Top.u = T.u /\ Top.sig = T.sig /\ CtxSend /\ Keep /\ Adv
TStat == /\ Is("stat") /\ stack # <<>> /\ Top.a = T.a /\ T.ok = (Top.a \in tracked)
         /\ StatUpdate /\ T.cnt = counts'[T.a] /\ Keep /\ Adv
TMode == /\ Is("mode") /\ stack # <<>>
         /\ \/ Top.sig = SIG_T /\ ExecRegEnable
            \/ Top.a \in {A_ESTATS, A_ETRACE} /\ ExecModes
         /\ T.stats = statsOn' /\ T.trace = traceOn' /\ Keep /\ Adv
TClear == Is("clear") /\ stack # <<>> /\ Top.a = A_CLEAR /\ ExecModes /\ Keep /\ Adv
TAdd == /\ Is("add") /\ stack # <<>> /\ Top.u = T.u /\ Top.sig = T.sig /\ Top.c = T.c
        /\ RegAppend /\ T.size = Len(subs') /\ Keep /\ Adv
TAddDup == /\ Is("add_dup") /\ stack # <<>> /\ Top.u = T.u /\ (\E i \in 1..Len(subs) : subs[i].u = T.u)
           /\ RegCheck /\ Keep /\ Adv
TRemove == /\ Is("remove")
           /\ \/ stack # <<>> /\ Top.op = "exec" /\ Top.u = T.u /\ Top.c = T.c /\ Forget
              \/ Closer(T.c, T.u)
           /\ Len(subs') = Len(subs) - 1 /\ T.size = Len(subs') /\ Keep /\ Adv
TRemoveU == /\ Is("remove_unknown")
            /\ \/ stack # <<>> /\ Top.op = "exec" /\ Top.u = T.u /\ Top.c = T.c /\ Forget
               \/ stack # <<>> /\ Top.op = "unhandler" /\ Top.u = T.u /\ Top.u \in hnd[Top.c] /\ UnHandler
               \/ Closer(T.c, T.u)
            /\ subs' = subs /\ Keep /\ Adv
TDisc == Is("disc") /\ discReq' = discReq \cup {T.c} /\ UNCHANGED <<vars, lastStats>> /\ Adv
\* at rest: what the last stats() returned
CountOf(a) == IF \E i \in 1..Len(T.counts) : T.counts[i][1] = a
              THEN T.counts[CHOOSE i \in 1..Len(T.counts) : T.counts[i][1] = a][2] ELSE 0
TStatsRes == /\ Is("statsres") /\ stack = <<>>
             /\ \A a \in Ids : lastStats[a] = CountOf(a)
             /\ \A i \in 1..Len(T.counts) : T.counts[i][1] \in Ids
             /\ UNCHANGED <<vars, discReq, lastStats>> /\ Adv

\* steps of the code that have no hook
Silent ==
  /\ \/ /\ stack # <<>> /\ Top.op = "deliver" /\ Deliver
        /\ lastStats' = IF Top.a = A_STATS /\ Top.k = K_REPLY THEN Top.cnt ELSE lastStats
        /\ UNCHANGED discReq
     \/ /\ \/ Answer \/ ExecHello \/ ExecFire \/ RegMake
           \/ stack # <<>> /\ Top.a \in {A_ISSTATS, A_ISTRACE, A_STATS} /\ ExecModes
           \/ stack # <<>> /\ Top.sig # SIG_T /\ ExecRegEnable
           \/ stack # <<>> /\ Top.op = "regcheck" /\ ~(\E i \in 1..Len(subs) : subs[i].u = Top.u) /\ RegCheck
           \/ stack # <<>> /\ Top.op = "unhandler" /\ Top.u \notin hnd[Top.c] /\ UnHandler
           \/ \E c \in discReq : Disconnect(c)
        /\ Keep
  /\ UNCHANGED l

TNext == TReset \/ TTracer \/ TTrace \/ TSkip \/ TSnap \/ TSend \/ TStat \/ TMode \/ TClear \/ TAdd \/ TAddDup
         \/ TRemove \/ TRemoveU \/ TDisc \/ TStatsRes \/ Silent
AnsweredOnceT == \A n \in 1..MaxMsgs : ans[n] <= 1
TSpec == TInit /\ [][TNext]_tvars

Track == TLCSet(1, IF TLCGet(1) < l THEN l ELSE TLCGet(1))
Accepted == /\ PrintT(<<"HWM", TLCGet(1), TraceLen>>)
            /\ TLCGet(1) = TraceLen + 1
ASSUME TLCSet(1, 0)
=============================================================================
