SPECIFICATION TSpec
CONSTANTS
  Closers = {"c1", "c2"}
  Senders = {"s1", "s2"}
  Handlers = {"h1", "h2"}
  MaxIn = 100
  Permissive = TRUE
  LockFirst = FALSE
INVARIANTS TypeOK MutexHeldByOne
CONSTRAINT Track
POSTCONDITION Accepted
CHECK_DEADLOCK FALSE
