---------------------------- MODULE TraceProperty ----------------------------
(* C14 (c): linearizability of recorded concurrent histories against the
   sequential register Property.tla, and per-subscriber event accounting while
   the set of subscribers changes, decided by TLC.

   Trace (ndjson, one line per event, in the order of one process-wide counter):
     {"k":"inv",  "c":<client>, "op":{"k","n","kind","s"}}   call made
     {"k":"res",  "c":<client>, "r":{"e","sig","bytes"}}      call returned
     {"k":"ev",   "s":<subscriber>, "bytes":[...]}            change event received
     {"k":"close","s":<subscriber>}   the subscriber is about to close its connection
     {"k":"gone", "s":<subscriber>}   the server has forgotten that registration
                                      (hook event `remove`, emitted under signalsMutex)
     {"k":"end"}      every call has returned and every subscriber has been given
                      T_BOUND to receive its events
     {"k":"reset"}    a new history (fresh object) follows
   op.k = sub / unsub (op.s = the subscriber) are the registerEvent /
   unregisterEvent calls of a subscriber: inv = the request is made, res = its
   acknowledgement.

   Lin(c) - the linearization point of c's pending call (for a write: the moment
   it is accepted) - is an internal step placed by TLC anywhere between inv and
   res.  The accounting, as C14 states it, on what a history shows:
     * a subscriber whose subscription is acknowledged (res of sub seen) before the
       write is even requested (inv) - hence before it is accepted - is OWED the
       event (`must`), until it asks to leave (inv of unsub, close): from then on
       it may or may not receive it (`may`);
     * a subscriber whose (un)subscription overlaps the write's call - joining or
       leaving when the write is requested, or asking to join before the write's
       call has returned (the emission takes its snapshot somewhere before the
       return) - MAY receive it: no verdict;
     * nobody else may, and nobody receives the event of one write twice: an `ev`
       consumes a must / may entry of a write carrying these bytes, and an `ev`
       that finds none is not a behaviour of the specification (trace rejected:
       duplicated, foreign, rejected-write or never-subscribed event);
     * End demands that nothing is pending and that nothing is owed any more.
   (Entitlement is fixed at inv, not at the linearization point: it then does not
   depend on where TLC places Lin, and the search stays as small as without
   subscriber churn.  The window "acknowledged after the request but before the
   write was accepted" is decided exactly by the forced schedules, c14-churn.)
   The history is accepted iff TLC can consume the whole trace (high-water mark =
   length).

   Deviation known to the trace specification (TRUE = the pinned code, see
   PropertySteps.Dev_SendErrorFailsWrite): an accepted write whose call overlaps
   the disconnection of a subscriber (close .. gone) may return an error.  The
   check reports every such response as a failure of the real code (class
   history/accepted-write-reports-delivery-error).                            *)
EXTENDS Property, Json, IOUtils, TLCExt

CONSTANT Dev_SendErrorFailsWrite

(* The trace and everything derived from it is computed once, while TLC
   evaluates the ASSUME below, and kept in TLC registers (a definition over
   ndJsonDeserialize is re-evaluated at every use, i.e. the file is parsed again
   for every state).                                                          *)
RawLog == ndJsonDeserialize(IOEnv.TRACE)
Load ==
  LET log == RawLog
      n   == Len(log)
  IN /\ TLCSet(2, log)
     /\ TLCSet(3, n)
     /\ TLCSet(8, {log[i].c : i \in {j \in 1..n : log[j].k \in {"inv", "res"}}})
ASSUME Load

TraceLog == TLCGet(2)
N == TLCGet(3)
Clients == TLCGet(8)
\* constants of Property for trace validation.  (A constant substituted in the cfg
\* is re-evaluated at every use, so nothing here may depend on the trace.)
\* cfg: Valid <- ValidRange, Invalid <- InvalidRange, WrongKinds <- AllWrong,
\*      Subs = the subscriber names the harness uses
ValidRange   == 0..100000
InvalidRange == -100000..-1

VARIABLES
  l,        \* next line of the trace
  pend,     \* [Clients -> call in flight]: st, op, res (expected result, fixed by Lin),
            \*   acc (an accepted write), vb (its bytes), must / may / got (subscribers
            \*   owed / allowed / served the event of this write), cd (a subscriber
            \*   was disconnecting while the call was in flight)
  sst,      \* [Subs -> {"out","joining","in","leaving","closing"}]
  owe,      \* [Subs -> bag of bytes]: events of returned writes still owed
  mayb      \* [Subs -> bag of bytes]: events of returned writes that may still arrive
tvars == <<vars, l, pend, sst, owe, mayb>>

NoOp  == [k |-> "", n |-> 0, kind |-> "", s |-> ""]
Idle  == [st |-> "idle", op |-> NoOp, res |-> OK, acc |-> FALSE, vb |-> <<>>,
          must |-> {}, may |-> {}, got |-> {}, cd |-> FALSE]
EmptyBag == <<>>
BagAdd(B, b) == IF b \in DOMAIN B THEN [B EXCEPT ![b] = @ + 1] ELSE B @@ (b :> 1)
BagDel(B, b) == IF B[b] > 1 THEN [B EXCEPT ![b] = @ - 1]
                ELSE IF DOMAIN B = {b} THEN EmptyBag ELSE [x \in DOMAIN B \ {b} |-> B[x]]
BagSum(A, B) == [x \in DOMAIN A \cup DOMAIN B |->
                   (IF x \in DOMAIN A THEN A[x] ELSE 0) + (IF x \in DOMAIN B THEN B[x] ELSE 0)]

TInit == /\ Init /\ l = 1 /\ pend = [c \in Clients |-> Idle]
         /\ sst = [s \in Subs |-> "out"]
         /\ owe = [s \in Subs |-> EmptyBag] /\ mayb = [s \in Subs |-> EmptyBag]

Ev == TraceLog[l]
IsSubOp(op) == op.k \in {"sub", "unsub"}
Closing == \E s \in Subs : sst[s] = "closing"

\* s asks to leave: whatever it is still owed becomes optional
Downgrade(p, s) == [c \in Clients |-> IF s \in p[c].must
                                      THEN [p[c] EXCEPT !.must = @ \ {s}, !.may = @ \cup {s}] ELSE p[c]]
LeaveBags(s) == /\ owe' = [owe EXCEPT ![s] = EmptyBag]
                /\ mayb' = [mayb EXCEPT ![s] = BagSum(@, owe[s])]

\* the bytes of the event op emits if it is accepted (<<>>: it cannot be accepted)
CandBytes(op) ==
  CASE op.k \in {"set", "update"} -> IF op.n >= 0 THEN LE32(op.n) ELSE <<>>
    [] op.k = "setwrong" -> IF WrongTab[op.kind].conv # NoConv \/ Dev_ValidateByBytesOnly
                            THEN (IF WrongTab[op.kind].conv # NoConv THEN LE32(WrongTab[op.kind].conv)
                                  ELSE WrongTab[op.kind].bytes)
                            ELSE <<>>
    [] OTHER -> <<>>
IsWrite(op) == CandBytes(op) # <<>>

Inv == /\ l <= N /\ Ev.k = "inv"
       /\ pend[Ev.c].st = "idle"
       /\ LET new == [Idle EXCEPT !.st = "pending", !.op = Ev.op, !.cd = Closing] IN
          CASE Ev.op.k = "sub" ->
                 /\ sst[Ev.op.s] = "out"
                 /\ sst' = [sst EXCEPT ![Ev.op.s] = "joining"]
                 \* the writes in flight may still take their snapshot
                 /\ pend' = [c \in Clients |->
                               IF c = Ev.c THEN new
                               ELSE IF pend[c].st # "idle" /\ IsWrite(pend[c].op)
                                       /\ (pend[c].st = "pending" \/ pend[c].acc)
                                       /\ Ev.op.s \notin pend[c].got \cup pend[c].must
                                    THEN [pend[c] EXCEPT !.may = @ \cup {Ev.op.s}] ELSE pend[c]]
                 /\ UNCHANGED <<owe, mayb>>
            [] Ev.op.k = "unsub" ->
                 /\ sst[Ev.op.s] = "in"
                 /\ sst' = [sst EXCEPT ![Ev.op.s] = "leaving"]
                 /\ pend' = [Downgrade(pend, Ev.op.s) EXCEPT ![Ev.c] = new]
                 /\ LeaveBags(Ev.op.s)
            [] OTHER ->
                 /\ pend' = [pend EXCEPT ![Ev.c] =
                               IF IsWrite(Ev.op)
                               THEN [new EXCEPT !.must = {s \in Subs : sst[s] = "in"},
                                                !.may = {s \in Subs : sst[s] \in {"joining", "leaving"}}]
                               ELSE new]
                 /\ UNCHANGED <<sst, owe, mayb>>
       /\ l' = l + 1 /\ UNCHANGED vars

Apply(op) ==
  CASE op.k = "get"      -> Get
    [] op.k = "set"      -> IF op.n >= 0 THEN SetValid(op.n) ELSE SetInvalid(op.n)
    [] op.k = "update"   -> IF op.n >= 0 THEN Update(op.n) ELSE UpdateInvalid(op.n)
    [] op.k = "setwrong" -> SetWrong(op.kind)
    [] op.k = "setunknown" -> SetUnknown

\* A linearization point commutes with the invocations of other clients, so it
\* is only tried where it can matter: right before a response or an event (an
\* event pins the linearization point of its write, and the other calls must be
\* placeable on either side of it).
Lin(c) == /\ l <= N /\ Ev.k \in {"res", "ev"}
          /\ pend[c].st = "pending" /\ ~IsSubOp(pend[c].op)
          /\ Apply(pend[c].op)
          /\ LET acc == last'.w /\ ret'.e = "" IN
             pend' = [pend EXCEPT ![c].st = "done", ![c].res = ret', ![c].acc = acc,
                                  ![c].vb = IF acc THEN val'.bytes ELSE <<>>,
                                  ![c].must = IF acc THEN @ ELSE {},
                                  ![c].may = IF acc THEN @ ELSE {}]
          /\ UNCHANGED <<l, sst, owe, mayb>>

Res == /\ l <= N /\ Ev.k = "res"
       /\ LET p == pend[Ev.c] IN
          IF IsSubOp(p.op)
          THEN /\ p.st = "pending" /\ Ev.r.e = ""
               /\ sst' = [sst EXCEPT ![p.op.s] = IF p.op.k = "sub" THEN "in" ELSE "out"]
               /\ UNCHANGED <<owe, mayb>>
          ELSE /\ p.st = "done"
               /\ \/ p.res = Ev.r
                  \/ /\ Dev_SendErrorFailsWrite /\ p.acc /\ p.cd /\ Ev.r = Err
                     /\ p.op.k \in {"set", "update"}      \* (a wrongly-typed write that fails was rejected)
               /\ owe' = [s \in Subs |-> IF s \in p.must THEN BagAdd(owe[s], p.vb) ELSE owe[s]]
               /\ mayb' = [s \in Subs |-> IF s \in p.may THEN BagAdd(mayb[s], p.vb) ELSE mayb[s]]
               /\ UNCHANGED sst
       /\ pend' = [pend EXCEPT ![Ev.c] = Idle]
       /\ l' = l + 1 /\ UNCHANGED vars

\* an event received by subscriber s: one entry of a write carrying these bytes
Event == /\ l <= N /\ Ev.k = "ev"
         /\ LET s == Ev.s
                b == Ev.bytes
            IN \/ \E c \in Clients :
                    /\ pend[c].st = "done" /\ pend[c].acc /\ pend[c].vb = b
                    /\ s \in pend[c].must \cup pend[c].may
                    /\ pend' = [pend EXCEPT ![c].must = @ \ {s}, ![c].may = @ \ {s}, ![c].got = @ \cup {s}]
                    /\ UNCHANGED <<owe, mayb>>
               \/ /\ b \in DOMAIN owe[s]
                  /\ owe' = [owe EXCEPT ![s] = BagDel(@, b)]
                  /\ UNCHANGED <<pend, mayb>>
               \/ /\ b \notin DOMAIN owe[s] /\ b \in DOMAIN mayb[s]
                  /\ mayb' = [mayb EXCEPT ![s] = BagDel(@, b)]
                  /\ UNCHANGED <<pend, owe>>
         /\ l' = l + 1 /\ UNCHANGED <<vars, sst>>

\* the subscriber closes its connection (logged before the close)
Close == /\ l <= N /\ Ev.k = "close"
         /\ sst[Ev.s] = "in"
         /\ sst' = [sst EXCEPT ![Ev.s] = "closing"]
         /\ pend' = [c \in Clients |-> IF pend[c].st = "idle" THEN pend[c]
                                       ELSE [Downgrade(pend, Ev.s)[c] EXCEPT !.cd = TRUE]]
         /\ LeaveBags(Ev.s)
         /\ l' = l + 1 /\ UNCHANGED vars
\* the server has removed the registration of the closed connection
Gone == /\ l <= N /\ Ev.k = "gone"
        /\ sst[Ev.s] = "closing"
        /\ sst' = [sst EXCEPT ![Ev.s] = "out"]
        /\ l' = l + 1 /\ UNCHANGED <<vars, pend, owe, mayb>>

End == /\ l <= N /\ Ev.k = "end"
       /\ \A c \in Clients : pend[c].st = "idle"
       /\ \A s \in Subs : owe[s] = EmptyBag
       /\ l' = l + 1 /\ UNCHANGED <<vars, pend, sst, owe, mayb>>

Reset == /\ l <= N /\ Ev.k = "reset"
         /\ val' = [set |-> FALSE, sig |-> "", bytes |-> NoBytes]
         /\ writes' = <<>> /\ subscribed' = [s \in Subs |-> FALSE]
         /\ since' = [s \in Subs |-> 0] /\ events' = [s \in Subs |-> <<>>]
         /\ ret' = OK /\ last' = [k |-> "init", w |-> FALSE]
         /\ pend' = [c \in Clients |-> Idle] /\ sst' = [s \in Subs |-> "out"]
         /\ owe' = [s \in Subs |-> EmptyBag] /\ mayb' = [s \in Subs |-> EmptyBag]
         /\ l' = l + 1

TNext == Inv \/ Res \/ Event \/ Close \/ Gone \/ End \/ Reset \/ \E c \in Clients : Lin(c)
TSpec == TInit /\ [][TNext]_tvars

\* What the rest of a history can depend on: the register, who listens, which
\* events are still owed / allowed, the position and the calls in flight.  The
\* order of the past writes is history; hiding it lets TLC merge the
\* linearizations that differ only there.
TView == <<val, sst, owe, mayb, l, pend>>

\* high-water mark of consumed events (cfg: CONSTRAINT Track, POSTCONDITION Accepted)
Track    == TLCSet(1, IF TLCGet(1) < l THEN l ELSE TLCGet(1))
\* cfg: POSTCONDITION Report - always true, prints the mark; the trace is accepted
\* iff the mark is N + 1 (a failing POSTCONDITION would be a TLC error for the
\* framework's runner, and the position is needed anyway)
Report   == PrintT(<<"HWM", TLCGet(1), N>>)
Accepted == TLCGet(1) = N + 1
ASSUME TLCSet(1, 0)

\* Fast path: with the depth-first queue TLC stops at the first complete
\* consumption of the trace when "not yet accepted" is given as an invariant
\* (cfg TraceProperty_fast: its violation means ACCEPTED; the alias keeps the
\* printed witness small).  A run that ends without that violation is re-run
\* with the high-water mark to locate the first event that cannot be explained.
NotAccepted == l <= N
Tiny == [l |-> l]
=============================================================================
