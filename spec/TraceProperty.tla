---------------------------- MODULE TraceProperty ----------------------------
(* C14 (c): linearizability of recorded concurrent histories against the
   sequential register Property.tla, decided by TLC.

   Trace (ndjson, one line per event, in the order of one process-wide counter):
     {"k":"inv",  "c":<client>, "op":{"k","n","kind","s"}}   call made
     {"k":"res",  "c":<client>, "r":{"e","sig","bytes"}}      call returned
     {"k":"ev",   "s":<subscriber>, "bytes":[...]}            change event received
     {"k":"end"}      every call has returned and every subscriber has been given
                      T_BOUND to receive its events
     {"k":"reset"}    a new history (fresh object) follows
   Lin(c) - the linearization point of c's pending call - is an internal step
   placed by TLC anywhere between inv and res; Ev(s) consumes one not yet
   consumed event of the subscriber's log; End demands that nothing is pending
   and that every event of every accepted write has been received.  The history
   is accepted iff TLC can consume the whole trace (high-water mark = length). *)
EXTENDS Property, Json, IOUtils, TLCExt

(* The trace and everything derived from it is computed once, while TLC
   evaluates the ASSUME below, and kept in TLC registers (a definition over
   ndJsonDeserialize is re-evaluated at every use, i.e. the file is parsed again
   for every state).                                                          *)
RawLog == ndJsonDeserialize(IOEnv.TRACE)
Load ==
  LET log == RawLog
      n   == Len(log)
  IN /\ TLCSet(2, log)
     /\ TLCSet(3, n)
     /\ TLCSet(8, {log[i].c : i \in {j \in 1..n : log[j].k \in {"inv", "res"}}})
ASSUME Load

TraceLog == TLCGet(2)
N == TLCGet(3)
Clients == TLCGet(8)
\* constants of Property for trace validation.  (A constant substituted in the cfg
\* is re-evaluated at every use, so nothing here may depend on the trace.)
\* cfg: Valid <- ValidRange, Invalid <- InvalidRange, WrongKinds <- AllWrong,
\*      Subs = the subscriber names the harness uses
ValidRange   == 0..100000
InvalidRange == -100000..-1

VARIABLES l, pend, used
tvars == <<vars, l, pend, used>>

NoOp  == [k |-> "", n |-> 0, kind |-> "", s |-> ""]
Idle  == [st |-> "idle", op |-> NoOp, res |-> OK]

TInit == Init /\ l = 1 /\ pend = [c \in Clients |-> Idle] /\ used = [s \in Subs |-> {}]

Ev == TraceLog[l]

Inv == /\ l <= N /\ Ev.k = "inv"
       /\ pend[Ev.c].st = "idle"
       /\ pend' = [pend EXCEPT ![Ev.c] = [st |-> "pending", op |-> Ev.op, res |-> OK]]
       /\ l' = l + 1 /\ UNCHANGED <<vars, used>>

Apply(op) ==
  CASE op.k = "get"      -> Get
    [] op.k = "set"      -> IF op.n >= 0 THEN SetValid(op.n) ELSE SetInvalid(op.n)
    [] op.k = "update"   -> IF op.n >= 0 THEN Update(op.n) ELSE UpdateInvalid(op.n)
    [] op.k = "setwrong" -> SetWrong(op.kind)
    [] op.k = "setunknown" -> SetUnknown
    [] op.k = "sub"      -> Subscribe(op.s)
    [] op.k = "unsub"    -> Unsubscribe(op.s)

\* A linearization point commutes with the invocations of other clients, so it
\* is only tried where it can matter: right before a response or an event.
Lin(c) == /\ l <= N /\ Ev.k \in {"res", "ev"}
          /\ pend[c].st = "pending"
          /\ Apply(pend[c].op)
          /\ pend' = [pend EXCEPT ![c].st = "done", ![c].res = ret']
          /\ used' = IF pend[c].op.k = "sub" THEN [used EXCEPT ![pend[c].op.s] = {}] ELSE used
          /\ UNCHANGED l

Res == /\ l <= N /\ Ev.k = "res"
       /\ pend[Ev.c].st = "done"
       /\ pend[Ev.c].res = Ev.r
       /\ pend' = [pend EXCEPT ![Ev.c] = Idle]
       /\ l' = l + 1 /\ UNCHANGED <<vars, used>>

\* an event received by subscriber s: one not yet consumed entry of its log
Unused(s, b) == {i \in 1..Len(events[s]) : i \notin used[s] /\ events[s][i].bytes = b}
Event == /\ l <= N /\ Ev.k = "ev"
         /\ Unused(Ev.s, Ev.bytes) # {}
         /\ used' = [used EXCEPT ![Ev.s] = @ \cup {CHOOSE i \in Unused(Ev.s, Ev.bytes) :
                                                     \A j \in Unused(Ev.s, Ev.bytes) : i <= j}]
         /\ l' = l + 1 /\ UNCHANGED <<vars, pend>>

End == /\ l <= N /\ Ev.k = "end"
       /\ \A c \in Clients : pend[c].st = "idle"
       /\ \A s \in Subs : used[s] = 1..Len(events[s])
       /\ l' = l + 1 /\ UNCHANGED <<vars, pend, used>>

Reset == /\ l <= N /\ Ev.k = "reset"
         /\ val' = [set |-> FALSE, sig |-> "", bytes |-> NoBytes]
         /\ writes' = <<>> /\ subscribed' = [s \in Subs |-> FALSE]
         /\ since' = [s \in Subs |-> 0] /\ events' = [s \in Subs |-> <<>>]
         /\ ret' = OK /\ last' = [k |-> "init", w |-> FALSE]
         /\ pend' = [c \in Clients |-> Idle] /\ used' = [s \in Subs |-> {}]
         /\ l' = l + 1

TNext == Inv \/ Res \/ Event \/ End \/ Reset \/ \E c \in Clients : Lin(c)
TSpec == TInit /\ [][TNext]_tvars

\* What the rest of a history can depend on: the register, who listens, which
\* events are still owed to each subscriber (a bag), the position and the pending
\* calls.  The order of the past writes is history; hiding it lets TLC merge the
\* linearizations that differ only there.
Owed(s) == LET U == {i \in 1..Len(events[s]) : i \notin used[s]}
           IN  [b \in {events[s][i].bytes : i \in U} |-> Cardinality({i \in U : events[s][i].bytes = b})]
TView == <<val, subscribed, [s \in Subs |-> Owed(s)], l, pend>>

\* high-water mark of consumed events (cfg: CONSTRAINT Track, POSTCONDITION Accepted)
Track    == TLCSet(1, IF TLCGet(1) < l THEN l ELSE TLCGet(1))
\* cfg: POSTCONDITION Report - always true, prints the mark; the trace is accepted
\* iff the mark is N + 1 (a failing POSTCONDITION would be a TLC error for the
\* framework's runner, and the position is needed anyway)
Report   == PrintT(<<"HWM", TLCGet(1), N>>)
Accepted == TLCGet(1) = N + 1
ASSUME TLCSet(1, 0)

\* Fast path: with the depth-first queue TLC stops at the first complete
\* consumption of the trace when "not yet accepted" is given as an invariant
\* (cfg TraceProperty_fast: its violation means ACCEPTED; the alias keeps the
\* printed witness small).  A run that ends without that violation is re-run
\* with the high-water mark to locate the first event that cannot be explained.
NotAccepted == l <= N
Tiny == [l |-> l]
=============================================================================
