SPECIFICATION Spec
CONSTANTS
  Universe = "quick"
  MapOrder = {}
  LastChanceAny = {}
  WalkSorted = TRUE
  AssumeUserRange = FALSE
INVARIANTS FullKeepsIdsUnique
CHECK_DEADLOCK FALSE
