SPECIFICATION Spec
CONSTANTS
  Universe = "quick"
  MapOrder = {}
  LastChanceAny = {}
  WalkSorted = TRUE
  AssumeUserRange = FALSE
  QueryTypes = {"full"}
INVARIANTS FullKeepsIdsUnique
CHECK_DEADLOCK FALSE
