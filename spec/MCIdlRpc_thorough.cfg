SPECIFICATION RSpec
CONSTANTS
  Pool = "c"
  MaxActions = 2
  MaxOps = 3
INVARIANTS RTypeOK UniqueIds SigsInGrammar TupleShaped Consistent AtMostOneSpecial OnlyCarriable SubsConsistent GetSeesLastSet DeliveredIffSubscribed
CHECK_DEADLOCK FALSE
