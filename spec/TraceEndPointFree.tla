------------------------- MODULE TraceEndPointFree -------------------------
(***************************************************************************)
(* Trace validation of EndPoint against executions that were NOT driven by *)
(* the endpoint harness: the repository's own tests and every other        *)
(* check's runs, recorded through the vhook events of bus/net/endpoint.go   *)
(* alone.  What the harness logs in TraceEndPoint.tla is not available     *)
(* here and is left to TLC:                                                 *)
(*   - the verdict (matched, keep) of each filter call: silent Visit steps, *)
(*     guided by the next logged event of the dispatch (deliver / blocked / *)
(*     selfremove name the slot they happen at; `dispatched` means every    *)
(*     remaining live handler declined);                                    *)
(*   - queue capacities and consumer progress: every queue is given room,   *)
(*     and `blocked` is accepted without the capacity guard.                *)
(* Everything else is the specification's action with the logged arguments: *)
(* the slot MakeHandler returns and the table length after it, the slot and *)
(* handler of every removal, the slot order of deliveries and detachments,  *)
(* closer before queue close, each at most once, nothing delivered to a     *)
(* handler that is closing or closed.                                       *)
(* One file holds the traces of many endpoints, separated by "reset".       *)
(* Fields (all numeric, -1 = absent): ev, slot (0-based), h, m, err, len.   *)
(***************************************************************************)
EXTENDS EndPoint, Json, IOUtils, TLCExt

ASSUME TLCSet(2, ndJsonDeserialize(IOEnv.TRACE))
TraceLog == TLCGet(2)
ASSUME TLCSet(3, Len(TraceLog))
TraceLen == TLCGet(3)

CONSTANT MaxHandlers
HandlerRange == 1..MaxHandlers
Room == 1000000          \* capacity given to every queue: deliveries never lack room

VARIABLE l
tvars == <<vars, l>>

TInit == Init /\ l = 1

E == TraceLog[l]
Is(name) == l <= TraceLen /\ E.ev = name /\ l' = l + 1
Peek(names) == l <= TraceLen /\ E.ev \in names

TMake == /\ Is("make")
         /\ MakeHandler(E.h, Room) /\ res' = E.slot + 1
         /\ Len(slots') = E.len

TRemove == Is("remove") /\ RemoveBegin(E.slot + 1) /\ mu'.h = E.h
TRemoveErr == Is("remove_err") /\ RemoveErr(E.slot + 1)
TRemoved == Is("removed") /\ mu.op = "remove" /\ mu.slot = E.slot + 1 /\ RemoveEnd
TCloser == Is("closer") /\ (SyncCloser(E.h) \/ AsyncCloser(E.h))
TQClose == Is("qclose") /\ (SyncQClose(E.h) \/ AsyncQClose(E.h))

TDispatch == Is("dispatch") /\ proc = "reading" /\ DispatchStart(E.m)

\* silent filter calls, guided by the next logged event
Scanning == mu.op = "dispatch" /\ mu.stage = "scan" /\ NextLive(mu.slot) # 0
SDecline ==      \* (matched, keep) = (FALSE, TRUE): the handler is not concerned
  /\ Scanning
  /\ \/ Peek({"dispatched"})
     \/ Peek({"deliver", "blocked", "selfremove"}) /\ NextLive(mu.slot) < E.slot + 1
  /\ Visit(slots[NextLive(mu.slot)], FALSE, TRUE)
  /\ UNCHANGED l
SMatch ==        \* matched; keep is decided by what follows the delivery
  /\ Scanning /\ Peek({"deliver", "blocked"}) /\ NextLive(mu.slot) = E.slot + 1
  /\ slots[NextLive(mu.slot)] = E.h
  /\ \E keep \in BOOLEAN : Visit(E.h, TRUE, keep)
  /\ UNCHANGED l
SLeave ==        \* (FALSE, FALSE): not matched and not kept
  /\ Scanning /\ Peek({"selfremove"}) /\ NextLive(mu.slot) = E.slot + 1
  /\ slots[NextLive(mu.slot)] = E.h
  /\ Visit(E.h, FALSE, FALSE)
  /\ UNCHANGED l

TDeliver == Is("deliver") /\ cur = E.m /\ mu.op = "dispatch" /\ mu.slot = E.slot + 1 /\ Deliver(E.h)
\* Blocked without its capacity guard (capacities are not logged)
TBlocked == /\ Is("blocked") /\ cur = E.m
            /\ mu.op = "dispatch" /\ mu.stage = "enq" /\ mu.h = E.h /\ mu.slot = E.slot + 1
            /\ AfterEnq
            /\ UNCHANGED <<slots, hst, delivered, taken, cap, closerN, closeN, stream, inbox, res>>
TSelfRemove == Is("selfremove") /\ mu.op = "dispatch" /\ mu.slot = E.slot + 1 /\ SelfRemove(E.h)
TDispatched == Is("dispatched") /\ mu = Free /\ UNCHANGED vars

TReadErr == /\ Is("read_err") /\ proc = "reading" /\ proc' = "closing" /\ stream' = "closed"
            /\ UNCHANGED <<slots, hst, delivered, taken, cap, closerN, closeN, mu, inbox, cur, res>>
TShutdown == /\ Is("shutdown")
             /\ IF E.err = 1 /\ proc = "closing" THEN ProcShutdown ELSE ShutdownBegin
TDetach == Is("detach") /\ NextLive(0) = E.slot + 1 /\ Detach(E.h)

TReset == /\ Is("reset")
          /\ slots' = [i \in 1..InitSlots |-> NULL]
          /\ hst' = [h \in Handlers |-> "unreg"] /\ delivered' = [h \in Handlers |-> <<>>]
          /\ taken' = [h \in Handlers |-> 0] /\ cap' = [h \in Handlers |-> 0]
          /\ closerN' = [h \in Handlers |-> 0] /\ closeN' = [h \in Handlers |-> 0]
          /\ stream' = "open" /\ mu' = Free /\ proc' = "reading" /\ inbox' = <<>> /\ cur' = NULL
          /\ res' = ResNone

TNext == \/ TMake \/ TRemove \/ TRemoveErr \/ TRemoved \/ TCloser \/ TQClose
         \/ TDispatch \/ SDecline \/ SMatch \/ SLeave
         \/ TDeliver \/ TBlocked \/ TSelfRemove \/ TDispatched
         \/ TReadErr \/ TShutdown \/ TDetach \/ TReset

TSpec == TInit /\ [][TNext]_tvars

\* the action properties of EndPoint, on every step but the "reset" between two endpoints' traces
NotReset == l <= TraceLen /\ TraceLog[l].ev # "reset"
NoDeliveryAfterCloseT ==
  [][NotReset => \A h \in Handlers : delivered'[h] # delivered[h] => (hst[h] = "live" /\ closeN[h] = 0)]_tvars
NoSlotStealingT ==
  [][NotReset => \A i \in 1..Len(slots) : (slots[i] # NULL /\ i <= Len(slots') /\ slots'[i] # slots[i]) => slots'[i] = NULL]_tvars

Track == TLCSet(1, IF TLCGet(1) < l THEN l ELSE TLCGet(1))
InitMark == TLCSet(1, 0)
ASSUME InitMark
Accepted == IF TLCGet(1) = TraceLen + 1 THEN TRUE
            ELSE /\ PrintT(<<"REJECTED", ToJson([line |-> TLCGet(1), event |-> TraceLog[TLCGet(1)]])>>)
                 /\ FALSE
=============================================================================
