SPECIFICATION Spec
CONSTANTS
  MaxDepth = 2
  SibSet = "two"
  NameSet = "two"
  ExportWide = TRUE
  ExportNear = TRUE
INVARIANTS Export
CHECK_DEADLOCK FALSE
