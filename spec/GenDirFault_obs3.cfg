SPECIFICATION GSpec
CONSTANTS
  Names = {"a"}
  MaxId = 3
  BadKinds = {"noname"}
  Eps = {}
  UpdKinds = {"ok"}
  ObsSeq <- Obs3
  WithBreak = TRUE
  WithDrop = TRUE
  WithStall = FALSE
  WithReads = TRUE
  WithPlans = TRUE
  SeqMode = FALSE
  MaxLen = 99
  Dev_ReturnSendError = FALSE
  Dev_RollbackOnSendError = FALSE
  Dev_EmitThenCommit = FALSE
  Dev_StopAtFirstError = FALSE
  Dev_ResendOnError = FALSE
  Dev_LiveTable = FALSE
VIEW View
INVARIANTS OutcomeIsSequential StateIsSequential HealthyObserversSeeEveryTransitionOnce EveryObserverSeesAPrefix
CHECK_DEADLOCK FALSE
