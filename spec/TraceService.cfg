SPECIFICATION TSpec
CONSTANTS
  MaxInst = 8
  MaxExec = 99
  MaxEmit = 99
  Subs = {}
  Dev_BoxKeptAfterRemove = FALSE
  Dev_IdZeroAfterMainRemoved = FALSE
  Dev_TerminateKeepsObjects = FALSE
  Dev_FailedAddLeavesEntry = FALSE
  ClientSide = FALSE
  Dev_ClientRemoveKeepsEntry = FALSE
  Dev_ClientLateCallDropped = FALSE
CONSTRAINT Track
INVARIANTS UniqueLiveIds TerminateHookExactlyOnce NoCrash
POSTCONDITION Accepted
CHECK_DEADLOCK FALSE
