SPECIFICATION Spec
CONSTANTS
  Universe = "quick"
  MapOrder = {"m", "s", "p"}
  LastChanceAny = {"m", "s", "p"}
  WalkSorted = TRUE
  AssumeUserRange = TRUE
  QueryTypes = {}
INVARIANTS OwnActionReachable
CHECK_DEADLOCK FALSE
