SPECIFICATION GSpec
CONSTANTS
  Handlers = {1, 2}
  Subs = {1, 2}
  Msgs = {11, 19, 21}
  InitSlots = 2
  Designs = {TRUE, FALSE}
  StaleOnClosed = FALSE
VIEW View
INVARIANTS TypeOK
CHECK_DEADLOCK FALSE
