------------------------------ MODULE Directory ------------------------------
(* Sequential specification of the service directory
   (bus/directory/directory.go, type serviceDirectory, l.14-160).

   One action per exported method; each action is the whole method body, i.e.
   the specification is what every concurrent history has to be equivalent to
   (C15).  The remote path (ServiceDirectory proxy -> mailbox -> stub ->
   method) and the local path (directoryNamespace.Reserve / Enable / Remove /
   Resolve, directorySession.Proxy -> the same methods, called directly from
   the caller's goroutine) both end in these methods:

     Register(n, k)        RegisterService(info)     l.92-110   (Reserve)
     Ready(id)             ServiceReady(id)          l.130-142  (Enable)
     Unregister(id)        UnregisterService(id)     l.112-128  (Remove)
     Update(id, n, k, ep)  UpdateServiceInfo(info)   l.144-160
     Lookup(n)             Service(name)             l.68-75    (Resolve)
     List                  Services()                l.83-90

   State right after directory.NewServer: the directory registered itself
   through Server.NewService("ServiceDirectory") = Reserve + Enable, so id 1 is
   ready, lastID = 1 and one serviceAdded(1) was emitted before anybody could
   subscribe.

   `life` is a history variable (what ever happened to an identifier); the
   invariants of the property are stated over it.  `ret` is the value returned
   by the last operation, type-uniform: [e: error class, v: id, l: set of
   visible infos].                                                          *)
EXTENDS Naturals, Sequences, FiniteSets, TLC

CONSTANTS Names,     \* service names used by clients (the directory's own name is added)
          MaxId,     \* bound on identifiers (lastID <= MaxId)
          BadKinds,  \* kinds of malformed ServiceInfo used (subset of AllBadKinds)
          Eps        \* endpoint payloads an update may carry

SD == "ServiceDirectory"
AllNames == Names \cup {SD}
AllBadKinds == {"noname", "nomachine", "nopid", "noep", "emptyep"}  \* checkServiceInfo l.39-58
ASSUME BadKinds \subseteq AllBadKinds
Kinds == {"ok"} \cup BadKinds

VARIABLES staging,   \* id -> [name, ep]   reserved, not yet visible
          services,  \* id -> [name, ep]   ready = visible
          lastID,
          events,    \* sequence of [k, id, n]: the serviceAdded / serviceRemoved signals emitted
          ret,
          life       \* id -> "staged" | "ready" | "goneS" | "goneR"   (history)
vars == <<staging, services, lastID, events, ret, life>>

Info(i, f) == [id |-> i, name |-> f[i].name, ep |-> f[i].ep]
Listing == {Info(i, services) : i \in DOMAIN services}
R(e, v) == [e |-> e, v |-> v, l |-> {}]
NamesOf(f) == {f[i].name : i \in DOMAIN f}
Without(f, i) == [x \in DOMAIN f \ {i} |-> f[x]]
With(f, i, v) == [x \in DOMAIN f \cup {i} |-> IF x = i THEN v ELSE f[x]]
Ev(k, i, n) == [k |-> k, id |-> i, n |-> n]

Init == /\ staging = [i \in {} |-> [name |-> SD, ep |-> "e1"]]
        /\ services = [i \in {1} |-> [name |-> SD, ep |-> "e1"]]
        /\ lastID = 1
        /\ events = <<Ev("added", 1, SD)>>
        /\ ret = R("", 0)
        /\ life = [i \in {1} |-> "ready"]

Unchanged == UNCHANGED <<staging, services, lastID, events, life>>

(* RegisterService: malformed info refused first, then the name must be free
   among staged AND ready services, then the next identifier is handed out. *)
Register(n, k) ==
  IF k # "ok" THEN ret' = R("invalid", 0) /\ Unchanged
  ELSE IF n \in NamesOf(staging) \cup NamesOf(services)
    THEN ret' = R("name", 0) /\ Unchanged
    ELSE /\ lastID < MaxId
         /\ lastID' = lastID + 1
         /\ staging' = With(staging, lastID', [name |-> n, ep |-> "e1"])
         /\ life' = With(life, lastID', "staged")
         /\ ret' = R("", lastID')
         /\ UNCHANGED <<services, events>>

Ready(id) ==
  IF id \in DOMAIN staging
    THEN /\ services' = With(services, id, staging[id])
         /\ staging' = Without(staging, id)
         /\ events' = Append(events, Ev("added", id, staging[id].name))
         /\ life' = [life EXCEPT ![id] = "ready"]
         /\ ret' = R("", 0)
         /\ UNCHANGED lastID
    ELSE ret' = R("notfound", 0) /\ Unchanged

Unregister(id) ==
  IF id \in DOMAIN services
    THEN /\ services' = Without(services, id)
         /\ events' = Append(events, Ev("removed", id, services[id].name))
         /\ life' = [life EXCEPT ![id] = "goneR"]
         /\ ret' = R("", 0)
         /\ UNCHANGED <<staging, lastID>>
    ELSE IF id \in DOMAIN staging
      THEN /\ staging' = Without(staging, id)
           /\ life' = [life EXCEPT ![id] = "goneS"]
           /\ ret' = R("", 0)
           /\ UNCHANGED <<services, lastID, events>>
      ELSE ret' = R("notfound", 0) /\ Unchanged

(* UpdateServiceInfo: only ready services, the name must be the registered one. *)
Update(id, n, k, ep) ==
  IF k # "ok" THEN ret' = R("invalid", 0) /\ Unchanged
  ELSE IF id \notin DOMAIN services THEN ret' = R("notfound", 0) /\ Unchanged
  ELSE IF services[id].name # n THEN ret' = R("name", 0) /\ Unchanged
  ELSE /\ services' = [services EXCEPT ![id].ep = ep]
       /\ ret' = R("", 0)
       /\ UNCHANGED <<staging, lastID, events, life>>

Lookup(n) ==
  /\ ret' = IF n \in NamesOf(services)
              THEN LET i == CHOOSE j \in DOMAIN services : services[j].name = n
                   IN [e |-> "", v |-> i, l |-> {Info(i, services)}]
              ELSE R("notfound", 0)
  /\ Unchanged

List == ret' = [e |-> "", v |-> 0, l |-> Listing] /\ Unchanged

Ids == 0..MaxId + 1   \* 0 and MaxId+1 are never issued: "unknown id" arguments

Next == \/ \E n \in AllNames, k \in Kinds : Register(n, k)
        \/ \E id \in Ids : Ready(id) \/ Unregister(id)
        \/ \E id \in Ids, n \in AllNames, k \in Kinds, ep \in Eps : Update(id, n, k, ep)
        \/ \E n \in AllNames : Lookup(n)
        \/ List
Spec == Init /\ [][Next]_vars

-----------------------------------------------------------------------------
(* The property (C15), as invariants / action properties of the sequential
   specification.                                                            *)

TypeOK == /\ lastID \in 1..MaxId
          /\ DOMAIN life = 1..lastID
          /\ DOMAIN staging \subseteq 1..lastID /\ DOMAIN services \subseteq 1..lastID
          /\ ret.e \in {"", "invalid", "name", "notfound"}

\* identifiers are assigned strictly increasing and never reused
IdsStrictlyIncreasingNeverReused ==
  [][/\ lastID' >= lastID
     /\ \A i \in DOMAIN life : i \in DOMAIN life'                      \* an id once issued stays issued
     /\ \A i \in DOMAIN life' \ DOMAIN life : i = lastID' /\ lastID' = lastID + 1 /\ ret'.v = i
     /\ \A i \in DOMAIN life : life[i] \in {"goneS", "goneR"} => life'[i] = life[i]]_vars

\* a name is held by at most one registered service (staged or ready)
NameHeldByAtMostOne ==
  /\ DOMAIN staging \cap DOMAIN services = {}
  /\ \A i, j \in DOMAIN staging \cup DOMAIN services :
       LET nm(x) == IF x \in DOMAIN staging THEN staging[x].name ELSE services[x].name
       IN i # j => nm(i) # nm(j)

\* visible to lookup and list exactly from ready until unregister
VisibleIffReady ==
  /\ \A i \in DOMAIN life : (i \in DOMAIN services) <=> (life[i] = "ready")
  /\ \A i \in DOMAIN life : (i \in DOMAIN staging) <=> (life[i] = "staged")
  /\ \A x \in ret.l : x.id \in DOMAIN services /\ services[x.id].name = x.name

\* updates cannot change a service's name or identity
UpdateKeepsNameAndId ==
  [][\A i \in DOMAIN life :
        LET nm(st, sv) == IF i \in DOMAIN st THEN st[i].name ELSE sv[i].name
        IN (i \in (DOMAIN staging \cup DOMAIN services) /\ i \in (DOMAIN staging' \cup DOMAIN services'))
             => nm(staging, services) = nm(staging', services')]_vars

\* serviceAdded / serviceRemoved exactly once per transition, in that order
EventsOf(i) == SelectSeq(events, LAMBDA e : e.id = i)
EventsOncePerTransitionInOrder ==
  \A i \in DOMAIN life :
     LET es == EventsOf(i) IN
       CASE life[i] \in {"staged", "goneS"} -> es = <<>>
         [] life[i] = "ready" -> Len(es) = 1 /\ es[1].k = "added"
         [] life[i] = "goneR" -> /\ Len(es) = 2 /\ es[1].k = "added" /\ es[2].k = "removed"
                                 /\ es[1].n = es[2].n
=============================================================================
