SPECIFICATION Spec
CONSTANTS
  Users = {"u1", "u2"}
  Conns = {"cA", "cB"}
  MaxLen = 3
  Variant = "checkFirst"
  Disconnects = {"cA"}
INVARIANTS NoSelfDeadlock NoBlockingUnderS TableConsistent
PROPERTIES ObjectKeepsServing
