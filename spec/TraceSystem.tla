----------------------------- MODULE TraceSystem -----------------------------
(***************************************************************************)
(* Trace validation for C04 (code -> spec): is a recorded execution of the *)
(* real code a behaviour of System.tla?                                    *)
(*                                                                         *)
(* The trace (ndjson, path in the environment variable TRACE) starts with  *)
(* a "config" record (calls, raw frames, connections, objects) followed by *)
(* events ordered by the process-wide sequence counter of vhook:           *)
(*   call k / raw t       harness: a goroutine is about to call / to write *)
(*   sdisp c ... res      server end point read and dispatched a frame:      *)
(*                        res = deliver | nomatch | blocked.  "blocked" is  *)
(*                        the DROP step of a saturated end point (consumer  *)
(*                        queue full): the frame is gone; a Call is answered *)
(*                        by one Error frame carrying its id, written by the *)
(*                        reader goroutine in the same step, a Post by none  *)
(*   fw c id              consumer goroutine took a message (firewall)      *)
(*   recv o ... / done o  mailbox goroutine took a mail / Receive returned  *)
(*   exec_begin o k / exec_end o k   the method body (harness code)         *)
(*   cdisp c ...          client end point read and dispatched a frame      *)
(*   ret k kind val       the call returned to the harness                  *)
(* Steps without an event are silent: id allocation, handler registration  *)
(* and the stream write of a call, the write of a raw frame, the consumer's *)
(* routing step, the stub's paths that do not reach the method, the stream  *)
(* write of a response.  TLC searches for an interleaving of silent steps   *)
(* that explains the whole trace; all invariants of System.tla are checked  *)
(* on the way.                                                              *)
(***************************************************************************)
EXTENDS System, Json, IOUtils

(* the file is parsed once, into a TLC register (a plain definition would be
   re-evaluated - the file re-read - at every use); run with -workers 1 *)
ASSUME TLCSet(2, ndJsonDeserialize(IOEnv.TRACE))
TraceLog == TLCGet(2)
ASSUME TLCSet(3, Len(TraceLog))
NEv == TLCGet(3)
(* the constants of System.tla come from the trace's "config" record; constants are
   substituted before any ASSUME is evaluated, so that record is read from a one-line
   file of its own (CONFIG) - cheap even if read more than once *)
Cfg == ndJsonDeserialize(IOEnv.CONFIG)[1]

SeqSet(s) == {s[i] : i \in DOMAIN s}
TrCalls == DOMAIN Cfg.calls
TrClientOf == [k \in TrCalls |-> Cfg.calls[k].client]
TrEpOf == [cl \in DOMAIN Cfg.clients |-> Cfg.clients[cl]]
TrSvcOf == [k \in TrCalls |-> Cfg.calls[k].svc]
TrObjOf == [k \in TrCalls |-> Cfg.calls[k].obj]
TrActOf == [k \in TrCalls |-> Cfg.calls[k].act]
TrRaws == {Cfg.raws[t] : t \in DOMAIN Cfg.raws}
TrConns == SeqSet(Cfg.conns)
TrObjs == {<<1, o>> : o \in SeqSet(Cfg.objs)}
TrFail == SeqSet(Cfg.fail)
ReqTypes == {"call", "post"}
NoMsgs == {}
NoDev == {}
TrScript == <<TRUE>>
CodeFilter == {"call", "post", "capability", "cancel"}
CallOnly == {"call"}

VARIABLES ti,    \* index of the next event to explain
          ann,   \* tags announced by a call / raw event
          etake, \* etake[c]: the consumer took a message whose "fw" event is still to come
          erecv, \* erecv[o]: the mailbox goroutine took a mail whose "recv" event is still to come
          open   \* open[o]: between the "recv" and the "done" event of o's mailbox goroutine

(* A hook that follows a channel receive is emitted after the receive took effect: another
   goroutine may act on the freed slot (and log it) first.  So the two receives of the
   pipeline - consumer queue, mailbox - may be taken silently before their event; the event
   then only confirms which message was taken.  Nothing else of that goroutine runs before. *)
tvars == <<svars, ti, ann, etake, erecv, open>>

Ev == TraceLog[ti]
Is(name) == ti <= NEv /\ Ev.ev = name
Adv == ti' = ti + 1
Quiet == UNCHANGED <<ti, ann>>
Flags == UNCHANGED <<etake, erecv, open>>
SrvOnly == UNCHANGED <<sent, cliVars>> /\ Account

TInit == /\ SysInit /\ ti = 2 /\ ann = {}
         /\ etake = [c \in Conns |-> FALSE]
         /\ erecv = [o \in Objs |-> FALSE] /\ open = [o \in Objs |-> FALSE]

TCall == /\ Is("call") /\ Ev.k \in Calls \ ann
         /\ ann' = ann \cup {Ev.k} /\ Adv /\ UNCHANGED svars /\ Flags
TRaw  == /\ Is("raw") /\ Ev.k \in {r.tag : r \in Raws} \ ann
         /\ ann' = ann \cup {Ev.k} /\ Adv /\ UNCHANGED svars /\ Flags

SilentClient ==
  /\ \/ \E k \in Calls \cap ann : NextID(k) \/ Register(k) \/ Send(k)
     \/ \E r \in Raws : r.tag \in ann /\ SendRaw(r)
  /\ Quiet /\ Flags

HdrIs(m) == m.id = Ev.id /\ m.type = Ev.type /\ m.svc = Ev.svc /\ m.obj = Ev.obj /\ m.act = Ev.act

TSDisp ==
  /\ Is("sdisp") /\ Ev.c \in Conns /\ c2s[Ev.c] # <<>>
  /\ LET c == Ev.c  m == Head(c2s[c]) IN
       /\ HdrIs(m)
       /\ Ev.res = (IF m.type \notin SrvAccept THEN "nomatch"
                    ELSE IF Len(srvq[c]) < QCap THEN "deliver" ELSE "blocked")
       /\ SrvRead(c)
  /\ SrvOnly /\ Adv /\ UNCHANGED ann /\ Flags

TFw ==
  /\ Is("fw") /\ Ev.c \in Conns
  /\ \/ /\ ~etake[Ev.c] /\ srvq[Ev.c] # <<>> /\ Head(srvq[Ev.c]).id = Ev.id
        /\ ConsumerTake(Ev.c) /\ UNCHANGED etake
     \/ /\ etake[Ev.c] /\ cons[Ev.c].id = Ev.id
        /\ etake' = [etake EXCEPT ![Ev.c] = FALSE]
        /\ UNCHANGED <<netVars, srvVars, histVars>>
  /\ Ev.ok = authed[Ev.c]
  /\ SrvOnly /\ Adv /\ UNCHANGED <<ann, erecv, open>>

SilentServer ==
  /\ \/ \E c \in Conns : ~etake[c] /\ (ConsumerStep(c) \/ ConsumerRefuse(c) \/ ConsumerClose(c)) /\ Flags
     \/ \E o \in Objs : ~erecv[o] /\ ObjStub(o) /\ execLog' = execLog /\ Flags
     \/ \E o \in Objs : ObjReply(o) /\ Flags
     \/ \E c \in Conns : /\ ~etake[c] /\ ConsumerTake(c)
                          /\ etake' = [etake EXCEPT ![c] = TRUE] /\ UNCHANGED <<erecv, open>>
     \/ \E o \in Objs : /\ ~erecv[o] /\ ~open[o] /\ ObjRecv(o)
                         /\ erecv' = [erecv EXCEPT ![o] = TRUE] /\ open' = [open EXCEPT ![o] = TRUE]
                         /\ UNCHANGED etake
  /\ SrvOnly /\ Quiet

RecvIs(m) == m.id = Ev.id /\ m.conn = Ev.c /\ m.type = Ev.type /\ m.act = Ev.act
TRecv ==
  /\ Is("recv") /\ <<1, Ev.obj>> \in Objs
  /\ LET o == <<1, Ev.obj>> IN
       \/ /\ ~erecv[o] /\ ~open[o] /\ mbox[o] # <<>> /\ RecvIs(Head(mbox[o]))
          /\ ObjRecv(o)
          /\ open' = [open EXCEPT ![o] = TRUE] /\ UNCHANGED erecv
       \/ /\ erecv[o] /\ run[o].ph = "recv" /\ RecvIs(run[o].m)
          /\ erecv' = [erecv EXCEPT ![o] = FALSE]
          /\ UNCHANGED <<netVars, srvVars, histVars, open>>
  /\ SrvOnly /\ Adv /\ UNCHANGED <<ann, etake>>

TExecBegin ==
  /\ Is("exec_begin") /\ <<1, Ev.obj>> \in Objs
  /\ LET o == <<1, Ev.obj>> IN
       /\ ~erecv[o] /\ run[o].ph = "recv" /\ run[o].m.tag = Ev.k
       /\ ObjStub(o) /\ execLog' # execLog
  /\ SrvOnly /\ Adv /\ UNCHANGED ann /\ Flags

TExecEnd ==
  /\ Is("exec_end") /\ <<1, Ev.obj>> \in Objs
  /\ LET o == <<1, Ev.obj>> IN
       /\ run[o].ph = "exec" /\ run[o].m.tag = Ev.k
       /\ ObjExecEnd(o)
  /\ SrvOnly /\ Adv /\ UNCHANGED ann /\ Flags

(* Receive has returned: the mailbox goroutine is free for the next mail *)
TDone ==
  /\ Is("done") /\ <<1, Ev.obj>> \in Objs
  /\ run[<<1, Ev.obj>>].ph = "idle" /\ open[<<1, Ev.obj>>] /\ ~erecv[<<1, Ev.obj>>]
  /\ open' = [open EXCEPT ![<<1, Ev.obj>>] = FALSE]
  /\ Adv /\ UNCHANGED <<svars, ann, etake, erecv>>

TCDisp ==
  /\ Is("cdisp") /\ Ev.c \in Conns /\ s2c[Ev.c] # <<>>
  /\ LET c == Ev.c  m == Head(s2c[c]) IN
       /\ HdrIs(m)
       /\ Cardinality({k \in hnd[c] : Matches(k, m)}) = Ev.n
       /\ CliDispatch(c)
  /\ Adv /\ UNCHANGED ann /\ Flags

TRet ==
  /\ Is("ret") /\ Ev.k \in Calls
  /\ cst[Ev.k] = "done" /\ Len(outcome[Ev.k]) >= 1
  /\ outcome[Ev.k][1].kind = Ev.kind /\ outcome[Ev.k][1].val = Ev.val
  /\ cst' = [cst EXCEPT ![Ev.k] = "returned"]
  /\ Adv /\ UNCHANGED <<netVars, srvVars, histVars, sent, mid, ctr, hnd, outcome, rawSent, wireVars, ann>> /\ Flags

TNext == \/ TCall \/ TRaw \/ TSDisp \/ TFw \/ TRecv \/ TExecBegin \/ TExecEnd \/ TDone \/ TCDisp \/ TRet
         \/ SilentClient \/ SilentServer
TSpec == TInit /\ [][TNext]_tvars

(* acceptance: reaching the end of the trace "violates" NotDone, which stops TLC at the
   first explanation found; the high-water mark tells where a rejected trace got stuck *)
NotDone == ti <= NEv
Track == TLCSet(1, IF TLCGet(1) < ti THEN ti ELSE TLCGet(1))
ASSUME TLCSet(1, 0)
Report == PrintT(<<"HW", TLCGet(1), NEv>>)
=============================================================================
