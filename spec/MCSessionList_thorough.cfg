SPECIFICATION Spec
CONSTANTS
  Names = {"a", "b"}
  Eps = {"E", "F"}
  MaxReg = 3
  Gor = {"g1"}
  Terms = {}
  QCap = 1
  WithGone = FALSE
  WithIdReq = TRUE
  Dev_ListBeforeSubscribe = FALSE
  Dev_AddedIgnored = FALSE
  Dev_RemovedIgnored = FALSE
  Dev_RefreshThenDrain = FALSE
  Dev_StoreNotAtomic = FALSE
  Dev_CancelNotCleared = FALSE
  Dev_CancelCheckOutsideLock = FALSE
  Dev_FailedRefreshKeepsSession = FALSE
  Dev_TerminateLeavesDirectory = FALSE
  Dev_ResolveByNameAgain = FALSE
INVARIANTS TypeOK ProcessAlive CancelAtMostOnce ListIsSnapshot QuiescentListCurrent ResolvedWhatWasFound
           FailedRefreshClosesSession TerminatedIsStopped LoopStopsOnce
CHECK_DEADLOCK FALSE
