------------------------------ MODULE Federation ------------------------------
(* A qiloop deployment of SEVERAL PROCESSES (extension of C15, secondary scope C19): a directory server
   (bus/directory: directory.NewServer), service servers created with bus/services.NewServer(session, addr, auth)
   whose namespace is the REMOTE directory (bus/services/namespace.go: Reserve = RegisterService, Enable =
   ServiceReady, Remove = UnregisterService) and client sessions (bus/session) which find a service in the
   directory and then connect to the service server's own end point.  Directory.tla takes register / ready /
   unregister as operations of ONE object; here they are the steps of a protocol between processes, with
   messages in flight, a connection that can be lost between a request and its reply, and servers that stop.

   server s, bus/server.go NewService(name, object)                                         action
     serviceID, err := s.namespace.Reserve(name)      l.150  remote RegisterService: the name    NsStart(s, n)
                                                             is checked against staging and
                                                             services, lastID++, entry staged
     service, err := NewService(object, activation)   l.157  user code (Activate), as long as    NsAct(s, ok)
                                                             it likes; an error: return err -
                                                             NOTHING is given back (Dev_NoCleanup)
     err = s.Router.Add(serviceID, service)           l.163  the service answers on s's end point
     err = s.namespace.Enable(serviceID)              l.169  remote ServiceReady: the request is  ... op[s].pc = "ena"
                                                             IN FLIGHT until the directory has
                                                             moved the entry (serviceAdded) and   Deliver(s)
                                                             the reply is back; an error:
                                                             Router.Remove, return err - the
                                                             staged entry and the activated
                                                             object are left (Dev_NoCleanup)
   Service.Terminate, bus/service.go l.186-201 + serviceTerminator l.18-23 (router.Remove first, l.20-21)
     objects: OnTerminate                                                                         SvcTerm(k)
     router.Remove(serviceID)                                first (Dev_RouterFirst): the service
                                                             is still listed and no longer answers
     router.namespace.Remove(serviceID)                      remote UnregisterService IN FLIGHT   ... op[s].pc = "unr"
                                                             (serviceRemoved); its error is       Deliver(s)
                                                             DROPPED
   Server.Terminate, bus/server.go l.282-289 -> Router.Terminate: every routed service as above,  SrvTerm(s)
     the listener and every connection closed
   the connection of s to the directory is lost (bus/net: the stream fails)                       Cut(s, mode)
     "idle": no request in flight;  "req": the request in flight never arrives;  "rep": it arrives,
     the directory acts on it, the reply is lost.  The directory does NOT notice that a peer is gone
     (Dev_NoLease): the entries of a dead or cut-off server stay for ever.
   a connection a client session has just made is lost before the session has put it into its pool   ConnDrop(c)
     (or the server stops in that window): session.go l.103-106 inserts the client and adds the closer to an end
     point that is already closed - net.endPoint.MakeHandler never calls it (Dev_StaleKept): the address stays
     in the pool for the life of the session, every later Proxy for a service behind it fails.
   client session c, bus/session/session.go Proxy(name, 1)
     info := s.findServiceName(name)                  l.138  the session's list = the directory's  PStart(c, n)
                                                             list when the session is at rest
     c, err := s.client(info)                         l.57   pool hit, or dial the ADVERTISED      PDial(c)
                                                             end point (SelectEndPoint)
     insert into the pool; metaProxy(c, id, 1)        l.103  the metaObject call on the service    PMeta(c)
                                                             server: the router knows the id or not
   The harness can hold the goroutines exactly there: Activate is user code, the two requests pass a relay in front
   of the directory, the session has the gates session.client.enter / session.client.dialed.

   Inside the statement of C15, for this composition (invariants of the configuration that describes the code):
     UniqueNames, IdsIncreasing, VisibleExactly (lookup / list / session.Proxy find a service exactly from ready
     until unregister), EventsOnce (serviceAdded / serviceRemoved once per transition, in that order),
     LiveVisible (a NewService that returned a service made it visible).
   Demands OUTSIDE the statement - the code deviates from each of them, by a NAMED deviation that is ON in the
   configuration describing the code, and is recorded as an observation:
     VisibleReachable     a listed service is routed by a running server            Dev_RouterFirst, Dev_NoLease
     StagedOwned          a staged entry belongs to a NewService in progress        Dev_NoCleanup
     NoOrphan             an activated object is served or has been terminated      Dev_NoCleanup
     TerminatedInvisible  a service whose Terminate returned is not listed          Dev_NoLease
     NoStalePool          a session's pool holds no dead connection                 Dev_StaleKept
     StaleOnlyDown        ... at least none to a server that is still running       Dev_StaleKept
   With all four OFF (MCFederation_ideal.cfg) the four hold: the demands can be met.
   Renderings that are NOT the code and must break the statement (vacuity guards):
     Dev_StagingUnchecked (RegisterService checks the ready names only) -> UniqueNames
     Dev_IdReuse (the next identifier is 1 + the largest one in use)    -> IdsIncreasing
     Dev_LookupStaged (lookup / list read the staged entries too)       -> VisibleExactly
     Dev_RemovedForStaged (serviceRemoved for a staged entry)           -> EventsOnce
     Dev_EnableErrorIgnored (NewService returns the service although ServiceReady failed) -> LiveVisible   *)
EXTENDS Naturals, Sequences, FiniteSets, TLC

CONSTANTS Srv, Names, Clients, MaxAtt, MaxCuts, MaxProxies, MaxDrops,
          Dev_NoCleanup, Dev_RouterFirst, Dev_NoLease, Dev_StaleKept,
          Dev_StagingUnchecked, Dev_IdReuse, Dev_LookupStaged, Dev_RemovedForStaged, Dev_EnableErrorIgnored

Att == 1..MaxAtt            \* the NewService calls of a behaviour, in the order they are made: attempt k adds object k

VARIABLES staging, services, lastID,          \* the directory: sets of [id, name, srv]; the counter (1 = the directory itself)
          assigned, readyIds, unregIds, evs,  \* history: identifiers handed out (sequence), made ready, unregistered while ready; events
          reqs,                               \* history: the requests of the servers that REACHED the directory [s, act, id]
          up, link,                           \* server: not terminated; its connection to the directory is there
          routed,                             \* server -> attempts its router knows
          op,                                 \* server -> [pc: "idle" | "act" | "ena" | "unr", k]: the operation in progress
          att,                                \* attempt -> [srv, name, id, st: "none" | "act" | "ena" | "ok" | "unr" | "gone" | "err"]
          activated, term,                    \* attempt -> Activate returned nil; OnTerminate calls
          natt,
          cl,                                 \* client -> [pc: "idle" | "found" | "dialed", id, srv, dead]
          conn, stale,                        \* client -> servers it holds a pooled connection to: alive / dead and never removed
          ncut, nprox, ndrop,
          out                                 \* outcome of the last command [e: "ok" | "err" | "pend" | "-", w: why, v]
dvars == <<staging, services, readyIds, unregIds, evs, reqs>>
vars == <<staging, services, lastID, assigned, readyIds, unregIds, evs, reqs, up, link, routed, op, att, activated, term, natt,
          cl, conn, stale, ncut, nprox, ndrop, out>>

Out(e, w, v) == [e |-> e, w |-> w, v |-> v]
Idle == [pc |-> "idle", k |-> 0]
NoAtt == [srv |-> 0, name |-> "", id |-> 0, st |-> "none"]
NoCl == [pc |-> "idle", id |-> 0, srv |-> 0, dead |-> FALSE]
Ev(k, id, n) == [k |-> k, id |-> id, n |-> n]
Rq(s, act, id) == [s |-> s, act |-> act, id |-> id]          \* act: "register" | "ready" | "unregister"
Max(S) == CHOOSE x \in S : \A y \in S : y <= x
Min(S) == CHOOSE x \in S : \A y \in S : x <= y

Init == /\ staging = {} /\ services = {} /\ lastID = 1
        /\ assigned = <<>> /\ readyIds = {} /\ unregIds = {} /\ evs = <<>> /\ reqs = <<>>
        /\ up = [s \in Srv |-> TRUE] /\ link = [s \in Srv |-> TRUE]
        /\ routed = [s \in Srv |-> {}] /\ op = [s \in Srv |-> Idle]
        /\ att = [k \in Att |-> NoAtt] /\ activated = [k \in Att |-> FALSE] /\ term = [k \in Att |-> 0] /\ natt = 0
        /\ cl = [c \in Clients |-> NoCl] /\ conn = [c \in Clients |-> {}] /\ stale = [c \in Clients |-> {}]
        /\ ncut = 0 /\ nprox = 0 /\ ndrop = 0 /\ out = Out("-", "", 0)

-----------------------------------------------------------------------------
(* the directory (bus/directory/directory.go) as functions of its state: several of its methods may run in one step *)
D == [st |-> staging, sv |-> services, evs |-> evs, rdy |-> readyIds, unr |-> unregIds]
SetD(d) == /\ staging' = d.st /\ services' = d.sv /\ evs' = d.evs /\ readyIds' = d.rdy /\ unregIds' = d.unr

Staged(d, id) == \E e \in d.st : e.id = id
(* ServiceReady l.152-168 *)
DReady(d, id) == IF Staged(d, id)
                   THEN LET e == CHOOSE x \in d.st : x.id = id IN
                        [d EXCEPT !.st = @ \ {e}, !.sv = @ \cup {e}, !.evs = Append(@, Ev("added", id, e.name)), !.rdy = @ \cup {id}]
                   ELSE d
(* UnregisterService l.131-150 *)
DUnreg(d, id) == IF \E e \in d.sv : e.id = id
                   THEN LET e == CHOOSE x \in d.sv : x.id = id IN
                        [d EXCEPT !.sv = @ \ {e}, !.evs = Append(@, Ev("removed", id, e.name)), !.unr = @ \cup {id}]
                   ELSE IF Staged(d, id)
                     THEN LET e == CHOOSE x \in d.st : x.id = id IN
                          [d EXCEPT !.st = @ \ {e}, !.evs = IF Dev_RemovedForStaged THEN Append(@, Ev("removed", id, e.name)) ELSE @]
                     ELSE d
RECURSIVE DUnregAll(_, _)
DUnregAll(d, ids) == IF ids = {} THEN d ELSE DUnregAll(DUnreg(d, Min(ids)), ids \ {Min(ids)})
(* what qiloop's directory does NOT do (libqi's does): forget the services of a peer whose connection is gone *)
RECURSIVE RqAll(_, _, _)
RqAll(q, s, ids) == IF ids = {} THEN q ELSE RqAll(Append(q, Rq(s, "unregister", Min(ids))), s, ids \ {Min(ids)})
DLease(d, s) == IF Dev_NoLease THEN d ELSE DUnregAll(d, {e.id : e \in {x \in d.st \cup d.sv : x.srv = s}})

Entries == staging \cup services
Visible == IF Dev_LookupStaged THEN Entries ELSE services            \* Service(name) l.80-89, Services() l.97-106; RegisterService l.108-129
RoutedIds(s) == {att[k].id : k \in routed[s]}

-----------------------------------------------------------------------------
(* NewService returns an error after Reserve: what the code gives back *)
Fail(s, k, d, q, wasActivated, linkok, why) ==
  /\ routed' = [routed EXCEPT ![s] = @ \ {k}]                                   \* Router.Remove (l.171) where it was added
  /\ IF Dev_NoCleanup
       THEN /\ SetD(d) /\ reqs' = q /\ UNCHANGED term
       ELSE /\ SetD(IF linkok THEN DUnreg(d, att[k].id) ELSE d)
            /\ reqs' = IF linkok THEN Append(q, Rq(s, "unregister", att[k].id)) ELSE q
            /\ term' = [term EXCEPT ![k] = IF wasActivated THEN @ + 1 ELSE @]
  /\ att' = [att EXCEPT ![k].st = "err"]
  /\ op' = [op EXCEPT ![s] = Idle]
  /\ out' = Out("err", why, 0)

(* server.NewService up to the activation: Reserve *)
NsStart(s, n) ==
  /\ up[s] /\ op[s].pc = "idle" /\ natt < MaxAtt
  /\ natt' = natt + 1
  /\ reqs' = IF link[s] THEN Append(reqs, Rq(s, "register", 0)) ELSE reqs
  /\ LET k == natt + 1
         taken == \E e \in (IF Dev_StagingUnchecked THEN services ELSE Entries) : e.name = n
         id == IF Dev_IdReuse THEN Max({e.id : e \in Entries} \cup {1}) + 1 ELSE lastID + 1
     IN IF ~link[s] \/ taken
          THEN /\ att' = [att EXCEPT ![k] = [srv |-> s, name |-> n, id |-> 0, st |-> "err"]]
               /\ out' = Out("err", IF ~link[s] THEN "link" ELSE "taken", 0)
               /\ UNCHANGED <<staging, lastID, assigned, op>>
          ELSE /\ staging' = staging \cup {[id |-> id, name |-> n, srv |-> s]}
               /\ lastID' = lastID + 1
               /\ assigned' = Append(assigned, id)
               /\ att' = [att EXCEPT ![k] = [srv |-> s, name |-> n, id |-> id, st |-> "act"]]
               /\ op' = [op EXCEPT ![s] = [pc |-> "act", k |-> k]]
               /\ out' = Out("ok", "", id)
  /\ UNCHANGED <<services, readyIds, unregIds, evs, up, link, routed, activated, term, cl, conn, stale, ncut, nprox, ndrop>>

(* Activate returns; Router.Add; the ServiceReady request leaves *)
NsAct(s, ok) ==
  /\ op[s].pc = "act"
  /\ LET k == op[s].k
         id == att[k].id
     IN IF ~ok
          THEN Fail(s, k, D, reqs, FALSE, link[s], "refused") /\ UNCHANGED activated
          ELSE /\ activated' = [activated EXCEPT ![k] = TRUE]
               /\ IF id \in RoutedIds(s) THEN Fail(s, k, D, reqs, TRUE, link[s], "idused")
                  ELSE IF ~link[s] THEN Fail(s, k, D, reqs, TRUE, FALSE, "link")
                  ELSE /\ routed' = [routed EXCEPT ![s] = @ \cup {k}]
                       /\ att' = [att EXCEPT ![k].st = "ena"]
                       /\ op' = [op EXCEPT ![s] = [pc |-> "ena", k |-> k]]
                       /\ out' = Out("pend", "", 0)
                       /\ UNCHANGED <<dvars, term>>
  /\ UNCHANGED <<lastID, assigned, up, link, natt, cl, conn, stale, ncut, nprox, ndrop>>

(* the request in flight reaches the directory, the reply comes back, the operation ends *)
Deliver(s) ==
  /\ op[s].pc \in {"ena", "unr"}
  /\ LET k == op[s].k
         id == att[k].id
     IN IF op[s].pc = "ena"
          THEN IF Staged(D, id)
                 THEN /\ SetD(DReady(D, id)) /\ reqs' = Append(reqs, Rq(s, "ready", id))
                      /\ att' = [att EXCEPT ![k].st = "ok"]
                      /\ op' = [op EXCEPT ![s] = Idle]
                      /\ out' = Out("ok", "", id)
                      /\ UNCHANGED <<routed, term>>
                 ELSE Fail(s, k, D, Append(reqs, Rq(s, "ready", id)), TRUE, TRUE, "notstaged")
          ELSE /\ SetD(DUnreg(D, id)) /\ reqs' = Append(reqs, Rq(s, "unregister", id))
               /\ att' = [att EXCEPT ![k].st = "gone"]
               /\ routed' = [routed EXCEPT ![s] = @ \ {k}]
               /\ op' = [op EXCEPT ![s] = Idle]
               /\ out' = Out("ok", "", 0)
               /\ UNCHANGED term
  /\ UNCHANGED <<lastID, assigned, up, link, activated, natt, cl, conn, stale, ncut, nprox, ndrop>>

(* the connection between server s and the directory is lost *)
Cut(s, mode) ==
  /\ link[s] /\ ncut < MaxCuts
  /\ ncut' = ncut + 1
  /\ link' = [link EXCEPT ![s] = FALSE]
  /\ LET k == op[s].k
         id == att[k].id
     IN CASE op[s].pc \in {"idle", "act"} ->
               /\ mode = "idle"
               /\ SetD(DLease(D, s)) /\ out' = Out("-", "", 0)
               /\ UNCHANGED <<reqs, routed, term, att, op>>
          [] op[s].pc = "ena" ->
               /\ mode \in {"req", "rep"}
               /\ LET d1 == IF mode = "rep" THEN DReady(D, id) ELSE D
                      q1 == IF mode = "rep" THEN Append(reqs, Rq(s, "ready", id)) ELSE reqs IN
                  IF Dev_EnableErrorIgnored
                    THEN /\ SetD(DLease(d1, s)) /\ reqs' = q1 /\ att' = [att EXCEPT ![k].st = "ok"] /\ op' = [op EXCEPT ![s] = Idle]
                         /\ out' = Out("ok", "", id) /\ UNCHANGED <<routed, term>>
                    ELSE Fail(s, k, DLease(d1, s), q1, TRUE, FALSE, "link")
          [] op[s].pc = "unr" ->
               /\ mode \in {"req", "rep"}
               /\ LET d1 == IF mode = "rep" THEN DUnreg(D, id) ELSE D IN SetD(DLease(d1, s))
               /\ reqs' = IF mode = "rep" THEN Append(reqs, Rq(s, "unregister", id)) ELSE reqs
               /\ att' = [att EXCEPT ![k].st = "gone"]
               /\ routed' = [routed EXCEPT ![s] = @ \ {k}]
               /\ op' = [op EXCEPT ![s] = Idle]
               /\ out' = Out("ok", "", 0)
               /\ UNCHANGED term
  /\ UNCHANGED <<lastID, assigned, up, activated, natt, cl, conn, stale, nprox, ndrop>>

(* Service.Terminate of the service attempt k returned *)
SvcTerm(k) ==
  /\ att[k].st = "ok"
  /\ LET s == att[k].srv IN
     /\ up[s] /\ op[s].pc = "idle"
     /\ term' = [term EXCEPT ![k] = @ + 1]
     /\ IF link[s]
          THEN /\ routed' = IF Dev_RouterFirst THEN [routed EXCEPT ![s] = @ \ {k}] ELSE routed
               /\ att' = [att EXCEPT ![k].st = "unr"]
               /\ op' = [op EXCEPT ![s] = [pc |-> "unr", k |-> k]]
               /\ out' = Out("pend", "", 0)
          ELSE /\ routed' = [routed EXCEPT ![s] = @ \ {k}]          \* UnregisterService fails at once; nobody looks
               /\ att' = [att EXCEPT ![k].st = "gone"]
               /\ out' = Out("ok", "", 0)
               /\ UNCHANGED op
  /\ UNCHANGED <<dvars, lastID, assigned, up, link, activated, natt, cl, conn, stale, ncut, nprox, ndrop>>

(* Server.Terminate (no operation of the server in progress: ServerLife.tla has those) *)
SrvTerm(s) ==
  /\ up[s] /\ op[s].pc = "idle"
  /\ LET live == routed[s] IN
     /\ term' = [k \in Att |-> IF k \in live THEN term[k] + 1 ELSE term[k]]
     /\ SetD(IF link[s] THEN DUnregAll(D, {att[k].id : k \in live}) ELSE D)
     /\ reqs' = IF link[s] THEN RqAll(reqs, s, {att[k].id : k \in live}) ELSE reqs
     /\ att' = [k \in Att |-> IF k \in live THEN [att[k] EXCEPT !.st = "gone"] ELSE att[k]]
  /\ up' = [up EXCEPT ![s] = FALSE]
  /\ routed' = [routed EXCEPT ![s] = {}]
  /\ conn' = [c \in Clients |-> conn[c] \ {s}]                          \* closeAll; the sessions' closers forget the connection
  /\ cl' = [c \in Clients |-> IF cl[c].pc = "dialed" /\ cl[c].srv = s THEN [cl[c] EXCEPT !.dead = TRUE] ELSE cl[c]]
  /\ out' = Out("ok", "", 0)
  /\ UNCHANGED <<lastID, assigned, link, op, activated, natt, stale, ncut, nprox, ndrop>>

-----------------------------------------------------------------------------
(* a client session *)
MetaOut(s, id) == IF \E k \in routed[s] : att[k].id = id
                    THEN Out("ok", "", CHOOSE k \in routed[s] : att[k].id = id)
                    ELSE Out("err", "nosvc", 0)

PStart(c, n) ==
  /\ cl[c].pc = "idle" /\ nprox < MaxProxies
  /\ nprox' = nprox + 1
  /\ IF \E e \in Visible : e.name = n
       THEN LET e == CHOOSE x \in Visible : x.name = n IN
            /\ cl' = [cl EXCEPT ![c] = [pc |-> "found", id |-> e.id, srv |-> e.srv, dead |-> FALSE]]
            /\ out' = Out("pend", "", e.id)
       ELSE /\ out' = Out("err", "notfound", 0) /\ UNCHANGED cl
  /\ UNCHANGED <<dvars, lastID, assigned, up, link, routed, op, att, activated, term, natt, conn, stale, ncut, ndrop>>

PDial(c) ==
  /\ cl[c].pc = "found"
  /\ LET s == cl[c].srv IN
     CASE s \in stale[c] -> /\ out' = Out("err", "callerr", 0) /\ cl' = [cl EXCEPT ![c] = NoCl]     \* pool hit: a dead client
       [] s \in conn[c]  -> /\ out' = MetaOut(s, cl[c].id) /\ cl' = [cl EXCEPT ![c] = NoCl]          \* pool hit
       [] s \notin (stale[c] \cup conn[c]) /\ up[s]  -> /\ out' = Out("pend", "", 0) /\ cl' = [cl EXCEPT ![c].pc = "dialed"]
       [] OTHER          -> /\ out' = Out("err", "dialerr", 0) /\ cl' = [cl EXCEPT ![c] = NoCl]
  /\ UNCHANGED <<dvars, lastID, assigned, up, link, routed, op, att, activated, term, natt, conn, stale, ncut, nprox, ndrop>>

PMeta(c) ==
  /\ cl[c].pc = "dialed"
  /\ LET s == cl[c].srv IN
     IF cl[c].dead
       THEN /\ stale' = IF Dev_StaleKept THEN [stale EXCEPT ![c] = @ \cup {s}] ELSE stale   \* AddHandler on a closed end point:
            /\ out' = Out("err", "callerr", 0) /\ UNCHANGED conn                                \* the closer never runs
       ELSE /\ conn' = [conn EXCEPT ![c] = @ \cup {s}]
            /\ out' = MetaOut(s, cl[c].id) /\ UNCHANGED stale
  /\ cl' = [cl EXCEPT ![c] = NoCl]
  /\ UNCHANGED <<dvars, lastID, assigned, up, link, routed, op, att, activated, term, natt, ncut, nprox, ndrop>>

(* the connection a client has just made is lost (the network, not the server) before the session has it in its pool *)
ConnDrop(c) ==
  /\ cl[c].pc = "dialed" /\ ~cl[c].dead /\ ndrop < MaxDrops
  /\ ndrop' = ndrop + 1
  /\ cl' = [cl EXCEPT ![c].dead = TRUE]
  /\ out' = Out("-", "", 0)
  /\ UNCHANGED <<dvars, lastID, assigned, up, link, routed, op, att, activated, term, natt, conn, stale, ncut, nprox>>

(* what session.Proxy(n, 1) of a FRESH session does, in one go: "notfound" | "dialerr" | "nosvc" | the attempt that answers *)
Reach(n) == IF ~\E e \in Visible : e.name = n THEN Out("err", "notfound", 0)
            ELSE LET e == CHOOSE x \in Visible : x.name = n IN
                 IF ~up[e.srv] THEN Out("err", "dialerr", 0) ELSE MetaOut(e.srv, e.id)

Next == \/ \E s \in Srv : \/ \E n \in Names : NsStart(s, n)
                          \/ NsAct(s, TRUE) \/ NsAct(s, FALSE) \/ Deliver(s) \/ SrvTerm(s)
                          \/ \E m \in {"idle", "req", "rep"} : Cut(s, m)
        \/ \E k \in Att : SvcTerm(k)
        \/ \E c \in Clients : \/ \E n \in Names : PStart(c, n)
                              \/ PDial(c) \/ PMeta(c) \/ ConnDrop(c)
Spec == Init /\ [][Next]_vars
(* the exhaustive runs leave out what neither an action nor an invariant reads: the request history and the last outcome *)
MCView == <<staging, services, lastID, assigned, readyIds, unregIds, evs, up, link, routed, op, att, activated, term, natt,
            cl, conn, stale, ncut, nprox, ndrop>>

-----------------------------------------------------------------------------
TypeOK == /\ \A e \in Entries : e.id \in 2..(MaxAtt + 1) /\ e.name \in Names /\ e.srv \in Srv
          /\ lastID \in 1..(MaxAtt + 1)
          /\ \A s \in Srv : op[s].pc \in {"idle", "act", "ena", "unr"} /\ routed[s] \subseteq Att
          /\ \A s \in Srv : op[s].pc # "idle" => (op[s].k \in Att /\ att[op[s].k].srv = s /\ att[op[s].k].st = op[s].pc)
          /\ \A s \in Srv : op[s].pc \in {"ena", "unr"} => link[s]
          /\ \A c \in Clients : conn[c] \cap stale[c] = {} /\ \A s \in conn[c] : up[s]

(* ---- inside the statement of C15 ---- *)
(* a name is held by at most one registered service, across servers *)
UniqueNames == \A e1, e2 \in Entries : e1.name = e2.name => e1 = e2
(* identifiers strictly increasing, never reused, also across servers *)
IdsIncreasing == \A i, j \in 1..Len(assigned) : i < j => assigned[i] < assigned[j]
(* visible to lookup / list / session.Proxy exactly from ready until unregister *)
VisibleExactly == {e.id : e \in Visible} = readyIds \ unregIds
(* serviceAdded / serviceRemoved exactly once per transition, in that order, with the entry's name *)
EvIdx(k, id) == {i \in 1..Len(evs) : evs[i].k = k /\ evs[i].id = id}
EventsOnce == \A id \in 2..(MaxAtt + 1) :
                /\ Cardinality(EvIdx("added", id)) = (IF id \in readyIds THEN 1 ELSE 0)
                /\ Cardinality(EvIdx("removed", id)) = (IF id \in unregIds THEN 1 ELSE 0)
                /\ \A i \in EvIdx("added", id), j \in EvIdx("removed", id) : i < j
                /\ \A i \in EvIdx("added", id) \cup EvIdx("removed", id) : \E k \in Att : att[k].id = id /\ att[k].name = evs[i].n
(* a NewService that returned a service made it visible (until its server terminates it or is cut off from a directory with leases) *)
LiveVisible == \A k \in Att : att[k].st = "ok" =>
                 \/ [id |-> att[k].id, name |-> att[k].name, srv |-> att[k].srv] \in services
                 \/ (~Dev_NoLease /\ ~link[att[k].srv])

(* ---- outside the statement: what one may ask of a federation, and the code does not give ---- *)
VisibleReachable == \A e \in services : up[e.srv] /\ e.id \in RoutedIds(e.srv)
StagedOwned == \A e \in staging : \E s \in Srv : op[s].pc \in {"act", "ena"} /\ att[op[s].k].id = e.id
NoOrphan == \A k \in Att : (activated[k] /\ term[k] = 0) => att[k].st \in {"ena", "ok"}
TerminatedInvisible == \A k \in Att : att[k].st = "gone" => ~\E e \in Entries : e.id = att[k].id
(* a pooled connection that is dead is never forgotten (C19's neighbourhood) *)
NoStalePool == \A c \in Clients : stale[c] = {}
(* ... at least not to a server that is still there: the session can never again reach what that server offers *)
StaleOnlyDown == \A c \in Clients : \A s \in stale[c] : ~up[s]
=============================================================================
