SPECIFICATION Spec
CONSTANTS
  Threads <- Cast17
  Conns = {"c1", "c2"}
  Signals = {"A"}
  Objects = {"o1", "o2"}
  ConnOf <- CastConn
  SigOf <- CastSig
  ObjOf <- CastObj
  Rounds <- CR1
  EmitSeq <- EmitO21
  QCap = 2
  Dev_ProxySectionsNotAtomic = FALSE
  Dev_SendAfterSnapshot = FALSE
  Devs = {}
  Probe <- NoProbe
  Failing = {}
  Inject <- NoInject
  Rogue = {}
INVARIANTS TypeOK NoDuplicate InOrderNoGap Complete NoForeignSignal ClosedAfterCancel NothingAfterUnregisterAck OthersUndisturbed AtMostOneRegistration NoLeak RemovedAtMostOnce NoDeadRegistration
CHECK_DEADLOCK FALSE
