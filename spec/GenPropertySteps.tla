-------------------------- MODULE GenPropertySteps --------------------------
(* Complete schedules of PropertySteps, forced on the real code with the gates
   prop.{set,update}.{validate,save,notify}, signal.update.send,
   signal.register, signal.unregister, signal.unregister.ack (harness
   sub-commands c14-gated: coarse emission, no churn; c14-churn: snapshot + one
   send per subscriber, subscribers leaving / joining / disconnecting meanwhile).
   "S" lines: [steps |-> <<[a, st, n, ret, s, nx, fe], ...>>, val, delivered, init]
     a  = who moves: "m" (a remote client through the mailbox), a service
          goroutine, or a subscriber
     st = start | validate | save | notify | get           (writers, as in round 1)
        | snapshot | send                                  (fine emission)
        | subreq | reg | suback | unsubreq | unreg | unsuback | disc   (subscribers)
     n  = the value written by the call
     s  = send: the subscriber the event is sent to
     nx = snapshot / send: the subscriber the emitter is then about to send to
          ("" = the call returns) - observable at the gate signal.update.send
     fe = 1 when a send of this emission went to a disconnected subscriber (the
          pinned code then returns that error from the accepted write:
          Dev_SendErrorFailsWrite; ret is the conforming result)
     ret = result visible to the caller when the step ends a call
           ([done |-> 0/1, e, sig, bytes]; done = 0: the call is still running)
   init = the subscriber table at the start (registration order);
   val / delivered: the register and each subscriber's event sequence at the end,
   as this model of the code produces them (compared exactly only where no
   subscriber moves; otherwise informative);
   acct = per accepted write [v, by, must, may]: the value, the writer, the
   subscribers entitled to exactly one event (PropertySteps.stable) and the
   subscribers allowed to receive one (PropertySteps.may) - the verdict of the
   churn replay is the accounting against these sets, so that an implementation
   that treats a leaving / joining subscriber differently is not flagged.        *)
EXTENDS PropertySteps, Json

VARIABLE hist
gvars == <<vars, hist>>

NotDone == [done |-> 0, e |-> "", sig |-> "", bytes |-> <<>>]
Done(r) == [done |-> 1, e |-> r.e, sig |-> r.sig, bytes |-> r.bytes]
WritersDone(p, k) == \A a \in Actors : p[a] = "idle" /\ k[a] = MaxOps[a]
AllDone == WritersDone(pc', nops') /\ ms' = ""
DoneNow == WritersDone(pc, nops) /\ ms = ""

\* the table at the start, recovered from the first state of the behaviour
VARIABLE init0
Out == [steps |-> hist', val |-> val', init |-> init0,
        delivered |-> [s \in Subs |-> Values(s)'],
        acct |-> [i \in 1..Len(writes') |-> [v |-> writes'[i], by |-> writer'[i],
                                             must |-> stable'[i], may |-> may'[i]]]]

Rec(a, st, n, r, s, nx, fe) == [a |-> a, st |-> st, n |-> n, ret |-> r, s |-> s, nx |-> nx, fe |-> fe]
Log(a, st, n, r) ==
  /\ hist' = Append(hist, Rec(a, st, n, r, "", "", 0))
  /\ AllDone => PrintT(<<"S", ToJson(Out)>>)
\* emitter steps: next target / return
LogEm(a, st, s) ==
  /\ hist' = Append(hist, Rec(a, st, cur[a], IF pc'[a] = "idle" THEN Done(OK) ELSE NotDone, s, em'[a].tgt,
                              IF pc'[a] = "idle" /\ (em[a].failed \/ (s # "" /\ cst[s] = "closed")) THEN 1 ELSE 0))
  /\ AllDone => PrintT(<<"S", ToJson(Out)>>)
LogSub(s, st) ==
  /\ hist' = Append(hist, Rec(s, st, 0, NotDone, s, "", 0))
  /\ AllDone => PrintT(<<"S", ToJson(Out)>>)

\* the churn schedules write every value once: an event then identifies its write
Fresh(n) == Atomic \/ \A i \in 1..Len(writes) : writes[i] # I32(n)
GInit == Init /\ hist = <<>> /\ init0 = [i \in 1..Len(table) |-> table[i].s]
GNext ==
  /\ ~DoneNow
  /\ UNCHANGED init0
  /\ \/ \E a \in Actors : \E n \in ValuesOf[a] : Start(a, n) /\ Fresh(n) /\ Log(a, "start", n, NotDone)
     \/ \E a \in Actors : Validate(a) /\ Log(a, "validate", cur[a],
                                            IF ValidatorOK(cur[a]) THEN NotDone ELSE Done(Err))
     \/ \E a \in Actors : Save(a) /\ Log(a, "save", cur[a], NotDone)
     \/ \E a \in Actors : Notify(a) /\ Log(a, "notify", cur[a], Done(OK))
     \/ \E a \in Actors : Snapshot(a) /\ LogEm(a, "snapshot", "")
     \/ \E a \in Actors : Send(a) /\ LogEm(a, "send", em[a].tgt)
     \/ Get /\ Log("m", "get", 0, Done(ret'))
     \/ \E s \in Subs : SubReq(s) /\ LogSub(s, "subreq")
     \/ Register /\ LogSub(ms, "reg")
     \/ SubAck /\ LogSub(ms, "suback")
     \/ \E s \in Subs : UnsubReq(s) /\ LogSub(s, "unsubreq")
     \/ Unregister /\ LogSub(ms, "unreg")
     \/ UnsubAck /\ LogSub(ms, "unsuback")
     \/ \E s \in Subs : Disconnect(s) /\ LogSub(s, "disc")
GSpec == GInit /\ [][GNext]_<<gvars, init0>>
=============================================================================
