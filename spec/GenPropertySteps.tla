-------------------------- MODULE GenPropertySteps --------------------------
(* Complete schedules of PropertySteps, forced on the real code with the gates
   prop.{set,update}.{validate,save,notify} (harness sub-command c14-gated).
   "S" lines: [steps |-> <<[a, st, n, ret], ...>>, val, delivered]
     a  = actor ("m" = a remote client through the mailbox, else a service goroutine)
     st = start | validate | save | notify | get
     n  = the value written by the call
     ret = result visible to the caller when the step ends a call
           ([done |-> 0/1, e, sig, bytes]; done = 0: the call is still running)
   val / delivered: the register and each subscriber's event sequence at the end. *)
EXTENDS PropertySteps, Json

VARIABLE hist
gvars == <<vars, hist>>

NotDone == [done |-> 0, e |-> "", sig |-> "", bytes |-> <<>>]
Done(r) == [done |-> 1, e |-> r.e, sig |-> r.sig, bytes |-> r.bytes]
AllDone == /\ \A a \in Actors : pc'[a] = "idle" /\ nops'[a] = MaxOps[a]

Log(a, st, n, r) ==
  /\ hist' = Append(hist, [a |-> a, st |-> st, n |-> n, ret |-> r])
  /\ AllDone => PrintT(<<"S", ToJson([steps |-> hist', val |-> val', delivered |-> delivered'])>>)

GInit == Init /\ hist = <<>>
GNext ==
  \/ \E a \in Actors : \E n \in ValuesOf[a] : Start(a, n) /\ Log(a, "start", n, NotDone)
  \/ \E a \in Actors : Validate(a) /\ Log(a, "validate", cur[a],
                                         IF ValidatorOK(cur[a]) THEN NotDone ELSE Done(Err))
  \/ \E a \in Actors : Save(a) /\ Log(a, "save", cur[a], NotDone)
  \/ \E a \in Actors : Notify(a) /\ Log(a, "notify", cur[a], Done(OK))
  \/ Get /\ Log("m", "get", 0, Done(ret'))
GSpec == GInit /\ [][GNext]_gvars
=============================================================================
