--------------------------- MODULE GenClientHold ---------------------------
(***************************************************************************)
(* Behaviour export for ClientHold: GenClient's command/settle machinery    *)
(* with the two extra commands "hold" and "unhold".                          *)
(***************************************************************************)
EXTENDS ClientHold, Json

VARIABLES hist, settled
gvars == <<hvars, hist, settled>>

GInit == HInit /\ hist = <<>> /\ settled = TRUE

CallCode(k) == CASE cst[k] = "idle" -> 0
                 [] cst[k] = "writing" -> 4
                 [] cst[k] = "done" -> out[k]
                 [] OTHER -> 1
Obs == [c |-> [k \in Calls |-> CallCode(k)],
        sub |-> CASE sub = "off" -> 0 [] sub = "on" -> 1 [] OTHER -> 2,
        got |-> subGot,
        cb |-> closerN[HD],
        dead |-> IF proc = "stopped" THEN 1 ELSE 0]

Cmd(o, a) == /\ hist' = Append(hist, [o |-> o, a |-> a, post |-> Obs])
             /\ settled' = FALSE

Plain(A) == A /\ UNCHANGED hold
Command ==
  \/ \E k \in Calls : \/ Plain(StartCall(k)) /\ Cmd("start", k)
                      \/ Plain(SendEnd(k) \/ SendFail(k)) /\ Cmd("release", k)
                      \/ Plain(PeerReply(k)) /\ Cmd("reply", k)
  \/ Plain(StartDisc) /\ Cmd("disc", 0)
  \/ Plain(Fail) /\ Cmd("fail", 0)
  \/ Plain(PeerCloseC) /\ Cmd("eof", 0)
  \/ Plain(LocalClose) /\ hold # 1 /\ Cmd("close", 0)
  \/ Hold /\ Cmd("hold", 0)
  \/ Unhold /\ Cmd("unhold", 0)

Settle == /\ ~settled /\ settled' = TRUE
          /\ hist' = [hist EXCEPT ![Len(hist)].post = Obs]
          /\ PrintT(<<"T", ToJson(hist')>>)
          /\ UNCHANGED hvars

GNext == IF ENABLED HInternal THEN (HInternal /\ UNCHANGED <<hist, settled>>)
         ELSE IF ~settled THEN Settle
         ELSE Command
GSpec == GInit /\ [][GNext]_gvars
View == <<hvars, settled, IF settled THEN <<>> ELSE hist>>
=============================================================================
