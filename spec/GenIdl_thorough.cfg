SPECIFICATION ISpec
CONSTANTS
  Pool = "a"
  MaxActions = 4
INVARIANTS UniqueIds SigsInGrammar TupleShaped BareIsSingle Consistent VoidOnlyReturned AtMostOneSpecial Export
CHECK_DEADLOCK FALSE
