---------------------------- MODULE MCEndPoint ----------------------------
(* Exhaustive design check of EndPoint: three handlers with the three filter
   shapes the code base uses (keep everything / single shot / never match),
   InitSlots small so that slot reuse and table growth both occur.          *)
EXTENDS EndPoint

CONSTANTS FilterOf,    \* [Handlers -> {"keepAll", "onceAll", "never", "onceNever"}]
          MaxShutdowns

VARIABLE nshut
mvars == <<vars, nshut>>

Matches(h) == FilterOf[h] \in {"keepAll", "onceAll"}
Keeps(h) == FilterOf[h] \in {"keepAll", "never"}

MCCap == [h \in Handlers |-> 1]
MCFilter == (1 :> "keepAll") @@ (2 :> "onceAll") @@ (3 :> "never")

MCInit == Init /\ nshut = 0

MCNext ==
  \/ /\ UNCHANGED nshut
     /\ \/ \E h \in Handlers : \/ MakeHandler(h, MCCap[h]) \/ SyncCloser(h) \/ SyncQClose(h)
                               \/ Visit(h, Matches(h), Keeps(h)) \/ Deliver(h) \/ Blocked(h)
                               \/ SelfRemove(h) \/ Detach(h) \/ AsyncCloser(h) \/ AsyncQClose(h)
                               \/ ConsumerTake(h)
        \/ \E i \in 0..(InitSlots + 2) : RemoveBegin(i) \/ RemoveErr(i)
        \/ RemoveEnd \/ ReadMsg \/ DispatchBegin \/ ReadErr \/ ProcShutdown
        \/ \E m \in Msgs : PeerWrite(m)
        \/ PeerClose
  \/ /\ nshut < MaxShutdowns /\ nshut' = nshut + 1 /\ ShutdownBegin

InCritical == mu # Free
CriticalStep == \/ \E h \in Handlers : \/ SyncCloser(h) \/ SyncQClose(h) \/ Visit(h, Matches(h), Keeps(h))
                                      \/ Deliver(h) \/ Blocked(h) \/ SelfRemove(h) \/ Detach(h)
                \/ RemoveEnd

K(A) == A /\ UNCHANGED nshut
Fair == /\ WF_mvars(K(ReadErr)) /\ WF_mvars(K(ProcShutdown)) /\ WF_mvars(K(DispatchBegin)) /\ WF_mvars(K(ReadMsg))
        /\ WF_mvars(K(CriticalStep))
        /\ \A h \in Handlers : WF_mvars(AsyncCloser(h) /\ UNCHANGED nshut) /\ WF_mvars(AsyncQClose(h) /\ UNCHANGED nshut)

MCSpec == MCInit /\ [][MCNext]_mvars /\ Fair

\* a critical section can always make its next step: no self-deadlock on handlersMutex
NoStuckMutex == InCritical => ENABLED K(CriticalStep)

\* every handler detached by a shutdown is eventually closed (closer once, queue once)
EventuallyClosed == \A h \in Handlers : (hst[h] = "detached") ~> (hst[h] = "closed")
\* handlers registered when the reader goroutine sees the failure are closed
ProcessCleansUp == \A h \in Handlers : (proc = "closing" /\ hst[h] = "live") ~> (hst[h] = "closed")
\* the mutex is always released
MutexReleased == (mu # Free) ~> (mu = Free)
=============================================================================
