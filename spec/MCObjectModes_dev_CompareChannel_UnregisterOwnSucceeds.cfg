SPECIFICATION Spec
CONSTANTS
  Conns = {1, 2}
  Users = {1}
  Alphabet <- Alpha_subs
  MaxMsgs = 3
  MaxStack = 12
  WithDisconnect = FALSE
  SendWhen = "idle"
  AutoOff = FALSE
  KeepOut = "none"
  Dev_NoTraceGuard = FALSE
  Dev_CompareChannel = TRUE
  Dev_TracedWrapsRaw = FALSE
  Dev_StatAnyAction = FALSE
  Dev_ClearForgets = FALSE
  Dev_ReplyBypassesTrace = FALSE
  Dev_RemoveDropsLast = FALSE
  Dev_LateRegistrationKept = FALSE
INVARIANTS UnregisterOwnSucceeds
CHECK_DEADLOCK FALSE
