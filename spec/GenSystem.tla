------------------------------ MODULE GenSystem ------------------------------
(***************************************************************************)
(* Behaviour generation for C04 (spec -> code).                             *)
(*                                                                         *)
(* The harness controls three kinds of steps of System.tla on the real     *)
(* code: starting a call (a goroutine invokes the generated proxy), writing *)
(* a raw frame, and letting a method body that blocks in a harness gate     *)
(* return.  Everything else (id allocation .. send, endpoint dispatch,      *)
(* consumer, mailbox, replies, client dispatch) runs by itself; the harness *)
(* waits until nothing moves before the next controlled step.  GNext gives  *)
(* the internal steps priority, so a behaviour of GenSystem is exactly a    *)
(* sequence of controlled steps with the system settled in between, and the *)
(* expected observation after the last step is a function of that sequence. *)
(* hist records the controlled steps; every terminal state exports          *)
(* <<hist, observation>>.                                                   *)
(***************************************************************************)
EXTENDS MCSystem, Json

VARIABLES hist,   \* controlled steps so far: <<"call", k>>, <<"raw", tag>>, <<"fin", tag>>
          seen    \* seen[c]: responses that arrived at the client end of c, in order

gvars == <<svars, hist, seen>>

Internal ==
  \/ \E k \in Calls : Register(k) \/ Send(k)
  \/ \E c \in Conns : Srv(SrvRead(c)) \/ Srv(ConsumerTake(c))
  \/ \E c \in Conns : Srv(ConsumerStep(c)) \/ Srv(ConsumerRefuse(c)) \/ Srv(ConsumerClose(c))
  \/ \E o \in AllObjs : Srv(ObjRecv(o)) \/ Srv(ObjStub(o)) \/ Srv(ObjReply(o))
  \/ Srv(AuthStub)

(* a method without result (pong.PingPong.ping, action 101): its reply frame carries no payload *)
VoidActs == {101}
SeenVal(m) == IF m.type = "reply" /\ m.act \in VoidActs THEN "void" ELSE m.val
(* objects of the second service are numbered 201, 202, .. in the exported observation *)
ObjCode(o) == IF o[1] = 1 THEN o[2] ELSE 100 * o[1] + o[2]

IntStep ==
  \/ Internal /\ UNCHANGED <<hist, seen>>
  \/ \E c \in Conns : /\ CliDispatch(c)
                      /\ seen' = [seen EXCEPT ![c] = Append(@, [type |-> Head(s2c[c]).type, id |-> Head(s2c[c]).id,
                                                                 val |-> SeenVal(Head(s2c[c]))])]
                      /\ UNCHANGED hist

Settled == ~ENABLED IntStep

Control ==
  \/ \E k \in Calls : NextID(k) /\ hist' = Append(hist, <<"call", k>>) /\ UNCHANGED seen
  \/ \E r \in Raws : SendRaw(r) /\ hist' = Append(hist, <<"raw", r.tag>>) /\ UNCHANGED seen
  \/ \E o \in Objs : /\ Srv(ObjExecEnd(o))
                     /\ hist' = Append(hist, <<"fin", run[o].m.tag>>) /\ UNCHANGED seen

GInit == SysInit /\ hist = <<>> /\ seen = [c \in Conns |-> <<>>]
GNext == IF Settled THEN Control ELSE IntStep
GSpec == GInit /\ [][GNext]_gvars

Obs == [outcome |-> outcome,
        execs   |-> [i \in 1..Len(execLog) |-> [obj |-> ObjCode(execLog[i].obj), tag |-> execLog[i].tag, type |-> execLog[i].type]],
        seen    |-> seen,
        done    |-> {k \in Calls : cst[k] = "done"}]

Terminal == Settled /\ ~ENABLED Control
Export == Terminal => PrintT(<<"B", ToJson([h |-> hist, o |-> Obs])>>)

(* the scenario itself, for the harness *)
Scenario == [calls |-> [k \in Calls |-> [client |-> ClientOf[k], conn |-> ConnOf(k), svc |-> SvcOf[k],
                                         obj |-> ObjOf[k], act |-> ActOf[k]]],
             raws  |-> [t \in {r.tag : r \in Raws} |-> CHOOSE r \in Raws : r.tag = t],
             conns |-> Conns, objs |-> {ObjCode(o) : o \in Objs}, fail |-> FailTags]
ASSUME PrintT(<<"S", ToJson(Scenario)>>)

(* the C04 invariants hold on the settled behaviours as on all others *)
=============================================================================
