---------------------------- MODULE TraceSignal ----------------------------
(* C13 (c): validation of recorded executions against Signal.tla.

   One ndjson line per event, in the order of the process-wide hook counter:

     harness (the user of the generated API)
       {"e":"subcall","th"}      Subscribe<X>() is called           -> SubLocal
       {"e":"suback","th","ok"}  it returned                        -> Ack / stays failed
       {"e":"cancelcall","th"}   the cancel function is called      -> CancelReq
       {"e":"cancelret","th"}    it returned                        -> Abort
       {"e":"closed","th"}       the subscriber saw its channel closed -> CloseSub
       {"e":"recv","th","k"}     the subscriber read event k        -> Forward
       {"e":"emitcall","k","o","sig"} / {"e":"emitret","k"}         -> EmitSig / EmitEnd
       {"e":"inject","c","o","sig"}  the harness asks the server side of c to send a message
                                 addressed (o, sig) that is not of type Event; the write
                                 itself (InjectMsg) follows at a moment TLC places
       {"e":"rogue","c","o","sig","vc"}  the harness is about to call unregisterEvent on connection c
                                 with the user id of the registration connection vc holds for
                                 (o, sig); the request reaches the mailbox later -> RogueUnreg
       {"e":"break","c","kind"}  the harness breaks the server -> client direction of its
                                 own stream c ("eof" / "err"), the client is gone -> BreakWrite
       {"e":"notice","c"}        the harness lets the server's reader of c see the end -> ReaderNotices
       {"e":"sendfail","c"}      logged by the harness' stream: a write of the server to c
                                 failed                             -> SendFail
       {"e":"pt","th","p"}       the thread is about to take step p (inc, key, dec,
                                 read, clear) of SubscribeID / its cancel function:
                                 logged by the gate in front of the step
     hooks
       {"e":"state","c","o","sig","hkey","add","val"}  client.State under stateMutex
              -> SubInc / SubKey / UnsubDec / UnsubRead / UnsubClear of a thread of that
                 connection and signal that announced this step (the sign of `add`
                 is no help: the sum of two 63-bit handlers overflows)
       {"e":"add","o","c","n"} {"e":"add_dup","o","c"} {"e":"remove","o","c","n"}
       {"e":"remove_unknown","o","c"}
              signal.go under signalsMutex, o = the object of the table, c = the connection
              of the registration, n = table size -> ServerReg / ServerUnreg, and for the
              removals also FailCleanup (the emitter after io.EOF) / CloserRun (disconnection)
       {"e":"snapshot","o","sig","n"}  UpdateSignal under RLock -> EmitStart, n = users
     connection taps (a filter called inside the endpoint's dispatch)
       {"e":"wire","c","t":"ev","o","sig"} / {"e":"wire","c","t":"rep","ok"} /
       {"e":"wire","c","t":"inj","o","sig"}                          -> Deliver(c)
     {"e":"reset"}  a new scenario (fresh object, fresh connections) follows

   Not logged, placed by TLC: the request reaching the object's mailbox
   (SubRPC / UnsubRPC), the server's replies (ServerReply), the successful Sends of
   UpdateSignal (SendTo), the forwarding goroutine dropping a message that is not
   an Event, forgetSignalUser calls that find nothing on a dead connection, Again.
   User ids are not compared: the handler ids of the model are drawn in the
   order of the SubKey steps, which is the order of the logged State calls.

   The configuration switches the deviations of the code ON (the specification
   describes what the code does) and checks the property invariants of
   Signal.tla at every step: a violated invariant is a violation of C13 by the
   recorded execution; a trace that cannot be consumed is behaviour the
   specification does not know.                                               *)
EXTENDS Signal, Json, IOUtils, TLCExt

\* loaded once (see TraceProperty.tla)
ASSUME TLCSet(2, ndJsonDeserialize(IOEnv.TRACE))
ASSUME TLCSet(3, Len(TLCGet(2)))
ASSUME TLCSet(1, 0)
TraceLog == TLCGet(2)
N == TLCGet(3)

\* constants of Signal: the fixed cast of the harness, defined in Signal.tla
\* (cfg: Threads <- Cast, ConnOf <- CastConn, SigOf <- CastSig, ObjOf <- CastObj, Rounds <- CR99,
\*  Inject <- InjAny, Failing = {"c3"})
InjAny == [c : Conns, o : Objects, sig : Signals]

CONSTANT SkipScenarios   \* TRUE: a scenario may also be passed over unexamined (self-test of the
                         \*   binding: many corrupted scenarios in one run; the consumed ones are
                         \*   those with a "VIOL" line)

VARIABLES l, want, hint, bad,
          inj,    \* injections the harness has asked for (logged) whose message the server has
                  \*   not written yet: the write is a step of its own, placed by TLC
          rog     \* foreign unregisterEvent calls the harness has announced (logged) that have not
                  \*   reached the object's mailbox yet
tvars == <<vars, l, want, hint, bad, inj, rog>>

Ev == TraceLog[l]
Is(e) == l <= N /\ Ev.e = e

Step == l' = l + 1 /\ UNCHANGED <<want, hint, inj, rog>>

\* the handler is installed somewhere between the call and the first State call
TSubCall   == /\ Is("subcall") /\ pc[Ev.th] = "idle" /\ ~want[Ev.th]
              /\ want' = [want EXCEPT ![Ev.th] = TRUE] /\ l' = l + 1 /\ UNCHANGED <<vars, hint, inj, rog>>
TSubLocal(th) == /\ want[th] /\ SubLocal(th)
                 /\ want' = [want EXCEPT ![th] = FALSE] /\ UNCHANGED <<l, hint, inj, rog>>
TPoint     == /\ Is("pt") /\ hint' = [hint EXCEPT ![Ev.th] = Ev.p]
              /\ l' = l + 1 /\ UNCHANGED <<vars, want, inj, rog>>
TSubAck    == Is("suback") /\ Step /\
              IF Ev.ok = 1 THEN Ack(Ev.th) ELSE (pc[Ev.th] = "failed" /\ UNCHANGED vars)
TCancel    == Is("cancelcall") /\ CancelReq(Ev.th) /\ Step
\* cancel() has closed the abort channel before it returns: the subscriber may see
\* its channel closed before the caller has logged the return
TCancelRet == /\ Is("cancelret")
              /\ \/ Abort(Ev.th) /\ Step
                 \/ /\ pc[Ev.th] = "done" /\ hint[Ev.th] = "lateret"
                    /\ hint' = [hint EXCEPT ![Ev.th] = ""]
                    /\ l' = l + 1 /\ UNCHANGED <<vars, want, inj, rog>>
TClosed    == /\ Is("closed")
              /\ \/ CloseSub(Ev.th) /\ Step
                 \/ /\ pc[Ev.th] = "lcancel"                     \* Abort and CloseSub at once
                    /\ lh' = [lh EXCEPT ![Ev.th] = FALSE] /\ closed' = [closed EXCEPT ![Ev.th] = TRUE]
                    /\ q' = [q EXCEPT ![Ev.th] = <<>>] /\ pc' = [pc EXCEPT ![Ev.th] = "done"]
                    /\ hint' = [hint EXCEPT ![Ev.th] = "lateret"]
                    /\ l' = l + 1
                    /\ UNCHANGED <<srv, emv, net, prox, h, round, nextU, got, obs, want, inj, rog>>
TRecv      == /\ Is("recv") /\ q[Ev.th] # <<>> /\ Head(q[Ev.th]).k = Ev.k /\ Forwards(Head(q[Ev.th]))
              /\ Forward(Ev.th) /\ Step
\* the forwarding goroutine drops what is not an Event: the subscriber sees nothing
TDrop(th)  == q[th] # <<>> /\ ~Forwards(Head(q[th])) /\ Forward(th)
TEmitCall  == Is("emitcall") /\ Ev.k = called + 1 /\ EmitSig(Ev.o, Ev.sig) /\ Step
TEmitRet   == Is("emitret") /\ Ev.k = em.k /\ EmitEnd /\ Step
TSnapshot  == /\ Is("snapshot") /\ EmitStart /\ Len(em'.pending) = Ev.n
              /\ emitted[em.k] = [o |-> Ev.o, sig |-> Ev.sig] /\ Step
\* the harness logs its request; the server's write of the message comes later (silent step)
TInject    == /\ Is("inject") /\ inj' = inj \cup {[c |-> Ev.c, o |-> Ev.o, sig |-> Ev.sig]}
              /\ l' = l + 1 /\ UNCHANGED <<vars, want, hint, rog>>
TRogue     == /\ Is("rogue") /\ rog' = rog \cup {[c |-> Ev.c, o |-> Ev.o, sig |-> Ev.sig, vc |-> Ev.vc]}
              /\ l' = l + 1 /\ UNCHANGED <<vars, want, hint, inj>>
TBreak     == Is("break") /\ BreakWrite(Ev.c, Ev.kind) /\ Step
TNotice    == Is("notice") /\ ReaderNotices(Ev.c) /\ Step
TSendFail  == Is("sendfail") /\ SendFail /\ Head(em.pending).c = Ev.c /\ Step

OnKey(th) == ConnOf[th] = Ev.c /\ ObjOf[th] = Ev.o /\ SigOf[th] = Ev.sig
TState ==
  /\ Is("state") /\ Step
  /\ \E th \in Threads :
       /\ OnKey(th)
       /\ IF Ev.hkey = 0
          THEN \/ Ev.add = 1 /\ hint[th] = "inc" /\ SubInc(th) /\ cnt'[Key(th)] = Ev.val
               \/ Ev.add = -1 /\ hint[th] = "dec" /\ UnsubDec(th) /\ cnt'[Key(th)] = Ev.val
          ELSE \/ hint[th] = "key" /\ SubKey(th)
               \/ hint[th] = "read" /\ Ev.add = 0 /\ UnsubRead(th)
               \/ hint[th] = "clear" /\ UnsubClear(th)

FromConn(o) == mbox[o] # <<>> /\ Head(mbox[o]).c = Ev.c
TAdd       == /\ Is("add") /\ FromConn(Ev.o) /\ ServerReg(Ev.o) /\ Len(regs'[Ev.o]) = Ev.n
              /\ Len(regs'[Ev.o]) = Len(regs[Ev.o]) + 1 /\ Step
TAddDup    == Is("add_dup") /\ FromConn(Ev.o) /\ ServerReg(Ev.o) /\ regs' = regs /\ Step
\* a registration of connection Ev.c leaves the table of Ev.o: unregisterEvent on the mailbox
\* goroutine, the emitter after a Send failed with io.EOF, or the closer of a dead connection
TRemove    == /\ Is("remove") /\ Step
              /\ \/ FromConn(Ev.o) /\ ServerUnreg(Ev.o)
                 \/ em.pc = "cleanup" /\ EmitObj = Ev.o /\ em.failed.c = Ev.c /\ FailCleanup
                 \/ \E x \in clos : x.o = Ev.o /\ x.c = Ev.c /\ CloserRun(x)
              /\ Len(regs'[Ev.o]) = Ev.n /\ Len(regs'[Ev.o]) = Len(regs[Ev.o]) - 1
TRemoveUnk == /\ Is("remove_unknown") /\ Step
              /\ \/ FromConn(Ev.o) /\ ServerUnreg(Ev.o)
                 \/ em.pc = "cleanup" /\ EmitObj = Ev.o /\ em.failed.c = Ev.c /\ FailCleanup
              /\ regs' = regs
\* The disconnect closer of a registration that is gone already finds nothing and changes
\* nothing; the harness does not log it (it cannot be told from the echo of a removal:
\* RemoveHandler runs the closer of the handler it removes).  The same holds for the
\* emitter's clean-up when a closer was faster.
TQuietForget == \/ \E x \in clos : ~Known(x.o, x.u, x.c) /\ CloserRun(x)
                \/ em.pc = "cleanup" /\ ~Known(EmitObj, em.failed.u, em.failed.c) /\ FailCleanup /\ regs' = regs

TWire ==
  /\ Is("wire") /\ Step
  /\ wire[Ev.c] # <<>>
  /\ LET m == Head(wire[Ev.c]) IN
       CASE Ev.t = "ev" -> m.t = "ev" /\ m.o = Ev.o /\ m.sig = Ev.sig
         [] Ev.t = "inj" -> m.t = "inj" /\ m.o = Ev.o /\ m.sig = Ev.sig
         [] OTHER -> m.t = "rep" /\ (m.ok <=> Ev.ok = 1)
  /\ Deliver(Ev.c)

\* The harness ends a scenario only after every subscription was cancelled and seen
\* closed (it waits T_BOUND for that) and a call on every connection has returned:
\* nothing can be in flight any more.  {"e":"quiet"} is logged where the harness has
\* waited (T_BOUND) for every event it expects to reach the subscribers.
Drained == /\ \A o \in Objects : mbox[o] = <<>> /\ srep[o].c = ""
           /\ em.pc = "idle" /\ clos = {}
           /\ \A c \in Conns : wire[c] = <<>>
TQuiet == /\ Is("quiet") /\ Drained /\ inj = {} /\ rog = {} /\ \A t \in Threads : q[t] = <<>>
          /\ Step /\ UNCHANGED vars
TReset ==
  /\ Is("reset") /\ l' = l + 1
  /\ Drained /\ \A t \in Threads : pc[t] \in {"idle", "done", "failed", "dead"} /\ ~want[t]
  \* a connection the harness broke has been seen to end before the scenario is over
  /\ \A c \in Conns : wst[c] \in {"up", "down"}
  /\ regs' = [o \in Objects |-> <<>>] /\ mbox' = [o \in Objects |-> <<>>]
  /\ srep' = [o \in Objects |-> NoReply]
  /\ em' = [pc |-> "idle", k |-> 0, pending |-> <<>>, failed |-> NoEntry]
  /\ called' = 0 /\ started' = 0 /\ completed' = 0 /\ emitted' = <<>>
  /\ wire' = [c \in Conns |-> <<>>] /\ wst' = [c \in Conns |-> "up"] /\ clos' = {} /\ injected' = {}
  /\ rogued' = {}
  /\ cnt' = [x \in Keys |-> 0] /\ hk' = [x \in Keys |-> 0] /\ lock' = [x \in Keys |-> NoThread]
  /\ pc' = [t \in Threads |-> "idle"] /\ h' = [t \in Threads |-> 0] /\ round' = [t \in Threads |-> 1]
  /\ nextU' = 0
  /\ lh' = [t \in Threads |-> FALSE] /\ q' = [t \in Threads |-> <<>>] /\ got' = [t \in Threads |-> <<>>]
  /\ closed' = [t \in Threads |-> FALSE]
  /\ ackAt' = [t \in Threads |-> -1] /\ cancelled' = [t \in Threads |-> FALSE]
  /\ cancelAt' = [t \in Threads |-> 0] /\ unregAcked' = {} /\ lateSend' = FALSE /\ devUsed' = {}
  /\ removed' = {} /\ dblrm' = FALSE /\ UNCHANGED probe
  /\ inj = {} /\ inj' = {} /\ rog = {} /\ rog' = {}
  /\ want' = [t \in Threads |-> FALSE] /\ hint' = [t \in Threads |-> ""]

\* pass over the scenario that starts at line l (the model is in its reset state there)
NextReset(i) == CHOOSE j \in i..N : TraceLog[j].e = "reset" /\ \A x \in i..(j - 1) : TraceLog[x].e # "reset"
TSkip == /\ SkipScenarios /\ l <= N /\ (IF l = 1 THEN TRUE ELSE TraceLog[l - 1].e = "reset")
         /\ l' = NextReset(l) + 1 /\ bad' = {}
         /\ UNCHANGED <<vars, want, hint, inj, rog>>

\* silent steps
Silent == \/ \E th \in Threads : TSubLocal(th)
          \/ /\ \E i \in inj : InjectMsg(i) /\ inj' = inj \ {i}
             /\ UNCHANGED <<l, want, hint, rog>>
          \* the announced call reaches the mailbox: it names a registration of connection r.vc for
          \* (r.o, r.sig) if there is one at that moment, else a user id nobody has
          \/ /\ \E r \in rog :
                  /\ rog' = rog \ {r}
                  /\ \/ \E i \in 1..Len(regs[r.o]) : /\ regs[r.o][i].c = r.vc /\ regs[r.o][i].sig = r.sig
                                                      /\ RogueUnreg(r.c, r.o, i)
                     \/ RogueReq(r.c, r.o, r.sig, 0)
             /\ UNCHANGED <<l, want, hint, inj>>
          \/ /\ UNCHANGED <<l, want, hint, inj, rog>>
             /\ \/ \E th \in Threads : SubRPC(th) \/ UnsubRPC(th) \/ Again(th) \/ TDrop(th)
                \/ SendTo \/ \E o \in Objects : ServerReply(o)
                \/ TQuietForget

TNext == \/ TPoint \/ TSubCall \/ TSubAck \/ TCancel \/ TCancelRet \/ TClosed \/ TRecv
         \/ TEmitCall \/ TEmitRet \/ TSnapshot \/ TState
         \/ TAdd \/ TAddDup \/ TRemove \/ TRemoveUnk \/ TWire \/ TQuiet
         \/ TInject \/ TRogue \/ TBreak \/ TNotice \/ TSendFail
         \/ Silent
\* The property invariants are evaluated on every state; what was violated is
\* accumulated in `bad` and printed when the scenario has been consumed completely
\* (a branch of TLC's search that guesses the unlogged steps wrongly dies before).
TStep == \/ TNext /\ bad' = bad \cup Violated'
         \/ TReset /\ bad' = {} /\ PrintT(<<"VIOL", ToJson([l |-> l, bad |-> bad, dev |-> devUsed])>>)
         \/ TSkip
TInit == Init /\ l = 1 /\ want = [t \in Threads |-> FALSE] /\ hint = [t \in Threads |-> ""]
         /\ bad = {} /\ inj = {} /\ rog = {}
TSpec == TInit /\ [][TStep]_tvars

Track  == TLCSet(1, IF TLCGet(1) < l THEN l ELSE TLCGet(1))
Report == PrintT(<<"HWM", TLCGet(1), N>>)
Check == Track
=============================================================================
