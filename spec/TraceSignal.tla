---------------------------- MODULE TraceSignal ----------------------------
(* C13 (c): validation of recorded executions against Signal.tla.

   One ndjson line per event, in the order of the process-wide hook counter:

     harness (the user of the generated API)
       {"e":"subcall","th"}      Subscribe<X>() is called           -> SubLocal
       {"e":"suback","th","ok"}  it returned                        -> Ack / stays failed
       {"e":"cancelcall","th"}   the cancel function is called      -> CancelReq
       {"e":"cancelret","th"}    it returned                        -> Abort
       {"e":"closed","th"}       the subscriber saw its channel closed -> CloseSub
       {"e":"recv","th","k"}     the subscriber read event k        -> Forward
       {"e":"emitcall","k","sig"} / {"e":"emitret","k"}             -> EmitSig / EmitEnd
       {"e":"pt","th","p"}       the thread is about to take step p (inc, key, dec,
                                 read, clear) of SubscribeID / its cancel function:
                                 logged by the gate in front of the step
     hooks
       {"e":"state","c","sig","hkey","add","val"}  client.State under stateMutex
              -> SubInc / SubKey / UnsubDec / UnsubRead / UnsubClear of a thread of that
                 connection and signal that announced this step (the sign of `add`
                 is no help: the sum of two 63-bit handlers overflows)
       {"e":"add","n"} {"e":"add_dup"} {"e":"remove","n"} {"e":"remove_unknown"}
              signal.go under signalsMutex -> ServerReg / ServerUnreg, n = table size
       {"e":"snapshot","sig","n"}  UpdateSignal under RLock -> EmitStart, n = users
     connection taps (a filter called inside the endpoint's dispatch)
       {"e":"wire","c","t":"ev","sig"} / {"e":"wire","c","t":"rep","ok"} -> Deliver(c)
     {"e":"reset"}  a new scenario (fresh object, fresh connections) follows

   Not logged, placed by TLC: the request reaching the object's mailbox
   (SubRPC / UnsubRPC), the server's replies (ServerReply), the Sends of
   UpdateSignal (SendTo), Again.
   User ids are not compared: the handler ids of the model are drawn in the
   order of the SubKey steps, which is the order of the logged State calls.

   The configuration switches the deviations of the code ON (the specification
   describes what the code does) and checks the property invariants of
   Signal.tla at every step: a violated invariant is a violation of C13 by the
   recorded execution; a trace that cannot be consumed is behaviour the
   specification does not know.                                               *)
EXTENDS Signal, Json, IOUtils, TLCExt

\* loaded once (see TraceProperty.tla)
ASSUME TLCSet(2, ndJsonDeserialize(IOEnv.TRACE))
ASSUME TLCSet(3, Len(TLCGet(2)))
ASSUME TLCSet(1, 0)
TraceLog == TLCGet(2)
N == TLCGet(3)

\* constants of Signal: the fixed cast of the harness, defined in Signal.tla
\* (cfg: Threads <- Cast, ConnOf <- CastConn, SigOf <- CastSig, Rounds <- CR99)

VARIABLES l, want, hint, bad
tvars == <<vars, l, want, hint, bad>>

Ev == TraceLog[l]
Is(e) == l <= N /\ Ev.e = e

Step == l' = l + 1 /\ UNCHANGED <<want, hint>>

\* the handler is installed somewhere between the call and the first State call
TSubCall   == /\ Is("subcall") /\ pc[Ev.th] = "idle" /\ ~want[Ev.th]
              /\ want' = [want EXCEPT ![Ev.th] = TRUE] /\ l' = l + 1 /\ UNCHANGED <<vars, hint>>
TSubLocal(th) == /\ want[th] /\ SubLocal(th)
                 /\ want' = [want EXCEPT ![th] = FALSE] /\ UNCHANGED <<l, hint>>
TPoint     == /\ Is("pt") /\ hint' = [hint EXCEPT ![Ev.th] = Ev.p]
              /\ l' = l + 1 /\ UNCHANGED <<vars, want>>
TSubAck    == Is("suback") /\ Step /\
              IF Ev.ok = 1 THEN Ack(Ev.th) ELSE (pc[Ev.th] = "failed" /\ UNCHANGED vars)
TCancel    == Is("cancelcall") /\ CancelReq(Ev.th) /\ Step
\* cancel() has closed the abort channel before it returns: the subscriber may see
\* its channel closed before the caller has logged the return
TCancelRet == /\ Is("cancelret")
              /\ \/ Abort(Ev.th) /\ Step
                 \/ /\ pc[Ev.th] = "done" /\ hint[Ev.th] = "lateret"
                    /\ hint' = [hint EXCEPT ![Ev.th] = ""]
                    /\ l' = l + 1 /\ UNCHANGED <<vars, want>>
TClosed    == /\ Is("closed")
              /\ \/ CloseSub(Ev.th) /\ Step
                 \/ /\ pc[Ev.th] = "lcancel"                     \* Abort and CloseSub at once
                    /\ lh' = [lh EXCEPT ![Ev.th] = FALSE] /\ closed' = [closed EXCEPT ![Ev.th] = TRUE]
                    /\ q' = [q EXCEPT ![Ev.th] = <<>>] /\ pc' = [pc EXCEPT ![Ev.th] = "done"]
                    /\ hint' = [hint EXCEPT ![Ev.th] = "lateret"]
                    /\ l' = l + 1
                    /\ UNCHANGED <<srv, emv, wire, prox, h, round, nextU, got, obs, want>>
TRecv      == Is("recv") /\ q[Ev.th] # <<>> /\ Head(q[Ev.th]).k = Ev.k /\ Forward(Ev.th) /\ Step
TEmitCall  == Is("emitcall") /\ Ev.k = called + 1 /\ EmitSig(Ev.sig) /\ Step
TEmitRet   == Is("emitret") /\ Ev.k = em.k /\ EmitEnd /\ Step
TSnapshot  == Is("snapshot") /\ EmitStart /\ Len(em'.pending) = Ev.n /\ emitted[em.k] = Ev.sig /\ Step

OnKey(th) == ConnOf[th] = Ev.c /\ SigOf[th] = Ev.sig
TState ==
  /\ Is("state") /\ Step
  /\ \E th \in Threads :
       /\ OnKey(th)
       /\ IF Ev.hkey = 0
          THEN \/ Ev.add = 1 /\ hint[th] = "inc" /\ SubInc(th) /\ cnt'[Key(th)] = Ev.val
               \/ Ev.add = -1 /\ hint[th] = "dec" /\ UnsubDec(th) /\ cnt'[Key(th)] = Ev.val
          ELSE \/ hint[th] = "key" /\ SubKey(th)
               \/ hint[th] = "read" /\ Ev.add = 0 /\ UnsubRead(th)
               \/ hint[th] = "clear" /\ UnsubClear(th)

TAdd       == Is("add") /\ ServerReg /\ Len(regs') = Ev.n /\ Len(regs') = Len(regs) + 1 /\ Step
TAddDup    == Is("add_dup") /\ ServerReg /\ regs' = regs /\ Step
TRemove    == Is("remove") /\ ServerUnreg /\ Len(regs') = Ev.n /\ Len(regs') = Len(regs) - 1 /\ Step
TRemoveUnk == Is("remove_unknown") /\ ServerUnreg /\ regs' = regs /\ Step

TWire ==
  /\ Is("wire") /\ Step
  /\ wire[Ev.c] # <<>>
  /\ LET m == Head(wire[Ev.c]) IN
       IF Ev.t = "ev" THEN m.t = "ev" /\ m.sig = Ev.sig
       ELSE m.t = "rep" /\ (m.ok <=> Ev.ok = 1)
  /\ Deliver(Ev.c)

\* The harness ends a scenario only after every subscription was cancelled and seen
\* closed (it waits T_BOUND for that) and a call on every connection has returned:
\* nothing can be in flight any more.  {"e":"quiet"} is logged where the harness has
\* waited (T_BOUND) for every event it expects to reach the subscribers.
Drained == /\ mbox = <<>> /\ srep.c = "" /\ em.pc = "idle"
           /\ \A c \in Conns : wire[c] = <<>>
TQuiet == /\ Is("quiet") /\ Drained /\ \A t \in Threads : q[t] = <<>>
          /\ Step /\ UNCHANGED vars
TReset ==
  /\ Is("reset") /\ l' = l + 1
  /\ Drained /\ \A t \in Threads : pc[t] \in {"idle", "done", "failed"} /\ ~want[t]
  /\ regs' = <<>> /\ mbox' = <<>> /\ srep' = NoReply /\ em' = [pc |-> "idle", k |-> 0, pending |-> <<>>]
  /\ called' = 0 /\ started' = 0 /\ completed' = 0 /\ emitted' = <<>>
  /\ wire' = [c \in Conns |-> <<>>]
  /\ cnt' = [x \in Keys |-> 0] /\ hk' = [x \in Keys |-> 0] /\ lock' = [x \in Keys |-> NoThread]
  /\ pc' = [t \in Threads |-> "idle"] /\ h' = [t \in Threads |-> 0] /\ round' = [t \in Threads |-> 1]
  /\ nextU' = 0
  /\ lh' = [t \in Threads |-> FALSE] /\ q' = [t \in Threads |-> <<>>] /\ got' = [t \in Threads |-> <<>>]
  /\ closed' = [t \in Threads |-> FALSE]
  /\ ackAt' = [t \in Threads |-> -1] /\ cancelled' = [t \in Threads |-> FALSE]
  /\ cancelAt' = [t \in Threads |-> 0] /\ unregAcked' = {} /\ lateSend' = FALSE /\ devUsed' = {}
  /\ want' = [t \in Threads |-> FALSE] /\ hint' = [t \in Threads |-> ""]

\* silent steps
Silent == \/ \E th \in Threads : TSubLocal(th)
          \/ /\ UNCHANGED <<l, want, hint>>
             /\ \/ \E th \in Threads : SubRPC(th) \/ UnsubRPC(th) \/ Again(th)
                \/ SendTo \/ ServerReply

TNext == \/ TPoint \/ TSubCall \/ TSubAck \/ TCancel \/ TCancelRet \/ TClosed \/ TRecv
         \/ TEmitCall \/ TEmitRet \/ TSnapshot \/ TState
         \/ TAdd \/ TAddDup \/ TRemove \/ TRemoveUnk \/ TWire \/ TQuiet
         \/ Silent
\* The property invariants are evaluated on every state; what was violated is
\* accumulated in `bad` and printed when the scenario has been consumed completely
\* (a branch of TLC's search that guesses the unlogged steps wrongly dies before).
TStep == \/ TNext /\ bad' = bad \cup Violated'
         \/ TReset /\ bad' = {} /\ PrintT(<<"VIOL", ToJson([l |-> l, bad |-> bad, dev |-> devUsed])>>)
TInit == Init /\ l = 1 /\ want = [t \in Threads |-> FALSE] /\ hint = [t \in Threads |-> ""]
         /\ bad = {}
TSpec == TInit /\ [][TStep]_tvars

Track  == TLCSet(1, IF TLCGet(1) < l THEN l ELSE TLCGet(1))
Report == PrintT(<<"HWM", TLCGet(1), N>>)
Check == Track
=============================================================================
