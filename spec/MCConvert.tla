----------------------------- MODULE MCConvert -----------------------------
(* Design check of Convert: the one-step generator with the per-vector
   theorems as invariants, and the theorems that quantify over several types
   on a small all-pairs universe.                                          *)
EXTENDS Convert

PairU == SrcSets["small"] \cup UNION {Targets(S) : S \in {K("int8"), K("uint16"), K("float32"), Slice(K("int8")),
                                                          MapOf(K("int8"), K("string")), PointT}}

ASSUME \A S \in Src : ThTargetsCompatible(S)
ASSUME \A S \in PairU : Compatible(S, S) /\ WellFormed(S)                         \* reflexive
ASSUME \A S, T, U \in PairU : Compatible(S, T) /\ Compatible(T, U) => Compatible(S, U)   \* transitive
\* antisymmetric up to field order / case / extra fields: on scalars it is an order
ASSUME \A S, T \in AllScalars : Compatible(S, T) /\ Compatible(T, S) => S = T
\* conversion composes
ASSUME \A S, T, U \in PairU : Compatible(S, T) /\ Compatible(T, U) =>
          \A v \in Values(S) : Conv(T, U, Conv(S, T, v)) = Conv(S, U, v)
\* the three verdict classes are all inhabited among the pairs
ASSUME \E S, T \in PairU : ~Compatible(S, T) /\ Class(S) = Class(T) /\ IsScalar(S)   \* narrowing / sign change
ASSUME \E S, T \in PairU : Class(S) # Class(T)
\* every clash target really clashes for some value, every value for top-level clashes
ASSUME \A S \in Src : \A T \in Clashes(S) : ~Compatible(S, T)
ASSUME \A S \in Src : \A T \in OtherClass(S) : \A v \in Values(S) : ClashReached(S, T, v)
\* corner cases, stated once
ASSUME Compatible(K("int8"), K("int64")) /\ ~Compatible(K("int64"), K("int8"))
ASSUME ~Compatible(K("int8"), K("uint8")) /\ ~Compatible(K("uint8"), K("int16"))
ASSUME Compatible(K("float32"), K("float64")) /\ ~Compatible(K("float64"), K("float32"))
ASSUME ~Compatible(K("int32"), K("float64")) /\ Class(K("int32")) # Class(K("float64"))
ASSUME Compatible(St2("A", K("int8"), "Name", K("string")), St3("NAME", K("string"), "X", K("bool"), "A", K("int16")))
ASSUME ~Compatible(St2("A", K("int8"), "Name", K("string")), StructOf(<<Fld("A", K("int8"))>>))   \* a source field is lost
ASSUME Conv(St2("A", K("int8"), "Name", K("string")), St3("NAME", K("string"), "X", K("bool"), "A", K("int16")),
            <<"min8", "s_a">>) = <<"s_a", "false", "min8">>
ASSUME ~ClashReached(Slice(K("int8")), Slice(K("string")), <<>>)      \* nothing to refuse in an empty slice
ASSUME ClashReached(Slice(K("int8")), Slice(K("string")), <<"one">>)
=============================================================================
