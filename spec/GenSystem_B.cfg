SPECIFICATION GSpec
CONSTANTS
  Conns <- AllConns
  InitAuthed <- AllConns
  Svcs = {1}
  Objs <- TwoObjs
  Methods = {100}
  GenericActs = {8}
  FailTags <- failB
  QCap = 10
  MCap = 10
  SrvAccept <- CodeFilter
  StubRuns <- ReqTypes
  AuthRuns <- CallOnly
  AuthMode = "yes"
  Script <- NoScript
  PeerMsgs <- NoPeerMsgs
  MaxSends = 0
  Hangups = FALSE
  Dev_CapMapUnsynchronised = FALSE
  Calls <- KB
  ClientOf <- clientB
  EpOf <- epB
  SvcOf <- svcB
  ObjOf <- objB
  ActOf <- actB
  Raws <- rawB
  Deviations <- NoDev
INVARIANTS Export AtMostOneOutcome OwnResult ExecOnceIfOk ExecAtMostOnce PostAtMostOnce PostNoResponse FramesOwed OnlyCallAndPostExecute
CHECK_DEADLOCK FALSE
