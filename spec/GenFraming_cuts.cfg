SPECIFICATION GSpec
CONSTANTS
  MaxMsgs = 1
  PLens = {0, 2}
  WithCuts = TRUE
VIEW View
CHECK_DEADLOCK FALSE
