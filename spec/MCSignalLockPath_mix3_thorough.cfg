SPECIFICATION Spec
CONSTANTS
  HConns = {"h1"}
  Objs = {"o1", "o2"}
  HTargets = {"o1"}
  Kinds = {"slow", "call", "post", "reg", "unreg", "term"}
  MaxLen = 3
  MaxFlood = 2
  MaxReg = 1
  Closes = {"h1"}
  PMax = 1
  QCap = 1
  BCap = 1
  NoRead = {}
  OutCap = 1
  Dev_ReceiveHoldsLockWhileEnqueuing = FALSE
  Dev_DispatchBlocksOnFullQueue = FALSE
  Dev_ConsumerGivesUpOnFullMailbox = FALSE
  Dev_RemoveClosesMailbox = FALSE
INVARIANTS NoWaitCycle NoLockHeldWhileEnqueuing SlowDelaysOnlyItsOwnMail ServerUp OtherNeverRefused
PROPERTIES OthersServed
CHECK_DEADLOCK FALSE
