--------------------------- MODULE EndPointStall ---------------------------
(***************************************************************************)
(* The OUTGOING side of an end point (bus/net/endpoint.go) and its          *)
(* shutdown when the peer stops draining the connection.  EndPoint.tla      *)
(* treats closeWith as one step and knows no write; here the steps are the  *)
(* code's:                                                                  *)
(*                                                                          *)
(*   Send (l.231)            m.Write(e.stream), no lock: blocks while the   *)
(*                            peer is stalled, fails once the stream is      *)
(*                            closed                                         *)
(*   dispatch (l.325-365)    takes handlersMutex, delivers to the matching  *)
(*                            handlers (non-blocking), and - still holding   *)
(*                            the mutex - answers a Call that nobody takes   *)
(*                            with an Error: refuse (l.368) = Send           *)
(*   closeWith (l.236-252)   stream.Close() FIRST, then handlersMutex, then *)
(*                            every live handler is detached and closed by   *)
(*                            a goroutine                                    *)
(*   process (l.381-402)     read error -> closeWith(err), return           *)
(*   MakeHandler/RemoveHandler   need handlersMutex                         *)
(*                                                                          *)
(* The order in closeWith is what makes shutdown independent of the peer:   *)
(* the reader may be parked in refuse() holding the mutex; only the close   *)
(* of the stream wakes it.  LockFirst = TRUE is the deviation (mutex first, *)
(* stream second) under which Close() never returns: the vacuity guard of   *)
(* CloseReturns.  A stalled peer is an ENVIRONMENT condition: no fairness   *)
(* on it; every step of the end point itself is weakly fair.                *)
(*                                                                          *)
(* Named consequences of the code as it is (not deviations):                *)
(*   - while the reader is parked in refuse(), MakeHandler / RemoveHandler  *)
(*     wait (ApiWaits), until the peer drains or somebody closes;            *)
(*   - a handler made after the shutdown is never closed (orphan; C19's     *)
(*     known finding on the session pool is this at a higher level).         *)
(***************************************************************************)
EXTENDS Integers, Sequences, FiniteSets, TLC

CONSTANTS Closers,     \* concurrent callers of Close()
          Senders,     \* concurrent callers of Send()
          Handlers,    \* handlers the application may register (all match "hit")
          MaxIn,       \* messages the peer sends in a behaviour
          LockFirst,   \* deviation: closeWith takes the mutex before closing the stream
          Permissive   \* trace validation only: which messages are answered with a refusal, and by whom it is written
                       \* (under the mutex as today, or by a goroutine of its own), is not C17's business: any
                       \* message may be refused or not, either way

Kinds == {"hit", "miss", "post"}   \* Call some handler matches | Call nobody matches | Post nobody matches
None == "none"

VARIABLES stream,     \* "open" | "closed"
          stalled,    \* the peer does not drain: a write to the stream blocks
          mu,         \* holder of handlersMutex: None | "reader" | "readerclose" | a closer | <<"api", h>>
          rd,         \* reader goroutine
          cur,        \* kind of the message being dispatched
          inbox,      \* kinds written by the peer, not yet read
          sent,       \* number of messages the peer has sent
          cl,         \* [Closers -> "idle" | "start" | "wantlock" | "locked" | "detach" | "done"]
          sn,         \* [Senders -> "idle" | "writing" | "ok" | "err"]
          hs,         \* [Handlers -> "unreg" | "live" | "removed" | "detached" | "closed"]  the handler itself
          api,        \* [Handlers -> "idle" | "make" | "made" | "remove" | "rmok" | "rmerr"]  the application's calls about it
          got,        \* [Handlers -> Nat] messages delivered
          replies,    \* refusals written to the peer
          pend        \* refusals handed to a writer of their own (AsyncRefuse only)
vars == <<stream, stalled, mu, rd, cur, inbox, sent, cl, sn, hs, api, got, replies, pend>>

Init == /\ stream = "open" /\ stalled = FALSE /\ mu = None /\ rd = "read" /\ cur = None
        /\ inbox = <<>> /\ sent = 0
        /\ cl = [c \in Closers |-> "idle"] /\ sn = [s \in Senders |-> "idle"]
        /\ hs = [h \in Handlers |-> "unreg"] /\ api = [h \in Handlers |-> "idle"] /\ got = [h \in Handlers |-> 0] /\ replies = 0 /\ pend = 0

Live == {h \in Handlers : hs[h] = "live"}
CanWrite == ~stalled \/ stream = "closed"      \* a write returns: done, or with an error

(***************************************************************************)
(* environment                                                              *)
(***************************************************************************)
PeerSend(k) == /\ stream = "open" /\ sent < MaxIn /\ Len(inbox) < 2
               /\ inbox' = Append(inbox, k) /\ sent' = sent + 1
               /\ UNCHANGED <<stream, stalled, mu, rd, cur, cl, sn, hs, api, got, replies, pend>>
PeerStall == /\ ~stalled /\ stream = "open" /\ stalled' = TRUE
             /\ UNCHANGED <<stream, mu, rd, cur, inbox, sent, cl, sn, hs, api, got, replies, pend>>
PeerResume == /\ stalled /\ stalled' = FALSE
              /\ UNCHANGED <<stream, mu, rd, cur, inbox, sent, cl, sn, hs, api, got, replies, pend>>
PeerClose == /\ stream = "open" /\ stream' = "closed"
             /\ UNCHANGED <<stalled, mu, rd, cur, inbox, sent, cl, sn, hs, api, got, replies, pend>>

(***************************************************************************)
(* application calls (each starts a call that the internal steps complete)  *)
(***************************************************************************)
StartClose(c) == /\ cl[c] = "idle" /\ cl' = [cl EXCEPT ![c] = "start"]
                 /\ UNCHANGED <<stream, stalled, mu, rd, cur, inbox, sent, sn, hs, api, got, replies, pend>>
StartSend(s) == /\ sn[s] = "idle" /\ sn' = [sn EXCEPT ![s] = "writing"]
                /\ UNCHANGED <<stream, stalled, mu, rd, cur, inbox, sent, cl, hs, api, got, replies, pend>>
\* (identifiers are slot numbers, reused lowest-first: a make and a remove in flight together could make
\* the remove hit the other handler - EndPoint.tla's subject, kept out of this module)
StartMake(h) == /\ api[h] = "idle" /\ \A g \in Handlers : api[g] # "remove"
                /\ api' = [api EXCEPT ![h] = "make"]
                /\ UNCHANGED <<stream, stalled, mu, rd, cur, inbox, sent, cl, sn, hs, got, replies, pend>>
StartRemove(h) == /\ api[h] = "made" /\ \A g \in Handlers : api[g] # "make"
                  /\ api' = [api EXCEPT ![h] = "remove"]
                  /\ UNCHANGED <<stream, stalled, mu, rd, cur, inbox, sent, cl, sn, hs, got, replies, pend>>

(***************************************************************************)
(* the end point's own steps                                                *)
(***************************************************************************)
\* Send: the write returns when the peer takes the bytes or the stream is closed
SendEnd(s) == /\ sn[s] = "writing" /\ CanWrite
              /\ sn' = [sn EXCEPT ![s] = IF stream = "closed" THEN "err" ELSE "ok"]
              /\ UNCHANGED <<stream, stalled, mu, rd, cur, inbox, sent, cl, hs, api, got, replies, pend>>

\* MakeHandler / RemoveHandler: one critical section each
MakeEnd(h) == /\ api[h] = "make" /\ mu = None
              /\ hs' = [hs EXCEPT ![h] = "live"] /\ api' = [api EXCEPT ![h] = "made"]
              /\ UNCHANGED <<stream, stalled, mu, rd, cur, inbox, sent, cl, sn, got, replies, pend>>
\* closer + close(queue) under the mutex; an empty slot (the shutdown detached the handler first) is an error
RemoveEnd(h) == /\ api[h] = "remove" /\ mu = None
                /\ IF hs[h] = "live" THEN /\ hs' = [hs EXCEPT ![h] = "removed"] /\ api' = [api EXCEPT ![h] = "rmok"]
                                     ELSE /\ api' = [api EXCEPT ![h] = "rmerr"] /\ UNCHANGED hs
                /\ UNCHANGED <<stream, stalled, mu, rd, cur, inbox, sent, cl, sn, got, replies, pend>>

\* reader
RRead == /\ rd = "read" /\ stream = "open" /\ inbox # <<>>
         /\ cur' = Head(inbox) /\ inbox' = Tail(inbox) /\ rd' = "lock"
         /\ UNCHANGED <<stream, stalled, mu, cl, sn, hs, api, got, replies, pend, sent>>
RReadErr == /\ rd = "read" /\ stream = "closed"
            /\ rd' = "start" /\ inbox' = <<>>
            /\ UNCHANGED <<stream, stalled, mu, cur, cl, sn, hs, api, got, replies, pend, sent>>
RLock == /\ rd = "lock" /\ mu = None /\ mu' = "reader" /\ rd' = "scan"
         /\ UNCHANGED <<stream, stalled, cur, inbox, sent, cl, sn, hs, api, got, replies, pend>>
\* the loop over the handlers: non-blocking deliveries, all under the mutex
RScan == /\ rd = "scan"
         /\ LET takers == IF cur = "hit" THEN Live ELSE {} IN
            /\ got' = [h \in Handlers |-> IF h \in takers THEN got[h] + 1 ELSE got[h]]
            /\ \/ /\ Permissive \/ (takers = {} /\ cur \in {"hit", "miss"})
                  /\ rd' = "refuse" /\ UNCHANGED <<mu, cur, pend>>                \* refuse(): Send under the mutex
               \/ /\ Permissive /\ pend' = pend + 1
                  /\ rd' = "read" /\ mu' = None /\ cur' = None
               \/ /\ Permissive \/ ~(takers = {} /\ cur \in {"hit", "miss"})
                  /\ rd' = "read" /\ mu' = None /\ cur' = None /\ UNCHANGED pend
         /\ UNCHANGED <<stream, stalled, inbox, sent, cl, sn, hs, api, replies>>
PendWrite == /\ pend > 0 /\ CanWrite
             /\ pend' = pend - 1 /\ replies' = IF stream = "open" THEN replies + 1 ELSE replies
             /\ UNCHANGED <<stream, stalled, mu, rd, cur, inbox, sent, cl, sn, hs, api, got>>
RRefuse == /\ rd = "refuse" /\ CanWrite
           /\ replies' = IF stream = "open" THEN replies + 1 ELSE replies
           /\ rd' = "read" /\ mu' = None /\ cur' = None
           /\ UNCHANGED <<stream, stalled, inbox, sent, cl, sn, hs, api, got, pend>>

\* closeWith, run by Close() callers and by the reader after a read error
CloseStream(who, st) ==       \* stream.Close()
  /\ st = "start" /\ ~LockFirst
  /\ stream' = "closed"
CloseLock(who, st) == st = "wantlock" /\ mu = None /\ mu' = who
DetachAll == hs' = [h \in Handlers |-> IF hs[h] = "live" THEN "detached" ELSE hs[h]]

CClose(c) == /\ CloseStream(c, cl[c]) /\ cl' = [cl EXCEPT ![c] = "wantlock"]
             /\ UNCHANGED <<stalled, mu, rd, cur, inbox, sent, sn, hs, api, got, replies, pend>>
CLock(c) == /\ CloseLock(c, cl[c]) /\ cl' = [cl EXCEPT ![c] = "detach"]
            /\ UNCHANGED <<stream, stalled, rd, cur, inbox, sent, sn, hs, api, got, replies, pend>>
CDetach(c) == /\ cl[c] = "detach" /\ mu = c /\ DetachAll /\ mu' = None
              /\ cl' = [cl EXCEPT ![c] = "done"]
              /\ UNCHANGED <<stream, stalled, rd, cur, inbox, sent, sn, api, got, replies, pend>>
RClose == /\ CloseStream("readerclose", rd) /\ rd' = "wantlock"
          /\ UNCHANGED <<stalled, mu, cur, inbox, sent, cl, sn, hs, api, got, replies, pend>>
RCLock == /\ CloseLock("readerclose", rd) /\ rd' = "detach"
          /\ UNCHANGED <<stream, stalled, cur, inbox, sent, cl, sn, hs, api, got, replies, pend>>
RCDetach == /\ rd = "detach" /\ mu = "readerclose" /\ DetachAll /\ mu' = None /\ rd' = "stopped"
            /\ UNCHANGED <<stream, stalled, cur, inbox, sent, cl, sn, api, got, replies, pend>>

\* the deviation: mutex first, then the stream (both under the mutex)
DevCLock(c) == /\ LockFirst /\ cl[c] = "start" /\ mu = None /\ mu' = c
               /\ cl' = [cl EXCEPT ![c] = "locked"]
               /\ UNCHANGED <<stream, stalled, rd, cur, inbox, sent, sn, hs, api, got, replies, pend>>
DevCClose(c) == /\ LockFirst /\ cl[c] = "locked" /\ stream' = "closed"
                /\ cl' = [cl EXCEPT ![c] = "detach"]
                /\ UNCHANGED <<stalled, mu, rd, cur, inbox, sent, sn, hs, api, got, replies, pend>>
DevRLock == /\ LockFirst /\ rd = "start" /\ mu = None /\ mu' = "readerclose" /\ rd' = "detach"
            /\ UNCHANGED <<stream, stalled, cur, inbox, sent, cl, sn, hs, api, got, replies, pend>>

\* go handler.closeWith(err): closer, then close(queue)
HClose(h) == /\ hs[h] = "detached" /\ hs' = [hs EXCEPT ![h] = "closed"]
             /\ UNCHANGED <<stream, stalled, mu, rd, cur, inbox, sent, cl, sn, api, got, replies, pend>>

Internal == \/ \E s \in Senders : SendEnd(s)
            \/ \E h \in Handlers : MakeEnd(h) \/ RemoveEnd(h) \/ HClose(h)
            \/ RRead \/ RReadErr \/ RLock \/ RScan \/ RRefuse \/ PendWrite
            \/ \E c \in Closers : CClose(c) \/ CLock(c) \/ CDetach(c) \/ DevCLock(c) \/ DevCClose(c)
            \/ RClose \/ RCLock \/ RCDetach \/ DevRLock
Env == \/ \E k \in Kinds : PeerSend(k)
       \/ PeerStall \/ PeerResume \/ PeerClose
App == \/ \E c \in Closers : StartClose(c)
       \/ \E s \in Senders : StartSend(s)
       \/ \E h \in Handlers : StartMake(h) \/ StartRemove(h)
Next == Internal \/ Env \/ App
Fair == /\ \A s \in Senders : WF_vars(SendEnd(s))
        /\ \A h \in Handlers : WF_vars(MakeEnd(h)) /\ WF_vars(RemoveEnd(h)) /\ WF_vars(HClose(h))
        /\ WF_vars(RRead) /\ WF_vars(RReadErr) /\ WF_vars(RLock) /\ WF_vars(RScan) /\ WF_vars(RRefuse) /\ WF_vars(PendWrite)
        /\ \A c \in Closers : WF_vars(CClose(c)) /\ WF_vars(CLock(c)) /\ WF_vars(CDetach(c))
                               /\ WF_vars(DevCLock(c)) /\ WF_vars(DevCClose(c))
        /\ WF_vars(RClose) /\ WF_vars(RCLock) /\ WF_vars(RCDetach) /\ WF_vars(DevRLock)
Spec == Init /\ [][Next]_vars /\ Fair

(***************************************************************************)
(* Properties                                                               *)
(***************************************************************************)
TypeOK == /\ stream \in {"open", "closed"} /\ stalled \in BOOLEAN
          /\ rd \in {"read", "lock", "scan", "refuse", "start", "wantlock", "detach", "stopped"}
          /\ \A c \in Closers : cl[c] \in {"idle", "start", "wantlock", "locked", "detach", "done"}
          /\ \A s \in Senders : sn[s] \in {"idle", "writing", "ok", "err"}
MutexHeldByOne == /\ (mu = "reader") <=> (rd \in {"scan", "refuse"})
                  /\ (mu = "readerclose") <=> (rd = "detach")
                  /\ \A c \in Closers : (mu = c) <=> (cl[c] \in {"locked", "detach"})
\* Close() returns whatever the peer does (C17: closing terminates)
CloseReturns == \A c \in Closers : (cl[c] = "start") ~> (cl[c] = "done")
\* once Close() has returned the stream is closed and no handler made before is left in the table
ClosedMeansDetached == \A c \in Closers : cl[c] = "done" => stream = "closed"
\* a blocked Send is released by Close
SendReleased == \A s \in Senders : (sn[s] = "writing" /\ \E c \in Closers : cl[c] # "idle") ~> (sn[s] \in {"ok", "err"})
\* the reader goroutine ends once the stream is closed, whoever closed it
ReaderStops == (stream = "closed") ~> (rd = "stopped")
\* every handler detached by the shutdown is closed
DetachedGetClosed == \A h \in Handlers : (hs[h] = "detached") ~> (hs[h] = "closed")
\* nothing is delivered and no refusal is written after the reader stopped
NoWorkAfterStop == [][rd = "stopped" => (got' = got /\ replies' = replies)]_vars
\* named consequence: API calls wait while the reader is parked in refuse()
ApiWaits == \A h \in Handlers : (api[h] = "make" /\ rd = "refuse" /\ stalled /\ stream = "open") => ~ENABLED MakeEnd(h)
=============================================================================
