SPECIFICATION Spec
CONSTANTS
  HConns = {"h1"}
  Objs = {"o1", "o2"}
  HTargets = {"o1"}
  Kinds = {"post", "reg"}
  MaxLen = 5
  MaxFlood = 4
  MaxReg = 1
  Closes = {}
  PMax = 0
  QCap = 1
  BCap = 1
  NoRead = {}
  OutCap = 1
  Dev_ReceiveHoldsLockWhileEnqueuing = FALSE
  Dev_DispatchBlocksOnFullQueue = TRUE
  Dev_ConsumerGivesUpOnFullMailbox = FALSE
  Dev_RemoveClosesMailbox = FALSE
INVARIANTS ExportCycles

CHECK_DEADLOCK FALSE
