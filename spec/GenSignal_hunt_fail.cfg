SPECIFICATION GSpec
CONSTANTS
  Threads <- Cast94
  Conns = {"c2", "c3"}
  Signals = {"A", "B"}
  Objects = {"o1"}
  ConnOf <- CastConn
  SigOf <- CastSig
  ObjOf <- CastObj
  Rounds <- CR1
  EmitSeq <- EmitO1
  QCap = 8
  Dev_ProxySectionsNotAtomic = TRUE
  Dev_SendAfterSnapshot = TRUE
  Devs = {}
  Probe <- NoProbe
  Failing = {"c3"}
  Inject <- NoInject
  Rogue = {}
  Hunt = "W_fail"
INVARIANT HuntOpen
VIEW GView
CONSTRAINT NoCancel
CHECK_DEADLOCK FALSE
