------------------------------ MODULE Property ------------------------------
(* C14 - a property of a qiloop object as a sequential, typed register with
   validated writes and change events (bus/object.go).

   One action per operation as it is seen by a caller, i.e. the *sequential
   specification* used (a) for the design check, (b) to generate behaviours that
   are replayed on a real object and (c) as the sequential object of the
   linearizability check of recorded concurrent histories (TraceProperty.tla).
   The non-atomic rendering of the same code (validate / save / notify as
   separate steps of several goroutines) is PropertySteps.tla, which is checked
   to refine this module.

   code                                         | here
   ---------------------------------------------+--------------------------------
   objectImpl.Property (object.go l.142-156,    | Get
     RLock, "property unknown" if never written) |
   objectImpl.SetProperty (l.158-199) called by | SetValid / SetInvalid /
     stubObject.SetProperty on the mailbox       | SetUnknown / SetWrong
     goroutine: name or uint id -> value.Write   |
     -> onPropertyChange(name, data) (generated: |
     decode *data* with the declared type, call  |
     On<Prop>Change) -> saveProperty -> PropertyID|
     -> signalHandler.UpdateProperty             |
   stubObject.UpdateProperty (l.29-49), called   | Update / UpdateInvalid
     by the generated Update<Prop> helper on the |
     caller's goroutine                          |
   registerEvent / unregisterEvent of a          | Subscribe / Unsubscribe
     subscriber on its own connection            |

   Values are [sig, bytes]: the signature the value carries and its encoding
   (bytes as sequences of 0..255).  The declared type is int32 ("i"), as in
   examples/space (property "delay" of Bomb).

   Deviation (DESIGN.md 3.3): Dev_ValidateByBytesOnly = what the pinned code
   does with a value whose signature is not the declared one: the validator
   decodes the first four bytes of whatever encoding arrives, the value is
   saved with its own signature and its bytes are broadcast.                 *)
EXTENDS Integers, Sequences, FiniteSets, TLC

CONSTANTS
  Valid,                    \* int32 values the validator accepts
  Invalid,                  \* int32 values the validator rejects
  Subs,                     \* subscribers, each on its own connection
  WrongKinds,               \* subset of DOMAIN WrongTab used by this configuration
  Dev_ValidateByBytesOnly   \* BOOLEAN

DeclSig == "i"
NoConv  == -1000

\* the service's validator (the harness installs the same rule: examples/space
\* rejects negative durations)
ValidatorOK(n) == n >= 0

ASSUME \A n \in Valid : ValidatorOK(n)
ASSUME \A n \in Invalid : ~ValidatorOK(n)

\* little-endian int32 <-> bytes (TLC integers are 32-bit: no 2^32 anywhere)
LE32(n) == << n % 256, (n \div 256) % 256, (n \div 65536) % 256, (n \div 16777216) % 256 >>
Dec32(b) == b[1] + 256 * b[2] + 65536 * b[3]
            + 16777216 * (IF b[4] >= 128 THEN b[4] - 256 ELSE b[4])
ASSUME \A n \in {0, 1, 5, 255, 256, -1, -2, 65536, 2147483647, -2147483647 - 1} : Dec32(LE32(n)) = n

I32(n) == [sig |-> DeclSig, bytes |-> LE32(n)]

(* Wrongly-typed candidates: every other scalar kind, string, list, tuple,
   longer and shorter than the declared type.  conv = the int32 the value
   denotes when a value-preserving numeric conversion exists (an implementation
   may accept such a write *as* that int32), NoConv otherwise.                *)
WrongTab == [
  b      |-> [sig |-> "b",    bytes |-> <<1>>,                         conv |-> NoConv],
  c      |-> [sig |-> "c",    bytes |-> <<5>>,                         conv |-> 5],
  C      |-> [sig |-> "C",    bytes |-> <<5>>,                         conv |-> 5],
  w      |-> [sig |-> "w",    bytes |-> <<5, 0>>,                      conv |-> 5],
  W      |-> [sig |-> "W",    bytes |-> <<5, 0>>,                      conv |-> 5],
  I      |-> [sig |-> "I",    bytes |-> <<5, 0, 0, 0>>,                conv |-> 5],
  Ineg   |-> [sig |-> "I",    bytes |-> <<255, 255, 255, 255>>,        conv |-> NoConv],
  l      |-> [sig |-> "l",    bytes |-> <<5, 0, 0, 0, 0, 0, 0, 0>>,    conv |-> 5],
  lbig   |-> [sig |-> "l",    bytes |-> <<5, 0, 0, 0, 1, 0, 0, 0>>,    conv |-> NoConv],
  L      |-> [sig |-> "L",    bytes |-> <<5, 0, 0, 0, 0, 0, 0, 0>>,    conv |-> 5],
  f      |-> [sig |-> "f",    bytes |-> <<0, 0, 128, 63>>,             conv |-> NoConv],
  d      |-> [sig |-> "d",    bytes |-> <<0, 0, 0, 0, 0, 0, 240, 63>>, conv |-> NoConv],
  s      |-> [sig |-> "s",    bytes |-> <<4, 0, 0, 0, 97, 98, 99, 100>>, conv |-> NoConv],
  sempty |-> [sig |-> "s",    bytes |-> <<0, 0, 0, 0>>,                conv |-> NoConv],
  s3     |-> [sig |-> "s",    bytes |-> <<3, 0, 0, 0, 97, 98, 99>>,    conv |-> NoConv],
  li     |-> [sig |-> "[i]",  bytes |-> <<1, 0, 0, 0, 7, 0, 0, 0>>,    conv |-> NoConv],
  lempty |-> [sig |-> "[i]",  bytes |-> <<0, 0, 0, 0>>,                conv |-> NoConv],
  t1     |-> [sig |-> "(i)",  bytes |-> <<5, 0, 0, 0>>,                conv |-> 5],
  t2     |-> [sig |-> "(ii)", bytes |-> <<5, 0, 0, 0, 6, 0, 0, 0>>,    conv |-> NoConv],
  t0     |-> [sig |-> "()",   bytes |-> <<>>,                          conv |-> NoConv],
  m      |-> [sig |-> "{ii}", bytes |-> <<1, 0, 0, 0, 2, 0, 0, 0, 3, 0, 0, 0>>, conv |-> NoConv]
]
AllWrong    == DOMAIN WrongTab          \* cfg: WrongKinds <- AllWrong
SomeWrong   == {"c", "I", "s", "t0"}     \* shorter, same size, longer, empty
SeqWrong    == {"I", "s"}
SeqWrong1   == {"s"}
DefInvalid  == {-1}                      \* cfg: Invalid <- DefInvalid (no negative literals in cfg files)
ASSUME WrongKinds \subseteq DOMAIN WrongTab
ASSUME \A k \in WrongKinds : WrongTab[k].sig # DeclSig
ASSUME \A k \in WrongKinds : WrongTab[k].conv = NoConv \/ ValidatorOK(WrongTab[k].conv)

VARIABLES
  val,          \* [set, sig, bytes]: objectImpl.properties[name]
  writes,       \* accepted-write log (sequence of [sig, bytes])
  subscribed,   \* [Subs -> BOOLEAN]
  since,        \* [Subs -> Nat]: Len(writes) when the subscription was acknowledged
  events,       \* [Subs -> Seq([sig, bytes])]: events of the current/last subscription
  ret,          \* result of the last operation  [e, sig, bytes]
  last          \* the last operation [k, w]  (k = op kind, w = TRUE for writes)

vars == <<val, writes, subscribed, since, events, ret, last>>

NoBytes == <<>>
OK      == [e |-> "", sig |-> "", bytes |-> NoBytes]
Err     == [e |-> "err", sig |-> "", bytes |-> NoBytes]

Init == /\ val = [set |-> FALSE, sig |-> "", bytes |-> NoBytes]
        /\ writes = <<>>
        /\ subscribed = [s \in Subs |-> FALSE]
        /\ since = [s \in Subs |-> 0]
        /\ events = [s \in Subs |-> <<>>]
        /\ ret = OK
        /\ last = [k |-> "init", w |-> FALSE]

\* ---- building blocks ------------------------------------------------------
Accept(v, k) ==
  /\ val' = [set |-> TRUE, sig |-> v.sig, bytes |-> v.bytes]
  /\ writes' = Append(writes, v)
  /\ events' = [s \in Subs |-> IF subscribed[s] THEN Append(events[s], v) ELSE events[s]]
  /\ ret' = OK
  /\ last' = [k |-> k, w |-> TRUE]
  /\ UNCHANGED <<subscribed, since>>

Reject(k) ==
  /\ ret' = Err
  /\ last' = [k |-> k, w |-> TRUE]
  /\ UNCHANGED <<val, writes, subscribed, since, events>>

\* ---- operations -----------------------------------------------------------
Get == /\ ret' = IF val.set THEN [e |-> "", sig |-> val.sig, bytes |-> val.bytes] ELSE Err
       /\ last' = [k |-> "get", w |-> FALSE]
       /\ UNCHANGED <<val, writes, subscribed, since, events>>

\* remote setProperty, value of the declared type; the name is given as a
\* string or as the property's uid (both branches of object.go l.159-175)
SetValid(n)   == n \in Valid /\ Accept(I32(n), "set")
SetInvalid(n) == n \in Invalid /\ Reject("setinvalid")
\* unknown property name or uid
SetUnknown    == Reject("setunknown")

\* what the pinned code does with a wrongly-typed value (Dev_ValidateByBytesOnly)
CodeSetWrong(k) ==
  LET b == WrongTab[k].bytes IN
  IF Len(b) < 4 THEN Reject("setwrong")                      \* ReadInt32 fails
  ELSE IF ValidatorOK(Dec32(SubSeq(b, 1, 4)))
       THEN Accept([sig |-> WrongTab[k].sig, bytes |-> b], "setwrong")
       ELSE Reject("setwrong")

\* remote setProperty with a value of another type: rejected, or accepted *as*
\* the declared type when it converts without loss
SetWrongReject(k)  == k \in WrongKinds /\ Reject("setwrong")
SetWrongConvert(k) == k \in WrongKinds /\ WrongTab[k].conv # NoConv
                      /\ Accept(I32(WrongTab[k].conv), "setwrong")
SetWrongDev(k)     == k \in WrongKinds /\ Dev_ValidateByBytesOnly /\ CodeSetWrong(k)
SetWrong(k) == SetWrongReject(k) \/ SetWrongConvert(k) \/ SetWrongDev(k)

\* service-side Update<Prop> helper
Update(n)        == n \in Valid /\ Accept(I32(n), "update")
UpdateInvalid(n) == n \in Invalid /\ Reject("updateinvalid")

Subscribe(s) == /\ ~subscribed[s]
                /\ subscribed' = [subscribed EXCEPT ![s] = TRUE]
                /\ since' = [since EXCEPT ![s] = Len(writes)]
                /\ events' = [events EXCEPT ![s] = <<>>]
                /\ ret' = OK /\ last' = [k |-> "sub", w |-> FALSE]
                /\ UNCHANGED <<val, writes>>
Unsubscribe(s) == /\ subscribed[s]
                  /\ subscribed' = [subscribed EXCEPT ![s] = FALSE]
                  /\ ret' = OK /\ last' = [k |-> "unsub", w |-> FALSE]
                  /\ UNCHANGED <<val, writes, since, events>>

Next == \/ Get
        \/ \E n \in Valid : SetValid(n) \/ Update(n)
        \/ \E n \in Invalid : SetInvalid(n) \/ UpdateInvalid(n)
        \/ SetUnknown
        \/ \E k \in WrongKinds : SetWrong(k)
        \/ \E s \in Subs : Subscribe(s) \/ Unsubscribe(s)

Spec == Init /\ [][Next]_vars

\* ---- the property -----------------------------------------------------------
Bytes == 0..255
TypeOK == /\ val.set \in BOOLEAN /\ val.sig \in STRING
          /\ subscribed \in [Subs -> BOOLEAN]
          /\ \A s \in Subs : since[s] \in 0..Len(writes) /\ Len(events[s]) <= Len(writes)
          /\ ret.e \in {"", "err"}

\* every value a read returns has the declared type ...
TypedReads == (last.k = "get" /\ ret.e = "") => (ret.sig = DeclSig /\ Len(ret.bytes) = 4)
StoredTyped == val.set => (val.sig = DeclSig /\ Len(val.bytes) = 4)
\* ... and is the most recent accepted write
ReadsLastWrite == (last.k = "get" /\ ret.e = "") =>
                     /\ Len(writes) > 0
                     /\ writes[Len(writes)] = [sig |-> ret.sig, bytes |-> ret.bytes]
NoValueBeforeFirstWrite == (last.k = "get" /\ Len(writes) = 0) => ret.e # ""
\* every accepted write is of the declared type and passed the validator
AcceptedWritesValidated == \A i \in 1..Len(writes) :
                              /\ writes[i].sig = DeclSig /\ Len(writes[i].bytes) = 4
                              /\ ValidatorOK(Dec32(writes[i].bytes))
\* a rejected write changes nothing and emits nothing (action property)
RejectedWriteNoEffect == [][ (last'.w /\ ret'.e # "") => UNCHANGED <<val, writes, events>> ]_vars
\* an accepted write is what the register then holds
AcceptedWriteTakesEffect == [][ (last'.w /\ ret'.e = "") =>
                                  /\ Len(writes') = Len(writes) + 1
                                  /\ val' = [set |-> TRUE, sig |-> writes'[Len(writes')].sig,
                                             bytes |-> writes'[Len(writes')].bytes] ]_vars
\* exactly one event per accepted write, carrying the new value, to each subscriber
OneEventPerAcceptedWrite ==
  \A s \in Subs : subscribed[s] => events[s] = SubSeq(writes, since[s] + 1, Len(writes))
\* reads and (un)subscriptions do not write
ReadOnlyOps == [][ ~last'.w => UNCHANGED <<val, writes>> ]_vars

\* ---- bounds for exhaustive runs -----------------------------------------------
CONSTANT MaxWrites
Bound == Len(writes) <= MaxWrites
=============================================================================
