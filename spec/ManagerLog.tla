------------------------------ MODULE ManagerLog ------------------------------
(***************************************************************************)
(* The logging services of qiloop (extension module hosted by C14):         *)
(*   bus/logger/log_manager.go   logManager  - the providers and listeners  *)
(*                               tables, Log fan-out, UpdateFilters /       *)
(*                               UpdateVerbosity pushes to the providers    *)
(*   bus/logger/log_listener.go  logListenerImpl - level, category filters, *)
(*                               the filter() decision, the logLevel        *)
(*                               property's validator                       *)
(*   bus/logger/log_provider.go  logProvider - what a real provider does    *)
(*                               with what it is told (rv)                  *)
(* as THREADS stepping through the critical sections of the code.  The     *)
(* goroutines are the mail boxes: thread 0 = the LogManager object (Log,    *)
(* CreateListener / GetListener, AddProvider, RemoveProvider run one after  *)
(* the other), thread l = the mail box of listener object l (setLevel,      *)
(* setProperty(logLevel), addFilter, clearFilters, terminate).  An          *)
(* operation is a PROGRAM: the sequence of its critical sections; th[t].i   *)
(* points at the next one.  One named step per critical section /           *)
(* linearization point (file:line of /repo at 4f0a64d, i.e. before the      *)
(* hook commit of this module; lm = bus/logger/log_manager.go, ll =          *)
(* log_listener.go, lp = log_provider.go):                                  *)
(*                                                                         *)
(*  lbeg   lm Log l.59-62            listenersMutex.RLock (kept until lend)  *)
(*  ldec   ll filter l.24-42         one message x one listener: the        *)
(*         decision under the listener's filtersMutex.RLock (a message of   *)
(*         level None is refused before the lock, l.25-27), then ll         *)
(*         Messages l.57-66: SignalOnLogMessage if kept; after the last     *)
(*         message of the batch SignalOnLogMessages(kept)                   *)
(*  lend   lm Log l.62 (deferred RUnlock), l.69                             *)
(*  idx    lm CreateListener l.85-88     listenersNext++ under the lock      *)
(*  act    lm CreateListener l.98 -> CreateLogListener -> service.Add ->    *)
(*         ll Activate l.44-55 -> UpdateLogLevel(Info) -> ll                *)
(*         OnLogLevelChange l.108-117 (level := Info, then UpdateVerbosity) *)
(*  ins    lm CreateListener l.103-105   listeners[index] = listener         *)
(*  vj     lm UpdateVerbosity l.132-139  max of the listeners' levels under  *)
(*         listenersMutex.RLock                                             *)
(*  vp     lm UpdateVerbosity l.140-144  providersMutex.RLock (first step), *)
(*         one provider.SetVerbosity call per step, RUnlock with the last   *)
(*  fj     lm UpdateFilters l.113-124    per category the LEAST verbose     *)
(*         level any listener asks for (Dev_MinCategoryJoin)                *)
(*  fp     lm UpdateFilters l.125-129    provider.ClearAndSet calls          *)
(*  pcat0  lm AddProvider l.152          provider.SetCategory("", None)      *)
(*  pins   lm AddProvider l.153-157      providers[providersNext++]          *)
(*  pdel   lm RemoveProvider l.162-170                                      *)
(*  lvl    ll SetLevel l.118-127 / OnLogLevelChange l.108-117:              *)
(*         defaultLevel := v under filtersMutex.Lock                        *)
(*  psave / pnotify   bus/object.go SetProperty l.162-226: the value is     *)
(*         stored, then one change event per subscriber                      *)
(*  pget   bus/object.go Property l.146-161                                 *)
(*  flock  ll AddFilter l.83-96: filtersMutex.Lock, filters[cat] = level;   *)
(*         the lock is HELD while UpdateFilters runs                        *)
(*         (Dev_AddFilterHoldsLock)                                         *)
(*  funlock ll AddFilter's deferred Unlock (l.92)                           *)
(*  fclr   ll ClearFilters l.99-106                                         *)
(*  svcrm  bus/service.go Remove l.155-169: the object leaves the service   *)
(*  tpend / tdel  lm terminateListener l.72-82: listenersMutex.Lock asked   *)
(*         for (a pending writer stops new readers: sync.RWMutex) /         *)
(*         obtained, the entry is deleted                                    *)
(*  unsub  bus/signal.go OnTerminate l.276-287: the subscribers are dropped *)
(*  subs   (the client) registerEvent for onLogMessage, onLogMessages and   *)
(*         logLevel once createListener has returned                        *)
(*  rej    an error is returned, nothing else happens; an operation that is *)
(*         not refused returns with the last step of its program            *)
(*  rv     lp SetVerbosity l.133-138, SetCategory l.139-144 (category ==    *)
(*         own category => verbosity := level), ClearAndSet l.145-150,      *)
(*         logf l.76-91 (a message is sent iff level <= verbosity)          *)
(*                                                                         *)
(* Locks: listenersMutex = logHolds (the one reader that keeps it over      *)
(* several steps: Log) + lmPend (writers waiting); writers and the other    *)
(* readers take and release it inside one step.  providersMutex: pmR (the   *)
(* threads between their first and last push).   filtersMutex of listener  *)
(* l: fmW[l] (the thread that keeps it: AddFilter).                         *)
(*                                                                         *)
(* WHAT THE CODE AS FOUND DOES where a reader would expect otherwise is     *)
(* switched by Dev_* constants (all TRUE = the pinned code; all FALSE = the *)
(* design the demands below are checked against):                           *)
(*  Dev_FilterOnlyWidens        filter(): a message passes if ANY matching  *)
(*      category filter OR the default level admits it - a category filter  *)
(*      cannot make a category quieter than the default level               *)
(*  Dev_MinCategoryJoin         UpdateFilters keeps the LOWEST level per    *)
(*      category (l.Level < previous.Level)                                 *)
(*  Dev_NoRecomputeOnTerminate  terminateListener does not push anything    *)
(*  Dev_LostListenerKept        a listener whose client's connection is     *)
(*      lost stays in the table for ever (only its subscriptions go)        *)
(*  Dev_StalePush               the join is computed under one lock and     *)
(*      pushed under another: two concurrent updates can reach a provider   *)
(*      in the opposite order (the older join wins)                         *)
(*  Dev_SetLevelBypassesProperty setLevel() changes the level the filter    *)
(*      uses but not the logLevel property (get returns the old value)      *)
(*  Dev_AddFilterHoldsLock      AddFilter calls UpdateFilters with its      *)
(*      filtersMutex held: with a Log in progress and a terminateListener   *)
(*      waiting for listenersMutex this is a deadlock                       *)
(*  Dev_UnlockedFilterRead      UpdateFilters iterates the filters map of   *)
(*      EVERY listener under listenersMutex only, AddFilter / ClearFilters  *)
(*      write their own map under their own filtersMutex: two critical      *)
(*      sections on the same map under different locks - a data race (the   *)
(*      Go runtime ends the process: concurrent map iteration and map       *)
(*      write).  Rendered as: the fj step is taken while a writing step of  *)
(*      another listener is enabled => ghost.race                           *)
(*  Dev_RejectedWriteSaved      (NOT the code: vacuity guard of the         *)
(*      register demands) a rejected property value is stored all the same  *)
(* Also modelled as found, without a switch (the statement of no demand     *)
(* depends on it): a message of level 0 (None) is never delivered;          *)
(* onLogMessages is emitted for every Log, also with an empty list;         *)
(* CreateListener pushes the OLD join first (the activation's               *)
(* UpdateVerbosity runs before the listener is in the table); AddProvider   *)
(* does not check anything; RemoveProvider leaves the provider as it was    *)
(* told last; category patterns are unanchored regular expressions.         *)
(***************************************************************************)
EXTENDS Integers, Sequences, FiniteSets, TLC

CONSTANTS
  Listeners,      \* listener slots 1..n (the n-th listener object the clients create)
  Providers,      \* provider slots
  RealProv,       \* the providers that are a logProvider of log_provider.go (the others record what they are told)
  LevelsUsed,     \* the valid levels (0..6) the environment uses
  BadLevel,       \* an invalid one (7)
  Pats,           \* category patterns the environment uses
  BadPat,         \* a pattern that does not compile
  Cats,           \* message categories
  Match,          \* [Pats -> SUBSET Cats]   which categories a pattern matches
  PCat,           \* [Providers -> STRING]   category of a real provider (compared with == to the patterns told)
  ClientOf,       \* [Listeners -> Nat]      the client (connection) that creates and uses the listener
  Batches,        \* the batches a Log call may carry: sequences of [lvl, cat]
  MgrOps, LstOps, \* operations the environment uses
  MaxMgr, MaxLst, \* how many operations on the manager thread / per listener thread
  InitLive, InitProv,  \* listeners / providers that exist in the initial state
  Hist,           \* TRUE: record what the listeners receive and the providers are told
  MaxHold,        \* gates the environment may arm (0 in the design checks)
  Dev_FilterOnlyWidens, Dev_MinCategoryJoin, Dev_NoRecomputeOnTerminate, Dev_LostListenerKept,
  Dev_StalePush, Dev_SetLevelBypassesProperty, Dev_AddFilterHoldsLock, Dev_UnlockedFilterRead, Dev_RejectedWriteSaved

VARIABLES
  lst,      \* [Listeners -> [st, idx, lvl, filt, prop]]
  lnext,    \* listenersNext
  prov,     \* [Providers -> [st, idx]]
  pnext,    \* providersNext
  sub,      \* [Listeners -> BOOLEAN]  the client's subscriptions (onLogMessage, onLogMessages, logLevel) are in place
  conn,     \* [Listeners -> BOOLEAN]  the connection of the listener's client
  pconn,    \* [Providers -> BOOLEAN]
  pv, pf,   \* what a provider was told last: verbosity (-1: nothing yet), filters
  rv,       \* verbosity register of a real provider
  th,       \* [Threads -> thread record]
  logHolds, \* Log holds listenersMutex.RLock
  lmPend,   \* threads waiting for listenersMutex.Lock
  pmR,      \* threads holding providersMutex.RLock
  fmW,      \* [Listeners -> thread holding the listener's filtersMutex.Lock, or -1]
  hold,     \* [Threads -> the step before which the thread parks ("": none)]
  nhold, nMgr, nLst,
  ghost,    \* [misd: a delivery decision differed from the demanded one, race: an unlocked read met a write, acc/evs: accepted property writes / change events per listener,
            \*  wr: the last accepted property value per listener]
  mid,      \* message id counter
  rcv, bat, pev, told   \* observations (Hist)

vars == <<lst, lnext, prov, pnext, sub, conn, pconn, pv, pf, rv, th, logHolds, lmPend, pmR, fmW, hold, nhold, nMgr, nLst, ghost, mid,
          rcv, bat, pev, told>>

Threads == {0} \cup Listeners
NoF == [q \in Pats |-> -1]
Max(S) == CHOOSE x \in S : \A y \in S : y <= x
Min(S) == CHOOSE x \in S : \A y \in S : x <= y
Valid(v) == v \in 0..6

Table == {l \in Listeners : lst[l].st \in {"live", "dying"}}
JoinV(S) == Max({lst[l].lvl : l \in S} \cup {0})
JoinFWith(S, min) == [q \in Pats |-> LET A == {lst[l].filt[q] : l \in {x \in S : lst[x].filt[q] # -1}}
                                     IN IF A = {} THEN -1 ELSE IF min THEN Min(A) ELSE Max(A)]
JoinF(S) == JoinFWith(S, Dev_MinCategoryJoin)

\* the decision of log_listener.go filter()
Matching(l, m) == {q \in Pats : lst[l].filt[q] # -1 /\ m.cat \in Match[q]}
CodeAdmits(l, m) == m.lvl # 0 /\ ((\E q \in Matching(l, m) : m.lvl <= lst[l].filt[q]) \/ m.lvl <= lst[l].lvl)
\* the demanded one: a matching category filter decides, the default level otherwise
WantAdmits(l, m) == m.lvl # 0 /\ IF Matching(l, m) = {} THEN m.lvl <= lst[l].lvl
                                 ELSE \E q \in Matching(l, m) : m.lvl <= lst[l].filt[q]
Admits(l, m) == IF Dev_FilterOnlyWidens THEN CodeAdmits(l, m) ELSE WantAdmits(l, m)

Idle == [op |-> "", l |-> 0, p |-> 0, v |-> 0, q |-> "", msgs |-> <<>>, prog |-> <<>>, i |-> 1,
         jv |-> 0, jf |-> NoF, todo |-> {}, rest |-> {}, cur |-> 0, mi |-> 1, kept |-> <<>>, ret |-> 0, val |-> 0]
Busy(t) == th[t].i <= Len(th[t].prog)
Cur(t) == IF Busy(t) THEN th[t].prog[th[t].i] ELSE ""

UV == IF Dev_StalePush THEN <<"vj", "vp">> ELSE <<"vjp">>
UF == IF Dev_StalePush THEN <<"fj", "fp">> ELSE <<"fjp">>
\* the reply is sent by the last step of the program ("rej": an error is returned and nothing else happens)
Prog(op, ok) ==
  CASE op = "create"    -> <<"idx", "act">> \o UV \o <<"ins">> \o UF \o UV \o <<"subs">>
    [] op = "addprov"   -> <<"pcat0", "pins">> \o UF \o UV
    [] op = "rmprov"    -> <<"pdel">>
    [] op = "log"       -> <<"lbeg", "ldec", "lend">>
    [] op = "nolog"     -> <<"nop">>
    [] op = "setlevel"  -> IF ok THEN <<"lvl">> \o UV \o (IF Dev_SetLevelBypassesProperty THEN <<>> ELSE <<"psave", "pnotify">>)
                           ELSE <<"rej">>
    [] op = "setprop"   -> IF ok THEN <<"lvl">> \o UV \o <<"psave", "pnotify">>
                           ELSE IF Dev_RejectedWriteSaved THEN <<"psave", "rej">> ELSE <<"rej">>
    [] op = "getprop"   -> <<"pget">>
    [] op = "addfilter" -> IF ~ok THEN <<"rej">>
                           ELSE IF Dev_AddFilterHoldsLock THEN <<"flock">> \o UF \o <<"funlock">>
                           ELSE <<"fset">> \o UF
    [] op = "clear"     -> <<"fclr">> \o UF
    [] op = "terminate" -> <<"svcrm", "tpend", "tdel">> \o (IF Dev_NoRecomputeOnTerminate THEN <<>> ELSE UF \o UV) \o <<"unsub">>
    [] op = "cleanup"   -> <<"svcrm", "tpend", "tdel">> \o UF \o UV \o <<"unsub">>
    [] OTHER            -> <<"rej">>

NoTold == [k |-> "", l |-> 0, c |-> "", f |-> NoF]
ToldV(v) == [NoTold EXCEPT !.k = "v", !.l = v]
ToldC(c, v) == [NoTold EXCEPT !.k = "c", !.c = c, !.l = v]
ToldF(f) == [NoTold EXCEPT !.k = "f", !.f = f]

InitLst(l) == IF l \in InitLive THEN [st |-> "live", idx |-> l - 1, lvl |-> 4, filt |-> NoF, prop |-> 4]
              ELSE [st |-> "none", idx |-> -1, lvl |-> 4, filt |-> NoF, prop |-> 4]
Init ==
  /\ lst = [l \in Listeners |-> InitLst(l)]
  /\ lnext = Cardinality(InitLive)
  /\ prov = [p \in Providers |-> IF p \in InitProv THEN [st |-> "in", idx |-> p - 1] ELSE [st |-> "none", idx |-> -1]]
  /\ pnext = Cardinality(InitProv)
  /\ sub = [l \in Listeners |-> l \in InitLive]
  /\ conn = [l \in Listeners |-> TRUE]
  /\ pconn = [p \in Providers |-> TRUE]
  /\ pv = [p \in Providers |-> IF p \in InitProv THEN (IF InitLive = {} THEN 0 ELSE 4) ELSE -1]
  /\ pf = [p \in Providers |-> NoF]
  /\ rv = [p \in Providers |-> IF p \in InitProv THEN (IF InitLive = {} THEN 0 ELSE 4) ELSE 4]
  /\ th = [t \in Threads |-> Idle]
  /\ logHolds = FALSE /\ lmPend = {} /\ pmR = {}
  /\ fmW = [l \in Listeners |-> -1]
  /\ hold = [t \in Threads |-> ""]
  /\ nhold = 0 /\ nMgr = 0 /\ nLst = [l \in Listeners |-> 0]
  /\ ghost = [misd |-> FALSE, race |-> FALSE, acc |-> [l \in Listeners |-> 0], evs |-> [l \in Listeners |-> 0],
              wr |-> [l \in Listeners |-> 4]]
  /\ mid = 0
  /\ rcv = [l \in Listeners |-> <<>>] /\ bat = [l \in Listeners |-> <<>>] /\ pev = [l \in Listeners |-> <<>>]
  /\ told = [p \in Providers |-> <<>>]

\* Init as an action: a new world (the trace specification starts every recorded round with it)
Reset ==
  /\ lst' = [l \in Listeners |-> InitLst(l)]
  /\ lnext' = Cardinality(InitLive)
  /\ prov' = [p \in Providers |-> IF p \in InitProv THEN [st |-> "in", idx |-> p - 1] ELSE [st |-> "none", idx |-> -1]]
  /\ pnext' = Cardinality(InitProv)
  /\ sub' = [l \in Listeners |-> l \in InitLive]
  /\ conn' = [l \in Listeners |-> TRUE]
  /\ pconn' = [p \in Providers |-> TRUE]
  /\ pv' = [p \in Providers |-> IF p \in InitProv THEN (IF InitLive = {} THEN 0 ELSE 4) ELSE -1]
  /\ pf' = [p \in Providers |-> NoF]
  /\ rv' = [p \in Providers |-> IF p \in InitProv THEN (IF InitLive = {} THEN 0 ELSE 4) ELSE 4]
  /\ th' = [t \in Threads |-> Idle]
  /\ logHolds' = FALSE /\ lmPend' = {} /\ pmR' = {}
  /\ fmW' = [l \in Listeners |-> -1]
  /\ hold' = [t \in Threads |-> ""]
  /\ nhold' = 0 /\ nMgr' = 0 /\ nLst' = [l \in Listeners |-> 0]
  /\ ghost' = [misd |-> FALSE, race |-> FALSE, acc |-> [l \in Listeners |-> 0], evs |-> [l \in Listeners |-> 0],
               wr |-> [l \in Listeners |-> 4]]
  /\ mid' = 0
  /\ rcv' = [l \in Listeners |-> <<>>] /\ bat' = [l \in Listeners |-> <<>>] /\ pev' = [l \in Listeners |-> <<>>]
  /\ told' = [p \in Providers |-> <<>>]

-----------------------------------------------------------------------------
(* what a provider does with a call of the manager *)
\* logProvider.ClearAndSet: SetCategory per entry; SetCategory(c, v): c == own category => verbosity := v
RealAfterF(p, f, r) == IF p \in RealProv /\ PCat[p] \in Pats /\ f[PCat[p]] # -1 THEN f[PCat[p]] ELSE r

PushV(p, v) ==
  /\ told' = IF Hist /\ pconn[p] THEN [told EXCEPT ![p] = Append(@, ToldV(v))] ELSE told
  /\ pv' = IF pconn[p] THEN [pv EXCEPT ![p] = v] ELSE pv
  /\ rv' = IF pconn[p] THEN [rv EXCEPT ![p] = v] ELSE rv
  /\ UNCHANGED pf
PushF(p, f) ==
  /\ told' = IF Hist /\ pconn[p] THEN [told EXCEPT ![p] = Append(@, ToldF(f))] ELSE told
  /\ pf' = IF pconn[p] THEN [pf EXCEPT ![p] = f] ELSE pf
  /\ rv' = IF pconn[p] THEN [rv EXCEPT ![p] = RealAfterF(p, f, @)] ELSE rv
  /\ UNCHANGED pv
\* all registered providers at once (the design without Dev_StalePush)
PushVAll(v) == LET P == {p \in Providers : prov[p].st = "in" /\ pconn[p]} IN
  /\ told' = IF Hist THEN [p \in Providers |-> IF p \in P THEN Append(told[p], ToldV(v)) ELSE told[p]] ELSE told
  /\ pv' = [p \in Providers |-> IF p \in P THEN v ELSE pv[p]]
  /\ rv' = [p \in Providers |-> IF p \in P THEN v ELSE rv[p]]
  /\ UNCHANGED pf
PushFAll(f) == LET P == {p \in Providers : prov[p].st = "in" /\ pconn[p]} IN
  /\ told' = IF Hist THEN [p \in Providers |-> IF p \in P THEN Append(told[p], ToldF(f)) ELSE told[p]] ELSE told
  /\ pf' = [p \in Providers |-> IF p \in P THEN f ELSE pf[p]]
  /\ rv' = [p \in Providers |-> IF p \in P THEN RealAfterF(p, f, rv[p]) ELSE rv[p]]
  /\ UNCHANGED pv

\* what is left of a finished operation: its result (kept for the behaviour export only)
Rest(r, code, val) == IF Hist THEN [Idle EXCEPT !.ret = code, !.val = val, !.op = r.op] ELSE Idle
Done(t, code, val) == th' = [th EXCEPT ![t] = Rest(th[t], code, val)]
\* r: the thread record after the step; the operation returns with the last step of its program
AdvWith(t, r) == th' = [th EXCEPT ![t] = IF r.i = Len(r.prog) THEN Rest(r, IF r.op = "cleanup" THEN 0 ELSE 1, r.val)
                                         ELSE [r EXCEPT !.i = @ + 1]]
Adv(t) == AdvWith(t, th[t])
\* a reader of listenersMutex: no writer waiting (sync.RWMutex prefers writers)
CanRead == lmPend = {}
\* a writer: no reader inside
CanWrite == ~logHolds

UnchLocks == UNCHANGED <<logHolds, lmPend, pmR, fmW>>
UnchObs == UNCHANGED <<rcv, bat, pev, told>>
UnchProvState == UNCHANGED <<pv, pf, rv>>
UnchEnv == UNCHANGED <<hold, nhold, nMgr, nLst, mid, conn, pconn>>

\* ---- one step of thread t -------------------------------------------------
\* (the steps with a choice - which listener, which provider - and the joins are operators of their own: the trace
\* specification calls them with what the code logged)
StepGuard(t) == Busy(t) /\ hold[t] # Cur(t)

\* Log: the next listener is the map iteration's choice: the thread may turn to a listener whose filtersMutex is
\* taken (and wait there) while others could be served
Commit(t) ==
  /\ Cur(t) = "ldec" /\ th[t].cur = 0
  /\ \E l \in th[t].rest : fmW[l] \notin {-1, t} /\ th' = [th EXCEPT ![t].cur = l]
  /\ UNCHANGED <<lst, lnext, prov, pnext, sub, ghost>> /\ UnchLocks /\ UnchObs /\ UnchProvState
\* Log: one message for one listener
Decide(t, l) ==
  LET r == th[t]
      m == r.msgs[r.mi]
      keep == Admits(l, m)
      kept2 == IF keep THEN Append(r.kept, m.id) ELSE r.kept
      last == r.mi = Len(r.msgs)
      reaches == sub[l]
  IN
  /\ Cur(t) = "ldec" /\ l \in (IF r.cur = 0 THEN r.rest ELSE {r.cur})
  \* a message of level None is refused before the lock is asked for (filter l.25-27)
  /\ (m.lvl = 0 \/ fmW[l] \in {-1, t})
  /\ ghost' = [ghost EXCEPT !.misd = @ \/ (keep # WantAdmits(l, m))]
  /\ rcv' = IF Hist /\ keep /\ reaches THEN [rcv EXCEPT ![l] = Append(@, m.id)] ELSE rcv
  /\ bat' = IF Hist /\ last /\ reaches THEN [bat EXCEPT ![l] = Append(@, kept2)] ELSE bat
  /\ IF last
     THEN LET rest2 == r.rest \ {l}
              r2 == [r EXCEPT !.rest = rest2, !.cur = 0, !.mi = 1, !.kept = <<>>] IN
          IF rest2 = {} THEN AdvWith(t, r2) ELSE th' = [th EXCEPT ![t] = r2]
     ELSE th' = [th EXCEPT ![t] = [r EXCEPT !.cur = l, !.mi = @ + 1, !.kept = kept2]]
  /\ UNCHANGED <<lst, lnext, prov, pnext, sub, pev, told>> /\ UnchLocks /\ UnchProvState
\* UpdateVerbosity / UpdateFilters: the value computed under listenersMutex.RLock
JoinVStep(t, v) ==
  /\ Cur(t) = "vj" /\ CanRead
  /\ AdvWith(t, [th[t] EXCEPT !.jv = v])
  /\ UNCHANGED <<lst, lnext, prov, pnext, sub, ghost>> /\ UnchLocks /\ UnchObs /\ UnchProvState
\* the listeners whose filters map another thread is about to write (its critical section is enabled right now)
FilterWriters(t) == {l \in Table \ {t} : StepGuard(l) /\ Cur(l) \in {"flock", "fset", "fclr"}}
\* the design reads a listener's filters under that listener's lock
FiltersReadable(t) == Dev_UnlockedFilterRead \/ \A l \in Table : fmW[l] \in {-1, t}
RaceNoted(t) == [ghost EXCEPT !.race = @ \/ (Dev_UnlockedFilterRead /\ FilterWriters(t) # {})]
JoinFStep(t, f) ==
  /\ Cur(t) = "fj" /\ CanRead /\ FiltersReadable(t)
  /\ AdvWith(t, [th[t] EXCEPT !.jf = f])
  /\ ghost' = RaceNoted(t)
  /\ UNCHANGED <<lst, lnext, prov, pnext, sub>> /\ UnchLocks /\ UnchObs /\ UnchProvState
\* ... and the calls to the providers: the first one takes providersMutex.RLock and the set of providers (mi = 1: not
\* started), the last one releases it
PushSet(t) == IF th[t].mi = 1 THEN {p \in Providers : prov[p].st = "in"} ELSE th[t].todo
PushNone(t) ==
  /\ Cur(t) \in {"vp", "fp"} /\ PushSet(t) = {}
  /\ AdvWith(t, [th[t] EXCEPT !.mi = 1, !.todo = {}])
  /\ UNCHANGED <<lst, lnext, prov, pnext, sub, ghost>> /\ UnchLocks /\ UnchObs /\ UnchProvState
Push(t, p) ==
  LET r == th[t]
      todo2 == PushSet(t) \ {p}
  IN
  /\ Cur(t) \in {"vp", "fp"} /\ p \in PushSet(t)
  /\ IF Cur(t) = "vp" THEN PushV(p, r.jv) ELSE PushF(p, r.jf)
  /\ IF todo2 = {} THEN AdvWith(t, [r EXCEPT !.mi = 1, !.todo = {}])
                   ELSE th' = [th EXCEPT ![t] = [r EXCEPT !.mi = 2, !.todo = todo2]]
  /\ pmR' = IF todo2 = {} THEN pmR \ {t} ELSE pmR \cup {t}
  /\ UNCHANGED <<lst, lnext, prov, pnext, sub, logHolds, lmPend, fmW, ghost, rcv, bat, pev>>

ChoiceSteps == {"ldec", "vj", "fj", "vp", "fp"}
Plain(t) ==
  LET s == Cur(t)
      r == th[t]
  IN
  /\ s \notin ChoiceSteps
  /\ CASE s = "lbeg" ->
            /\ CanRead
            /\ logHolds' = TRUE
            \* with an empty table the loop body never runs
            /\ AdvWith(t, [r EXCEPT !.rest = Table, !.cur = 0, !.mi = 1, !.kept = <<>>, !.i = IF Table = {} THEN @ + 1 ELSE @])
            /\ UNCHANGED <<lst, lnext, prov, pnext, sub, lmPend, pmR, fmW, ghost>> /\ UnchObs /\ UnchProvState
       [] s = "lend" ->
            /\ logHolds' = FALSE /\ Adv(t)
            /\ UNCHANGED <<lst, lnext, prov, pnext, sub, lmPend, pmR, fmW, ghost>> /\ UnchObs /\ UnchProvState
       [] s = "idx" ->
            /\ CanWrite /\ lmPend = {}
            /\ lnext' = lnext + 1
            /\ lst' = [lst EXCEPT ![r.l].idx = lnext]
            /\ Adv(t)
            /\ UNCHANGED <<prov, pnext, sub, ghost>> /\ UnchLocks /\ UnchObs /\ UnchProvState
       [] s = "act" ->
            /\ lst' = [lst EXCEPT ![r.l].st = "made", ![r.l].lvl = 4, ![r.l].prop = 4]
            /\ ghost' = [ghost EXCEPT !.wr[r.l] = 4]
            /\ Adv(t)
            /\ UNCHANGED <<lnext, prov, pnext, sub>> /\ UnchLocks /\ UnchObs /\ UnchProvState
       [] s = "ins" ->
            /\ CanWrite /\ lmPend = {}
            /\ lst' = [lst EXCEPT ![r.l].st = "live"]
            /\ Adv(t)
            /\ UNCHANGED <<lnext, prov, pnext, sub, ghost>> /\ UnchLocks /\ UnchObs /\ UnchProvState
       [] s = "vjp" ->
            /\ CanRead /\ PushVAll(JoinV(Table)) /\ Adv(t)
            /\ UNCHANGED <<lst, lnext, prov, pnext, sub, ghost, rcv, bat, pev>> /\ UnchLocks
       [] s = "fjp" ->
            /\ CanRead /\ FiltersReadable(t) /\ PushFAll(JoinF(Table)) /\ Adv(t)
            /\ ghost' = RaceNoted(t)
            /\ UNCHANGED <<lst, lnext, prov, pnext, sub, rcv, bat, pev>> /\ UnchLocks
       [] s = "pcat0" ->
            /\ told' = IF Hist /\ pconn[r.p] THEN [told EXCEPT ![r.p] = Append(@, ToldC("", 0))] ELSE told
            /\ rv' = IF pconn[r.p] /\ r.p \in RealProv /\ PCat[r.p] = "" THEN [rv EXCEPT ![r.p] = 0] ELSE rv
            /\ Adv(t)
            /\ UNCHANGED <<lst, lnext, prov, pnext, sub, ghost, rcv, bat, pev, pv, pf>> /\ UnchLocks
       [] s = "pins" ->
            /\ pmR = {}
            /\ prov' = [prov EXCEPT ![r.p] = [st |-> "in", idx |-> pnext]]
            /\ pnext' = pnext + 1
            /\ AdvWith(t, [r EXCEPT !.val = pnext])
            /\ UNCHANGED <<lst, lnext, sub, ghost>> /\ UnchLocks /\ UnchObs /\ UnchProvState
       [] s = "pdel" ->
            /\ pmR = {}
            /\ LET P == {p \in Providers : prov[p].st = "in" /\ prov[p].idx = r.v} IN
               /\ prov' = [p \in Providers |-> IF p \in P THEN [prov[p] EXCEPT !.st = "out"] ELSE prov[p]]
               /\ Done(t, IF P = {} THEN 2 ELSE 1, 0)
            /\ UNCHANGED <<lst, lnext, pnext, sub, ghost>> /\ UnchLocks /\ UnchObs /\ UnchProvState
       [] s = "lvl" ->
            /\ lst' = [lst EXCEPT ![r.l].lvl = r.v]
            /\ Adv(t)
            /\ UNCHANGED <<lnext, prov, pnext, sub, ghost>> /\ UnchLocks /\ UnchObs /\ UnchProvState
       [] s = "psave" ->
            /\ lst' = [lst EXCEPT ![r.l].prop = r.v]
            /\ ghost' = IF Valid(r.v) THEN [ghost EXCEPT !.wr[r.l] = r.v, !.acc[r.l] = @ + 1] ELSE ghost
            /\ Adv(t)
            /\ UNCHANGED <<lnext, prov, pnext, sub>> /\ UnchLocks /\ UnchObs /\ UnchProvState
       [] s = "pnotify" ->
            /\ pev' = IF Hist /\ sub[r.l] THEN [pev EXCEPT ![r.l] = Append(@, r.v)] ELSE pev
            /\ ghost' = [ghost EXCEPT !.evs[r.l] = @ + 1]
            /\ Adv(t)
            /\ UNCHANGED <<lst, lnext, prov, pnext, sub, rcv, bat, told>> /\ UnchLocks /\ UnchProvState
       [] s = "pget" ->
            /\ Done(t, 1, lst[r.l].prop)
            /\ UNCHANGED <<lst, lnext, prov, pnext, sub, ghost>> /\ UnchLocks /\ UnchObs /\ UnchProvState
       [] s \in {"flock", "fset"} ->
            /\ lst' = [lst EXCEPT ![r.l].filt[r.q] = r.v]
            /\ fmW' = IF s = "flock" THEN [fmW EXCEPT ![r.l] = t] ELSE fmW
            /\ Adv(t)
            /\ UNCHANGED <<lnext, prov, pnext, sub, ghost, logHolds, lmPend, pmR>> /\ UnchObs /\ UnchProvState
       [] s = "funlock" ->
            /\ fmW' = [fmW EXCEPT ![r.l] = -1]
            /\ Adv(t)
            /\ UNCHANGED <<lst, lnext, prov, pnext, sub, ghost, logHolds, lmPend, pmR>> /\ UnchObs /\ UnchProvState
       [] s = "fclr" ->
            /\ lst' = [lst EXCEPT ![r.l].filt = NoF]
            /\ Adv(t)
            /\ UNCHANGED <<lnext, prov, pnext, sub, ghost>> /\ UnchLocks /\ UnchObs /\ UnchProvState
       [] s = "svcrm" ->
            /\ lst' = [lst EXCEPT ![r.l].st = "dying"]
            /\ Adv(t)
            /\ UNCHANGED <<lnext, prov, pnext, sub, ghost>> /\ UnchLocks /\ UnchObs /\ UnchProvState
       [] s = "tpend" ->
            /\ lmPend' = lmPend \cup {t}
            /\ Adv(t)
            /\ UNCHANGED <<lst, lnext, prov, pnext, sub, ghost, logHolds, pmR, fmW>> /\ UnchObs /\ UnchProvState
       [] s = "tdel" ->
            /\ CanWrite
            /\ lmPend' = lmPend \ {t}
            /\ lst' = [lst EXCEPT ![r.l].st = "dead"]
            /\ Adv(t)
            /\ UNCHANGED <<lnext, prov, pnext, sub, ghost, logHolds, pmR, fmW>> /\ UnchObs /\ UnchProvState
       [] s = "subs" ->     \* the client that asked for the listener subscribes to its signals and to its property
            /\ sub' = [sub EXCEPT ![r.l] = conn[r.l]]
            /\ Adv(t)
            /\ UNCHANGED <<lst, lnext, prov, pnext, ghost>> /\ UnchLocks /\ UnchObs /\ UnchProvState
       [] s = "unsub" ->
            /\ sub' = [sub EXCEPT ![r.l] = FALSE]
            /\ Adv(t)
            /\ UNCHANGED <<lst, lnext, prov, pnext, ghost>> /\ UnchLocks /\ UnchObs /\ UnchProvState
       [] s = "nop" ->
            /\ Adv(t)
            /\ UNCHANGED <<lst, lnext, prov, pnext, sub, ghost>> /\ UnchLocks /\ UnchObs /\ UnchProvState
       [] s = "rej" ->
            /\ Done(t, 2, 0)
            /\ UNCHANGED <<lst, lnext, prov, pnext, sub, ghost>> /\ UnchLocks /\ UnchObs /\ UnchProvState

Step(t) ==
  /\ StepGuard(t)
  /\ UnchEnv
  /\ \/ Plain(t)
     \/ Commit(t)
     \/ \E l \in Listeners : Decide(t, l)
     \/ JoinVStep(t, JoinV(Table))
     \/ JoinFStep(t, JoinF(Table))
     \/ PushNone(t)
     \/ \E p \in Providers : Push(t, p)

Internal == \E t \in Threads : Step(t)

-----------------------------------------------------------------------------
(* the environment: clients start operations, connections are lost, gates are armed *)
\* gates exist in the code before vp (logger.verbosity.computed), before fp (logger.filters.computed) and, in AddFilter only,
\* before fj (logger.addfilter.locked)
HoldOK(op, ok, h) == h = "" \/ (nhold < MaxHold /\ (h = "fj" => op = "addfilter") /\ \E j \in 1..Len(Prog(op, ok)) : Prog(op, ok)[j] = h)
Launch(t, op, ok, a, h) ==
  /\ ~Busy(t)
  /\ HoldOK(op, ok, h)
  /\ th' = [th EXCEPT ![t] = [Idle EXCEPT !.op = op, !.l = a.l, !.p = a.p, !.v = a.v, !.q = a.q, !.msgs = a.msgs,
                                         !.prog = Prog(op, ok), !.i = 1, !.ret = 9]]
  /\ hold' = [hold EXCEPT ![t] = h]
  /\ nhold' = IF h = "" THEN nhold ELSE nhold + 1
NoArg == [l |-> 0, p |-> 0, v |-> 0, q |-> "", msgs |-> <<>>]
Stamp(b, from) == [j \in 1..Len(b) |-> [id |-> from + j, lvl |-> b[j].lvl, cat |-> b[j].cat]]

UnchCode == UNCHANGED <<lst, lnext, prov, pnext, sub, pv, pf, rv, logHolds, lmPend, pmR, fmW, ghost, rcv, bat, pev, told>>

NextSlot == IF \E l \in Listeners : lst[l].st = "none" THEN {Min({l \in Listeners : lst[l].st = "none"})} ELSE {}
NextProv == IF \E p \in Providers : prov[p].st = "none" /\ pconn[p] THEN {Min({p \in Providers : prov[p].st = "none" /\ pconn[p]})} ELSE {}

StartCreate(h) == /\ "create" \in MgrOps /\ nMgr < MaxMgr
                  /\ \E l \in NextSlot : conn[l] /\ Launch(0, "create", TRUE, [NoArg EXCEPT !.l = l], h)
                  /\ nMgr' = nMgr + 1 /\ UNCHANGED <<nLst, mid, conn, pconn>> /\ UnchCode
StartAddProv(p, h) == /\ "addprov" \in MgrOps /\ nMgr < MaxMgr /\ p \in NextProv
                      /\ Launch(0, "addprov", TRUE, [NoArg EXCEPT !.p = p], h)
                      /\ nMgr' = nMgr + 1 /\ UNCHANGED <<nLst, mid, conn, pconn>> /\ UnchCode
StartRmProv(x) == /\ "rmprov" \in MgrOps /\ nMgr < MaxMgr /\ x \in 0..pnext
                  /\ Launch(0, "rmprov", TRUE, [NoArg EXCEPT !.v = x], "")
                  /\ nMgr' = nMgr + 1 /\ UNCHANGED <<nLst, mid, conn, pconn>> /\ UnchCode
\* a client calls LogManager.log through the manager proxy of provider p's connection
StartLog(p, b) == /\ "log" \in MgrOps /\ nMgr < MaxMgr /\ p \in Providers \ RealProv /\ pconn[p] /\ b \in Batches
                  /\ Launch(0, "log", TRUE, [NoArg EXCEPT !.p = p, !.msgs = Stamp(b, mid)], "")
                  /\ mid' = mid + Len(b)
                  /\ nMgr' = nMgr + 1 /\ UNCHANGED <<nLst, conn, pconn>> /\ UnchCode
\* log_provider.go logf l.75-90: the message is sent if its level is within the provider's verbosity
StartRLog(p, v) == /\ "rlog" \in MgrOps /\ nMgr < MaxMgr /\ p \in RealProv /\ pconn[p] /\ prov[p].st # "none"
                   /\ v \in LevelsUsed \ {0, 1}
                   /\ Launch(0, IF v <= rv[p] THEN "log" ELSE "nolog", TRUE,
                             [NoArg EXCEPT !.p = p, !.v = v, !.msgs = Stamp(<<[lvl |-> v, cat |-> PCat[p]]>>, mid)], "")
                   /\ mid' = mid + 1
                   /\ nMgr' = nMgr + 1 /\ UNCHANGED <<nLst, conn, pconn>> /\ UnchCode

\* a listener's client: the object is known to it once createListener has returned
Known(l) == lst[l].st \in {"live", "dead"} /\ conn[l] /\ ~Busy(l) /\ ~(Busy(0) /\ th[0].op = "create" /\ th[0].l = l)
LOp(l, op, ok, a, h) == /\ op \in LstOps /\ Known(l) /\ nLst[l] < MaxLst
                        /\ Launch(l, IF lst[l].st = "dead" THEN "gone" ELSE op, ok, [a EXCEPT !.l = l], IF lst[l].st = "dead" THEN "" ELSE h)
                        /\ nLst' = [nLst EXCEPT ![l] = @ + 1] /\ UNCHANGED <<nMgr, mid, conn, pconn>> /\ UnchCode
StartSetLevel(l, v, h) == v \in LevelsUsed \cup {BadLevel} /\ LOp(l, "setlevel", Valid(v), [NoArg EXCEPT !.v = v], h)
StartSetProp(l, v, h) == v \in LevelsUsed \cup {BadLevel} /\ LOp(l, "setprop", Valid(v), [NoArg EXCEPT !.v = v], h)
StartGetProp(l) == LOp(l, "getprop", TRUE, NoArg, "")
StartAddFilter(l, q, v, h) == /\ q \in Pats \cup {BadPat} /\ v \in LevelsUsed \cup {BadLevel}
                              /\ LOp(l, "addfilter", Valid(v) /\ q \in Pats, [NoArg EXCEPT !.v = v, !.q = q], h)
StartClear(l, h) == LOp(l, "clear", TRUE, NoArg, h)
StartTerminate(l) == LOp(l, "terminate", TRUE, NoArg, "")

\* the connection of listener l's client is lost: the subscriptions of all its listeners go (bus/signal.go closer).
Mates(l) == {x \in Listeners : ClientOf[x] = ClientOf[l]}
Drop(l) == /\ "drop" \in LstOps /\ Known(l) /\ nLst[l] < MaxLst
           /\ \A x \in Mates(l) : ~Busy(x) /\ lst[x].st \in {"none", "live", "dead"}
           /\ conn' = [x \in Listeners |-> IF x \in Mates(l) THEN FALSE ELSE conn[x]]
           /\ sub' = [x \in Listeners |-> IF x \in Mates(l) THEN FALSE ELSE sub[x]]
           /\ IF Dev_LostListenerKept
              THEN UNCHANGED th
              ELSE th' = [t \in Threads |-> IF t \in Mates(l) /\ lst[t].st = "live"
                                            THEN [Idle EXCEPT !.op = "cleanup", !.l = t, !.prog = Prog("cleanup", TRUE), !.ret = 9]
                                            ELSE th[t]]
           /\ nLst' = [nLst EXCEPT ![l] = @ + 1]
           /\ UNCHANGED <<lst, lnext, prov, pnext, pconn, pv, pf, rv, logHolds, lmPend, pmR, fmW, hold, nhold, ghost, nMgr, mid, rcv, bat, pev, told>>
\* the connection of provider p is lost: it is told nothing any more (the manager ignores the errors)
PDrop(p) == /\ "pdrop" \in MgrOps /\ pconn[p] /\ ~Busy(0) /\ nMgr < MaxMgr
            /\ pconn' = [pconn EXCEPT ![p] = FALSE]
            /\ nMgr' = nMgr + 1
            /\ UNCHANGED <<lst, lnext, prov, pnext, sub, conn, pv, pf, rv, th, logHolds, lmPend, pmR, fmW, hold, nhold, nLst, ghost, mid,
                           rcv, bat, pev, told>>
Release(t) == /\ hold[t] # "" /\ Cur(t) = hold[t]
              /\ hold' = [hold EXCEPT ![t] = ""]
              /\ UNCHANGED <<lst, lnext, prov, pnext, sub, conn, pconn, pv, pf, rv, th, logHolds, lmPend, pmR, fmW, nhold, nMgr, nLst,
                             ghost, mid, rcv, bat, pev, told>>

HoldPoints == IF MaxHold = 0 THEN {""} ELSE {"", "vp", "fp", "fj"}
Env ==
  \/ \E h \in HoldPoints : StartCreate(h)
  \/ \E p \in Providers, h \in HoldPoints : StartAddProv(p, h)
  \/ \E x \in 0..pnext : StartRmProv(x)
  \/ \E p \in Providers, b \in Batches : StartLog(p, b)
  \/ \E p \in Providers, v \in LevelsUsed : StartRLog(p, v)
  \/ \E l \in Listeners, h \in HoldPoints :
        \/ \E v \in LevelsUsed \cup {BadLevel} : StartSetLevel(l, v, h) \/ StartSetProp(l, v, h)
        \/ \E q \in Pats \cup {BadPat}, v \in LevelsUsed \cup {BadLevel} : StartAddFilter(l, q, v, h)
        \/ StartClear(l, h)
  \/ \E l \in Listeners : StartGetProp(l) \/ StartTerminate(l) \/ Drop(l)
  \/ \E p \in Providers : PDrop(p)
  \/ \E t \in Threads : Release(t)

Next == Internal \/ Env
Spec == Init /\ [][Next]_vars /\ WF_vars(Internal)

-----------------------------------------------------------------------------
(* the demands *)
Quiet == \A t \in Threads : ~Busy(t)
\* the listeners somebody listens to
Wanting == {l \in Listeners : lst[l].st = "live" /\ conn[l]}
Registered == {p \in Providers : prov[p].st = "in" /\ pconn[p]}

\* (1) exactly the wanted messages: every decision is the demanded one.  (Each once, in the order logged, none after the
\* listener terminated: by construction here - one thread serves a listener's messages in order, Log reads the table under the
\* lock and the subscriptions are dropped before terminate returns; decided on the code by the replay and the trace specification.)
DeliveredExactly == ~ghost.misd
\* (2) at rest every registered provider was last told the join over the listeners that are listened to
VerbosityIsJoin == Quiet => \A p \in Registered : pv[p] = JoinV(Wanting)
NeverTooQuiet == Quiet => \A p \in Registered, l \in Wanting : pv[p] >= lst[l].lvl
FiltersAreJoin == Quiet => \A p \in Registered : pf[p] = JoinFWith(Wanting, FALSE)
\* (3) the logLevel property is a register: it holds the last accepted write; one change event per accepted write
LogLevelIsRegister == \A l \in Listeners : ~Busy(l) => (lst[l].prop = ghost.wr[l] /\ ghost.evs[l] = ghost.acc[l])
\* the level the filter uses is the property (setLevel and the property are one setting)
LevelIsProperty == \A l \in Listeners : (~Busy(l) /\ lst[l].st = "live") => lst[l].lvl = lst[l].prop
\* (4) nobody is stuck: while an operation is in progress something can move (or it is parked at a gate)
Parked(t) == hold[t] # "" /\ Cur(t) = hold[t]
NotStuck == (\E t \in Threads : Busy(t) /\ ~Parked(t)) => (ENABLED Internal \/ \E t \in Threads : Parked(t))
\* ... no two critical sections under different locks work on the same map at the same time
NoDataRace == ~ghost.race
\* ... and under fairness every operation returns
OpsReturn == \A t \in Threads : Busy(t) ~> ~Busy(t)

TypeOK == /\ \A l \in Listeners : lst[l].st \in {"none", "made", "live", "dying", "dead"} /\ lst[l].lvl \in 0..6
          /\ \A p \in Providers : pv[p] \in -1..6
          /\ logHolds \in BOOLEAN /\ lmPend \subseteq Threads /\ pmR \subseteq Threads
=============================================================================
