SPECIFICATION CSpec
CONSTANTS
  Handlers = {1, 10, 11}
  Msgs = {1, 20}
  InitSlots = 2
  Calls = {1}
  HS = 10
  HD = 11
  EV = 20
  WithSub = TRUE
  WithDisc = TRUE
  WithHalf = TRUE
INVARIANTS TypeOK CloserAtMostOnce QueueCloseAtMostOnce CloserBeforeQueueClose SlotUniqueAmongLive
           OkMeansReplied NoFaultNoError LateCallsFail DisconnectAtMostOnce
PROPERTIES CallsEnd SubCloses CallbackFires AnsweredCallsReturn
CHECK_DEADLOCK FALSE
