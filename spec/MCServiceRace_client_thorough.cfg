SPECIFICATION Spec
CONSTANTS
  r1 = r1
  r2 = r2
  r3 = r3
  Racers = {r1, r2}
  Live0 = 2
  Pool = {3, 4, 5, 6, 7, 8}
  Ops = {"remove", "add", "terminate"}
  MaxOps = 2
  RemoveMode = "client"
  TerminateMode = "client"
  AddMode = "locked"
INVARIANTS TypeOK MutualExclusion TerminateHookExactlyOnce OneRemoveSucceeds UniqueLiveIds NoDataRace
CHECK_DEADLOCK TRUE
