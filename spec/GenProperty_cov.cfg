SPECIFICATION GSpec
CONSTANTS
  Valid = {1, 2}
  Invalid <- DefInvalid
  Subs = {"s1", "s2"}
  WrongKinds <- AllWrong
  Dev_ValidateByBytesOnly = FALSE
  MaxWrites = 4
  Mode = "cov"
  Depth = 0
  Hows = {"name", "id"}
CONSTRAINT Bound
VIEW View
CHECK_DEADLOCK FALSE
