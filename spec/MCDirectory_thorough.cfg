SPECIFICATION Spec
CONSTANTS
  Names = {"a", "b", "c"}
  MaxId = 4
  BadKinds = {"noname", "nomachine", "nopid", "noep", "emptyep"}
  Eps = {"e1", "e2"}
INVARIANTS TypeOK NameHeldByAtMostOne VisibleIffReady EventsOncePerTransitionInOrder
PROPERTIES IdsStrictlyIncreasingNeverReused UpdateKeepsNameAndId
CHECK_DEADLOCK FALSE
