SPECIFICATION Spec
CONSTANTS
  MaxDepth = 3
  SibSet = "two"
  NameSet = "two"
  ExportWide = FALSE
  ExportNear = FALSE
INVARIANTS Export InvRoundTrip
CHECK_DEADLOCK FALSE
