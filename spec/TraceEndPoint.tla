--------------------------- MODULE TraceEndPoint ---------------------------
(***************************************************************************)
(* Trace validation for EndPoint: every line of the recorded ndjson trace  *)
(* (vhook events of bus/net/endpoint.go + the harness' own announce /      *)
(* filter / quiesce events, all stamped by one sequence counter) must be a *)
(* step of EndPoint.  All events are logged, so validation is linear.      *)
(* Several per-endpoint traces are concatenated with "reset" lines.        *)
(*                                                                         *)
(* Every line has the same numeric fields (-1 = not applicable):           *)
(*   ev, slot (0-based), h, k (harness tag), cap, m (message id),          *)
(*   matched, keep, err                                                    *)
(***************************************************************************)
EXTENDS EndPoint, Json, IOUtils, TLCExt

\* The trace is parsed ONCE into a TLC register: a definition over
\* ndJsonDeserialize(...) is re-evaluated (the file re-parsed) at every use.
\* Needs -workers 1 (registers are per worker), like the high-water mark.
ASSUME TLCSet(2, ndJsonDeserialize(IOEnv.TRACE))
TraceLog == TLCGet(2)
ASSUME TLCSet(3, Len(TraceLog))
TraceLen == TLCGet(3)

CONSTANT MaxHandlers     \* handler identities are renumbered 1.. per trace by the recorder
HandlerRange == 1..MaxHandlers

VARIABLES l,      \* next line of the trace
          pend,   \* [k, cap] announced by the harness for its next MakeHandler
          tagOf   \* [Handlers -> harness tag]
tvars == <<vars, l, pend, tagOf>>

NoPend == [k |-> -1, cap |-> -1]

TInit == Init /\ l = 1 /\ pend = NoPend /\ tagOf = [h \in Handlers |-> -1]

E == TraceLog[l]
Is(name) == l <= TraceLen /\ E.ev = name /\ l' = l + 1

Keep3 == UNCHANGED <<pend, tagOf>>

TAnnounce == Is("announce") /\ pend' = [k |-> E.k, cap |-> E.cap] /\ UNCHANGED <<vars, tagOf>>

\* the slot returned by the code must be the one the specification computes
TMake == /\ Is("make") /\ pend # NoPend
         /\ MakeHandler(E.h, pend.cap) /\ res' = E.slot + 1
         /\ tagOf' = [tagOf EXCEPT ![E.h] = pend.k] /\ pend' = NoPend

TRemove == Is("remove") /\ RemoveBegin(E.slot + 1) /\ mu'.h = E.h /\ Keep3
TRemoveErr == Is("remove_err") /\ RemoveErr(E.slot + 1) /\ Keep3
TRemoved == Is("removed") /\ RemoveEnd /\ mu.slot = E.slot + 1 /\ Keep3
TCloser == Is("closer") /\ (SyncCloser(E.h) \/ AsyncCloser(E.h)) /\ Keep3
TQClose == Is("qclose") /\ (SyncQClose(E.h) \/ AsyncQClose(E.h)) /\ Keep3

\* the reader goroutine obtained message m and entered dispatch
TDispatch == Is("dispatch") /\ proc = "reading" /\ DispatchStart(E.m) /\ Keep3

\* the harness' filter was called: it must be the filter of the next live handler
TFilter == /\ Is("filter") /\ mu.op = "dispatch" /\ mu.stage = "scan" /\ NextLive(mu.slot) # 0
           /\ LET h == slots[NextLive(mu.slot)] IN
                /\ tagOf[h] = E.k
                /\ Visit(h, E.matched = 1, E.keep = 1)
           /\ Keep3
TDeliver == Is("deliver") /\ cur = E.m /\ mu.slot = E.slot + 1 /\ Deliver(E.h) /\ Keep3
TBlocked == Is("blocked") /\ cur = E.m /\ mu.slot = E.slot + 1 /\ Blocked(E.h) /\ Keep3
TSelfRemove == Is("selfremove") /\ mu.slot = E.slot + 1 /\ SelfRemove(E.h) /\ Keep3

\* dispatch() returns (deferred hook, still under the mutex): the specification released the
\* mutex with the last handler visited, and nobody can have taken it since
TDispatched == Is("dispatched") /\ mu = Free /\ UNCHANGED vars /\ Keep3

\* Message.Read failed: the stream is dead (closed locally or by the peer)
TReadErr == /\ Is("read_err") /\ proc = "reading" /\ proc' = "closing" /\ stream' = "closed"
            /\ UNCHANGED <<slots, hst, delivered, taken, cap, closerN, closeN, mu, inbox, cur, res>> /\ Keep3
\* closeWith(err): err # nil when called by the reader goroutine, nil for Close()
TShutdown == /\ Is("shutdown")
             /\ IF E.err = 1 THEN ProcShutdown ELSE ShutdownBegin
             /\ Keep3
TDetach == Is("detach") /\ NextLive(0) = E.slot + 1 /\ Detach(E.h) /\ Keep3

\* the harness observed that every goroutine of the endpoint finished its work:
\* no close protocol may be half way, and after the reader goroutine stopped
\* nothing registered before may be left open
TQuiesce == /\ Is("quiesce") /\ mu = Free
            /\ \A h \in Handlers : hst[h] \in {"unreg", "live", "closed"}
            /\ \A h \in Handlers : hst[h] = "closed" => (closerN[h] = 1 /\ closeN[h] = 1)
            /\ UNCHANGED vars /\ Keep3

TReset == /\ Is("reset")
          /\ slots' = [i \in 1..InitSlots |-> NULL]
          /\ hst' = [h \in Handlers |-> "unreg"] /\ delivered' = [h \in Handlers |-> <<>>]
          /\ taken' = [h \in Handlers |-> 0] /\ cap' = [h \in Handlers |-> 0]
          /\ closerN' = [h \in Handlers |-> 0] /\ closeN' = [h \in Handlers |-> 0]
          /\ stream' = "open" /\ mu' = Free /\ proc' = "reading" /\ inbox' = <<>> /\ cur' = NULL
          /\ res' = ResNone /\ pend' = NoPend /\ tagOf' = [h \in Handlers |-> -1]

TNext == \/ TAnnounce \/ TMake \/ TRemove \/ TRemoveErr \/ TRemoved \/ TCloser \/ TQClose
         \/ TDispatch \/ TFilter \/ TDeliver \/ TBlocked \/ TSelfRemove \/ TDispatched
         \/ TReadErr \/ TShutdown \/ TDetach \/ TQuiesce \/ TReset

TSpec == TInit /\ [][TNext]_tvars

\* high-water mark of the trace position (single worker)
Track == TLCSet(1, IF TLCGet(1) < l THEN l ELSE TLCGet(1))
InitMark == TLCSet(1, 0)
ASSUME InitMark
Accepted == IF TLCGet(1) = TraceLen + 1 THEN TRUE
            ELSE /\ PrintT(<<"REJECTED", ToJson([line |-> TLCGet(1), event |-> TraceLog[TLCGet(1)]])>>)
                 /\ FALSE
=============================================================================
