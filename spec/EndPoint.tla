------------------------------ MODULE EndPoint ------------------------------
(***************************************************************************)
(* One endpoint of bus/net/endpoint.go: the handler slot table protected   *)
(* by handlersMutex, the reader goroutine (process/dispatch), shutdown     *)
(* (closeWith) and the per-handler close protocol (closer, then close of   *)
(* the queue).  One action per step that the code makes visible (each has  *)
(* a vhook event, see TraceEndPoint.tla); everything the code does while   *)
(* holding handlersMutex happens while mu # Free, so no other mutex user   *)
(* interleaves, but the asynchronous closers spawned by shutdown do.        *)
(*                                                                         *)
(*   MakeHandler      endpoint.go MakeHandler   (first free slot | append) *)
(*   RemoveBegin/Err  RemoveHandler             (valid | invalid id)       *)
(*   SyncCloser,SyncQClose, RemoveEnd           Handler.closeWith under mu *)
(*   DispatchBegin, Visit, Deliver, Blocked, SelfRemove   dispatch loop    *)
(*   ShutdownBegin, Detach                      closeWith (endpoint)       *)
(*   AsyncCloser, AsyncQClose                   go handler.closeWith(err)  *)
(*   ReadErr                                    process sees a read error  *)
(***************************************************************************)
EXTENDS Integers, Sequences, FiniteSets, TLC

CONSTANTS Handlers,    \* handler identities
          Msgs,        \* incoming message identities
          InitSlots    \* initial length of the slot table (10 in the code)

NULL == 0              \* empty slot (handler identities are never 0)
ResNone == 0           \* results are integers: TLC cannot compare strings with numbers
ResErr == -1
ResOk == -2
Free == [op |-> "free"]

VARIABLES slots,      \* sequence of handler-or-NULL
          hst,        \* [Handlers -> "unreg"|"live"|"closing"|"qclosing"|"detached"|"closerDone"|"closed"]
          delivered,  \* [Handlers -> Seq(Msgs)]  messages put into the handler's queue
          taken,      \* [Handlers -> Nat]        messages its consumer removed
          cap,        \* [Handlers -> Nat]        capacity of the queue given to MakeHandler
          closerN,    \* [Handlers -> Nat]        closer callback invocations
          closeN,     \* [Handlers -> Nat]        close(queue) executions
          stream,     \* "open" | "closed"
          mu,         \* Free or the critical section in progress
          proc,       \* reader goroutine: "reading" | "dispatching" | "stopped"
          inbox,      \* messages written by the peer, not yet read
          cur,        \* message being dispatched (or NULL)
          res         \* result of the last API call: slot index (>= 1) | ResOk | ResErr | ResNone

vars == <<slots, hst, delivered, taken, cap, closerN, closeN, stream, mu, proc, inbox, cur, res>>

Init ==
  /\ slots = [i \in 1..InitSlots |-> NULL]
  /\ hst = [h \in Handlers |-> "unreg"]
  /\ delivered = [h \in Handlers |-> <<>>]
  /\ taken = [h \in Handlers |-> 0]
  /\ cap = [h \in Handlers |-> 0]
  /\ closerN = [h \in Handlers |-> 0]
  /\ closeN = [h \in Handlers |-> 0]
  /\ stream = "open"
  /\ mu = Free
  /\ proc = "reading"
  /\ inbox = <<>>
  /\ cur = NULL
  /\ res = ResNone

LiveIdx == {i \in 1..Len(slots) : slots[i] # NULL}
FirstFree == IF \E i \in 1..Len(slots) : slots[i] = NULL
             THEN CHOOSE i \in 1..Len(slots) : slots[i] = NULL /\ \A j \in 1..(i - 1) : slots[j] # NULL
             ELSE Len(slots) + 1
NextLive(c) == IF \E i \in LiveIdx : i > c
               THEN CHOOSE i \in LiveIdx : i > c /\ \A j \in LiveIdx : j > c => i <= j
               ELSE 0
QLen(h) == Len(delivered[h]) - taken[h]

(***************************************************************************)
(* MakeHandler: one step under the mutex                                    *)
(***************************************************************************)
MakeHandler(h, c) ==
  /\ mu = Free /\ hst[h] = "unreg"
  /\ cap' = [cap EXCEPT ![h] = c]
  /\ slots' = IF FirstFree <= Len(slots) THEN [slots EXCEPT ![FirstFree] = h] ELSE Append(slots, h)
  /\ hst' = [hst EXCEPT ![h] = "live"]
  /\ res' = FirstFree
  /\ UNCHANGED <<delivered, taken, closerN, closeN, stream, mu, proc, inbox, cur>>

(***************************************************************************)
(* RemoveHandler(i): closer, then close(queue), then the slot is cleared,   *)
(* all under the mutex.                                                      *)
(***************************************************************************)
RemoveBegin(i) ==
  /\ mu = Free /\ i \in 1..Len(slots) /\ slots[i] # NULL
  /\ mu' = [op |-> "remove", slot |-> i, h |-> slots[i], stage |-> "closer"]
  /\ hst' = [hst EXCEPT ![slots[i]] = "closing"]
  /\ UNCHANGED <<slots, delivered, taken, cap, closerN, closeN, stream, proc, inbox, cur, res>>

RemoveErr(i) ==
  /\ mu = Free /\ ~(i \in 1..Len(slots) /\ slots[i] # NULL)
  /\ res' = ResErr
  /\ UNCHANGED <<slots, hst, delivered, taken, cap, closerN, closeN, stream, mu, proc, inbox, cur>>

\* the synchronous close protocol, shared by RemoveHandler and non-keep filters
SyncCloser(h) ==
  /\ mu.op \in {"remove", "dispatch"} /\ mu.stage = "closer" /\ mu.h = h
  /\ closerN' = [closerN EXCEPT ![h] = @ + 1]
  /\ hst' = [hst EXCEPT ![h] = "qclosing"]
  /\ mu' = [mu EXCEPT !.stage = "qclose"]
  /\ UNCHANGED <<slots, delivered, taken, cap, closeN, stream, proc, inbox, cur, res>>

\* where the dispatch loop continues after slot index c
AfterVisit(c) == IF \E i \in LiveIdx : i > c /\ i # mu.slot
                 THEN [op |-> "dispatch", slot |-> c, h |-> NULL, stage |-> "scan", keep |-> TRUE]
                 ELSE Free

SyncQClose(h) ==
  /\ mu.op \in {"remove", "dispatch"} /\ mu.stage = "qclose" /\ mu.h = h
  /\ closeN' = [closeN EXCEPT ![h] = @ + 1]
  /\ hst' = [hst EXCEPT ![h] = "closed"]
  /\ IF mu.op = "remove"
       THEN /\ mu' = [mu EXCEPT !.stage = "done"]
            /\ UNCHANGED <<slots, proc, cur>>
       ELSE \* dispatch: the slot is cleared right away and the loop goes on
            /\ slots' = [slots EXCEPT ![mu.slot] = NULL]
            /\ mu' = AfterVisit(mu.slot)
            /\ proc' = IF AfterVisit(mu.slot) = Free THEN "reading" ELSE proc
            /\ cur' = IF AfterVisit(mu.slot) = Free THEN NULL ELSE cur
  /\ UNCHANGED <<delivered, taken, cap, closerN, stream, inbox, res>>

RemoveEnd ==
  /\ mu.op = "remove" /\ mu.stage = "done"
  /\ slots' = [slots EXCEPT ![mu.slot] = NULL]
  /\ mu' = Free
  /\ res' = ResOk
  /\ UNCHANGED <<hst, delivered, taken, cap, closerN, closeN, stream, proc, inbox, cur>>

(***************************************************************************)
(* The reader goroutine: read one message, dispatch it under the mutex to   *)
(* every live handler in slot order.                                         *)
(***************************************************************************)
ReadMsg ==
  /\ proc = "reading" /\ stream = "open" /\ inbox # <<>>
  /\ cur' = Head(inbox) /\ inbox' = Tail(inbox)
  /\ proc' = "dispatching"
  /\ UNCHANGED <<slots, hst, delivered, taken, cap, closerN, closeN, stream, mu, res>>

\* dispatch(m) takes the mutex; with no handler at all it returns at once
DispatchStart(m) ==
  /\ mu = Free
  /\ IF LiveIdx = {}
       THEN /\ proc' = "reading" /\ cur' = NULL /\ UNCHANGED mu
       ELSE /\ mu' = [op |-> "dispatch", slot |-> 0, h |-> NULL, stage |-> "scan", keep |-> TRUE]
            /\ proc' = "dispatching" /\ cur' = m
  /\ UNCHANGED <<slots, hst, delivered, taken, cap, closerN, closeN, stream, inbox, res>>

DispatchBegin == proc = "dispatching" /\ mu = Free /\ DispatchStart(cur)

\* the filter of the next live handler is evaluated
Visit(h, matched, keep) ==
  /\ mu.op = "dispatch" /\ mu.stage = "scan"
  /\ NextLive(mu.slot) # 0 /\ slots[NextLive(mu.slot)] = h
  /\ LET i == NextLive(mu.slot) IN
     IF matched THEN /\ mu' = [op |-> "dispatch", slot |-> i, h |-> h, stage |-> "enq", keep |-> keep]
                     /\ UNCHANGED <<proc, cur>>
     ELSE IF ~keep THEN /\ mu' = [op |-> "dispatch", slot |-> i, h |-> h, stage |-> "selfrm", keep |-> keep]
                        /\ UNCHANGED <<proc, cur>>
     ELSE /\ mu' = (IF \E j \in LiveIdx : j > i
                     THEN [op |-> "dispatch", slot |-> i, h |-> NULL, stage |-> "scan", keep |-> TRUE]
                     ELSE Free)
          /\ proc' = IF \E j \in LiveIdx : j > i THEN proc ELSE "reading"
          /\ cur' = IF \E j \in LiveIdx : j > i THEN cur ELSE NULL
  /\ UNCHANGED <<slots, hst, delivered, taken, cap, closerN, closeN, stream, inbox, res>>

AfterEnq ==
  IF ~mu.keep THEN /\ mu' = [mu EXCEPT !.stage = "selfrm"] /\ UNCHANGED <<proc, cur>>
  ELSE /\ mu' = (IF \E j \in LiveIdx : j > mu.slot
                  THEN [op |-> "dispatch", slot |-> mu.slot, h |-> NULL, stage |-> "scan", keep |-> TRUE]
                  ELSE Free)
       /\ proc' = IF \E j \in LiveIdx : j > mu.slot THEN proc ELSE "reading"
       /\ cur' = IF \E j \in LiveIdx : j > mu.slot THEN cur ELSE NULL

\* non-blocking enqueue succeeded
Deliver(h) ==
  /\ mu.op = "dispatch" /\ mu.stage = "enq" /\ mu.h = h
  /\ QLen(h) < cap[h]
  /\ delivered' = [delivered EXCEPT ![h] = Append(@, cur)]
  /\ AfterEnq
  /\ UNCHANGED <<slots, hst, taken, cap, closerN, closeN, stream, inbox, res>>

\* queue full: the message is dropped for this handler (ErrConsumerBlocked)
Blocked(h) ==
  /\ mu.op = "dispatch" /\ mu.stage = "enq" /\ mu.h = h
  /\ QLen(h) >= cap[h]
  /\ AfterEnq
  /\ UNCHANGED <<slots, hst, delivered, taken, cap, closerN, closeN, stream, inbox, res>>

\* the filter asked not to be kept: closer, close(queue), slot cleared
SelfRemove(h) ==
  /\ mu.op = "dispatch" /\ mu.stage = "selfrm" /\ mu.h = h
  /\ mu' = [mu EXCEPT !.stage = "closer"]
  /\ hst' = [hst EXCEPT ![h] = "closing"]
  /\ UNCHANGED <<slots, delivered, taken, cap, closerN, closeN, stream, proc, inbox, cur, res>>

(***************************************************************************)
(* Shutdown: stream.Close(), then under the mutex every live handler is     *)
(* detached (slot cleared) and a goroutine runs its close protocol.          *)
(* Called by Close() and by process() on a read error (possibly both).       *)
(***************************************************************************)
\* closeWith(err): e = 1 when err # nil (the reader goroutine's call), 0 for Close()
ShutdownWith(e) ==
  /\ mu = Free
  /\ stream' = "closed"
  /\ mu' = (IF LiveIdx = {} THEN Free ELSE [op |-> "shutdown", err |-> e])

ShutdownBegin ==
  /\ ShutdownWith(0)
  /\ UNCHANGED <<slots, hst, delivered, taken, cap, closerN, closeN, proc, inbox, cur, res>>

Detach(h) ==
  /\ mu.op = "shutdown"
  /\ NextLive(0) # 0 /\ slots[NextLive(0)] = h
  /\ slots' = [slots EXCEPT ![NextLive(0)] = NULL]
  /\ hst' = [hst EXCEPT ![h] = "detached"]
  /\ mu' = IF LiveIdx = {NextLive(0)} THEN Free ELSE mu
  /\ UNCHANGED <<delivered, taken, cap, closerN, closeN, stream, proc, inbox, cur, res>>

AsyncCloser(h) ==
  /\ hst[h] = "detached"
  /\ hst' = [hst EXCEPT ![h] = "closerDone"]
  /\ closerN' = [closerN EXCEPT ![h] = @ + 1]
  /\ UNCHANGED <<slots, delivered, taken, cap, closeN, stream, mu, proc, inbox, cur, res>>

AsyncQClose(h) ==
  /\ hst[h] = "closerDone"
  /\ hst' = [hst EXCEPT ![h] = "closed"]
  /\ closeN' = [closeN EXCEPT ![h] = @ + 1]
  /\ UNCHANGED <<slots, delivered, taken, cap, closerN, stream, mu, proc, inbox, cur, res>>

\* process(): Message.Read fails (stream closed by either side) ...
ReadErr ==
  /\ proc = "reading" /\ stream = "closed"
  /\ proc' = "closing"
  /\ UNCHANGED <<slots, hst, delivered, taken, cap, closerN, closeN, stream, mu, inbox, cur, res>>

\* ... and then calls closeWith(err) itself and returns
ProcShutdown ==
  /\ proc = "closing"
  /\ ShutdownWith(1)
  /\ proc' = "stopped"
  /\ UNCHANGED <<slots, hst, delivered, taken, cap, closerN, closeN, inbox, cur, res>>

(***************************************************************************)
(* Environment                                                              *)
(***************************************************************************)
PeerWrite(m) ==
  /\ stream = "open" /\ cur # m
  /\ m \notin {inbox[i] : i \in 1..Len(inbox)}
  /\ \A h \in Handlers : m \notin {delivered[h][i] : i \in 1..Len(delivered[h])}
  /\ Len(inbox) < 2
  /\ inbox' = Append(inbox, m)
  /\ UNCHANGED <<slots, hst, delivered, taken, cap, closerN, closeN, stream, mu, proc, cur, res>>

PeerClose ==   \* the peer closes: the reader will see an error; modelled as the stream closing
  /\ stream = "open"
  /\ stream' = "closed"
  /\ UNCHANGED <<slots, hst, delivered, taken, cap, closerN, closeN, mu, proc, inbox, cur, res>>

ConsumerTake(h) ==
  /\ QLen(h) > 0
  /\ taken' = [taken EXCEPT ![h] = @ + 1]
  /\ UNCHANGED <<slots, hst, delivered, cap, closerN, closeN, stream, mu, proc, inbox, cur, res>>

(***************************************************************************)
(* Safety properties (C17, and the dispatch half of C10)                    *)
(***************************************************************************)
TypeOK ==
  /\ \A i \in 1..Len(slots) : slots[i] \in Handlers \cup {NULL}
  /\ \A h \in Handlers : hst[h] \in {"unreg", "live", "closing", "qclosing", "detached", "closerDone", "closed"}

CloserAtMostOnce == \A h \in Handlers : closerN[h] <= 1
QueueCloseAtMostOnce == \A h \in Handlers : closeN[h] <= 1
CloserBeforeQueueClose == \A h \in Handlers : closeN[h] = 1 => closerN[h] = 1
ClosedMeansBoth == \A h \in Handlers : hst[h] = "closed" <=> (closeN[h] = 1 /\ closerN[h] = 1)
SlotUniqueAmongLive == \A i, j \in LiveIdx : i # j => slots[i] # slots[j]
SlotsHoldOpenHandlers == \A i \in LiveIdx : \/ hst[slots[i]] \in {"live", "closing", "qclosing"}
                                             \/ (mu.op = "remove" /\ mu.h = slots[i])
\* a handler whose queue is closed (or closing) is never sent to: send on closed channel = panic
NoDeliveryAfterClose ==
  [][\A h \in Handlers : delivered'[h] # delivered[h] => (hst[h] = "live" /\ closeN[h] = 0)]_vars
\* identifiers are reused only after removal
NoSlotStealing ==
  [][\A i \in 1..Len(slots) : (slots[i] # NULL /\ i <= Len(slots') /\ slots'[i] # slots[i]) => slots'[i] = NULL]_vars
\* every handler receives its messages in arrival order, without duplicates
DeliveredInOrderOnce ==
  \A h \in Handlers : \A i, j \in 1..Len(delivered[h]) : i # j => delivered[h][i] # delivered[h][j]
=============================================================================
