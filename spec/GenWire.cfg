SPECIFICATION Spec
CONSTANTS
  Level = 2
  DynDepth = 2
INVARIANTS TypeOK ThRoundTrip ThSelfDelimiting ThPrefixFree ThReencodeIdentity ThSigRoundTrip ThEncValue ThDynamicIsPrefixed ExportV
CHECK_DEADLOCK FALSE
