---------------------------- MODULE GenSignature ----------------------------
(* Vector export for Signature (DESIGN.md 2.2 b).
   "V": [c: class, sig, idl, go]   a type of the universe with its printed
        signature, IDL name and Go shape ("none": not representable in Go)
   "N": [s, acc, strict, canon]    a near miss with the reference parser's
        verdict (strict: also without blanks, i.e. in the documented grammar)
        and, when accepted, the signature it must print                    *)
EXTENDS Signature, Json

CONSTANTS ExportWide, ExportNear

Vec(class, T) == [c |-> class, sig |-> Str(Sig(T)), idl |-> IdlName(T),
                  go |-> IF GoRepresentable(T) THEN GoKind(T) ELSE [k |-> "none"],
                  top |-> T.k]

\* members that differ only by the case of the first letter: still a legal
\* signature, kept in a class of its own
CaseFields == << <<"v","a","l">>, <<"V","a","l">> >>
CaseClash == {Struct(N_A, <<I32, Str_>>, CaseFields),
              List(Struct(N_Point, <<Sc("b"), Sc("d")>>, CaseFields))}
CaseVec(T) == [Vec("fieldcase", T) EXCEPT !.go = [k |-> "struct?"]]

\* strict: the string is in the documented grammar, which has no blanks (that the parser skips
\* blanks before tokens is leniency of the implementation: accepted by the reference parser, not demanded)
NM(s) == LET r == Parse(s)
         IN [s |-> Str(s), acc |-> r.ok, strict |-> r.ok /\ \A i \in DOMAIN s : s[i] \notin Blank,
             canon |-> IF r.ok THEN Str(Sig(r.t)) ELSE ""]

ASSUME ExportWide => PrintT(<<"A", ToJson(Alphabet \cup ScalarChars \cup Blank \cup {"0", "Z", "z"})>>)
ASSUME ExportWide => \A T \in Wide : PrintT(<<"V", ToJson(Vec("wide", T))>>)
ASSUME ExportWide => \A T \in Seeds : PrintT(<<"V", ToJson(Vec("seed", T))>>)
\* tuples and structures with MANY members (two-digit member indexes), alone and inside a list
ManyScalars(n) == [i \in 1..n |-> IF i % 3 = 0 THEN Str_ ELSE IF i % 3 = 1 THEN I32 ELSE Sc("b")]
Many == UNION {{Tuple(ManyScalars(n)), List(Tuple(ManyScalars(n)))} : n \in {9, 10, 11, 12, 13, 21}}
ASSUME ExportWide => \A T \in Many : RoundTrip(T) /\ PrintT(<<"V", ToJson(Vec("many", T))>>)
ASSUME ExportWide => \A T \in CaseClash : RoundTrip(T) /\ PrintT(<<"V", ToJson(CaseVec(T))>>)
ASSUME ExportNear => \A T \in Seeds : \A s \in NearMiss(Sig(T)) : PrintT(<<"N", ToJson(NM(s))>>)

Export == PrintT(<<"V", ToJson(Vec("grow", cur))>>)
=============================================================================
