SPECIFICATION Spec
CONSTANTS
  Updaters = {"u1", "u2"}
  Subs = {"s1", "s2", "s3", "f"}
  ValuesOf <- ValuesC
  MaxOps <- OpsC
  InitTables <- Tab3f
  Foreign = {"f"}
  Movers = {"s1", "s2", "s3", "f"}
  Closers = {"s1", "s2", "s3"}
  MaxMoves = 2
  Atomic = FALSE
  Dev_IterateLiveSlice = FALSE
  Dev_SendErrorFailsWrite = TRUE
INVARIANTS AcceptedWriteReturnsOK
CHECK_DEADLOCK FALSE
