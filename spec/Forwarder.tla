----------------------------- MODULE Forwarder -----------------------------
(***************************************************************************)
(* endPoint.AddHandler (bus/net/endpoint.go): a handler whose queue (10     *)
(* slots) is drained by a goroutine of its own that hands every message to  *)
(* the user's Consumer, one after the other:                                *)
(*        for msg := range ch { err := c(msg); if err != nil { log } }      *)
(* The consumer's verdict on one message says nothing about the next one:   *)
(* the handler keeps receiving exactly the subsequence its filter selects,  *)
(* in arrival order, as long as its queue has room (C10) - until the queue  *)
(* is closed (RemoveHandler, shutdown: C17).                                 *)
(*                                                                         *)
(*   Arrive(m)   dispatch: the filter selects m; non-blocking enqueue       *)
(*   Consume     the forwarding goroutine takes the head and calls the      *)
(*               consumer, whose verdict for message m is Verdict[m]        *)
(*   CloseQ      the queue is closed; the goroutine drains what is left     *)
(***************************************************************************)
EXTENDS Naturals, Sequences

CONSTANTS Cap,        \* capacity of the queue (10 in the code)
          NMsgs,      \* messages 1..NMsgs, the handler's filter selects all of them
          Dev_StopOnConsumerError   \* the goroutine returns at the first consumer error (a seeded defect class)

VARIABLES verdict,    \* [1..NMsgs -> BOOLEAN]: TRUE = the consumer returns an error for that message
          next,       \* next message to arrive
          q,          \* the queue
          got,        \* messages handed to the consumer, in order
          dropped,    \* messages refused because the queue was full
          running,    \* the forwarding goroutine is alive
          closed
vars == <<verdict, next, q, got, dropped, running, closed>>

Init == /\ verdict \in [1..NMsgs -> BOOLEAN]
        /\ next = 1 /\ q = <<>> /\ got = <<>> /\ dropped = {} /\ running = TRUE /\ closed = FALSE

Arrive == /\ next <= NMsgs /\ ~closed
          /\ IF Len(q) < Cap THEN q' = Append(q, next) /\ UNCHANGED dropped
                             ELSE dropped' = dropped \cup {next} /\ UNCHANGED q
          /\ next' = next + 1
          /\ UNCHANGED <<verdict, got, running, closed>>

Consume == /\ running /\ q # <<>>
           /\ got' = Append(got, Head(q)) /\ q' = Tail(q)
           /\ running' = ~(Dev_StopOnConsumerError /\ verdict[Head(q)])
           /\ UNCHANGED <<verdict, next, dropped, closed>>

CloseQ == /\ ~closed /\ closed' = TRUE /\ UNCHANGED <<verdict, next, q, got, dropped, running>>

Exit == /\ running /\ closed /\ q = <<>> /\ running' = FALSE
        /\ UNCHANGED <<verdict, next, q, got, dropped, closed>>

Next == Arrive \/ Consume \/ CloseQ \/ Exit
Spec == Init /\ [][Next]_vars /\ WF_vars(Consume) /\ WF_vars(Exit)

\* what was handed over, then what waits, is exactly what was accepted, in arrival order
Accepted == SelectSeq([i \in 1..(next - 1) |-> i], LAMBDA m : m \notin dropped)
InOrderNoLoss == got \o q = Accepted
\* with room nothing is dropped
RoomMeansNoDrop == (NMsgs <= Cap) => dropped = {}
\* every accepted message reaches the consumer, whatever the verdicts were
EverythingConsumed == <>[](q = <<>>)
=============================================================================
