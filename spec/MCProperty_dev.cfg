SPECIFICATION Spec
CONSTANTS
  Valid = {1, 2}
  Invalid <- DefInvalid
  Subs = {"s1", "s2"}
  WrongKinds <- AllWrong
  Dev_ValidateByBytesOnly = TRUE
  MaxWrites = 3
CONSTRAINT Bound
INVARIANTS TypeOK TypedReads StoredTyped ReadsLastWrite NoValueBeforeFirstWrite AcceptedWritesValidated OneEventPerAcceptedWrite
PROPERTIES RejectedWriteNoEffect AcceptedWriteTakesEffect ReadOnlyOps
CHECK_DEADLOCK FALSE
