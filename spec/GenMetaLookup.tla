--------------------------- MODULE GenMetaLookup ---------------------------
(* Vector export for MetaLookup (DESIGN.md 2.2 b), replayed by harness/cmd/grammar (sub-command metalookup) on
   the real MetaObject.MethodID / SignalID / PropertyID / ActionName / PropertyName / ForEachMethodAndSignal /
   FullMetaObject and, for the rows with a plan, on a real object served through a real bus.Proxy.
   One state = one row; tag "R":
     user     the entries of the interface            mou  the meta-object the lookups see is mou (full = FALSE:
     full     whether it is FullOf(user)                    = user) or mou + the generic object (tag "G", once):
                                                            what FullMetaObject(user) must give
     wf       the interface is one the IDL generator can have produced (C05's universe)
     lookups  [k, name, sig, self, intent, code]: the answer the intent demands, the set of answers the rendering
              of the CODE allows (constants MapOrder / LastChanceAny of the configuration); self = the query is an
              entry's own name and signature (what a generated proxy asks)
     names    the walk of ForEachMethodAndSignal over `user`: [k, uid, go]
     actions  [id, name, pname]: ActionName / PropertyName on mo ("" = an error)
     plan     the end-to-end operations (E2EPlan) when the row is well-formed and merged                         *)
EXTENDS MetaLookup, Json, IOUtils

CONSTANTS SampleMod        \* 1: every row; n: the rows whose hash is IOEnv.SEL modulo n

LayNum(l) == CASE l = "up" -> 0 [] l = "down" -> 1 [] l = "low" -> 2
RECURSIVE SumOf(_)
SumOf(S) == IF S = {} THEN 0 ELSE LET x == CHOOSE y \in S : TRUE IN x * x + SumOf(S \ {x})
Hash(r) == (SumOf(r.sel) * 7 + LayNum(r.lay) * 3 + (IF r.full THEN 1 ELSE 0)) % SampleMod
Sel == CHOOSE n \in 0..999 : ToString(n) = IOEnv.SEL
Selected == SampleMod = 1 \/ Hash(row) = Sel % SampleMod

LookupVec(user, mo, x) ==
  [k |-> x.k, name |-> x.name, sig |-> x.sig,
   self |-> \E e \in user : e.k = x.k /\ e.name = x.name /\ e.sig = x.sig,
   intent |-> Intent(mo, x.k, x.name, x.sig), code |-> Code(mo, x.k, x.name, x.sig)]
Eligible(r) == r.full /\ WellFormed(User(r)) /\ User(r) # {}
RowVec ==
  LET user == User(row)
      mo == Meta(row)
  IN [sel |-> row.sel, lay |-> row.lay, full |-> row.full, wf |-> WellFormed(user), user |-> user, mou |-> mo \ Generic,
      lookups |-> {LookupVec(user, mo, x) : x \in {y \in AllQueries(row) : y.t = "lookup"}},
      names |-> Namings(user),
      actions |-> {[id |-> x.id, name |-> ActionNameOf(mo, x.id), pname |-> PropertyNameOf(mo, x.id)] : x \in {y \in AllQueries(row) : y.t = "action"}},
      plan |-> IF Eligible(row) THEN E2EPlan(user, mo) ELSE {}]
ASSUME PrintT(<<"G", ToJson(Generic)>>)
Export == Selected => PrintT(<<"R", ToJson(RowVec)>>)

Rows == UNION {{[st EXCEPT !.sel = I] : I \in SelsOf(st.fam)} : st \in Stems}
GInit == row \in Rows /\ q = NoQ
GNext == UNCHANGED vars
GSpec == GInit /\ [][GNext]_vars
=============================================================================
