SPECIFICATION Spec
CONSTANTS
  MaxInst = 3
  MaxExec = 1
  MaxEmit = 1
  Subs = {"s1", "s2"}
  Dev_BoxKeptAfterRemove = FALSE
  Dev_IdZeroAfterMainRemoved = FALSE
  Dev_TerminateKeepsObjects = TRUE
  Dev_FailedAddLeavesEntry = FALSE
  ClientSide = FALSE
  Dev_ClientRemoveKeepsEntry = FALSE
  Dev_ClientLateCallDropped = FALSE
CONSTRAINT Bounded
INVARIANTS TypeOK UniqueLiveIds TerminateHookExactlyOnce SubscribersTold NoCrash
PROPERTIES NoInvocationAfterRemoval NoLateSubscription OthersUnaffected
CHECK_DEADLOCK FALSE
