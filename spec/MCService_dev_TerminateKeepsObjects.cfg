SPECIFICATION Spec
CONSTANTS
  MaxInst = 3
  Subs = {"s1", "s2"}
  Dev_BoxKeptAfterRemove = FALSE
  Dev_IdZeroAfterMainRemoved = FALSE
  Dev_TerminateKeepsObjects = TRUE
  Dev_FailedAddLeavesEntry = FALSE
INVARIANTS TypeOK UniqueLiveIds TerminateHookExactlyOnce SubscribersTold NoCrash
PROPERTIES NoInvocationAfterRemoval NoLateSubscription OthersUnaffected
CHECK_DEADLOCK FALSE
