------------------------------- MODULE Server -------------------------------
(***************************************************************************)
(* The server side of a qiloop bus, one action per step of the code:       *)
(*                                                                         *)
(*   bus/server.go   handle(): endpoint filter, 10-slot consumer queue,    *)
(*                   consumer goroutine: firewall -> reject | Router       *)
(*   bus/router.go   Receive: service lookup -> ErrServiceNotFound          *)
(*   bus/service.go  Receive: mailbox lookup -> ErrObjectNotFound |        *)
(*                   blocking send into the object's 10-slot mailbox       *)
(*   bus/mailbox.go  one goroutine per object, one mail at a time          *)
(*   generated stub  Receive: switch on the action id (and nothing else),  *)
(*                   decode, run the implementation, answer with the       *)
(*                   request's header (channel.go SendReply/SendError)     *)
(*   bus/authenticate.go  service 0: serviceAuthenticate.Receive           *)
(*                                                                         *)
(* The peers are the environment (PeerSend); System.tla replaces them by   *)
(* bus.Client callers.  Where the code deviates from a property the        *)
(* deviation is a constant: SrvAccept (types matched by the endpoint       *)
(* filter), StubRuns (types for which the stub runs the method),           *)
(* Dev_CapMapUnsynchronised.                                               *)
(***************************************************************************)
EXTENDS Naturals, Sequences, FiniteSets, TLC

CONSTANTS
  Conns,        \* connections accepted by the server
  InitAuthed,   \* subset created authenticated (Server.Client(), server.go l.280)
  Svcs,         \* ids of the services registered in the router, other than 0
  Objs,         \* <<service, object>> pairs that have a mailbox, other than <<0,0>>
  Methods,      \* action ids that are methods of the objects in Objs
  GenericActs,  \* action ids of the generic object actions (stubObject: 0-8, 80-85) the peers address;
                \* the peers' payload (a string) does not decode as their arguments
  FailTags,     \* argument tags for which the implementation returns an error
  QCap,         \* capacity of the per-connection consumer queue (10 in the code)
  MCap,         \* capacity of a mailbox (10 in the code)
  SrvAccept,    \* message types matched by the filter of server.handle
  StubRuns,     \* message types for which a generated stub runs the method
  AuthRuns,     \* message types for which service 0 (serviceAuthenticate.Receive) runs authenticate
  AuthMode,     \* "yes" | "no" | "dict" | "script"
  Script,       \* AuthMode = "script": decision of the n-th invocation (cyclic)
  PeerMsgs,     \* alphabet of the hostile peers (records without conn)
  MaxSends,     \* peers send at most MaxSends messages in total
  Hangups,      \* BOOLEAN: peers may close their end
  Dev_CapMapUnsynchronised  \* firewall reads / authenticate writes the capability map unlocked

Types == {"call", "reply", "error", "post", "event", "capability", "cancel", "cancelled"}

AuthObj == <<0, 0>>
AuthAct == 8
AllObjs == Objs \cup {AuthObj}

(* Every variable is type-uniform: "no message" is a record of the same shape *)
NoMsg  == [type |-> "none", svc |-> 0, obj |-> 0, act |-> 0, id |-> 0, tag |-> "", pl |-> "", conn |-> ""]
NoResp == [type |-> "none", svc |-> 0, obj |-> 0, act |-> 0, id |-> 0, val |-> ""]
Idle   == [ph |-> "idle", m |-> NoMsg, resp |-> NoResp]

VARIABLES
  c2s,        \* c2s[c]: frames written by the peer of c, not yet read by the server
  s2c,        \* s2c[c]: frames written by the server on c, not yet read by the peer
  sclosed,    \* sclosed[c]: the server has closed the stream of c
  pclosed,    \* pclosed[c]: the peer has closed its end
  srvq,       \* srvq[c]: the consumer queue of server.handle
  cons,       \* cons[c]: the message the consumer goroutine holds (NoMsg: none)
  consAlive,  \* consAlive[c]: "alive" | "refusing" (firewall said no) | "closing" (error sent) | "dead" (stream closed, returned)
  authed,     \* authed[c]: channel.capability[__qi_auth_state] = done
  mbox,       \* mbox[o]: the mailbox of object o
  run,        \* run[o]: what the mailbox goroutine of o is doing
  crashed,    \* the process died (unsynchronised map access detected by the runtime)
  execLog,    \* history: method executions [obj, tag, type, id, conn]
  authLog,    \* history: invocations of the Authenticator [conn, pair, ok]
  delivered,  \* history: messages handed to a service [conn, svc, ok] (ok: accepted credentials seen before)
  everOK,     \* history: an authenticate with a pair the Authenticator accepted was processed on c
  rejected,   \* history: the firewall refused a message of c
  respLog,    \* history: set of responses written [conn, rtype (type of the request), tag, type, val]
  sent        \* number of PeerSend steps

netVars  == <<c2s, s2c, sclosed, pclosed>>
srvVars  == <<srvq, cons, consAlive, authed, mbox, run, crashed>>
histNoResp == <<execLog, authLog, delivered, everOK>>
histVars == <<histNoResp, rejected, respLog>>
vars     == <<netVars, srvVars, histVars, sent>>

-----------------------------------------------------------------------------
(* The Authenticator (bus/authenticate.go l.28-57 or user code)             *)
AuthDecide(pair, n) ==
  CASE AuthMode = "yes"    -> TRUE
    [] AuthMode = "no"     -> FALSE
    [] AuthMode = "dict"   -> pair = "good"
    [] AuthMode = "script" -> Script[((n - 1) % Len(Script)) + 1]

(* what serviceAuthenticate.Authenticate reads from the client's map (l.146-160):
   only auth_user / auth_token; a forged __qi_auth_state is never looked at *)
PairOf(pl) ==
  CASE pl = "good"      -> "good"
    [] pl = "bad"       -> "bad"
    [] pl = "badforged" -> "bad"       \* refused pair + forged state entry
    [] pl = "empty"     -> "empty"     \* no credentials at all
    [] pl = "forgedU"   -> "empty"     \* no credentials, __qi_auth_state = uint 3
    [] pl = "forgedI"   -> "empty"     \* no credentials, __qi_auth_state = int 3
    [] OTHER            -> "none"      \* wrongtype, malformed: the Authenticator is not asked

ErrResp(m, e) == [type |-> "error", svc |-> m.svc, obj |-> m.obj, act |-> m.act, id |-> m.id, val |-> e]
OkResp(m, v)  == [type |-> "reply", svc |-> m.svc, obj |-> m.obj, act |-> m.act, id |-> m.id, val |-> v]

(* endpoint.Send on a stream the server has closed fails; the error is only logged *)
Respond(c, r) == IF sclosed[c] THEN s2c ELSE [s2c EXCEPT ![c] = Append(@, r)]
Logged(m, r)  == respLog \cup {[conn |-> m.conn, rtype |-> m.type, tag |-> m.tag, type |-> r.type, val |-> r.val]}

-----------------------------------------------------------------------------
SrvInit ==
  /\ c2s = [c \in Conns |-> <<>>]
  /\ s2c = [c \in Conns |-> <<>>]
  /\ sclosed = [c \in Conns |-> FALSE]
  /\ pclosed = [c \in Conns |-> FALSE]
  /\ srvq = [c \in Conns |-> <<>>]
  /\ cons = [c \in Conns |-> NoMsg]
  /\ consAlive = [c \in Conns |-> "alive"]
  /\ authed = [c \in Conns |-> c \in InitAuthed]
  /\ mbox = [o \in AllObjs |-> <<>>]
  /\ run = [o \in AllObjs |-> Idle]
  /\ crashed = FALSE
  /\ execLog = <<>>
  /\ authLog = <<>>
  /\ delivered = <<>>
  /\ everOK = [c \in Conns |-> c \in InitAuthed]
  /\ rejected = [c \in Conns |-> FALSE]
  /\ respLog = {}

(* endpoint.process + dispatch on the server side of c (endpoint.go l.313-366)
   with the filter of server.handle (server.go l.183-189): one frame is read
   and offered to the consumer queue without blocking; a full queue drops
   the frame and answers Calls with ErrConsumerBlocked.                     *)
SrvRead(c) ==
  /\ ~crashed /\ ~sclosed[c] /\ c2s[c] # <<>>
  /\ LET m == Head(c2s[c]) IN
       /\ c2s' = [c2s EXCEPT ![c] = Tail(@)]
       /\ IF m.type \notin SrvAccept
            THEN UNCHANGED <<srvq, s2c>>
            ELSE IF Len(srvq[c]) < QCap
              THEN srvq' = [srvq EXCEPT ![c] = Append(@, m)] /\ UNCHANGED s2c
              ELSE /\ UNCHANGED srvq
                   /\ s2c' = IF m.type = "call" THEN Respond(c, ErrResp(m, "busy")) ELSE s2c
       /\ respLog' = IF m.type \in SrvAccept /\ Len(srvq[c]) >= QCap /\ m.type = "call"
                        THEN Logged(m, ErrResp(m, "busy")) ELSE respLog
  /\ UNCHANGED <<sclosed, pclosed, cons, consAlive, authed, mbox, run, crashed, histNoResp, rejected>>

(* the peer hung up: process() gets a read error once everything was read,
   closeWith closes the stream and the consumer queue (endpoint.go l.232-246);
   the consumer goroutine still drains what is buffered                     *)
SrvReadEOF(c) ==
  /\ ~crashed /\ ~sclosed[c] /\ pclosed[c] /\ c2s[c] = <<>>
  /\ sclosed' = [sclosed EXCEPT ![c] = TRUE]
  /\ UNCHANGED <<c2s, s2c, pclosed, srvVars, histVars>>

(* consumer goroutine: `for msg := range consumer` (server.go l.191)        *)
ConsumerTake(c) ==
  /\ ~crashed /\ consAlive[c] = "alive" /\ cons[c] = NoMsg /\ srvq[c] # <<>>
  /\ cons' = [cons EXCEPT ![c] = Head(srvq[c])]
  /\ srvq' = [srvq EXCEPT ![c] = Tail(@)]
  /\ UNCHANGED <<netVars, consAlive, authed, mbox, run, crashed, histVars>>

(* firewall (l.56-61, 192-200), Router.Receive (router.go l.80-88),
   serviceImpl.Receive (service.go l.166-175)                               *)
AuthWriting(c) == run[AuthObj].ph = "authw" /\ run[AuthObj].m.conn = c

ConsumerStep(c) ==
  /\ ~crashed /\ cons[c] # NoMsg /\ consAlive[c] = "alive"
  /\ LET m == cons[c]  o == <<m.svc, m.obj>> IN
     IF Dev_CapMapUnsynchronised /\ AuthWriting(c)
       THEN \* map read while service 0's mailbox goroutine writes it: the Go runtime aborts
            /\ crashed' = TRUE
            /\ UNCHANGED <<netVars, srvq, cons, consAlive, authed, mbox, run, histVars>>
     ELSE IF ~authed[c] /\ m.svc # 0
       THEN \* firewall(): ErrNotAuthenticated.  Logging, the error answer and the close are later steps
            /\ consAlive' = [consAlive EXCEPT ![c] = "refusing"]
            /\ rejected' = [rejected EXCEPT ![c] = TRUE]
            /\ UNCHANGED <<netVars, srvq, cons, authed, mbox, run, crashed, execLog, authLog, delivered, everOK, respLog>>
     ELSE IF m.svc \notin (Svcs \cup {0})
       THEN /\ s2c' = Respond(c, ErrResp(m, "nosvc"))
            /\ respLog' = Logged(m, ErrResp(m, "nosvc"))
            /\ cons' = [cons EXCEPT ![c] = NoMsg]
            /\ UNCHANGED <<c2s, sclosed, pclosed, srvq, consAlive, authed, mbox, run, crashed, histNoResp, rejected>>
     ELSE IF o \notin AllObjs
       THEN /\ s2c' = Respond(c, ErrResp(m, "noobj"))
            /\ respLog' = Logged(m, ErrResp(m, "noobj"))
            /\ cons' = [cons EXCEPT ![c] = NoMsg]
            /\ UNCHANGED <<c2s, sclosed, pclosed, srvq, consAlive, authed, mbox, run, crashed, histNoResp, rejected>>
     ELSE \* box <- NewMail(m, from): blocks while the mailbox is full
            /\ Len(mbox[o]) < MCap
            /\ mbox' = [mbox EXCEPT ![o] = Append(@, m)]
            /\ cons' = [cons EXCEPT ![c] = NoMsg]
            /\ delivered' = Append(delivered, [conn |-> c, svc |-> m.svc, ok |-> everOK[c]])
            /\ UNCHANGED <<netVars, srvq, consAlive, authed, run, crashed, execLog, authLog, everOK, rejected, respLog>>

(* context.SendError(msg, ErrNotAuthenticated) (server.go l.199) *)
ConsumerRefuse(c) ==
  /\ ~crashed /\ consAlive[c] = "refusing"
  /\ s2c' = Respond(c, ErrResp(cons[c], "auth"))
  /\ respLog' = Logged(cons[c], ErrResp(cons[c], "auth"))
  /\ consAlive' = [consAlive EXCEPT ![c] = "closing"]
  /\ cons' = [cons EXCEPT ![c] = NoMsg]
  /\ UNCHANGED <<c2s, sclosed, pclosed, srvq, authed, mbox, run, crashed, histNoResp, rejected>>

(* stream.Close(); return (server.go l.200-202): until then other goroutines still
   write their answers on the connection                                     *)
ConsumerClose(c) ==
  /\ ~crashed /\ consAlive[c] = "closing"
  /\ sclosed' = [sclosed EXCEPT ![c] = TRUE]
  /\ consAlive' = [consAlive EXCEPT ![c] = "dead"]
  /\ UNCHANGED <<c2s, s2c, pclosed, srvq, cons, authed, mbox, run, crashed, histVars>>

(* mailbox goroutine (mailbox.go l.30-41): next mail only when the previous
   Receive has returned                                                     *)
ObjRecv(o) ==
  /\ ~crashed /\ run[o].ph = "idle" /\ mbox[o] # <<>>
  /\ run' = [run EXCEPT ![o] = [ph |-> "recv", m |-> Head(mbox[o]), resp |-> NoResp]]
  /\ mbox' = [mbox EXCEPT ![o] = Tail(@)]
  /\ UNCHANGED <<netVars, srvq, cons, consAlive, authed, crashed, histVars>>

(* serviceAuthenticate.Receive (authenticate.go l.107-120, 131-173): only a
   Call is processed (AuthRuns; before the fix every type was, and answered)  *)
AuthStub ==
  /\ ~crashed /\ run[AuthObj].ph = "recv"
  /\ LET m == run[AuthObj].m  c == m.conn  pair == PairOf(m.pl)
         n == Len(authLog) + 1
         ok == AuthDecide(pair, n)
     IN
     IF m.type \notin AuthRuns
       THEN \* "unexpected message type": logged, not answered
            /\ run' = [run EXCEPT ![AuthObj] = Idle]
            /\ UNCHANGED <<authed, authLog, everOK>>
     ELSE IF m.act # AuthAct
       THEN /\ run' = [run EXCEPT ![AuthObj] = [@ EXCEPT !.ph = "reply", !.resp = ErrResp(m, "noact")]]
            /\ UNCHANGED <<authed, authLog, everOK>>
     ELSE IF m.pl = "malformed"
       THEN /\ run' = [run EXCEPT ![AuthObj] = [@ EXCEPT !.ph = "reply", !.resp = ErrResp(m, "badpayload")]]
            /\ UNCHANGED <<authed, authLog, everOK>>
     ELSE IF pair = "none"
       THEN \* user or token is not a string value: capError(), the Authenticator is not asked
            /\ run' = [run EXCEPT ![AuthObj] = [@ EXCEPT !.ph = "reply", !.resp = OkResp(m, "A:error")]]
            /\ UNCHANGED <<authed, authLog, everOK>>
     ELSE /\ authLog' = Append(authLog, [conn |-> c, pair |-> pair, ok |-> ok])
          /\ IF ok
               THEN /\ everOK' = [everOK EXCEPT ![c] = TRUE]
                    /\ IF Dev_CapMapUnsynchronised
                         THEN \* SetAuthenticated + from.Cap() iterated by WriteCapabilityMap: a window
                              /\ run' = [run EXCEPT ![AuthObj] = [@ EXCEPT !.ph = "authw", !.resp = OkResp(m, "A:done")]]
                              /\ UNCHANGED authed
                         ELSE /\ authed' = [authed EXCEPT ![c] = TRUE]
                              /\ run' = [run EXCEPT ![AuthObj] = [@ EXCEPT !.ph = "reply", !.resp = OkResp(m, "A:done")]]
               ELSE /\ run' = [run EXCEPT ![AuthObj] = [@ EXCEPT !.ph = "reply", !.resp = OkResp(m, "A:error")]]
                    /\ UNCHANGED <<authed, everOK>>
  /\ UNCHANGED <<netVars, srvq, cons, consAlive, mbox, crashed, execLog, delivered, rejected, respLog>>

AuthWriteEnd ==
  /\ ~crashed /\ run[AuthObj].ph = "authw"
  /\ authed' = [authed EXCEPT ![run[AuthObj].m.conn] = TRUE]
  /\ run' = [run EXCEPT ![AuthObj] = [@ EXCEPT !.ph = "reply"]]
  /\ UNCHANGED <<netVars, srvq, cons, consAlive, mbox, crashed, histVars>>

(* stubObject.Receive (object_stub_gen.go l.215-250, generated by
   meta/stub/stub.go generateReceiveMethod): message type check (StubRuns;
   before the fix there was none), switch on msg.Header.Action -> generated
   Receive of the interface -> generated method: decode, call the implementation *)
ObjStub(o) ==
  /\ ~crashed /\ o # AuthObj /\ run[o].ph = "recv"
  /\ LET m == run[o].m IN
     IF m.type \notin StubRuns
       THEN \* "unexpected message type": logged by the mailbox, not answered
            /\ run' = [run EXCEPT ![o] = Idle] /\ UNCHANGED execLog
     ELSE IF m.act \in GenericActs
       THEN \* generated method of the Object interface: "cannot read <argument>" (also to a Post)
            /\ run' = [run EXCEPT ![o] = [@ EXCEPT !.ph = "reply", !.resp = ErrResp(m, "badargs")]]
            /\ UNCHANGED execLog
     ELSE IF m.act \notin Methods
       THEN /\ run' = [run EXCEPT ![o] = [@ EXCEPT !.ph = "reply", !.resp = ErrResp(m, "noact")]]
            /\ UNCHANGED execLog
     ELSE IF m.pl = "bad"
       THEN \* arguments do not decode: error answer, even to a Post (stub.go l.130-141)
            /\ run' = [run EXCEPT ![o] = [@ EXCEPT !.ph = "reply", !.resp = ErrResp(m, "badargs")]]
            /\ UNCHANGED execLog
     ELSE /\ execLog' = Append(execLog, [obj |-> o, tag |-> m.tag, type |-> m.type, id |-> m.id, conn |-> m.conn])
          /\ run' = [run EXCEPT ![o] = [@ EXCEPT !.ph = "exec"]]
  /\ UNCHANGED <<netVars, srvq, cons, consAlive, authed, mbox, crashed, authLog, delivered, everOK, rejected, respLog>>

(* the implementation returns; "do not respond to post messages" (stub.go l.156) *)
ObjExecEnd(o) ==
  /\ ~crashed /\ run[o].ph = "exec"
  /\ LET m == run[o].m IN
     run' = [run EXCEPT ![o] =
               IF m.type = "post" THEN Idle
               ELSE [@ EXCEPT !.ph = "reply",
                              !.resp = IF m.tag \in FailTags THEN ErrResp(m, "app") ELSE OkResp(m, m.tag)]]
  /\ UNCHANGED <<netVars, srvq, cons, consAlive, authed, mbox, crashed, histVars>>

(* channel.SendReply / SendError: header of the request, type replaced (channel.go l.45-60) *)
ObjReply(o) ==
  /\ ~crashed /\ run[o].ph = "reply"
  /\ s2c' = Respond(run[o].m.conn, run[o].resp)
  /\ respLog' = Logged(run[o].m, run[o].resp)
  /\ run' = [run EXCEPT ![o] = Idle]
  /\ UNCHANGED <<c2s, sclosed, pclosed, srvq, cons, consAlive, authed, mbox, crashed, histNoResp, rejected>>

SrvNext ==
  \/ \E c \in Conns : SrvRead(c) \/ SrvReadEOF(c) \/ ConsumerTake(c) \/ ConsumerStep(c) \/ ConsumerRefuse(c) \/ ConsumerClose(c)
  \/ \E o \in AllObjs : ObjRecv(o) \/ ObjStub(o) \/ ObjExecEnd(o) \/ ObjReply(o)
  \/ AuthStub \/ AuthWriteEnd

(* nothing inside the server can move *)
Quiescent == ~ENABLED SrvNext

-----------------------------------------------------------------------------
(* Environment of the stand-alone server model: hostile peers               *)
PeerSend(c, pm) ==
  /\ sent < MaxSends /\ ~pclosed[c]
  /\ c2s' = [c2s EXCEPT ![c] = Append(@, [type |-> pm.type, svc |-> pm.svc, obj |-> pm.obj, act |-> pm.act,
                                          id |-> pm.id, tag |-> pm.tag, pl |-> pm.pl, conn |-> c])]
  /\ sent' = sent + 1
  /\ UNCHANGED <<s2c, sclosed, pclosed, srvVars, histVars>>

PeerClose(c) ==
  /\ Hangups /\ ~pclosed[c]
  /\ pclosed' = [pclosed EXCEPT ![c] = TRUE]
  /\ UNCHANGED <<c2s, s2c, sclosed, srvVars, histVars, sent>>

Init == SrvInit /\ sent = 0
Next == \/ SrvNext /\ UNCHANGED sent
        \/ \E c \in Conns, pm \in PeerMsgs : PeerSend(c, pm)
        \/ \E c \in Conns : PeerClose(c)
Spec == Init /\ [][Next]_vars
(* the consumer goroutine that refused a message goes on to close the stream *)
FairSpec == Spec /\ \A c \in Conns : /\ WF_vars(ConsumerRefuse(c) /\ UNCHANGED sent)
                                      /\ WF_vars(ConsumerClose(c) /\ UNCHANGED sent)

-----------------------------------------------------------------------------
(* C06 *)
TypeOK ==
  /\ \A c \in Conns : Len(srvq[c]) <= QCap
  /\ \A o \in AllObjs : Len(mbox[o]) <= MCap /\ run[o].ph \in {"idle", "recv", "exec", "authw", "reply"}

(* a message is handed to a service other than 0 only on a connection on which an
   authenticate carrying a pair the Authenticator accepts was processed before *)
NoDeliveryWithoutAuth ==
  \A i \in 1..Len(delivered) : delivered[i].svc # 0 => delivered[i].ok
NoExecWithoutAuth ==
  \A i \in 1..Len(execLog) : everOK[execLog[i].conn]
(* the connection's state is set by nothing but an accepted pair *)
ForgedStateIneffective == \A c \in Conns : authed[c] => everOK[c]
AuthLogConsistent ==
  \A c \in Conns : (everOK[c] /\ c \notin InitAuthed) =>
     \E i \in 1..Len(authLog) : authLog[i].conn = c /\ authLog[i].ok
(* authenticating one connection grants nothing to another: a step changes the state
   of at most the connection whose authenticate message service 0 is processing *)
PerConnection ==
  [][\A c \in Conns : authed'[c] # authed[c] =>
        /\ run[AuthObj].ph \in {"recv", "authw"} /\ run[AuthObj].m.conn = c
        /\ \A d \in Conns \ {c} : authed'[d] = authed[d]]_vars
(* the refused message is answered with an error and the stream is closed;
   afterwards nothing of that connection is delivered or executed *)
RejectCloses == \A c \in Conns : rejected[c] => /\ consAlive[c] # "alive"
                                                 /\ consAlive[c] = "dead" => sclosed[c]
(* ... and the close does happen (fair scheduling) *)
RejectEventuallyCloses == \A c \in Conns : rejected[c] ~> sclosed[c]
DeliveredFrom(c, d) == Cardinality({i \in 1..Len(d) : d[i].conn = c})
RejectClosesConnection ==
  [][\A c \in Conns : rejected[c] => DeliveredFrom(c, delivered') = DeliveredFrom(c, delivered)]_vars
RejectAnswered ==
  [][\A c \in Conns : (consAlive[c] = "refusing" /\ consAlive'[c] = "closing" /\ ~sclosed[c]) =>
        /\ Len(s2c'[c]) = Len(s2c[c]) + 1
        /\ s2c'[c][Len(s2c'[c])].val = "auth" /\ s2c'[c][Len(s2c'[c])].type = "error"]_vars
ServerUp == ~crashed
=============================================================================
