SPECIFICATION Spec
CONSTANTS
  Objs = {1, 2}
  Conns = {"c1", "c2", "c3"}
  MsgTab <- TabA
  InitReg <- RegA
  BoxCap = 2
  WithFill = FALSE
  Removable = {1}
  WithSvcTerm = TRUE
  MaxBreaks = 0
  MaxDrops = 0
  LockSteps = FALSE
  Dev_LateRegisterAccepted = FALSE
  Dev_StopAtFailedSend = FALSE
  Dev_KeepHandlerOnFailedSend = FALSE
  Dev_KeepTableOnTerminate = FALSE
  Dev_CloseBoxOnRemove = FALSE
  Dev_MailboxStopsOnRemove = FALSE
  Dev_BoxKeptAfterRemove = FALSE
  Dev_SendUnderReadLock = FALSE
  Dev_TerminateCallEndsService = FALSE
  Dev_ForgetDropsLast = FALSE
  Dev_AddUnderLock = FALSE
INVARIANTS Sanity NoCrash RemainingSubscribersTold OnlyRemainingTold ToldAtMostOnce HandlersReleased
           NoSubscriberLeftBehind LateRefused NothingStuck OthersKeepAnswering NoWaitCycle
PROPERTIES OnlyTheRemovedLeaves
CHECK_DEADLOCK FALSE
