------------------------------ MODULE ServerLife ------------------------------
(* bus/server.go, bus/router.go, bus/service.go, bus/namespace.go: the LIFE CYCLE of a
   server, of its router and of its services (extension module hosted by C16).

   A server owns a listener, an accept loop, a router (service id -> service) under an RWMutex,
   a namespace (name -> id, reserved / enabled) under a Mutex, a set of connection contexts under
   contextsMutex, closeChan and waitChan.  A service owns its object table under an RWMutex
   (Service.tla is the specification of that table; here only what termination needs).  One
   action per critical section / linearization point; the goroutines that run them are THREADS
   with a program counter, because Terminate walks maps OUTSIDE the locks and calls back into
   user code (OnTerminate, Stream.Close, Listener.Close) between the critical sections.

     (line numbers: the tree with the hook commit `verif hooks: server life-cycle events ...` applied)
     thread                       label      code
     Server.Terminate (T1, T2)    T_close    server.go:284   close(closeChan)        (panics when closed already)
                                  T_listen   server.go:285   listen.Close()
        stoppedWith               R_swap     router.go:38-42 Router.Terminate: the service map is swapped for an empty one
                                  R_iter     router.go:45    next service of the swapped map (map order: any)
         serviceImpl.Terminate    S_swap     service.go:187-193 object table swapped for an empty one
                                  S_on       service.go:195-197 obj.OnTerminate() of each object, NO lock held (callback):
                                             SPick takes the next object (map order), SOn runs its hook
         serviceTerminator        S_rt       service.go:20 -> router.go:72-82  Router.Remove(id)
                                  S_ns       service.go:21 -> namespace.go:44-62 Namespace.Remove(id)
        closeAll                  CA_lock    server.go:263   contextsMutex.Lock()
                                  CA_iter    server.go:266-272 EndPoint.Close() of each context UNDER contextsMutex
                                             (-> Stream.Close(), a callback, then the sweep of the handlers):
                                             CAPick takes the next context (map order), CAClose closes it
                                  CA_unlock  server.go:264   deferred Unlock
                                  W_send     server.go:256-257 waitChan <- err; close(waitChan) (panics when closed already)
     Service.Terminate (U_s)      S_swap S_on S_rt S_ns, then returns
     accept loop (A)              accepting  server.go:233   listen.Accept()
                                  handling   server.go:245 -> 177-229 handle(): end point made, context registered under
                                             contextsMutex (server.go:223-226); the end point reads only afterwards
                                  A_err      server.go:234-243 Accept failed: closeChan closed -> leave; otherwise
                                             listen.Close() and stoppedWith(err) ON THIS GOROUTINE
     closer of a context          (not modelled) server.go:212-219 delete(contexts, c) under contextsMutex, on the goroutine
                                             endPoint.closeWith starts per handler: closing a closed end point again is
                                             a no-op, so whether the entry is still there when closeAll runs is not visible
     Server.NewService (N_s)      N_res      server.go:150 -> namespace.go:28-42 Reserve
                                  N_act      server.go:156-160 -> service.go:70-80 the table with the main object, Activate
                                             (an object that refuses its activation ends NewService here)
                                  N_rt       server.go:163 -> router.go:57-69 Router.Add
                                  N_en       server.go:169 -> namespace.go:64-75 Enable
     a call k of a client         Route      router.go:87-90  service looked up under the router's read lock
                                  Deliver    service.go:173-176 mailbox looked up under the service's read lock
                                             (or router.go:95-96: the answer "Service not found", after the read lock)
                                  Enqueue    service.go:181   box <- mail, OUTSIDE the lock
                                  Exec       mailbox.go:33-38 the object's goroutine takes the mail: the method runs
                                  Finish     the method returns, the reply is written (if the connection is still there)

   The consumer goroutine of a connection (server.go:193-211) hands the messages of that connection to
   the router one at a time: Route/Deliver/Enqueue of call k+1 of a connection wait for call k.

   Environment: clients start calls, offer and close connections, the listener fails, users call
   Server.Terminate / Service.Terminate / NewService.  GATES are the points where the harness can hold
   a goroutine of the real code (all in callbacks the harness owns, or vhook gates):
     gTerm    OnTerminate of an object blocks            (implementor)
     gClose   Stream.Close of a connection blocks        (harness stream) - closeAll then HOLDS contextsMutex
     gAccept  Accept holds the stream it returns         (harness listener)
     mode[k]  "slow": the method body of call k blocks; "parkR": the consumer goroutine is held after the
              router's look-up (gate router.receive.unlocked); "parkS": after the service's look-up, before
              the mail is queued (gate service.receive.unlocked)

   Deviations (named, all FALSE in the property configuration).  THE CODE AS FOUND:
     Dev_SecondTerminatePanics      a second Server.Terminate panics in close(closeChan)
     Dev_TerminateAfterStopPanics   Server.Terminate after the accept loop stopped the server (listener
                                    failure) panics in `waitChan <- err` (send on closed channel)
     Dev_FailedNewServiceKeepsName  Server.NewService whose object refuses its activation returns the error and
                                    leaves the name reserved (server.go:157-160): the name can never be used again
     Dev_LateAcceptStaysOpen        a stream Accept returned before the listener was closed is registered
                                    AFTER closeAll has run: it stays open for ever on a terminated server
   Renderings that are NOT the code (classes of defect; each breaks the invariant named in the check):
     Dev_CloseAllStopsAtError       closeAll returns at the first Close that reports an error
     Dev_SplitSvcSwap               serviceImpl.Terminate reads the table and clears it in two critical sections
     Dev_TerminatorKeepsName        the service terminator leaves the name in the namespace
     Dev_TerminatorRemovesAll       the service terminator empties the router
     Dev_TerminateKeepsService      Service.Terminate only runs the hooks: table and router keep the service
     Dev_EnqueueDropsAfterTerminate a mail looked up before the table was swapped is discarded: never answered
     Dev_ListenFailNoStop           a failing listener ends the accept loop without stoppedWith
     Dev_LocalClientUntracked       (harness-level only; see the notes)                                       *)
EXTENDS Naturals, FiniteSets, Sequences, TLC

CONSTANTS Svcs, Objs, InitSvcs, Conns, InitConns, Calls,
          LocalConns,       \* connections of InitConns made with Server.Client() (server.go:292-296: handle() on the
                            \* caller's goroutine, a net.Pipe): the harness cannot close or hold them
          MaxSrvTerm,       \* Server.Terminate is called at most this often (0..2)
          TermSvcs,         \* services whose Service.Terminate the user calls
          CallConns, CallObjs,   \* connections / objects the calls may use
          FreeOrder,        \* TRUE (trace validation): calls start in any order of their numbers
          PinConn,          \* TRUE: call k uses connection ((k-1) mod |CallConns|) + 1 (CallConns = 1..n): fewer symmetric cases
          EnvOps,           \* environment operations enabled: subset of {"offer", "cclose", "listenfail", "newsvcfail"}
          CloseErr,         \* connections whose Stream.Close reports an error
          DevBoth,          \* TRUE (behaviour export): at the three points where THE CODE AS FOUND deviates both the
                            \* conforming and the deviating branch are taken; `devs` names the deviations a behaviour used
          WithGates,        \* FALSE: no gate is ever armed (exhaustive design check: plain interleaving)
          MaxGates,
          Modes,            \* modes a call may be started in
          Dev_SecondTerminatePanics, Dev_TerminateAfterStopPanics, Dev_LateAcceptStaysOpen, Dev_FailedNewServiceKeepsName,
          Dev_CloseAllStopsAtError, Dev_SplitSvcSwap, Dev_TerminatorKeepsName, Dev_TerminatorRemovesAll,
          Dev_TerminateKeepsService, Dev_EnqueueDropsAfterTerminate, Dev_ListenFailNoStop

SvcOf(o) == o \div 10
Main(s)  == 10 * s + 1
ObjsOf(s) == {o \in Objs : SvcOf(o) = s}

\* threads
TA == 3                           \* the accept loop
TT == 1..MaxSrvTerm               \* Server.Terminate calls
TU(s) == 10 + s                   \* Service.Terminate(s)
TN(s) == 20 + s                   \* Server.NewService(s)
Threads == TT \cup {TA} \cup {TU(s) : s \in Svcs} \cup {TN(s) : s \in Svcs \ InitSvcs}
IsT(t) == t \in TT
IsU(t) == t \in {TU(s) : s \in Svcs}
IsN(t) == t \in {TN(s) : s \in Svcs}

VARIABLES
  pc,        \* thread -> label
  todoS,     \* thread -> services of the swapped router map still to terminate
  cur,       \* thread -> service being terminated (0: none)
  todoO,     \* thread -> objects of the swapped table whose OnTerminate is still to run
  curO,      \* thread -> object whose OnTerminate it is about to call / is inside (0: none)
  todoC,     \* thread -> contexts closeAll has still to close
  curC,      \* thread -> context whose end point it is about to close / is closing (0: none)
  closeCh,   \* closeChan is closed
  lis,       \* "open" | "closed" | "failing" (the harness makes Accept return an error)
  waitDone,  \* waitChan holds its value and is closed: WaitTerminate is released
  rt,        \* services in the router
  rt0,       \* service 0 (authentication) is in the router
  ns,        \* service -> "free" | "reserved" | "enabled"
  tbl,       \* service -> objects in its table (objects and mailboxes: Service.tla)
  ctxs,      \* connections in server.contexts
  ctxMu,     \* 0 free | thread holding contextsMutex
  caDone,    \* ghost: closeAll has taken contextsMutex (what it does not see then, it never closes)
  cn,        \* connection -> "none" | "offered" | "accepted" | "reg" | "open" | "unauth" | "closed"
  accC,      \* the connection the accept loop is handling (0: none)
  term,      \* object -> OnTerminate calls
  exec,      \* object -> method invocations
  cst,       \* call -> "idle" | "sent" | "routed" | "looked" | "boxed" | "exec" | "done" | "lost"
  res,       \* call -> "none" | "pending" | "ok" | "nosvc" | "noobj" | "closed"
  cc, co,    \* call -> connection, object (0 while idle)
  mode, rel, \* call -> mode, released
  boxq,      \* object -> mails queued in its mailbox
  busy,      \* object -> call whose method is running (0: none)
  gTerm, gClose, gAccept, armed,    \* gates armed; number of gates armed so far
  nfail,     \* services whose NewService is called with an object that refuses its activation
  devs,      \* ghost: names of the deviations of the code as found this behaviour has taken
  doomed,    \* ghost: objects that were in the table of a routed service when the router was swapped
  svcDown,   \* ghost: services whose Service.Terminate (or the server's Terminate) has returned
  late       \* ghost: call -> started after its service was down

lvars == <<pc, todoS, cur, todoO, curO, todoC, curC>>
svars == <<closeCh, lis, waitDone, rt, rt0, ns, tbl, ctxs, ctxMu, caDone, cn, accC, term, exec>>
kvars == <<cst, res, cc, co, mode, rel, boxq, busy>>
gvars0 == <<gTerm, gClose, gAccept, armed>>
hvars == <<doomed, svcDown, late, devs, nfail>>
vars == <<lvars, svars, kvars, gvars0, hvars>>

Init ==
  /\ pc = [t \in Threads |-> IF t = TA THEN "accepting" ELSE "idle"]
  /\ todoS = [t \in Threads |-> {}] /\ cur = [t \in Threads |-> 0]
  /\ todoO = [t \in Threads |-> {}] /\ todoC = [t \in Threads |-> {}]
  /\ curO = [t \in Threads |-> 0] /\ curC = [t \in Threads |-> 0]
  /\ closeCh = FALSE /\ lis = "open" /\ waitDone = FALSE
  /\ rt = InitSvcs /\ rt0 = TRUE
  /\ ns = [s \in Svcs |-> IF s \in InitSvcs THEN "enabled" ELSE "free"]
  /\ tbl = [s \in Svcs |-> IF s \in InitSvcs THEN ObjsOf(s) ELSE {}]
  /\ ctxs = InitConns /\ ctxMu = 0 /\ caDone = FALSE
  /\ cn = [c \in Conns |-> IF c \in InitConns THEN "open" ELSE "none"]
  /\ accC = 0
  /\ term = [o \in Objs |-> 0] /\ exec = [o \in Objs |-> 0]
  /\ cst = [k \in Calls |-> "idle"] /\ res = [k \in Calls |-> "none"]
  /\ cc = [k \in Calls |-> 0] /\ co = [k \in Calls |-> 0]
  /\ mode = [k \in Calls |-> "fast"] /\ rel = [k \in Calls |-> FALSE]
  /\ boxq = [o \in Objs |-> <<>>] /\ busy = [o \in Objs |-> 0]
  /\ gTerm = {} /\ gClose = {} /\ gAccept = FALSE /\ armed = 0
  /\ doomed = {} /\ svcDown = {} /\ late = [k \in Calls |-> FALSE] /\ devs = {} /\ nfail = {}

Goto(t, l) == pc' = [pc EXCEPT ![t] = l]
\* the branches taken at a point where the code as found deviates
DevChoice(flag) == IF DevBoth THEN {TRUE, FALSE} ELSE {flag}
Used(dv, name) == devs' = IF dv THEN devs \cup {name} ELSE devs

-----------------------------------------------------------------------------
(* connections *)

\* the connection goes away (closed by the server, by the client, or refused): its pending calls fail
\* on the client side; the closer of its server-side handler will run
Dropped(c, r) == [k \in Calls |-> IF cc[k] = c /\ r[k] = "pending" THEN "closed" ELSE r[k]]
CloseConn(c) ==
  /\ cn' = [cn EXCEPT ![c] = "closed"]
  /\ res' = Dropped(c, res)

Offer(c) ==             \* the client dials: the stream waits in the listener
  /\ "offer" \in EnvOps /\ cn[c] = "none"
  /\ cn' = [cn EXCEPT ![c] = "offered"]
  /\ UNCHANGED <<lvars, closeCh, lis, waitDone, rt, rt0, ns, tbl, ctxs, ctxMu, caDone, accC, term, exec, kvars, gvars0, hvars>>

ClientClose(c) ==       \* the client closes an established connection
  /\ "cclose" \in EnvOps /\ cn[c] \in {"open", "unauth"} /\ c \notin gClose /\ c \notin LocalConns
  /\ CloseConn(c)
  /\ UNCHANGED <<lvars, closeCh, lis, waitDone, rt, rt0, ns, tbl, ctxs, ctxMu, caDone, accC, term, exec, cst, cc, co, mode, rel, boxq, busy, gvars0, hvars>>

AuthOK(c) ==            \* authenticate (service 0) answered: the client may talk to the services
  /\ cn[c] = "reg" /\ rt0
  /\ cn' = [cn EXCEPT ![c] = "open"]
  /\ UNCHANGED <<lvars, closeCh, lis, waitDone, rt, rt0, ns, tbl, ctxs, ctxMu, caDone, accC, term, exec, kvars, gvars0, hvars>>
AuthFail(c) ==          \* service 0 is gone with the router's map: "Service not found"
  /\ cn[c] = "reg" /\ ~rt0
  /\ cn' = [cn EXCEPT ![c] = "unauth"]
  /\ UNCHANGED <<lvars, closeCh, lis, waitDone, rt, rt0, ns, tbl, ctxs, ctxMu, caDone, accC, term, exec, kvars, gvars0, hvars>>

-----------------------------------------------------------------------------
(* the accept loop *)

AcceptTake(c) ==        \* server.go:233: Accept returns a stream (held inside Accept while gAccept)
  /\ pc[TA] = "accepting" /\ lis = "open" /\ cn[c] = "offered"
  /\ cn' = [cn EXCEPT ![c] = "accepted"] /\ accC' = c
  /\ Goto(TA, "handling")
  /\ UNCHANGED <<todoS, cur, todoO, curO, todoC, curC, closeCh, lis, waitDone, rt, rt0, ns, tbl, ctxs, ctxMu, caDone, term, exec, kvars, gvars0, hvars>>

HandleReg ==            \* server.go:220-227 (finalize): the context is registered; then the end point reads
  /\ pc[TA] = "handling" /\ ~gAccept /\ ctxMu = 0
  /\ IF caDone
       THEN \E dv \in DevChoice(Dev_LateAcceptStaysOpen) :
              /\ Used(dv, "LateAcceptStaysOpen")
              /\ IF dv THEN cn' = [cn EXCEPT ![accC] = "reg"] /\ ctxs' = ctxs \cup {accC}
                       ELSE cn' = [cn EXCEPT ![accC] = "closed"] /\ UNCHANGED ctxs       \* the design: closeAll has run, the server refuses it
       ELSE cn' = [cn EXCEPT ![accC] = "reg"] /\ ctxs' = ctxs \cup {accC} /\ UNCHANGED devs
  /\ accC' = 0 /\ Goto(TA, "accepting")
  /\ UNCHANGED <<todoS, cur, todoO, curO, todoC, curC, closeCh, lis, waitDone, rt, rt0, ns, tbl, ctxMu, caDone, term, exec, kvars, gvars0, doomed, svcDown, late, nfail>>

ListenFail ==           \* environment: the listener starts failing
  /\ "listenfail" \in EnvOps /\ lis = "open" /\ ~closeCh
  /\ lis' = "failing"
  /\ UNCHANGED <<lvars, closeCh, waitDone, rt, rt0, ns, tbl, ctxs, ctxMu, caDone, cn, accC, term, exec, kvars, gvars0, hvars>>

AcceptErr ==            \* server.go:234: Accept returned an error
  /\ pc[TA] = "accepting" /\ lis \in {"closed", "failing"}
  /\ Goto(TA, "A_err")
  /\ UNCHANGED <<todoS, cur, todoO, curO, todoC, curC, svars, kvars, gvars0, hvars>>

AErr ==                 \* server.go:235-243
  /\ pc[TA] = "A_err"
  /\ IF closeCh THEN Goto(TA, "done") /\ UNCHANGED lis
     ELSE /\ lis' = "closed"
          /\ Goto(TA, IF Dev_ListenFailNoStop THEN "done" ELSE "R_swap")
  /\ UNCHANGED <<todoS, cur, todoO, curO, todoC, curC, closeCh, waitDone, rt, rt0, ns, tbl, ctxs, ctxMu, caDone, cn, accC, term, exec, kvars, gvars0, hvars>>

-----------------------------------------------------------------------------
(* Server.Terminate, stoppedWith, Service.Terminate: the thread program *)

SrvTermCall(t) ==       \* environment: Server.Terminate() is called (the t-th call, after the previous one came back)
  /\ IsT(t) /\ pc[t] = "idle" /\ \A u \in TT : u < t => pc[u] \in {"ret", "panic"}
  /\ Goto(t, "T_close")
  /\ UNCHANGED <<todoS, cur, todoO, curO, todoC, curC, svars, kvars, gvars0, hvars>>

TClose(t) ==            \* server.go:284
  /\ IsT(t) /\ pc[t] = "T_close"
  /\ IF closeCh
       THEN \E dv \in DevChoice(Dev_SecondTerminatePanics) :
              /\ Used(dv, "SecondTerminatePanics")
              /\ Goto(t, IF dv THEN "panic"
                         ELSE IF waitDone THEN "ret" ELSE "T_listen")    \* the design: closing twice is harmless
              /\ UNCHANGED closeCh
       ELSE closeCh' = TRUE /\ Goto(t, "T_listen") /\ UNCHANGED devs
  /\ UNCHANGED <<todoS, cur, todoO, curO, todoC, curC, lis, waitDone, rt, rt0, ns, tbl, ctxs, ctxMu, caDone, cn, accC, term, exec, kvars, gvars0, doomed, svcDown, late, nfail>>

TListen(t) ==           \* server.go:285
  /\ IsT(t) /\ pc[t] = "T_listen"
  /\ lis' = "closed" /\ Goto(t, "R_swap")
  /\ UNCHANGED <<todoS, cur, todoO, curO, todoC, curC, closeCh, waitDone, rt, rt0, ns, tbl, ctxs, ctxMu, caDone, cn, accC, term, exec, kvars, gvars0, hvars>>

RSwap(t) ==             \* router.go:38-42
  /\ pc[t] = "R_swap"
  /\ todoS' = [todoS EXCEPT ![t] = rt] /\ rt' = {} /\ rt0' = FALSE
  /\ doomed' = doomed \cup UNION {tbl[s] : s \in rt}
  /\ Goto(t, "R_iter")
  /\ UNCHANGED <<cur, todoO, curO, todoC, curC, closeCh, lis, waitDone, ns, tbl, ctxs, ctxMu, caDone, cn, accC, term, exec, kvars, gvars0, svcDown, late, devs, nfail>>

RIter(t) ==             \* router.go:45: the next service (any order), or on to closeAll
  /\ pc[t] = "R_iter"
  /\ IF todoS[t] = {}
       THEN Goto(t, "CA_lock") /\ UNCHANGED <<todoS, cur>>
       ELSE \E s \in todoS[t] : /\ todoS' = [todoS EXCEPT ![t] = @ \ {s}]
                                /\ cur' = [cur EXCEPT ![t] = s]
                                /\ Goto(t, "S_swap")
  /\ UNCHANGED <<todoO, curO, todoC, curC, svars, kvars, gvars0, hvars>>

SvcTermCall(s) ==       \* environment: Service.Terminate() of a service the user holds
  /\ s \in TermSvcs /\ pc[TU(s)] = "idle" /\ (IF s \in InitSvcs THEN TRUE ELSE pc[TN(s)] = "ret" /\ s \notin nfail)
  /\ cur' = [cur EXCEPT ![TU(s)] = s] /\ Goto(TU(s), "S_swap")
  /\ UNCHANGED <<todoS, todoO, curO, todoC, curC, svars, kvars, gvars0, hvars>>

SSwap(t) ==             \* service.go:187-193
  /\ pc[t] = "S_swap"
  /\ todoO' = [todoO EXCEPT ![t] = tbl[cur[t]]]
  /\ tbl' = IF Dev_SplitSvcSwap \/ Dev_TerminateKeepsService THEN tbl ELSE [tbl EXCEPT ![cur[t]] = {}]
  /\ Goto(t, IF Dev_SplitSvcSwap THEN "S_clear" ELSE "S_on")
  /\ UNCHANGED <<todoS, cur, curO, todoC, curC, closeCh, lis, waitDone, rt, rt0, ns, ctxs, ctxMu, caDone, cn, accC, term, exec, kvars, gvars0, hvars>>

SClear(t) ==            \* (rendering Dev_SplitSvcSwap: the second critical section)
  /\ pc[t] = "S_clear"
  /\ tbl' = [tbl EXCEPT ![cur[t]] = {}] /\ Goto(t, "S_on")
  /\ UNCHANGED <<todoS, cur, todoO, curO, todoC, curC, closeCh, lis, waitDone, rt, rt0, ns, ctxs, ctxMu, caDone, cn, accC, term, exec, kvars, gvars0, hvars>>

SPick(t) ==             \* service.go:195: the next object of the swapped table (map order: any), or on to the terminator
  /\ pc[t] = "S_on" /\ curO[t] = 0
  /\ IF todoO[t] = {}
       THEN Goto(t, "S_rt") /\ UNCHANGED <<todoO, curO>>
       ELSE \E o \in todoO[t] : /\ curO' = [curO EXCEPT ![t] = o]
                                /\ todoO' = [todoO EXCEPT ![t] = @ \ {o}]
                                /\ UNCHANGED pc
  /\ UNCHANGED <<todoS, cur, todoC, curC, svars, kvars, gvars0, hvars>>

SOn(t) ==               \* service.go:196: obj.OnTerminate(), no lock held (the harness may hold the callback)
  /\ pc[t] = "S_on" /\ curO[t] # 0 /\ curO[t] \notin gTerm
  /\ term' = [term EXCEPT ![curO[t]] = @ + 1]
  /\ curO' = [curO EXCEPT ![t] = 0]
  /\ UNCHANGED <<pc, todoS, cur, todoO, todoC, curC, closeCh, lis, waitDone, rt, rt0, ns, tbl, ctxs, ctxMu, caDone, cn, accC, exec, kvars, gvars0, hvars>>

SRt(t) ==               \* service.go:20 -> router.go:72-82
  /\ pc[t] = "S_rt"
  /\ rt' = IF Dev_TerminateKeepsService THEN rt
           ELSE IF Dev_TerminatorRemovesAll THEN {} ELSE rt \ {cur[t]}
  /\ Goto(t, "S_ns")
  /\ UNCHANGED <<todoS, cur, todoO, curO, todoC, curC, closeCh, lis, waitDone, rt0, ns, tbl, ctxs, ctxMu, caDone, cn, accC, term, exec, kvars, gvars0, hvars>>

SNs(t) ==               \* service.go:21 -> namespace.go:44-62; Service.Terminate returns / the router goes on
  /\ pc[t] = "S_ns"
  /\ ns' = IF Dev_TerminatorKeepsName \/ Dev_TerminateKeepsService THEN ns ELSE [ns EXCEPT ![cur[t]] = "free"]
  /\ svcDown' = IF IsU(t) THEN svcDown \cup {cur[t]} ELSE svcDown
  /\ cur' = [cur EXCEPT ![t] = 0]
  /\ Goto(t, IF IsU(t) THEN "ret" ELSE "R_iter")
  /\ UNCHANGED <<todoS, todoO, curO, todoC, curC, closeCh, lis, waitDone, rt, rt0, tbl, ctxs, ctxMu, caDone, cn, accC, term, exec, kvars, gvars0, doomed, late, devs, nfail>>

CALock(t) ==            \* server.go:263
  /\ pc[t] = "CA_lock" /\ ctxMu = 0
  /\ ctxMu' = t /\ todoC' = [todoC EXCEPT ![t] = ctxs] /\ caDone' = TRUE
  /\ Goto(t, "CA_iter")
  /\ UNCHANGED <<todoS, cur, todoO, curO, curC, closeCh, lis, waitDone, rt, rt0, ns, tbl, ctxs, cn, accC, term, exec, kvars, gvars0, hvars>>

CAPick(t) ==            \* server.go:266: the next context (map order: any), or done
  /\ pc[t] = "CA_iter" /\ curC[t] = 0
  /\ IF todoC[t] = {}
       THEN Goto(t, "CA_unlock") /\ UNCHANGED <<todoC, curC>>
       ELSE \E c \in todoC[t] : /\ curC' = [curC EXCEPT ![t] = c]
                                /\ todoC' = [todoC EXCEPT ![t] = @ \ {c}]
                                /\ UNCHANGED pc
  /\ UNCHANGED <<todoS, cur, todoO, curO, svars, kvars, gvars0, hvars>>

CAClose(t) ==           \* server.go:267-271: EndPoint.Close() UNDER contextsMutex (Stream.Close is a callback: it may block)
  /\ pc[t] = "CA_iter" /\ curC[t] # 0 /\ curC[t] \notin gClose
  /\ CloseConn(curC[t])
  /\ IF Dev_CloseAllStopsAtError /\ curC[t] \in CloseErr
       THEN todoC' = [todoC EXCEPT ![t] = {}]
       ELSE UNCHANGED todoC
  /\ curC' = [curC EXCEPT ![t] = 0]
  /\ UNCHANGED <<pc, todoS, cur, todoO, curO, closeCh, lis, waitDone, rt, rt0, ns, tbl, ctxs, ctxMu, caDone, accC, term, exec, cst, cc, co, mode, rel, boxq, busy, gvars0, hvars>>

CAUnlock(t) ==
  /\ pc[t] = "CA_unlock"
  /\ ctxMu' = 0 /\ Goto(t, "W_send")
  /\ UNCHANGED <<todoS, cur, todoO, curO, todoC, curC, closeCh, lis, waitDone, rt, rt0, ns, tbl, ctxs, caDone, cn, accC, term, exec, kvars, gvars0, hvars>>

WSend(t) ==             \* server.go:256-257
  /\ pc[t] = "W_send"
  /\ IF waitDone
       THEN \E dv \in DevChoice(Dev_TerminateAfterStopPanics) :
              /\ Used(dv, "TerminateAfterStopPanics")
              /\ Goto(t, IF dv THEN "panic" ELSE IF t = TA THEN "done" ELSE "ret")
              /\ UNCHANGED waitDone
       ELSE waitDone' = TRUE /\ Goto(t, IF t = TA THEN "done" ELSE "ret") /\ UNCHANGED devs
  /\ svcDown' = svcDown \cup {s \in Svcs : tbl[s] = {} /\ s \notin rt /\ ns[s] = "free"}
  /\ UNCHANGED <<todoS, cur, todoO, curO, todoC, curC, closeCh, lis, rt, rt0, ns, tbl, ctxs, ctxMu, caDone, cn, accC, term, exec, kvars, gvars0, doomed, late, nfail>>

-----------------------------------------------------------------------------
(* Server.NewService *)

NewSvcCall(s, fails) ==     \* environment: Server.NewService; fails: the object will refuse its activation
  /\ s \notin InitSvcs /\ pc[TN(s)] = "idle" /\ (fails => "newsvcfail" \in EnvOps)
  /\ nfail' = IF fails THEN nfail \cup {s} ELSE nfail
  /\ Goto(TN(s), "N_res")
  /\ UNCHANGED <<todoS, cur, todoO, curO, todoC, curC, svars, kvars, gvars0, doomed, svcDown, late, devs>>
NRes(s) ==              \* server.go:150
  /\ pc[TN(s)] = "N_res" /\ ns[s] = "free"
  /\ ns' = [ns EXCEPT ![s] = "reserved"] /\ Goto(TN(s), "N_act")
  /\ UNCHANGED <<todoS, cur, todoO, curO, todoC, curC, closeCh, lis, waitDone, rt, rt0, tbl, ctxs, ctxMu, caDone, cn, accC, term, exec, kvars, gvars0, hvars>>
NAct(s) ==              \* server.go:156-160
  /\ pc[TN(s)] = "N_act"
  /\ IF s \in nfail
       THEN \E dv \in DevChoice(Dev_FailedNewServiceKeepsName) :
              /\ Used(dv, "FailedNewServiceKeepsName")
              /\ ns' = IF dv THEN ns ELSE [ns EXCEPT ![s] = "free"]     \* the design: the reservation is given back
              /\ Goto(TN(s), "ret") /\ UNCHANGED tbl
       ELSE tbl' = [tbl EXCEPT ![s] = ObjsOf(s)] /\ Goto(TN(s), "N_rt") /\ UNCHANGED <<ns, devs>>
  /\ UNCHANGED <<todoS, cur, todoO, curO, todoC, curC, closeCh, lis, waitDone, rt, rt0, ctxs, ctxMu, caDone, cn, accC, term, exec, kvars, gvars0, doomed, svcDown, late, nfail>>
NRt(s) ==               \* server.go:163
  /\ pc[TN(s)] = "N_rt"
  /\ rt' = rt \cup {s} /\ Goto(TN(s), "N_en")
  /\ UNCHANGED <<todoS, cur, todoO, curO, todoC, curC, closeCh, lis, waitDone, rt0, ns, tbl, ctxs, ctxMu, caDone, cn, accC, term, exec, kvars, gvars0, hvars>>
NEn(s) ==               \* server.go:169
  /\ pc[TN(s)] = "N_en"
  /\ ns' = [ns EXCEPT ![s] = IF @ = "reserved" THEN "enabled" ELSE @] /\ Goto(TN(s), "ret")
  /\ UNCHANGED <<todoS, cur, todoO, curO, todoC, curC, closeCh, lis, waitDone, rt, rt0, tbl, ctxs, ctxMu, caDone, cn, accC, term, exec, kvars, gvars0, hvars>>

-----------------------------------------------------------------------------
(* calls *)

Started(k) == cst[k] # "idle"
\* the consumer goroutine of a connection is busy with call j (between the router's look-up and the mailbox)
InConsumer(j) == cst[j] \in {"routed", "noroute", "looked"}

Start(k, c, o, m) ==    \* environment: a client sends call k
  /\ cst[k] = "idle" /\ (FreeOrder \/ \A j \in Calls : j < k => Started(j))
  /\ c \in CallConns /\ o \in CallObjs /\ (PinConn => c = ((k - 1) % Cardinality(CallConns)) + 1)
  /\ cn[c] = "open" /\ m \in Modes /\ (m # "fast" => WithGates)
  /\ cst' = [cst EXCEPT ![k] = "sent"] /\ res' = [res EXCEPT ![k] = "pending"]
  /\ cc' = [cc EXCEPT ![k] = c] /\ co' = [co EXCEPT ![k] = o]
  /\ mode' = [mode EXCEPT ![k] = m]
  /\ late' = [late EXCEPT ![k] = SvcOf(o) \in svcDown]
  /\ UNCHANGED <<lvars, svars, rel, boxq, busy, gvars0, doomed, svcDown, devs, nfail>>

Answer(k, r) == res' = [res EXCEPT ![k] = IF @ = "pending" THEN r ELSE @]

Route(k) ==             \* router.go:87-90: the look-up under the read lock; the answer "Service not found" is sent after
                        \* the lock is released (router.go:95-96), by the next step
  /\ cst[k] = "sent"
  /\ \A j \in Calls : (cc[j] = cc[k] /\ j # k) => (~InConsumer(j) /\ (j < k => cst[j] # "sent"))
  /\ cst' = [cst EXCEPT ![k] = IF SvcOf(co[k]) \in rt THEN "routed" ELSE "noroute"]
  /\ UNCHANGED <<lvars, svars, res, cc, co, mode, rel, boxq, busy, gvars0, hvars>>

Deliver(k) ==           \* service.go:173-176 (or router.go:95-96 when the router did not know the service)
  /\ cst[k] \in {"routed", "noroute"} /\ ~(mode[k] = "parkR" /\ ~rel[k])
  /\ IF cst[k] = "noroute"
       THEN cst' = [cst EXCEPT ![k] = "done"] /\ Answer(k, "nosvc")
       ELSE IF co[k] \in tbl[SvcOf(co[k])]
         THEN cst' = [cst EXCEPT ![k] = "looked"] /\ UNCHANGED res
         ELSE cst' = [cst EXCEPT ![k] = "done"] /\ Answer(k, "noobj")
  /\ UNCHANGED <<lvars, svars, cc, co, mode, rel, boxq, busy, gvars0, hvars>>

Enqueue(k) ==           \* service.go:181
  /\ cst[k] = "looked" /\ ~(mode[k] = "parkS" /\ ~rel[k])
  /\ IF Dev_EnqueueDropsAfterTerminate /\ co[k] \notin tbl[SvcOf(co[k])]
       THEN cst' = [cst EXCEPT ![k] = "lost"] /\ UNCHANGED boxq
       ELSE cst' = [cst EXCEPT ![k] = "boxed"] /\ boxq' = [boxq EXCEPT ![co[k]] = Append(@, k)]
  /\ UNCHANGED <<lvars, svars, res, cc, co, mode, rel, busy, gvars0, hvars>>

Exec(k) ==              \* mailbox.go:33-38: the object's goroutine takes the mail, the method runs; unless the harness holds
                        \* the method body ("slow") it returns and the reply is written in the same step
  /\ cst[k] = "boxed" /\ busy[co[k]] = 0 /\ Head(boxq[co[k]]) = k
  /\ boxq' = [boxq EXCEPT ![co[k]] = Tail(@)]
  /\ exec' = [exec EXCEPT ![co[k]] = @ + 1]
  /\ IF mode[k] = "slow" /\ ~rel[k]
       THEN cst' = [cst EXCEPT ![k] = "exec"] /\ busy' = [busy EXCEPT ![co[k]] = k] /\ UNCHANGED res
       ELSE cst' = [cst EXCEPT ![k] = "done"] /\ Answer(k, "ok") /\ UNCHANGED busy
  /\ UNCHANGED <<lvars, closeCh, lis, waitDone, rt, rt0, ns, tbl, ctxs, ctxMu, caDone, cn, accC, term, cc, co, mode, rel, gvars0, hvars>>

Finish(k) ==            \* the held method returns, the reply is written
  /\ cst[k] = "exec" /\ rel[k]
  /\ cst' = [cst EXCEPT ![k] = "done"] /\ busy' = [busy EXCEPT ![co[k]] = 0]
  /\ Answer(k, "ok")
  /\ UNCHANGED <<lvars, svars, cc, co, mode, rel, boxq, gvars0, hvars>>

-----------------------------------------------------------------------------
(* gates (environment = harness) *)

Quiet == \A t \in Threads : pc[t] \in {"idle", "ret", "panic", "done", "accepting"}
ArmTerm(o) == /\ WithGates /\ armed < MaxGates /\ Quiet /\ o \notin gTerm /\ term[o] = 0
              /\ gTerm' = gTerm \cup {o} /\ armed' = armed + 1
              /\ UNCHANGED <<lvars, svars, kvars, gClose, gAccept, hvars>>
RelTerm(o) == /\ o \in gTerm /\ gTerm' = gTerm \ {o}
              /\ UNCHANGED <<lvars, svars, kvars, gClose, gAccept, armed, hvars>>
ArmClose(c) == /\ WithGates /\ armed < MaxGates /\ Quiet /\ c \notin gClose /\ cn[c] = "open" /\ c \notin LocalConns
               /\ gClose' = gClose \cup {c} /\ armed' = armed + 1
               /\ UNCHANGED <<lvars, svars, kvars, gTerm, gAccept, hvars>>
RelClose(c) == /\ c \in gClose /\ gClose' = gClose \ {c}
               /\ UNCHANGED <<lvars, svars, kvars, gTerm, gAccept, armed, hvars>>
ArmAccept == /\ WithGates /\ armed < MaxGates /\ ~gAccept /\ pc[TA] = "accepting" /\ lis = "open"
             /\ gAccept' = TRUE /\ armed' = armed + 1
             /\ UNCHANGED <<lvars, svars, kvars, gTerm, gClose, hvars>>
RelAccept == /\ gAccept /\ gAccept' = FALSE
             /\ UNCHANGED <<lvars, svars, kvars, gTerm, gClose, armed, hvars>>
Release(k) == /\ Started(k) /\ mode[k] # "fast" /\ ~rel[k]
              /\ rel' = [rel EXCEPT ![k] = TRUE]
              /\ UNCHANGED <<lvars, svars, cst, res, cc, co, mode, boxq, busy, gvars0, hvars>>

-----------------------------------------------------------------------------
Internal ==
  \/ \E c \in Conns : AuthOK(c) \/ AuthFail(c) \/ AcceptTake(c)
  \/ HandleReg \/ AcceptErr \/ AErr
  \/ \E t \in Threads : TClose(t) \/ TListen(t) \/ RSwap(t) \/ RIter(t) \/ SSwap(t) \/ SClear(t) \/ SPick(t) \/ SOn(t)
                        \/ SRt(t) \/ SNs(t) \/ CALock(t) \/ CAPick(t) \/ CAClose(t) \/ CAUnlock(t) \/ WSend(t)
  \/ \E s \in Svcs \ InitSvcs : NRes(s) \/ NAct(s) \/ NRt(s) \/ NEn(s)
  \/ \E k \in Calls : Route(k) \/ Deliver(k) \/ Enqueue(k) \/ Exec(k) \/ Finish(k)

Env ==
  \/ \E c \in Conns : Offer(c) \/ ClientClose(c) \/ ArmClose(c) \/ RelClose(c)
  \/ ListenFail \/ ArmAccept \/ RelAccept
  \/ \E t \in TT : SrvTermCall(t)
  \/ \E s \in Svcs : SvcTermCall(s)
  \/ \E s \in Svcs \ InitSvcs : NewSvcCall(s, TRUE) \/ NewSvcCall(s, FALSE)
  \/ \E k \in Calls, c \in Conns, o \in Objs, m \in Modes : Start(k, c, o, m)
  \/ \E k \in Calls : Release(k)
  \/ \E o \in Objs : ArmTerm(o) \/ RelTerm(o)

Next == Internal \/ Env
Spec == Init /\ [][Next]_vars /\ WF_vars(Internal)

-----------------------------------------------------------------------------
(* what the module demands *)

Labels == {"idle", "ret", "panic", "done", "accepting", "handling", "A_err", "T_close", "T_listen", "R_swap", "R_iter",
           "S_swap", "S_clear", "S_on", "S_rt", "S_ns", "CA_lock", "CA_iter", "CA_unlock", "W_send",
           "N_res", "N_act", "N_rt", "N_en"}
TypeOK ==
  /\ \A t \in Threads : pc[t] \in Labels /\ todoS[t] \subseteq Svcs /\ todoO[t] \subseteq Objs /\ todoC[t] \subseteq Conns /\ curO[t] \in Objs \cup {0} /\ curC[t] \in Conns \cup {0}
  /\ rt \subseteq Svcs /\ ctxs \subseteq Conns /\ ctxMu \in {0} \cup Threads
  /\ \A c \in Conns : cn[c] \in {"none", "offered", "accepted", "reg", "open", "unauth", "closed"}
  /\ \A k \in Calls : /\ cst[k] \in {"idle", "sent", "routed", "noroute", "looked", "boxed", "exec", "done", "lost"}
                      /\ res[k] \in {"none", "pending", "ok", "nosvc", "noobj", "closed"}
  /\ \A s \in Svcs : ns[s] \in {"free", "reserved", "enabled"} /\ tbl[s] \subseteq Objs

\* nobody's Terminate blows up
NoPanic == \A t \in Threads : pc[t] # "panic"

\* the termination hook of an object runs at most once, whoever terminates what concurrently
TermAtMostOnce == \A o \in Objs : term[o] <= 1

Returned(t) == pc[t] \in {"ret", "done"}
StoppedBy(t) == (IsT(t) \/ t = TA) /\ Returned(t) /\ (t = TA => waitDone)
\* when Server.Terminate has returned (or the accept loop has stopped the server): every object of every
\* service that was registered is terminated, the names are free, WaitTerminate is released
Owed(o) == \E t \in Threads : o \in todoO[t] \/ curO[t] = o                    \* a concurrent Terminate is about to run its hook
InHands(s) == \E t \in Threads : s \in todoS[t] \/ cur[t] = s    \* ... or to terminate the service
ServerDownComplete ==
  \A t \in TT \cup {TA} : (StoppedBy(t) /\ ~Dev_ListenFailNoStop) =>
     /\ waitDone
     /\ \A o \in doomed : term[o] = 1 \/ Owed(o) \/ InHands(SvcOf(o))
     /\ \A s \in Svcs : (ObjsOf(s) \cap doomed # {}) => ((ns[s] = "free" /\ tbl[s] = {}) \/ InHands(s))
\* ... and every connection is closed (one that is still inside Accept or waits for contextsMutex is closed
\* as soon as it gets there)
AllConnectionsClosed ==
  (\E t \in TT : Returned(t)) \/ (pc[TA] = "done" /\ ~closeCh /\ ~Dev_ListenFailNoStop)
     => \A c \in Conns : cn[c] \in {"none", "offered", "accepted", "closed"}
\* a failing listener stops the server
ListenFailStops == (pc[TA] = "done" /\ ~closeCh) => waitDone

\* when Service.Terminate has returned: its objects are terminated, router and namespace forgot it
SvcDownComplete ==
  \A s \in Svcs : pc[TU(s)] = "ret" =>
     /\ s \notin rt /\ ns[s] = "free" /\ tbl[s] = {}
     /\ \A o \in ObjsOf(s) : term[o] = 1 \/ Owed(o)
\* a NewService that failed gives its name back
FailedNewServiceFreesName == \A s \in nfail : pc[TN(s)] = "ret" => ns[s] = "free"
\* a call started after that is answered with an error and does not reach an object
LateCallsRefused == \A k \in Calls : late[k] => (cst[k] \notin {"looked", "boxed", "exec"} /\ res[k] # "ok")
\* Service.Terminate of one service does not touch the others
OthersKeepAnswering ==
  [][\A t \in Threads : (IsU(t) /\ pc[t] # pc'[t]) =>
        \A s \in Svcs : s # cur[t] => (tbl'[s] = tbl[s] /\ ns'[s] = ns[s] /\ (s \in rt <=> s \in rt'))]_vars

\* liveness (no gate armed): every call ends, every Terminate returns normally, WaitTerminate is released once
\* Terminate was called or the listener failed
CallsEnd == \A k \in Calls : (res[k] = "pending") ~> (res[k] # "pending")
ThreadsEnd == \A t \in Threads : (pc[t] \notin {"idle", "accepting"}) ~> (pc[t] \in {"ret", "done", "accepting"})
WaitReleased == (lis = "failing" \/ closeCh) ~> waitDone
=============================================================================
