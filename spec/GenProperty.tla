---------------------------- MODULE GenProperty ----------------------------
(* Behaviour export for Property (DESIGN.md 2.2 b), replayed on a real object by
   harness/cmd/signal (sub-command c14-replay).

   "T" lines: [steps |-> <<[op, exp, alts], ...>>]
      op   = [k, n, kind, how, s]  the operation (uniform record)
      exp  = the observation the specification expects after the step:
             [ret  |-> result of the operation,
              val  |-> the register as a generic read shows it,
              ev   |-> per subscriber the events that the step emits]
      alts = every observation the *property* allows for this operation in this
             state (more than one only for wrongly-typed writes: rejection, or
             acceptance as the converted int32).  A replay that leaves `exp` but
             stays inside `alts` is a different legal branch, not a failure.
             (exported empty when exp is the only allowed observation)

   Mode "cov": VIEW hides hist, the export sits inside the action => exactly one
   behaviour per transition of the abstract register graph (shortest path + the
   step).  Mode "seq": hist stays in the state => the tree of all operation
   sequences; only the sequences of length Depth are exported (their prefixes are
   checked on the way).                                                        *)
EXTENDS Property, Json

CONSTANTS Mode, Depth, Hows

VARIABLE hist
gvars == <<vars, hist>>

NoEv  == [s \in Subs |-> <<>>]
Op(k, n, kind, how, s) == [k |-> k, n |-> n, kind |-> kind, how |-> how, s |-> s]

\* the events the step adds, per subscriber
NewEv == [s \in Subs |->
            IF subscribed[s] /\ subscribed'[s] /\ Len(events'[s]) > Len(events[s])
            THEN SubSeq(events'[s], Len(events[s]) + 1, Len(events'[s])) ELSE <<>>]
ObsNow == [ret |-> ret', val |-> val', ev |-> NewEv]

ObsReject == [ret |-> Err, val |-> val, ev |-> NoEv]
ObsAccept(v) == [ret |-> OK, val |-> [set |-> TRUE, sig |-> v.sig, bytes |-> v.bytes],
                 ev |-> [s \in Subs |-> IF subscribed[s] THEN <<v>> ELSE <<>>]]
AltsWrong(k) == {ObsReject} \cup
                (IF WrongTab[k].conv # NoConv THEN {ObsAccept(I32(WrongTab[k].conv))} ELSE {})

Step(op, alts) ==
  /\ hist' = Append(hist, [op |-> op, exp |-> ObsNow,
                           alts |-> IF Cardinality(alts) > 1 THEN alts ELSE {}])   \* {} = only exp
  /\ (Mode = "cov" \/ Len(hist') = Depth) => PrintT(<<"T", ToJson([steps |-> hist'])>>)

GInit == Init /\ hist = <<>>
GNext ==
  /\ (Mode = "seq" => Len(hist) < Depth)
  /\ \/ Get /\ Step(Op("get", 0, "", "", ""), {ObsNow})
     \/ \E n \in Valid, h \in Hows : SetValid(n) /\ Step(Op("set", n, "", h, ""), {ObsNow})
     \/ \E n \in Invalid, h \in Hows : SetInvalid(n) /\ Step(Op("set", n, "", h, ""), {ObsNow})
     \/ \E h \in Hows : SetUnknown /\ Step(Op("setunknown", 1, "", h, ""), {ObsNow})
     \/ \E k \in WrongKinds, h \in Hows : SetWrongReject(k) /\ Step(Op("setwrong", 0, k, h, ""), AltsWrong(k))
     \/ \E k \in WrongKinds, h \in Hows : SetWrongConvert(k) /\ Step(Op("setwrong", 0, k, h, ""), AltsWrong(k))
     \/ \E n \in Valid : Update(n) /\ Step(Op("update", n, "", "", ""), {ObsNow})
     \/ \E n \in Invalid : UpdateInvalid(n) /\ Step(Op("update", n, "", "", ""), {ObsNow})
     \/ \E s \in Subs : Subscribe(s) /\ Step(Op("sub", 0, "", "", s), {ObsNow})
     \/ \E s \in Subs : Unsubscribe(s) /\ Step(Op("unsub", 0, "", "", s), {ObsNow})
GSpec == GInit /\ [][GNext]_gvars

\* abstract register graph: the stored value and who listens (logs are history)
View == <<val, subscribed>>

\* the wrongly-typed candidates themselves (signature + bytes), for the harness
ASSUME PrintT(<<"W", ToJson([k \in WrongKinds |-> WrongTab[k]])>>)
=============================================================================
