SPECIFICATION Spec
CONSTANTS
  Callers = {"p", "q"}
  Names = {"a", "b"}
  MaxOps = 3
  Locked = FALSE
INVARIANTS NameHeldByAtMostOne IdsUnique EventsInOrder
CHECK_DEADLOCK FALSE
