----------------------------- MODULE GenSignal -----------------------------
(* Schedules of Signal.tla for the gated replay (harness sub-command c13-gated).

   Controllable steps (the harness releases exactly one parked goroutine):
     thread steps  - gates proxy.sub.{local,inc,key,rpc}, proxy.unsub.{dec,read,
                     clear,rpc,local}; Ack / CancelReq are the user's own actions
     ServerReg / ServerUnreg - gates signal.register / signal.unregister on the
                     object's mailbox goroutine
     EmitCall      - the emitter calls Signal<X>/Update<Prop>
     SendTo        - gate signal.update.send (between the snapshot and each Send)
   Everything else happens by itself in the implementation as soon as it can
   (dispatch of a received message, the forwarding goroutine, the snapshot right
   after the call, the return of the emit call, the channel being closed after
   the cancel): these steps have priority here, in one fixed order, so a schedule
   of controllable steps has exactly one expansion.  At most one request is in the
   object's mailbox at a time (the harness waits for the mailbox goroutine to
   park), and a queue never overflows.

   "G" lines: [steps, got, bad, fin]  (fin = 1: every thread is done, nothing in flight)
     steps = <<[a, th], ...>> every step, automatic ones included (the harness
             uses them as synchronisation points: "forward" = the subscriber has
             read one more event, "close" = its channel got closed ...)
     got   = what each thread has received in its last subscription
     bad   = the property invariants of Signal.tla violated on the way - the
             model's prediction for this schedule with the deviations of the
             code switched on.                                               *)
EXTENDS Signal, Json

CONSTANT Hunt   \* "" : export finished schedules (simulation)
                \* name of a property invariant: breadth-first search for the shortest
                \* schedules that violate it (cfg: INVARIANT HuntOpen stops TLC at the first)

VARIABLES hist, bad
gvars == <<vars, hist, bad>>

Rec(a, th) == [a |-> a, th |-> th]

\* automatic steps, first enabled in this order
AutoStep ==
  CASE srep.c # ""                                    -> ServerReply /\ hist' = Append(hist, Rec("reply", ""))
    [] em.pc = "called"                              -> EmitStart /\ hist' = Append(hist, Rec("snapshot", ""))
    [] em.pc = "sending" /\ em.pending = <<>>         -> EmitEnd /\ hist' = Append(hist, Rec("emitret", ""))
    [] \E c \in Conns : wire[c] # <<>>                ->
         LET c == CHOOSE x \in Conns : wire[x] # <<>>
         IN Deliver(c) /\ hist' = Append(hist, Rec("deliver", c))
    [] \E t \in Threads : q[t] # <<>> /\ ~closed[t]   ->
         LET t == CHOOSE x \in Threads : q[x] # <<>> /\ ~closed[x]
         IN Forward(t) /\ hist' = Append(hist, Rec("forward", t))
    [] \E t \in Threads : pc[t] = "closing"           ->
         LET t == CHOOSE x \in Threads : pc[x] = "closing"
         IN CloseSub(t) /\ hist' = Append(hist, Rec("close", t))
    [] \E t \in Threads : pc[t] = "done" /\ round[t] < Rounds[t] ->
         LET t == CHOOSE x \in Threads : pc[x] = "done" /\ round[x] < Rounds[x]
         IN Again(t) /\ hist' = Append(hist, Rec("again", t))
    [] OTHER -> FALSE
AutoEnabled == \/ srep.c # "" \/ em.pc = "called" \/ (em.pc = "sending" /\ em.pending = <<>>)
               \/ \E c \in Conns : wire[c] # <<>>
               \/ \E t \in Threads : (q[t] # <<>> /\ ~closed[t]) \/ pc[t] = "closing"
                                     \/ (pc[t] = "done" /\ round[t] < Rounds[t])

Ctl(th) ==
  \/ SubLocal(th) /\ hist' = Append(hist, Rec("sublocal", th))
  \/ SubInc(th) /\ hist' = Append(hist, Rec("subinc", th))
  \/ SubKey(th) /\ hist' = Append(hist, Rec("subkey", th))
  \/ mbox = <<>> /\ SubRPC(th) /\ hist' = Append(hist, Rec("subrpc", th))
  \/ Ack(th) /\ hist' = Append(hist, Rec("ack", th))
  \/ CancelReq(th) /\ hist' = Append(hist, Rec("cancel", th))
  \/ UnsubDec(th) /\ hist' = Append(hist, Rec("unsubdec", th))
  \/ UnsubRead(th) /\ hist' = Append(hist, Rec("unsubread", th))
  \/ UnsubClear(th) /\ hist' = Append(hist, Rec("unsubclear", th))
  \/ mbox = <<>> /\ UnsubRPC(th) /\ hist' = Append(hist, Rec("unsubrpc", th))
  \/ Abort(th) /\ hist' = Append(hist, Rec("abort", th))

Controllable ==
  \/ \E th \in Threads : Ctl(th)
  \/ ServerReg /\ hist' = Append(hist, Rec("serverreg", ""))
  \/ ServerUnreg /\ hist' = Append(hist, Rec("serverunreg", ""))
  \/ EmitCall /\ hist' = Append(hist, Rec("emit", emitted'[Len(emitted')]))
  \/ SendTo /\ hist' = Append(hist, Rec("send", ""))

Finished == /\ \A t \in Threads : pc[t] \in {"done", "failed"} /\ (pc[t] = "done" => round[t] = Rounds[t])
            /\ called = Len(EmitSeq) /\ em.pc = "idle" /\ mbox = <<>> /\ srep.c = ""
            /\ \A c \in Conns : wire[c] = <<>>

GInit == Init /\ hist = <<>> /\ bad = {}
GNext == /\ IF AutoEnabled THEN AutoStep ELSE Controllable
         /\ bad' = bad \cup Violated'
         /\ (Hunt = "" /\ Finished')
               => PrintT(<<"G", ToJson([steps |-> hist', got |-> got', bad |-> bad', fin |-> 1])>>)
         /\ (Hunt # "" /\ Hunt \in bad' /\ Hunt \notin bad)
               => PrintT(<<"G", ToJson([steps |-> hist', got |-> got', bad |-> bad', fin |-> 0])>>)
GSpec == GInit /\ [][GNext]_gvars
HuntOpen == Hunt = "" \/ Hunt \notin bad
\* the schedule so far is history, not state
GView == <<vars, bad>>
=============================================================================
