----------------------------- MODULE GenSignal -----------------------------
(* Schedules of Signal.tla for the gated replay (harness sub-command c13-gated).

   Controllable steps (the harness releases exactly one parked goroutine):
     thread steps  - gates proxy.sub.{local,inc,key,rpc}, proxy.unsub.{dec,read,
                     clear,rpc,local}; Ack / CancelReq are the user's own actions
     ServerReg / ServerUnreg - gates signal.register / signal.unregister on the
                     object's mailbox goroutine
     EmitCall      - the emitter calls Signal<X>/Update<Prop>
     SendTo / SendFail - gate signal.update.send (between the snapshot and each Send);
                     whether the Send succeeds is decided by the state of the connection
     InjectMsg     - the harness sends a non-Event message addressed like an event
     RogueUnreg    - the harness calls unregisterEvent on one connection with the user id
                     of a registration made on another
     BreakWrite / ReaderNotices - the harness breaks the server -> client direction of
                     its own stream / lets the server's reader see the end of it
   Everything else happens by itself in the implementation as soon as it can
   (dispatch of a received message, the forwarding goroutine, the snapshot right
   after the call, the return of the emit call, the channel being closed after
   the cancel, the clean-up after a Send that failed with io.EOF, the closers of a
   connection the server has seen end): these steps have priority here, in one fixed order, so a schedule
   of controllable steps has exactly one expansion.  At most one request is in the
   object's mailbox at a time (the harness waits for the mailbox goroutine to
   park), and a queue never overflows.

   "G" lines: [steps, got, bad, fin]  (fin = 1: every thread is done, nothing in flight)
     steps = <<[a, th, o, sig, x], ...>> (th: thread or connection; o, sig: the target of an
             emission / injection / foreign unregisterEvent, o = the kind of a break; x = the
             connection whose registration a foreign unregisterEvent names) every step, automatic ones included (the harness
             uses them as synchronisation points: "forward" = the subscriber has
             read one more event, "close" = its channel got closed ...)
     got   = what each thread has received in its last subscription
     bad   = the property invariants of Signal.tla violated on the way - the
             model's prediction for this schedule with the deviations of the
             code switched on.                                               *)
EXTENDS Signal, Json

CONSTANT Hunt   \* "" : export finished schedules (simulation)
                \* name of a property invariant: breadth-first search for the shortest
                \* schedules that violate it (cfg: INVARIANT HuntOpen stops TLC at the first)

VARIABLES hist, bad
gvars == <<vars, hist, bad>>

Rec5(a, th, o, sig, x) == [a |-> a, th |-> th, o |-> o, sig |-> sig, x |-> x]
Rec4(a, th, o, sig) == Rec5(a, th, o, sig, "")
Rec(a, th) == Rec4(a, th, "", "")
Log(r) == hist' = Append(hist, r)

Replying == {o \in Objects : srep[o].c # ""}
Forwarding == {t \in Threads : q[t] # <<>> /\ ~closed[t]}
\* automatic steps, first enabled in this order
AutoStep ==
  CASE Replying # {}                                 ->
         LET o == CHOOSE x \in Replying : TRUE IN ServerReply(o) /\ Log(Rec4("reply", "", o, ""))
    [] em.pc = "called"                              -> EmitStart /\ Log(Rec("snapshot", ""))
    [] em.pc = "cleanup"                             -> FailCleanup /\ Log(Rec("cleanup", em.failed.c))
    [] em.pc = "sending" /\ em.pending = <<>>         -> EmitEnd /\ Log(Rec("emitret", ""))
    [] clos # {}                                      ->
         LET x == CHOOSE y \in clos : TRUE IN CloserRun(x) /\ Log(Rec4("closer", x.c, x.o, ""))
    [] \E c \in Conns : wire[c] # <<>>                ->
         LET c == CHOOSE x \in Conns : wire[x] # <<>>
         IN Deliver(c) /\ Log(Rec("deliver", c))
    [] Forwarding # {}                                ->
         LET t == CHOOSE x \in Forwarding : TRUE
         IN Forward(t) /\ Log(Rec(IF Forwards(Head(q[t])) THEN "forward" ELSE "drop", t))
    [] \E t \in Threads : pc[t] = "closing"           ->
         LET t == CHOOSE x \in Threads : pc[x] = "closing"
         IN CloseSub(t) /\ Log(Rec("close", t))
    [] \E t \in Threads : pc[t] = "done" /\ round[t] < Rounds[t] ->
         LET t == CHOOSE x \in Threads : pc[x] = "done" /\ round[x] < Rounds[x]
         IN Again(t) /\ Log(Rec("again", t))
    [] OTHER -> FALSE
AutoEnabled == \/ Replying # {} \/ em.pc \in {"called", "cleanup"} \/ (em.pc = "sending" /\ em.pending = <<>>)
               \/ clos # {}
               \/ \E c \in Conns : wire[c] # <<>>
               \/ \E t \in Threads : (q[t] # <<>> /\ ~closed[t]) \/ pc[t] = "closing"
                                     \/ (pc[t] = "done" /\ round[t] < Rounds[t])

\* at most one request is on its way to a mailbox
NoRequest == \A o \in Objects : mbox[o] = <<>>
Ctl(th) ==
  \/ SubLocal(th) /\ Log(Rec("sublocal", th))
  \/ SubInc(th) /\ Log(Rec("subinc", th))
  \/ SubKey(th) /\ Log(Rec("subkey", th))
  \/ NoRequest /\ SubRPC(th) /\ Log(Rec("subrpc", th))
  \/ Ack(th) /\ Log(Rec("ack", th))
  \/ CancelReq(th) /\ Log(Rec("cancel", th))
  \/ UnsubDec(th) /\ Log(Rec("unsubdec", th))
  \/ UnsubRead(th) /\ Log(Rec("unsubread", th))
  \/ UnsubClear(th) /\ Log(Rec("unsubclear", th))
  \/ NoRequest /\ UnsubRPC(th) /\ Log(Rec("unsubrpc", th))
  \/ Abort(th) /\ Log(Rec("abort", th))

Controllable ==
  \/ \E th \in Threads : Ctl(th)
  \/ \E o \in Objects : ServerReg(o) /\ Log(Rec4("serverreg", "", o, ""))
  \/ \E o \in Objects : ServerUnreg(o) /\ Log(Rec4("serverunreg", "", o, ""))
  \/ EmitCall /\ Log(Rec4("emit", "", emitted'[Len(emitted')].o, emitted'[Len(emitted')].sig))
  \/ (SendTo \/ SendFail) /\ Log(Rec("send", ""))
  \/ \E i \in Inject : InjectMsg(i) /\ Log(Rec4("inject", i.c, i.o, i.sig))
  \/ \E c \in Rogue : \E o \in Objects : \E i \in 1..Len(regs[o]) :
        NoRequest /\ RogueUnreg(c, o, i) /\ Log(Rec5("rogue", c, o, regs[o][i].sig, regs[o][i].c))
  \/ \E c \in Failing : \E k \in {"eof", "err"} : BreakWrite(c, k) /\ Log(Rec4("break", c, k, ""))
  \/ \E c \in Failing : ReaderNotices(c) /\ Log(Rec("notice", c))

Finished == /\ \A t \in Threads : pc[t] \in {"done", "failed", "dead"} /\ (pc[t] = "done" => round[t] = Rounds[t])
            /\ called = Len(EmitSeq) /\ em.pc = "idle" /\ NoRequest /\ Replying = {} /\ clos = {}
            /\ \A c \in Conns : wire[c] = <<>>
            \* a connection that broke is seen to be down in the end (the harness closes its stream)
            /\ \A c \in Conns : wst[c] \in {"up", "down"}

\* ---- witnesses: situations (not violations) a hunt can aim at, so that every run of the
\* check forces them on the real code.  They are facts about the step being taken.
\* a message of type ty is being dispatched on a connection where an acknowledged subscriber
\* listens whose subscription differs from the message's address as told by P(t, m)
Dispatching(ty, P(_, _)) ==
  \E c \in Conns : /\ wire[c] # <<>> /\ wire'[c] = Tail(wire[c]) /\ Head(wire[c]).t = ty
                   /\ \E t \in Threads : /\ ConnOf[t] = c /\ lh[t] /\ pc[t] = "acked" /\ pc'[t] = "acked"
                                         /\ P(t, Head(wire[c]))
\* a Send of UpdateSignal fails (connection in state k) while entries for healthy connections
\* are still pending behind it
FailingSend(k) == /\ em.pc = "sending" /\ em.pending # <<>> /\ em'.pending # em.pending
                  /\ wst[Head(em.pending).c] = k
                  /\ \E i \in 2..Len(em.pending) : wst[em.pending[i].c] = "up"
\* UpdateSignal takes its snapshot while a listed subscriber's connection is broken already
\* (and another one's is healthy): the Send to it is bound to fail
\* the mailbox goroutine processes an unregisterEvent that names the registration of another
\* connection whose subscriber is acknowledged
RogueProcessed == \E o \in Objects :
                    /\ mbox[o] # <<>> /\ Head(mbox[o]).th = NoThread /\ mbox'[o] = Tail(mbox[o])
                    /\ \E t \in Threads : ObjOf[t] = o /\ pc[t] = "acked" /\ h[t] = Head(mbox[o]).u
SnapshotOfBroken == /\ em.pc = "called" /\ em'.pc = "sending"
                    /\ \E i, j \in 1..Len(em'.pending) : wst[em'.pending[i].c] \in {"eof", "err"} /\ i < j
                                                          /\ wst[em'.pending[j].c] = "up"
Witnessed ==
  {w \in {"W_SiblingObjectEvent", "W_OtherServiceEvent", "W_OtherActionEvent", "W_NonEvent",
          "W_FailedSendNotLast_eof", "W_FailedSendNotLast_err", "W_FailedSendNotLast_down", "W_SnapshotOfBroken",
          "W_RogueUnregister"} :
     CASE w = "W_SiblingObjectEvent" -> Dispatching("ev", LAMBDA t, m : SvcOK(t, m) /\ ~OidOK(t, m) /\ ActOK(t, m))
       [] w = "W_OtherServiceEvent" -> Dispatching("ev", LAMBDA t, m : ~SvcOK(t, m) /\ OidOK(t, m) /\ ActOK(t, m))
       [] w = "W_OtherActionEvent" -> Dispatching("ev", LAMBDA t, m : SvcOK(t, m) /\ OidOK(t, m) /\ ~ActOK(t, m))
       [] w = "W_NonEvent" -> Dispatching("inj", LAMBDA t, m : SvcOK(t, m) /\ OidOK(t, m) /\ ActOK(t, m))
       [] w = "W_FailedSendNotLast_eof" -> FailingSend("eof")
       [] w = "W_FailedSendNotLast_err" -> FailingSend("err")
       [] w = "W_FailedSendNotLast_down" -> FailingSend("down")
       [] w = "W_SnapshotOfBroken" -> SnapshotOfBroken
       [] w = "W_RogueUnregister" -> RogueProcessed}
\* Hunt = "W_foreign" / "W_fail": one breadth-first run aims at several witnesses; TLC registers
\* (-workers 1) count what has been exported, the run stops when every witness has a schedule
HuntSet == CASE Hunt = "W_foreign" -> {"W_SiblingObjectEvent", "W_OtherServiceEvent", "W_OtherActionEvent", "W_NonEvent",
                                       "W_RogueUnregister"}
             [] Hunt = "W_fail" -> {"W_FailedSendNotLast_eof", "W_FailedSendNotLast_err", "W_FailedSendNotLast_down",
                                    "W_SnapshotOfBroken"}
             [] OTHER -> {Hunt}
Multi == Hunt \in {"W_foreign", "W_fail"}
HReg(w) == CASE w = "W_SiblingObjectEvent" -> 21 [] w = "W_OtherServiceEvent" -> 22 [] w = "W_OtherActionEvent" -> 23
             [] w = "W_NonEvent" -> 24 [] w = "W_FailedSendNotLast_eof" -> 25 [] w = "W_FailedSendNotLast_err" -> 26
             [] w = "W_FailedSendNotLast_down" -> 27 [] w = "W_SnapshotOfBroken" -> 28 [] OTHER -> 29
ASSUME \A i \in 21..29 : TLCSet(i, 0)
PerWitness == 2     \* schedules exported per witness
Export(fin) == PrintT(<<"G", ToJson([steps |-> hist', got |-> got', bad |-> bad', fin |-> fin])>>)

GInit == Init /\ hist = <<>> /\ bad = {}
GNext == /\ IF AutoEnabled THEN AutoStep ELSE Controllable
         /\ bad' = bad \cup Violated' \cup Witnessed
         /\ (Hunt = "" /\ Finished') => Export(1)
         /\ (Hunt # "" /\ ~Multi /\ Hunt \in bad' /\ Hunt \notin bad) => Export(0)
         /\ Multi => \A w \in HuntSet :
                       (w \in bad' /\ w \notin bad /\ TLCGet(HReg(w)) < PerWitness)
                          => Export(0) /\ TLCSet(HReg(w), TLCGet(HReg(w)) + 1)
GSpec == GInit /\ [][GNext]_gvars
HuntOpen == CASE Hunt = "" -> TRUE
              [] Multi -> \E w \in HuntSet : TLCGet(HReg(w)) = 0
              [] OTHER -> Hunt \notin bad
\* hunts for witnesses need no cancelled subscription: prune
NoCancel == \A t \in Threads : ~cancelled[t] /\ pc[t] \notin {"dec", "done"}
\* ... and the witnesses about routing (not about races) are looked for among the schedules
\* in which the threads subscribe one after the other and the emissions come last
Order == <<"t1", "t2", "t3", "t4", "t5", "t6", "t7", "t8", "t9", "t10">>
Pos(t) == CHOOSE i \in 1..Len(Order) : Order[i] = t
OneByOne == /\ NoCancel
            /\ \A t, u \in Threads : (Pos(t) < Pos(u) /\ pc[u] # "idle") => pc[t] = "acked"
            /\ (called > 0 \/ injected # {} \/ rogued # {}) => \A t \in Threads : pc[t] = "acked"
\* the schedule so far is history, not state
GView == <<vars, bad>>
=============================================================================
