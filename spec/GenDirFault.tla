---------------------------- MODULE GenDirFault ----------------------------
(* Behaviour export for DirFault (DESIGN.md 2.2 b): the harness
   (harness/cmd/registry c15fault-replay) plays one COMMAND at a time on a real
   directory.NewServer with the observers of ObsSeq on connections of their
   own; between two commands everything the code does by itself runs to
   quiescence.  Commands:

     register / ready / unregister / update / lookup / list
                      a directory operation, through the remote proxy, the local
                      Namespace or Server.NewService / Service.Terminate
     break(o)         o's peer shuts down its read side (server writes now fail
                      with EPIPE, the server is not told)
     drop(o)          o's peer closes its connection; the command ends when the
                      server has forgotten both subscriptions (NoticeOne x 2)
     ready / unregister WITH A PLAN [at, f, who]
                      the emitting operation is held at the gate
                      signal.update.send just before the send to observer `at`;
                      there fault f (break / drop, drop including the server's
                      notice) hits observer `who`; then the operation goes on

   Transition coverage: `hist`, `recv`, `events`, `ret` and the shadow are
   hidden by the VIEW while the system is settled, so TLC visits every
   abstract state <<registry, health, subscriber table>> once, through a
   shortest path, and prints one behaviour per (state, command).  Every step
   carries the expected observation: return value, listing, what each observer
   has received, who is still subscribed.                                    *)
EXTENDS DirFault, Json, IOUtils

CONSTANTS UpdKinds,   \* kinds used for update commands
          WithPlans,  \* mid-emission faults among the commands
          SeqMode,    \* TRUE: no VIEW, every command SEQUENCE up to MaxLen (only commands that change something)
          MaxLen

VARIABLES hist, plan, settled
gvars == <<fvars, hist, plan, settled>>

NoPlan == [at |-> "", f |-> "", who |-> ""]
Op(op, n, id, k, ep) == [op |-> op, n |-> n, id |-> id, kind |-> k, ep |-> ep, o |-> "", plan |-> NoPlan]
Env(op, o) == [op |-> op, n |-> "", id |-> 0, kind |-> "ok", ep |-> "", o |-> o, plan |-> NoPlan]
Subscribed(o) == Has(o, "added") /\ Has(o, "removed")
Post == [ret |-> ret, list |-> Listing, recv |-> recv, health |-> health,
         sub |-> [o \in O |-> Subscribed(o)]]

Cmd(c) == /\ hist' = Append(hist, [op |-> c, obs |-> Post])     \* obs is filled in by Settle
          /\ settled' = FALSE

Pending == \E o \in O : health[o] = "gone" /\ (Has(o, "added") \/ Has(o, "removed"))
Ready4Cmd == settled /\ cur.st = "idle" /\ ~Pending /\ Len(hist) < MaxLen

Plans(k) == IF ~WithPlans THEN {} ELSE
  {[at |-> a, f |-> f, who |-> w] : a \in {o \in O : Has(o, k)},
                                    f \in {x \in {"break", "drop"} : (x = "break" => WithBreak) /\ (x = "drop" => WithDrop)},
                                    w \in {o \in O : health[o] # "gone"}}
GoodPlan(p) == p.f = "break" => health[p.who] = "ok"

Command ==
  /\ Ready4Cmd
  /\ \/ \E n \in AllNames, k \in Kinds : (SeqMode => n \in Names /\ k = "ok")
           /\ RegisterOp(n, k) /\ Cmd(Op("register", n, 0, k, "e1")) /\ plan' = NoPlan
     \/ \E id \in Ids : ((~SeqMode /\ ReadyFail(id)) \/ ReadyMove(id)) /\ Cmd(Op("ready", "", id, "ok", "")) /\ plan' = NoPlan
     \/ \E id \in Ids : ((~SeqMode /\ UnregQuiet(id)) \/ UnregMove(id)) /\ Cmd(Op("unregister", "", id, "ok", "")) /\ plan' = NoPlan
     \/ \E id \in Ids : \E p \in Plans("added") :
           GoodPlan(p) /\ ReadyMove(id) /\ Cmd([Op("ready", "", id, "ok", "") EXCEPT !.plan = p]) /\ plan' = p
     \/ \E id \in Ids : \E p \in Plans("removed") :
           GoodPlan(p) /\ UnregMove(id) /\ Cmd([Op("unregister", "", id, "ok", "") EXCEPT !.plan = p]) /\ plan' = p
     \/ \E id \in Ids, n \in AllNames, k \in UpdKinds, ep \in Eps :
           ~SeqMode /\ UpdateOp(id, n, k, ep) /\ Cmd(Op("update", n, id, k, ep)) /\ plan' = NoPlan
     \/ \E n \in AllNames : ~SeqMode /\ LookupOp(n) /\ Cmd(Op("lookup", n, 0, "ok", "")) /\ plan' = NoPlan
     \/ ~SeqMode /\ ListOp /\ Cmd(Op("list", "", 0, "ok", "")) /\ plan' = NoPlan
     \/ \E o \in O : Break(o) /\ Cmd(Env("break", o)) /\ plan' = NoPlan
     \/ \E o \in O : Drop(o) /\ Cmd(Env("drop", o)) /\ plan' = NoPlan

\* what runs by itself, in the order the harness lets it run
Keep == UNCHANGED <<hist, settled>>
Internal ==
  IF Pending
    THEN LET o == CHOOSE x \in O : health[x] = "gone" /\ (Has(x, "added") \/ Has(x, "removed"))
         IN (IF Has(o, "added") THEN NoticeOne(o, "added") ELSE NoticeOne(o, "removed")) /\ Keep /\ UNCHANGED plan
  ELSE IF cur.st = "moved" THEN Snapshot /\ Keep /\ UNCHANGED plan
  ELSE IF cur.st = "sending" /\ cur.i <= cur.len /\ plan.at # "" /\ Cell(cur.i).k = cur.k /\ Cell(cur.i).o = plan.at
    THEN (IF plan.f = "break" THEN Break(plan.who) ELSE Drop(plan.who)) /\ plan' = NoPlan /\ Keep
  ELSE IF cur.st = "sending" /\ cur.i <= cur.len THEN SendNext /\ Keep /\ UNCHANGED plan
  ELSE Return /\ Keep /\ UNCHANGED plan
Running == Pending \/ cur.st # "idle"

Settle == /\ ~settled /\ ~Running
          /\ settled' = TRUE
          /\ hist' = [hist EXCEPT ![Len(hist)].obs = Post]
          /\ PrintT(<<"T", ToJson(hist')>>)
          /\ UNCHANGED <<fvars, plan>>

GInit == FInit /\ hist = <<>> /\ plan = NoPlan /\ settled = TRUE
GNext == IF Running THEN Internal ELSE IF ~settled THEN Settle ELSE Command
GSpec == GInit /\ [][GNext]_gvars
View == <<staging, services, lastID, life, health, arr, tlen, cur, plan, settled, IF settled THEN <<>> ELSE hist>>

\* the world: who subscribed in which order
ASSUME PrintT(<<"W", ToJson([obs |-> ObsSeq])>>)
=============================================================================
