SPECIFICATION Spec
CONSTANTS
  Universe = "quick"
  MapOrder = {"s", "p"}
  LastChanceAny = {"m", "s", "p"}
  WalkSorted = TRUE
  AssumeUserRange = TRUE
  QueryTypes = {"lookup"}
INVARIANTS NeverAnotherOverload
CHECK_DEADLOCK FALSE
