SPECIFICATION Spec
CONSTANTS
  Users = {"u1", "u2"}
  Conns = {"cA", "cB"}
  MaxLen = 3
  Variant = "removeNew"
  Disconnects = {"cA"}
INVARIANTS NoSelfDeadlock NoBlockingUnderS TableConsistent
PROPERTIES ObjectKeepsServing
