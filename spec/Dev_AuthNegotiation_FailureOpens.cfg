SPECIFICATION Spec
CONSTANTS
  AuthMode = "dict"
  Script <- ScriptFTF
  Shapes <- TinyShapes
  Creds <- NoCreds
  Answers <- NoAnswers
  Foreign = FALSE
  Driver = "peer"
  Clients <- One
  MaxSends = 2
  MaxProbes = 2
  Holds = TRUE
  Dev_WrongTypedReadAsEmpty = FALSE
  Dev_ClientStateTrusted = FALSE
  Dev_MarkBeforeAsk = FALSE
  Dev_ContinueReadsAsDone = FALSE
  Dev_RefusalLeavesOpen = FALSE
  Dev_FailureOpens = TRUE
  Dev_NewTokenSubstitutes = FALSE
  Dev_ContinueForEver = FALSE
  Dev_TokenNotKept = FALSE
  Dev_ContinueCountsAsDone = FALSE
PROPERTIES FailedAuthKeepsGate
CHECK_DEADLOCK FALSE
