SPECIFICATION FairSpec
CONSTANTS
  Conns <- TwoConns
  InitAuthed <- NoConns
  Svcs = {1}
  Objs <- ProbeObjs
  Methods = {100}
  GenericActs = {8}
  FailTags = {}
  QCap = 2
  MCap = 1
  SrvAccept <- CodeFilter
  StubRuns <- ReqTypes
  AuthRuns <- CallOnly
  AuthMode = "no"
  Script <- ScriptFTF
  PeerMsgs <- TinyAlphabet
  MaxSends = 3
  Hangups = FALSE
  Dev_CapMapUnsynchronised = FALSE
INVARIANTS TypeOK NoDeliveryWithoutAuth NoExecWithoutAuth ForgedStateIneffective AuthLogConsistent RejectCloses ServerUp
PROPERTIES PerConnection RejectClosesConnection RejectAnswered RejectEventuallyCloses
CHECK_DEADLOCK FALSE
