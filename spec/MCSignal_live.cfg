SPECIFICATION FairSpec
CONSTANTS
  Threads <- T2
  Conns = {"c1"}
  Signals = {"A"}
  ConnOf <- OneConn
  SigOf <- SameSig
  Rounds <- R1
  EmitSeq <- EmitA
  QCap = 2
  Dev_ProxySectionsNotAtomic = FALSE
  Dev_SendAfterSnapshot = FALSE
  Objects = {"o1"}
  ObjOf <- AllO1
  Devs = {}
  Probe <- NoProbe
  Failing = {}
  Inject <- NoInject
  Rogue = {}
PROPERTIES EventuallyClosed
CHECK_DEADLOCK FALSE
