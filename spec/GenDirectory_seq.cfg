SPECIFICATION GSpec
CONSTANTS
  Names = {"a"}
  MaxId = 3
  BadKinds = {"nopid"}
  Eps = {"e2"}
  UpdKinds = {"ok"}
  Tag = "S"
  SampleMod = 1
  MaxLen = 3
CONSTRAINT Short
INVARIANTS NameHeldByAtMostOne VisibleIffReady EventsOncePerTransitionInOrder
CHECK_DEADLOCK FALSE
