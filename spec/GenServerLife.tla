--------------------------- MODULE GenServerLife ---------------------------
(* Behaviour export for ServerLife.tla (DESIGN.md 2.2 b).  The harness plays the environment ONE COMMAND
   AT A TIME; between two commands the goroutines of the server run until nothing can move (every
   interleaving of the internal steps is explored: a command sequence may have several outcomes, the
   check accepts the set).  A goroutine held at a gate is at rest.  One test per transition
   (quiescent abstract state, command) of the bounded graph: hist is hidden by the VIEW while settled,
   the export sits inside the Settle step.

   Commands (o, a, b, m):  offer c | cclose c | listenfail | srvterm t | svcterm s | newsvc s | newsvcfail s |
     start k c o mode (a = k, b = c, c = o) | release k | armterm o | relterm o | armclose c | relclose c |
     armaccept | relaccept
   Observation after each command: per call its outcome, per object the invocation and OnTerminate
   counters, per connection what the client sees, per thread idle / running (blocked) / returned /
   panicked, the accept loop inside Accept or not, which gates hold a goroutine, how many calls the router / the
   mailboxes have seen (hook events), WaitTerminate released, the
   namespace.                                                                                       *)
EXTENDS ServerLife, Json

CONSTANT MaxLen
VARIABLES hist, settled
gvars == <<vars, hist, settled>>

GInit == Init /\ hist = <<>> /\ settled = TRUE

\* call j sits at the gate of its mode
AtGate(j) == ~rel[j] /\ ((mode[j] = "slow" /\ cst[j] = "exec") \/ (mode[j] = "parkS" /\ cst[j] = "looked")
                         \/ (mode[j] = "parkR" /\ cst[j] \in {"routed", "noroute"}))
CallCode(k) == CASE res[k] = "none" -> 0 [] res[k] = "pending" -> 1 [] res[k] = "ok" -> 2
                 [] res[k] \in {"nosvc", "noobj"} -> 3      \* refused: which error is not demanded
                 [] OTHER -> 5
ConnCode(c) == CASE cn[c] = "none" -> "none" [] cn[c] \in {"offered", "accepted", "reg"} -> "wait"
                 [] OTHER -> cn[c]
ThrCode(t) == CASE pc[t] = "idle" -> "idle" [] pc[t] \in {"ret", "done"} -> "ret" [] pc[t] = "panic" -> "panic"
                [] OTHER -> "run"
\* the accept loop as the listener sees it: a goroutine inside Accept ("in"), none ("out"), or the goroutine
\* died in stoppedWith ("panic": the process is gone)
AccCode == CASE pc[TA] = "accepting" /\ lis = "open" -> "in"
             [] pc[TA] = "handling" /\ gAccept -> "in"
             [] pc[TA] = "panic" -> "panic"
             [] OTHER -> "out"
Obs == [calls |-> [k \in Calls |-> CallCode(k)],
        exec |-> {[o |-> o, n |-> exec[o]] : o \in Objs},
        term |-> {[o |-> o, n |-> term[o]] : o \in Objs},
        conns |-> {[c |-> c, st |-> ConnCode(c)] : c \in Conns},
        thr |-> {[t |-> t, st |-> ThrCode(t)] : t \in Threads \ {TA}},
        acc |-> AccCode,
        gates |-> {[g |-> "term", n |-> curO[t]] : t \in {u \in Threads : pc[u] = "S_on" /\ curO[u] # 0 /\ curO[u] \in gTerm}}
                  \cup {[g |-> "close", n |-> curC[t]] : t \in {u \in Threads : pc[u] = "CA_iter" /\ curC[u] # 0 /\ curC[u] \in gClose}}
                  \cup {[g |-> "accept", n |-> 0] : x \in {y \in {1} : pc[TA] = "handling" /\ gAccept}}
                  \cup {[g |-> "call", n |-> k] : k \in {j \in Calls : AtGate(j)}},
        \* how far the calls have got inside the server (router look-ups per service, mails per object): a pending call
        \* must rest where the specification says, not merely be pending
        routed |-> {[s |-> s, n |-> Cardinality({k \in Calls : cst[k] \notin {"idle", "sent"} /\ SvcOf(co[k]) = s})] : s \in Svcs},
        boxed |-> {[o |-> o, n |-> exec[o] + Cardinality({k \in Calls : co[k] = o /\ cst[k] \in {"looked", "boxed"}})] : o \in Objs},
        wait |-> waitDone,
        ns |-> {[s |-> s, st |-> ns[s]] : s \in Svcs}]

Cmd(o, a, b, c, m) == /\ hist' = Append(hist, [o |-> o, a |-> a, b |-> b, c |-> c, m |-> m, post |-> Obs, devs |-> devs])
                      /\ settled' = FALSE

Command ==
  \/ \E c \in Conns : \/ Offer(c) /\ Cmd("offer", c, 0, 0, "")
                      \/ ClientClose(c) /\ Cmd("cclose", c, 0, 0, "")
                      \/ ArmClose(c) /\ Cmd("armclose", c, 0, 0, "")
                      \/ RelClose(c) /\ Cmd("relclose", c, 0, 0, "")
  \/ ListenFail /\ Cmd("listenfail", 0, 0, 0, "")
  \/ ArmAccept /\ Cmd("armaccept", 0, 0, 0, "")
  \/ RelAccept /\ Cmd("relaccept", 0, 0, 0, "")
  \/ \E t \in TT : SrvTermCall(t) /\ Cmd("srvterm", t, 0, 0, "")
  \/ \E s \in Svcs : SvcTermCall(s) /\ Cmd("svcterm", s, 0, 0, "")
  \/ \E s \in Svcs \ InitSvcs : NewSvcCall(s, FALSE) /\ Cmd("newsvc", s, 0, 0, "")
  \/ \E s \in Svcs \ InitSvcs : NewSvcCall(s, TRUE) /\ Cmd("newsvcfail", s, 0, 0, "")
  \/ \E k \in Calls, c \in Conns, o \in Objs, m \in Modes : Start(k, c, o, m) /\ Cmd("start", k, c, o, m)
  \/ \E k \in Calls : Release(k) /\ Cmd("release", k, 0, 0, "")
  \/ \E o \in Objs : \/ ArmTerm(o) /\ Cmd("armterm", o, 0, 0, "")
                     \/ RelTerm(o) /\ Cmd("relterm", o, 0, 0, "")

Settle == /\ ~settled /\ settled' = TRUE
          /\ hist' = [hist EXCEPT ![Len(hist)].post = Obs, ![Len(hist)].devs = devs]
          /\ PrintT(<<"T", ToJson(hist')>>)
          /\ UNCHANGED vars

\* a process whose accept goroutine panicked is gone: nothing follows
Dead == pc[TA] = "panic"
GNext == IF ENABLED Internal /\ ~Dead THEN (Internal /\ UNCHANGED <<hist, settled>>)
         ELSE IF ~settled THEN Settle
         ELSE (~Dead /\ Len(hist) < MaxLen /\ Command)
GSpec == GInit /\ [][GNext]_gvars
View == <<vars, settled, IF settled THEN <<>> ELSE hist>>
=============================================================================
