---------------------------- MODULE TraceService ----------------------------
(* Validation of recorded concurrent executions of a real bus.Service against
   Service.tla (C16, c).  Events, in the order of the process-wide sequence
   counter of the hooks:

     add(inst, id) / addfail(inst, id)   serviceImpl.Add, second critical section (under the lock)
     remove(id) / remove_unknown(id)     serviceImpl.Remove, under the lock
     terminate                           serviceImpl.Terminate, under the lock
     tobox(id) / noobj(id)               serviceImpl.Receive: a mailbox was / was not found for id
     exec(inst)                          the harness implementor runs a method
     onterminate(inst)                   the harness implementor's OnTerminate runs
     quiet                               every operation of the round has returned

   The client-side service (TraceService_client.cfg, ClientSide = TRUE; hooks of
   bus/service_reference.go under objectsMutex): add(inst, id) with inst = id = the counter value,
   remove(id) / remove_unknown(id) at the deletion of the objectsHandlers entry, connclose at the
   shut-down of the end point (under its handlersMutex).  The handler is removed from the end
   point after the entry, so a call that raced the removal may still be executed: exec events
   are only constrained after `quiet` (no tobox / noobj events on this path).

   add / remove / terminate events are the specification's actions (AddAs with
   the instance and identifier the code chose).  The code runs OnTerminate
   AFTER releasing the lock and a method AFTER Receive has queued the mail, so
   the trace specification counts what is owed: an onterminate(k) is accepted
   only if the specification has terminated k more often than the
   implementor was told (so never before the removal, never twice); an
   exec(k) is accepted only for a mail delivered (tobox) while k's mailbox
   was registered - a call that raced the removal may still run, a call
   addressed to a removed object may not; after `quiet` nothing may be owed
   and only live objects may run.                                            *)
EXTENDS Service, Json, IOUtils, TLCExt, Sequences

ASSUME TLCSet(2, ndJsonDeserialize(IOEnv.TRACE))
TraceLog == TLCGet(2)
ASSUME TLCSet(3, Len(TraceLog))
TraceLen == TLCGet(3)

VARIABLES l, rterm, rexec, delivered, quiet
tvars == <<vars, l, rterm, rexec, delivered, quiet>>
T == TraceLog[l]
Zero == [k \in Inst |-> 0]

TInit == Init /\ l = 1 /\ rterm = Zero /\ rexec = Zero /\ delivered = Zero /\ quiet = FALSE
Keep == UNCHANGED <<rterm, rexec, delivered, quiet>>
Is(k) == l <= TraceLen /\ T.k = k
Adv == l' = l + 1

TReset == /\ Is("reset")
          /\ objects' = InitTable /\ boxes' = InitTable
          /\ st' = InitSt /\ idOf' = InitIdOf
          /\ slot' = NoSlot /\ handlers' = NoHandler /\ conn' = "open"
          /\ term' = Zero /\ exec' = Zero
          /\ subs' = [k \in Inst |-> {}]
          /\ told' = [k \in Inst |-> [s \in Subs |-> 0]] /\ got' = [k \in Inst |-> [s \in Subs |-> 0]]
          /\ svc' = "up" /\ crashed' = FALSE /\ ret' = R("", 0)
          /\ rterm' = Zero /\ rexec' = Zero /\ delivered' = Zero /\ quiet' = FALSE /\ Adv

\* concurrent additions of the client-side service draw their identifiers from the counter in one
\* critical section and register them in another: the add events need not be in counter order
TFresh(id) == IF ClientSide THEN id \in Inst /\ st[id] = "new" /\ objects[id] = NONE ELSE IsFresh(id)
TAdd     == Is("add") /\ TFresh(T.id) /\ AddAs(T.inst, T.id) /\ Keep /\ Adv
TAddFail == Is("addfail") /\ TFresh(T.id) /\ AddFailAs(T.inst, T.id) /\ Keep /\ Adv
TReserve == Is("reserve") /\ TFresh(T.id) /\ UNCHANGED vars /\ Keep /\ Adv
TRemove  == Is("remove") /\ objects[T.id] \in Inst /\ Remove(T.id) /\ Keep /\ Adv
TRemoveU == Is("remove_unknown") /\ objects[T.id] \notin Inst /\ Remove(T.id) /\ Keep /\ Adv
TTerm    == Is("terminate") /\ SvcTerminate /\ Keep /\ Adv
TToBox   == /\ Is("tobox") /\ boxes[T.id] \in Inst
            /\ delivered' = [delivered EXCEPT ![boxes[T.id]] = @ + 1]
            /\ UNCHANGED <<vars, rterm, rexec, quiet>> /\ Adv
TNoObj   == Is("noobj") /\ boxes[T.id] = NONE /\ UNCHANGED vars /\ Keep /\ Adv
\* endPoint.closeWith may run twice (Close, then the read error of the receive loop): the second
\* run finds no handler
TConn    == Is("connclose") /\ (IF conn = "open" THEN ConnClose ELSE UNCHANGED vars) /\ Keep /\ Adv
TExec    == /\ Is("exec") /\ (ClientSide \/ rexec[T.inst] < delivered[T.inst])
            /\ (quiet => st[T.inst] = "live")
            /\ rexec' = [rexec EXCEPT ![T.inst] = @ + 1]
            /\ UNCHANGED <<vars, rterm, delivered, quiet>> /\ Adv
TOnTerm  == /\ Is("onterminate") /\ rterm[T.inst] < term[T.inst]
            /\ rterm' = [rterm EXCEPT ![T.inst] = @ + 1]
            /\ UNCHANGED <<vars, rexec, delivered, quiet>> /\ Adv
TQuiet   == /\ Is("quiet") /\ rterm = term
            /\ quiet' = TRUE /\ UNCHANGED <<vars, rterm, rexec, delivered>> /\ Adv
TEnd     == Is("end") /\ rterm = term /\ UNCHANGED vars /\ Keep /\ Adv

TNext == TReset \/ TAdd \/ TAddFail \/ TReserve \/ TRemove \/ TRemoveU \/ TTerm \/ TConn \/ TToBox \/ TNoObj
         \/ TExec \/ TOnTerm \/ TQuiet \/ TEnd
TSpec == TInit /\ [][TNext]_tvars

Track == TLCSet(1, IF TLCGet(1) < l THEN l ELSE TLCGet(1))
Accepted == /\ PrintT(<<"HWM", TLCGet(1), TraceLen>>)
            /\ TLCGet(1) = TraceLen + 1
ASSUME TLCSet(1, 0)
=============================================================================
