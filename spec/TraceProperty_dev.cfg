SPECIFICATION TSpec
CONSTANTS
  Valid <- ValidRange
  Invalid <- InvalidRange
  Subs = {"s1", "s2"}
  WrongKinds <- AllWrong
  Dev_ValidateByBytesOnly = TRUE
  MaxWrites = 0
VIEW TView
CONSTRAINT Track
POSTCONDITION Report
CHECK_DEADLOCK FALSE
