SPECIFICATION GSpec
CONSTANTS
  Updaters = {"u1", "u2"}
  Subs = {"s1", "s2", "s3", "f"}
  ValuesOf <- ValuesC2
  MaxOps <- OpsC2
  InitTables <- Tab3g
  Foreign = {"f"}
  Movers = {"s1", "s2", "s3", "f"}
  Closers = {"s1", "s2", "s3"}
  MaxMoves = 3
  Atomic = FALSE
  Dev_IterateLiveSlice = FALSE
  Dev_SendErrorFailsWrite = FALSE
CHECK_DEADLOCK FALSE
