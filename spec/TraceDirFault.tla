--------------------------- MODULE TraceDirFault ---------------------------
(* Trace validation for the directory under subscriber faults (C15 extension
   dirfault, DESIGN.md 2.2 c).  TraceDirectory.tla (extended, not edited)
   decides whether a recorded concurrent history of the real directory -
   remote sessions, the local Namespace, Server.NewService / Service.Terminate,
   inv / res records in real-time order - is linearizable against the
   sequential specification Directory.tla, and whether the reference
   subscriber ("events" record; never faulted) saw exactly the transitions.

   The harness (registry c15fault-conc) runs the same kind of history while
   three more observers o1..o3 are broken (read side shut down: the server's
   writes fail, the server is not told) or dropped (connection closed) - by
   timers, and on the emitting goroutine itself at the gate inside UpdateSignal
   (bus/signal.go l.224).  New records:

     finv / fres  c = observer, op.op = break | drop: the fault was injected
                  between these two records
     olog         c = observer, op.op = its health at the end, log = everything
                  it received

   FaultLin(o) places the fault between finv and fres: from then on o receives
   nothing (DirFault.tla: SendNext to a deaf / gone observer fails, Break and
   Drop are irreversible).  What o had received by then is the events of all
   transitions linearized before - except that the LAST one may be missing
   while its operation has not returned yet (DirFault.tla: ReadyMove /
   UnregMove happen before the SendNext to o; s.mutex admits one emitting
   operation at a time).  olog: a faulted observer has received exactly that
   prefix, a healthy one everything.  The operations' outcomes are checked by
   TraceDirectory's Lin / Return as if no observer existed: the observers'
   health must not show in them.                                           *)
EXTENDS TraceDirectory

FObs == {"o1", "o2", "o3"}

VARIABLES fst,      \* observer -> "ok" | "pending" (finv seen) | "cut" (FaultLin done) | "set" (fres seen)
          cut,      \* observer -> number of entries of `events` emitted while it could still receive
          lastEm    \* the client whose pending operation emitted the last event ("" when it has returned)
xvars == <<tvars, fst, cut, lastEm>>

XInit == TInit /\ fst = [o \in FObs |-> "ok"] /\ cut = [o \in FObs |-> 0] /\ lastEm = ""

XReset == Reset /\ fst' = [o \in FObs |-> "ok"] /\ cut' = [o \in FObs |-> 0] /\ lastEm' = ""
XInvoke == Invoke /\ UNCHANGED <<fst, cut, lastEm>>
XLin(c) == Lin(c) /\ lastEm' = (IF Len(events') > Len(events) THEN c ELSE lastEm) /\ UNCHANGED <<fst, cut>>
XReturn == Return /\ lastEm' = (IF T.c = lastEm THEN "" ELSE lastEm) /\ UNCHANGED <<fst, cut>>
XEvents == Events /\ UNCHANGED <<fst, cut, lastEm>>

FInv == /\ l <= TraceLen /\ T.k = "finv" /\ T.c \in FObs
        /\ fst[T.c] = "ok"
        /\ fst' = [fst EXCEPT ![T.c] = "pending"]
        /\ l' = l + 1 /\ UNCHANGED <<vars, pend, cut, lastEm>>
FaultLin(o) ==
  /\ fst[o] = "pending"
  /\ fst' = [fst EXCEPT ![o] = "cut"]
  /\ \/ cut' = [cut EXCEPT ![o] = Len(events)]
     \/ lastEm # "" /\ cut' = [cut EXCEPT ![o] = Len(events) - 1]   \* moved, not yet sent to o
  /\ UNCHANGED <<vars, pend, l, lastEm>>
FRes == /\ l <= TraceLen /\ T.k = "fres" /\ T.c \in FObs
        /\ fst[T.c] = "cut"
        /\ fst' = [fst EXCEPT ![T.c] = "set"]
        /\ l' = l + 1 /\ UNCHANGED <<vars, pend, cut, lastEm>>
OLog == /\ l <= TraceLen /\ T.k = "olog" /\ T.c \in FObs
        /\ \A c \in Clients : pend[c].st = "idle"
        /\ IF fst[T.c] = "ok"
             THEN T.op.op = "ok" /\ T.log = SubSeq(events, 2, Len(events))
             ELSE fst[T.c] = "set" /\ T.op.op # "ok" /\ T.log = SubSeq(events, 2, cut[T.c])
        /\ l' = l + 1 /\ UNCHANGED <<vars, pend, fst, cut, lastEm>>

XNext == XReset \/ XInvoke \/ XReturn \/ XEvents \/ FInv \/ FRes \/ OLog
         \/ (\E c \in Clients : XLin(c)) \/ (\E o \in FObs : FaultLin(o))
XSpec == XInit /\ [][XNext]_xvars
=============================================================================
