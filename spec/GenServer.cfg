SPECIFICATION GSpec
CONSTANTS
  Conns <- TwoConns
  InitAuthed <- NoConns
  Svcs = {1}
  Objs <- ProbeObjs
  Methods = {100}
  GenericActs = {8}
  FailTags = {}
  QCap = 10
  MCap = 10
  SrvAccept <- CodeFilter
  StubRuns <- ReqTypes
  AuthRuns <- CallOnly
  AuthMode <- EnvAuthMode
  Script <- ScriptFTF
  PeerMsgs <- EnvAlphabet
  MaxSends <- EnvMaxSends
  Hangups = FALSE
  Dev_CapMapUnsynchronised = FALSE
INVARIANTS Export TypeOK NoDeliveryWithoutAuth NoExecWithoutAuth ForgedStateIneffective AuthLogConsistent RejectCloses ServerUp
CHECK_DEADLOCK FALSE
