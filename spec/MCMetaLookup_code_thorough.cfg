SPECIFICATION Spec
CONSTANTS
  Universe = "thorough"
  MapOrder = {"s", "p"}
  LastChanceAny = {"m", "s", "p"}
  WalkSorted = TRUE
  AssumeUserRange = TRUE
INVARIANTS SoundName ExactWins ErrorOnlyIfNothing OwnActionReachable PropertyEventId NamesDistinct NamesCover NamesStable FirstKeepsBare FullKeepsIdsUnique FullKeepsActions FullHasGeneric FullIdempotent ActionNameSound
CHECK_DEADLOCK FALSE
