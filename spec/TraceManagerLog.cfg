\* validation of the recorded concurrent rounds (the code as found)
SPECIFICATION TSpec
CONSTANTS
  Listeners = {1, 2, 3, 4}
  Providers = {1, 2}
  RealProv = {}
  LevelsUsed = {0, 1, 2, 3, 4, 5, 6}
  BadLevel = 7
  Pats = {"core", "app"}
  BadPat = "("
  Cats = {"core", "core.net", "app"}
  InitLive = {}
  InitProv = {}
  Hist = TRUE
  MaxHold = 0
  MaxMgr = 9999
  MaxLst = 9999
  MgrOps = {"create", "addprov", "rmprov", "log"}
  LstOps = {"setlevel", "setprop", "getprop", "addfilter", "clear", "terminate", "drop"}
  Match <- MCMatch
  PCat <- MCPCat
  ClientOf <- MCClientOf31
  Batches <- MCBatches1
  Dev_FilterOnlyWidens = TRUE
  Dev_MinCategoryJoin = TRUE
  Dev_NoRecomputeOnTerminate = TRUE
  Dev_LostListenerKept = TRUE
  Dev_StalePush = TRUE
  Dev_SetLevelBypassesProperty = TRUE
  Dev_AddFilterHoldsLock = TRUE
  Dev_UnlockedFilterRead = TRUE
  Dev_RejectedWriteSaved = FALSE
CONSTRAINT Track
INVARIANTS TraceRegister
POSTCONDITION Accepted
CHECK_DEADLOCK FALSE
