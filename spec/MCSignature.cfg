SPECIFICATION Spec
CONSTANTS
  MaxDepth = 2
  SibSet = "two"
  NameSet = "two"
INVARIANTS TypeOK InvRoundTrip InvBlanks InvKey
CHECK_DEADLOCK FALSE
