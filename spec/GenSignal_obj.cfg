SPECIFICATION GSpec
CONSTANTS
  Threads <- Cast167
  Conns = {"c1", "c2"}
  Signals = {"A", "B"}
  Objects = {"o1", "o2"}
  ConnOf <- CastConn
  SigOf <- CastSig
  ObjOf <- CastObj
  Rounds <- CR1
  EmitSeq <- EmitO121
  QCap = 8
  Dev_ProxySectionsNotAtomic = TRUE
  Dev_SendAfterSnapshot = TRUE
  Devs = {}
  Probe <- NoProbe
  Failing = {}
  Inject <- NoInject
  Rogue = {"c1", "c2"}
  Hunt = ""
CHECK_DEADLOCK FALSE
