-------------------------------- MODULE Idl --------------------------------
(***************************************************************************)
(* Abstract IDL interfaces / meta-objects (meta/idl/idl.go, parser.go,      *)
(* interface.go; type/object MetaObject).                                   *)
(*                                                                          *)
(* An interface is a set of actions: methods (id, name, named parameters,   *)
(* return type), signals and properties (id, name, parameters), over the    *)
(* type trees of SignatureOps.  MetaOf(a) is the meta-object entry of an    *)
(* action: the signatures are printed with SignatureOps!Sig.  Signals and   *)
(* properties come in two classes kept apart: tuple-shaped signatures (what *)
(* InterfaceType.MetaObject produces) and bare ones (what qiloop's own      *)
(* stubs advertise).                                                        *)
(*                                                                          *)
(* Generator state machine: an interface is built by adding actions of a    *)
(* pool in increasing pool order (so each set of actions is reached once);  *)
(* every reachable state is an interface.  The expected observation of      *)
(* C18 is the identity: GenerateIDL followed by ParseIDL must return        *)
(* MetaOf of every action unchanged.  Design-level theorems (invariants):   *)
(* ids are unique; every signature of the meta-object is in the signature   *)
(* grammar and denotes the declared type (ties Idl to Signature); struct    *)
(* declarations of one interface are consistent (one definition per name)   *)
(* except in the class that is about collisions; tuple-shaped signatures    *)
(* are tuples.                                                              *)
(*                                                                          *)
(* Overload groups (field grp): actions of one name.  The generator adds    *)
(* >= 2 members of a group in ONE step (AddGroup): such a set counts as one *)
(* unit, like an action outside any group; MaxActions bounds the units.     *)
(*                                                                          *)
(* Classes (field cls of an action) keep apart inputs that fail for         *)
(* different reasons; at most one action of a special class is put into an  *)
(* interface ("plain" and, in pool C, "object" - actions that exchange      *)
(* objects of interfaces of the package - and "overload" - members of       *)
(* overload groups - combine freely).                                       *)
(***************************************************************************)
EXTENDS SignatureOps

CONSTANTS Pool,         \* name of the action pool (Pools)
          MaxActions    \* actions per interface

Void == Sc("v")
Prm(n, t) == [n |-> n, t |-> t]

(***************************************************************************)
(* Objects of an interface of the package (meta/idl InterfaceType): a type  *)
(* tree leaf Obj(name).  On the wire and in the meta-object it is the       *)
(* generic object reference "o" (Erase); in the IDL text it is the name of  *)
(* the interface (IdlNameO).  Only pool C uses it; on trees without Obj     *)
(* leaves Erase is the identity and IdlNameO is SignatureOps!IdlName.       *)
(***************************************************************************)
Obj(n) == [k |-> "obj", name |-> n]

(***************************************************************************)
(* A dynamic value ("any", signature "m") that HOLDS a value of a known     *)
(* type: Dyn(<<T1, T2, T3>>) - the k-th value of the leaf holds the k-th    *)
(* value of Tk together with Tk's signature.  The interface only says "any" *)
(* (Erase, IdlNameO); the types held need no declaration in the IDL text:   *)
(* the value carries its signature and the receiver cuts it out of the      *)
(* stream with the TypeReader of that signature (value.NewValue /           *)
(* newOpaque).  Sc("m") remains the dynamic value of a few basic types.     *)
(***************************************************************************)
Dyn(ts) == [k |-> "dyn", ts |-> ts]

RECURSIVE Erase(_)
Erase(T) ==
  CASE T.k = "obj"    -> Sc("o")
    [] T.k = "dyn"    -> Sc("m")
    [] T.k = "sc"     -> T
    [] T.k = "list"   -> List(Erase(T.e))
    [] T.k = "map"    -> Map(Erase(T.key), Erase(T.val))
    [] T.k = "tuple"  -> Tuple([i \in DOMAIN T.ms |-> Erase(T.ms[i])])
    [] T.k = "struct" -> Struct(T.name, [i \in DOMAIN T.ms |-> Erase(T.ms[i])], T.fs)

RECURSIVE IdlNameO(_)
IdlNameO(T) ==
  CASE T.k = "obj"    -> T.name
    [] T.k = "dyn"    -> "any"
    [] T.k = "list"   -> "Vec<" \o IdlNameO(T.e) \o ">"
    [] T.k = "map"    -> "Map<" \o IdlNameO(T.key) \o "," \o IdlNameO(T.val) \o ">"
    [] T.k = "tuple"  -> "Tuple<" \o JoinComma([i \in DOMAIN T.ms |-> IdlNameO(T.ms[i])]) \o ">"
    [] OTHER          -> IdlName(T)        \* scalars; structures print their name

\* grp: the overload group of the action ("": none).  Actions of one group carry the same name (or names
\* that the generators map to the same Go name); the interface generator below adds >= 2 of them together.
Method(id, name, ps, ret, cls) ==
  [kind |-> "method", id |-> id, name |-> name, ps |-> ps, ret |-> ret, bare |-> FALSE, cls |-> cls, grp |-> ""]
Signal(id, name, ps, bare, cls) ==
  [kind |-> "signal", id |-> id, name |-> name, ps |-> ps, ret |-> Void, bare |-> bare, cls |-> cls, grp |-> ""]
Property(id, name, ps, bare, cls) ==
  [kind |-> "property", id |-> id, name |-> name, ps |-> ps, ret |-> Void, bare |-> bare, cls |-> cls, grp |-> ""]
In(g, a) == [a EXCEPT !.grp = g]

ParamTypes(a) == [i \in DOMAIN a.ps |-> a.ps[i].t]
ParamNames(a) == [i \in DOMAIN a.ps |-> a.ps[i].n]
\* the type whose signature the meta-object carries for the parameters / the payload
PayloadType(a) == IF a.bare THEN a.ps[1].t ELSE Tuple(ParamTypes(a))

(* the meta-object entry: object.MetaMethod / MetaSignal / MetaProperty *)
MetaOf(a) ==
  [kind |-> a.kind, uid |-> a.id, name |-> a.name, cls |-> a.cls,
   sig |-> Str(Sig(Erase(PayloadType(a)))),                      \* ParametersSignature / Signature
   ret |-> IF a.kind = "method" THEN Str(Sig(Erase(a.ret))) ELSE "",
   pnames |-> IF a.kind = "method" THEN ParamNames(a) ELSE <<>>]

(***************************************************************************)
(* Struct declarations of a type / an action                                *)
(***************************************************************************)
RECURSIVE Structs(_)
Structs(T) ==
  CASE T.k = "sc"     -> {}
    [] T.k = "obj"    -> {}
    [] T.k = "dyn"    -> {}          \* what a dynamic value holds is not declared
    [] T.k = "list"   -> Structs(T.e)
    [] T.k = "map"    -> Structs(T.key) \cup Structs(T.val)
    [] T.k = "tuple"  -> UNION {Structs(T.ms[i]) : i \in DOMAIN T.ms}
    [] T.k = "struct" -> {T} \cup UNION {Structs(T.ms[i]) : i \in DOMAIN T.ms}
ActionStructs(a) == Structs(Tuple(ParamTypes(a))) \cup Structs(a.ret)

(***************************************************************************)
(* Types used by the pools.  One definition per struct name.                *)
(***************************************************************************)
C(s) == s   \* readability: names below are character sequences
F_x == <<"x">>
F_y == <<"y">>
F_name == <<"n","a","m","e">>
F_values == <<"v","a","l","u","e","s">>
F_inner == <<"i","n","n","e","r">>
F_end == <<"e","n","d">>
N_Entry == <<"E","n","t","r","y">>
N_Outer == <<"O","u","t","e","r">>
N_Empty == <<"E","m","p","t","y">>
N_strange == <<"s","t","r","a","n","g","e">>       \* begins with the basic type name "str"
N_Itf == <<"I","t","f">>                           \* the name the harness gives the interface
N_P == <<"P">>
N_Keyed == <<"K","e","y","e","d">>
F_type == <<"t","y","p","e">>                       \* field names that are Go keywords / predeclared names
F_string == <<"s","t","r","i","n","g">>
F_range == <<"r","a","n","g","e">>

I_ == Sc("i")
S_ == Sc("s")
PointT == Struct(N_Point, <<Sc("f"), Sc("f")>>, <<F_x, F_y>>)
EntryT == Struct(N_Entry, <<S_, List(I_)>>, <<F_name, F_values>>)
OuterT == Struct(N_Outer, <<PointT, Tuple(<<S_, Sc("b")>>), Map(S_, EntryT)>>, <<F_inner, F_end, F_values>>)
TplT == Struct(N_Template, <<Sc("d"), Sc("d")>>, <<F_x, F_y>>)
EmptyT == Struct(N_Empty, <<>>, <<>>)
KeyedT == Struct(N_Keyed, <<I_, S_, List(Sc("b"))>>, <<F_type, F_string, F_range>>)
\* structures that occur in ONE position only: as a map key, as a list element, as a tuple member
N_OnlyKey == <<"O","n","l","y","K","e","y">>
N_OnlyElem == <<"O","n","l","y","E","l","e","m">>
N_OnlyMember == <<"O","n","l","y","M","e","m","b","e","r">>
OnlyKeyT == Struct(N_OnlyKey, <<I_, S_>>, <<F_x, F_y>>)
OnlyElemT == Struct(N_OnlyElem, <<S_>>, <<F_name>>)
OnlyMemberT == Struct(N_OnlyMember, <<Sc("b")>>, <<F_x>>)
\* a structure of pool B that carries a NAME pool A uses for another structure (interfaces are parsed one
\* after the other by one process: a declaration must not outlive the text it was read from)
EmptyBT == Struct(N_Empty, <<I_, S_>>, <<F_x, F_y>>)
\* two structures whose names differ by the case of the first letter only
N_Stamp == <<"S","t","a","m","p">>
N_stamp == <<"s","t","a","m","p">>
StampT == Struct(N_Stamp, <<I_>>, <<F_x>>)
stampT == Struct(N_stamp, <<S_>>, <<F_y>>)

(***************************************************************************)
(* Pools.  Parameter names include Go keywords and names the generators     *)
(* use internally: IDL generation must not depend on them.                  *)
(***************************************************************************)
PoolA ==
  << Method(100, "ping", <<>>, Void, "plain"),
     Method(101, "add", <<Prm("a", I_), Prm("range", Sc("l"))>>, Sc("L"), "plain"),
     Method(102, "setPoint", <<Prm("pt", PointT)>>, Sc("b"), "plain"),
     Method(103, "lookup", <<Prm("key", S_)>>, Map(S_, PointT), "plain"),
     Method(104, "list", <<>>, List(EntryT), "plain"),
     Method(3, "terminate", <<Prm("id", Sc("I"))>>, Void, "plain"),
     Method(105, "nested", <<Prm("t", Tuple(<<I_, Tuple(<<S_, Sc("b")>>)>>)), Prm("m", Sc("m")), Prm("o", Sc("o"))>>,
            Tuple(<<S_, S_>>), "plain"),
     Method(106, "tpl", <<Prm("v", TplT), Prm("p", List(TplT))>>, Sc("X"), "plain"),
     Method(0, "registerEvent", <<Prm("a", Sc("I")), Prm("b", Sc("I")), Prm("c", Sc("L"))>>, Sc("L"), "plain"),
     Method(107, "outer", <<Prm("msg", OuterT)>>, OuterT, "plain"),
     Signal(108, "changed", <<Prm("P0", I_)>>, FALSE, "plain"),
     Signal(109, "moved", <<Prm("P0", PointT), Prm("P1", S_)>>, FALSE, "plain"),
     Signal(110, "tick", <<>>, FALSE, "plain"),
     Property(111, "level", <<Prm("P0", Sc("c"))>>, FALSE, "plain"),
     Property(112, "position", <<Prm("P0", PointT)>>, FALSE, "plain"),
     Property(113, "pair", <<Prm("P0", Sc("w")), Prm("P1", List(S_))>>, FALSE, "plain"),
     \* classes of their own
     Signal(114, "bareSig", <<Prm("P0", I_)>>, TRUE, "bare-signal"),
     Property(115, "bareProp", <<Prm("param", EntryT)>>, TRUE, "bare-property"),
     Method(116, "strPrefix", <<Prm("a", Struct(N_strange, <<I_>>, <<F_x>>))>>, Void, "struct-name-basic-prefix"),
     Method(117, "emptyTuple", <<Prm("a", Tuple(<<>>))>>, Void, "empty-tuple"),
     Method(118, "collide", <<Prm("a", Struct(N_P, <<I_>>, <<F_x>>))>>, Struct(N_P, <<S_>>, <<F_y>>), "struct-name-collision"),
     Method(119, "itfName", <<Prm("a", Struct(N_Itf, <<I_>>, <<F_x>>))>>, Void, "struct-named-like-interface"),
     Method(120, "emptyStruct", <<Prm("a", EmptyT)>>, EmptyT, "plain") >>

\* a second pool: every scalar, deeper nesting, other names, generic ids
ScalarSeq == <<"i","I","l","L","c","C","w","W","f","d","b","s","m","o","X">>
PoolB ==
  [k \in 1..15 |-> Method(200 + k, "scalar", <<Prm("func", Sc(ScalarSeq[k]))>>, List(Sc(ScalarSeq[16 - k])), "plain")]
  \o << Method(2, "metaObject", <<Prm("id", Sc("I"))>>, OuterT, "plain"),
        Method(5, "property", <<Prm("name", Sc("m"))>>, Sc("m"), "plain"),
        Method(306, "keyed", <<Prm("type", KeyedT)>>, List(KeyedT), "plain"),
        Method(300, "deep", <<Prm("buf", List(Map(I_, List(Tuple(<<PointT, List(EntryT)>>)))))>>,
               Map(Sc("L"), Map(S_, List(TplT))), "plain"),
        Method(301, "Deep", <<Prm("c", Map(Sc("b"), Sc("d")))>>, Void, "plain"),     \* same name, other case
        Method(307, "positions", <<Prm("byKey", Map(OnlyKeyT, List(OnlyElemT)))>>,
               List(Map(S_, Tuple(<<OnlyMemberT, I_>>))), "plain"),
        Method(308, "otherEmpty", <<Prm("e", EmptyBT)>>, List(EmptyBT), "plain"),
        \* identifiers at the top of the 32-bit range (TLC integers are 32-bit signed: 2147483601.. stand for
        \* 2^31, 2^31+1, .. and 2147483646 for 2^32-1; the harness maps them, see c18HighID)
        Method(2147483647, "idMaxInt31", <<Prm("a", I_)>>, I_, "plain"),
        Method(2147483601, "idTwoTo31", <<Prm("a", PointT)>>, S_, "plain"),
        Signal(2147483602, "sigAbove31", <<Prm("P0", I_)>>, FALSE, "plain"),
        Property(2147483646, "propMaxId", <<Prm("P0", S_)>>, FALSE, "plain"),
        Method(309, "stamps", <<Prm("a", StampT), Prm("b", stampT)>>, List(stampT), "plain"),
        Signal(310, "stamped", <<Prm("P0", stampT), Prm("P1", StampT)>>, FALSE, "plain"),
        Signal(302, "scalars", [k \in 1..15 |-> Prm("P" \o ToString(k - 1), Sc(ScalarSeq[k]))], FALSE, "plain"),
        Signal(86, "traceObject", <<Prm("P0", OuterT)>>, FALSE, "plain"),
        Property(303, "table", <<Prm("P0", Map(S_, List(PointT)))>>, FALSE, "plain"),
        Property(304, "bareList", <<Prm("param", List(S_))>>, TRUE, "bare-property"),
        Signal(305, "bareStruct", <<Prm("P0", PointT)>>, TRUE, "bare-signal"),
        \* an overload group: two methods and a signal of one name (added together, see AddGroup)
        In("over", Method(311, "over", <<Prm("a", I_)>>, I_, "plain")),
        In("over", Method(312, "over", <<Prm("a", S_), Prm("b", PointT)>>, S_, "plain")),
        In("over", Signal(313, "over", <<Prm("P0", I_)>>, FALSE, "plain")) >>

\* third pool (C05): only types whose values the generated code can carry; identifier classes
\* for the names that reach the Go code generator
N_Case == <<"C","a","s","e","d">>
F_val == <<"v","a","l">>
F_Val == <<"V","a","l">>
CasedT == Struct(N_Case, <<I_, S_>>, <<F_val, F_Val>>)
\* the interfaces of the package besides the assembled one (IdlRpc declares them): Probe, and Relay,
\* which itself takes and returns Probes; SelfO: objects of the assembled interface
ProbeO == Obj("Probe")
RelayO == Obj("Relay")
SelfO == Obj("Itf")
N_Holder == <<"H","o","l","d","e","r">>
F_probe == <<"p","r","o","b","e">>
HolderT == Struct(N_Holder, <<S_, ProbeO>>, <<F_name, F_probe>>)
\* the less common scalars as fields, as elements, as keys and values; a last field follows
N_Mix == <<"M","i","x">>
N_Vecs == <<"V","e","c","s">>
N_Maps == <<"M","a","p","s">>
N_Box == <<"B","o","x">>
F_i8 == <<"i","8">>
F_u8 == <<"u","8">>
F_i16 == <<"i","1","6">>
F_u16 == <<"u","1","6">>
F_i64 == <<"i","6","4">>
F_u64 == <<"u","6","4">>
F_f32 == <<"f","3","2">>
F_tail == <<"t","a","i","l">>
ScalarFields == <<F_i8, F_u8, F_i16, F_u16, F_i64, F_u64, F_f32, F_tail>>
MixT  == Struct(N_Mix, <<Sc("c"), Sc("C"), Sc("w"), Sc("W"), Sc("l"), Sc("L"), Sc("f"), S_>>, ScalarFields)
VecsT == Struct(N_Vecs, <<List(Sc("c")), List(Sc("C")), List(Sc("w")), List(Sc("W")), List(Sc("l")), List(Sc("L")),
                          List(Sc("f")), S_>>, ScalarFields)
MapsT == Struct(N_Maps, <<Map(Sc("c"), Sc("C")), Map(Sc("C"), Sc("w")), Map(Sc("w"), Sc("W")), Map(Sc("W"), Sc("l")),
                          Map(Sc("l"), Sc("L")), Map(Sc("L"), Sc("f")), Map(Sc("f"), Sc("c")), S_>>, ScalarFields)
BoxT  == Struct(N_Box, <<Dyn(<<MixT, VecsT, MapsT>>), S_>>, <<F_val, F_tail>>)
PoolC ==
  << Method(100, "ping", <<>>, Void, "plain"),
     Method(101, "add", <<Prm("a", I_), Prm("b", Sc("l"))>>, Sc("L"), "plain"),
     Method(102, "small", <<Prm("a", Sc("c")), Prm("b", Sc("C")), Prm("x", Sc("w")), Prm("y", Sc("W")), Prm("z", Sc("f"))>>,
            Sc("c"), "plain"),
     Method(103, "setPoint", <<Prm("pt", PointT)>>, Sc("b"), "plain"),
     Method(104, "lookup", <<Prm("key", S_)>>, Map(S_, PointT), "plain"),
     Method(105, "list", <<>>, List(EntryT), "plain"),
     Method(106, "nested", <<Prm("t", Tuple(<<I_, Tuple(<<S_, Sc("b")>>)>>)), Prm("m", Sc("m"))>>, Tuple(<<S_, S_>>), "plain"),
     Method(107, "tpl", <<Prm("v", TplT), Prm("q", List(TplT))>>, Sc("d"), "plain"),
     Method(108, "outer", <<Prm("o", OuterT)>>, OuterT, "plain"),
     Method(109, "deep", <<Prm("x", List(Map(I_, List(Tuple(<<PointT, List(EntryT)>>)))))>>,
            Map(Sc("L"), Map(S_, List(TplT))), "plain"),
     Method(110, "dyn", <<Prm("v", Sc("m"))>>, Sc("m"), "plain"),
     Method(111, "maps", <<Prm("x", Map(Sc("b"), Sc("d"))), Prm("y", Map(Sc("c"), S_))>>, Map(Sc("W"), List(S_)), "plain"),
     Signal(112, "changed", <<Prm("x", I_)>>, FALSE, "plain"),
     Signal(113, "moved", <<Prm("pt", PointT), Prm("name", S_)>>, FALSE, "plain"),
     Signal(114, "tick", <<>>, FALSE, "plain"),
     Signal(115, "bulk", <<Prm("data", List(EntryT))>>, FALSE, "plain"),
     Property(116, "level", <<Prm("v", Sc("c"))>>, FALSE, "plain"),
     Property(117, "position", <<Prm("pt", PointT)>>, FALSE, "plain"),
     Property(118, "table", <<Prm("t", Map(S_, List(PointT)))>>, FALSE, "plain"),
     Property(119, "label", <<Prm("s", S_)>>, FALSE, "plain"),
     \* identifier classes
     Method(120, "kw", <<Prm("range", I_), Prm("func", S_)>>, I_, "param-go-keyword"),
     Method(121, "locals", <<Prm("p", I_), Prm("c", S_)>>, I_, "param-generator-local"),
     Method(122, "locals2", <<Prm("msg", I_), Prm("buf", S_)>>, S_, "param-generator-local"),
     Method(123, "locals3", <<Prm("ret", S_), Prm("out", I_), Prm("err", Sc("b"))>>, I_, "param-generator-local"),
     Method(124, "predecl", <<Prm("string", I_), Prm("error", S_), Prm("len", Sc("b"))>>, I_, "param-predeclared-name"),
     Method(125, "under", <<Prm("_hidden", I_)>>, I_, "param-leading-underscore"),
     Method(126, "caseParams", <<Prm("a", I_), Prm("A", S_)>>, S_, "params-differ-by-case"),
     Method(127, "range", <<Prm("x", I_)>>, I_, "method-go-keyword"),
     Method(128, "call", <<Prm("x", I_)>>, I_, "method-reserved-name"),
     Method(129, "Ping", <<Prm("x", I_)>>, Void, "method-differs-by-case"),
     Property(130, "pair", <<Prm("a", I_), Prm("b", S_)>>, FALSE, "property-two-params"),
     Signal(131, "sigkw", <<Prm("type", I_)>>, FALSE, "signal-param-go-keyword"),
     Method(132, "keyed", <<Prm("k", KeyedT)>>, KeyedT, "struct-field-go-keyword"),
     Method(133, "caseFields", <<Prm("s", CasedT)>>, Void, "struct-fields-differ-by-case"),
     Method(134, "empty", <<Prm("e", EmptyT)>>, EmptyT, "empty-struct"),
     Signal(135, "locsig", <<Prm("p", I_), Prm("buf", S_)>>, FALSE, "signal-param-generator-local"),
     Property(136, "locprop", <<Prm("c", I_)>>, FALSE, "property-param-generator-local"),
     \* objects of other interfaces of the package (Probe, Relay) and of the interface itself: taken,
     \* returned, emitted; alone, between plain parameters, in containers; the generic reference
     Method(140, "dock", <<Prm("probe", ProbeO)>>, I_, "object"),
     Method(141, "launch", <<Prm("num", I_)>>, ProbeO, "object"),
     Method(142, "swap", <<Prm("num", I_), Prm("probe", ProbeO), Prm("text", S_)>>, ProbeO, "object"),
     Method(143, "escort", <<Prm("first", ProbeO), Prm("second", ProbeO)>>, RelayO, "object"),
     Method(144, "handover", <<Prm("relay", RelayO), Prm("probe", ProbeO)>>, Void, "object"),
     Method(145, "adopt", <<Prm("other", SelfO)>>, Void, "object"),
     Method(146, "sibling", <<Prm("num", I_)>>, SelfO, "object"),
     Signal(147, "launched", <<Prm("probe", ProbeO)>>, FALSE, "object"),
     Signal(148, "fleet", <<Prm("probes", List(ProbeO))>>, FALSE, "object"),
     Signal(149, "registry", <<Prm("byName", Map(S_, ProbeO))>>, FALSE, "object"),
     Signal(150, "joined", <<Prm("other", SelfO)>>, FALSE, "object"),
     Signal(151, "relayed", <<Prm("relay", RelayO)>>, FALSE, "object"),
     Method(152, "anyResult", <<Prm("num", I_)>>, Sc("o"), "object"),
     Signal(153, "anySignal", <<Prm("ref", Sc("o"))>>, FALSE, "object"),
     \* object shapes in classes of their own (one class per shape and position)
     Method(154, "dockAll", <<Prm("probes", List(ProbeO))>>, I_, "object-list-argument"),
     Method(155, "fleetOf", <<Prm("num", I_)>>, List(ProbeO), "object-list-result"),
     Method(156, "dockNamed", <<Prm("byName", Map(S_, ProbeO))>>, I_, "object-map-argument"),
     Method(157, "named", <<Prm("num", I_)>>, Map(S_, ProbeO), "object-map-result"),
     Method(158, "dockPair", <<Prm("pair", Tuple(<<ProbeO, I_>>))>>, I_, "object-tuple-argument"),
     Method(159, "pairOf", <<Prm("num", I_)>>, Tuple(<<ProbeO, I_>>), "object-tuple-result"),
     Method(160, "hold", <<Prm("holder", HolderT)>>, I_, "object-struct-field"),
     Signal(161, "held", <<Prm("holder", HolderT)>>, FALSE, "object-struct-field-signal"),
     Signal(162, "docked", <<Prm("num", I_), Prm("probe", ProbeO)>>, FALSE, "signal-two-params-object"),
     Property(163, "current", <<Prm("probe", ProbeO)>>, FALSE, "object-property"),
     Property(164, "convoy", <<Prm("probes", List(ProbeO))>>, FALSE, "object-list-property"),
     Method(165, "anyParam", <<Prm("ref", Sc("o"))>>, I_, "generic-object-argument"),
     \* tuples that are a whole result / payload / property value
     Method(166, "coords", <<>>, Tuple(<<S_, I_>>), "tuple-result-without-params"),
     Signal(167, "located", <<Prm("at", Tuple(<<S_, I_>>))>>, FALSE, "signal-tuple-param"),
     Property(168, "origin", <<Prm("at", Tuple(<<S_, I_>>))>>, FALSE, "property-tuple-param"),
     \* OVERLOAD GROUPS: actions of one name in one interface (the generators name them Set, Set_0, Set_1 ..
     \* in the order methods / signals / properties, each by uid: IdlRpc!GoName); >= 2 members are added
     \* together (AddGroup).  Different parameter lists, different return types, one without parameters,
     \* the less common scalars as arguments and results, a signal and a property named like a method,
     \* composite parameters, an explicit name that looks like a generated one, text order # uid order
     In("set", Method(170, "set", <<Prm("level", I_)>>, Void, "overload")),
     In("set", Method(171, "set", <<Prm("name", S_)>>, Void, "overload")),
     In("set", Method(172, "set", <<Prm("left", I_), Prm("right", I_)>>, I_, "overload")),
     In("conv", Method(173, "conv", <<>>, Sc("c"), "overload")),
     In("conv", Method(174, "conv", <<Prm("x", Sc("c"))>>, Sc("C"), "overload")),
     In("conv", Method(175, "conv", <<Prm("x", Sc("C"))>>, Sc("w"), "overload")),
     In("wide", Method(176, "wide", <<Prm("x", Sc("w"))>>, Sc("W"), "overload")),
     In("wide", Method(177, "wide", <<Prm("x", Sc("W"))>>, Sc("l"), "overload")),
     In("wide", Method(178, "wide", <<Prm("x", Sc("l"))>>, Sc("L"), "overload")),
     In("real", Method(179, "real", <<Prm("x", Sc("L"))>>, Sc("f"), "overload")),
     In("real", Method(180, "real", <<Prm("x", Sc("f"))>>, Sc("L"), "overload")),
     In("notify", Method(181, "notify", <<Prm("x", I_)>>, I_, "overload")),
     In("notify", Signal(182, "notify", <<Prm("x", I_)>>, FALSE, "overload")),
     In("notify", Property(183, "notify", <<Prm("x", I_)>>, FALSE, "overload")),
     In("put", Method(184, "put", <<Prm("pt", PointT)>>, Void, "overload")),
     In("put", Method(185, "put", <<Prm("pts", List(PointT))>>, I_, "overload")),
     In("put", Method(186, "put", <<Prm("byName", Map(S_, PointT)), Prm("e", EntryT)>>, S_, "overload")),
     In("tag", Method(187, "tag", <<Prm("a", I_)>>, I_, "overload")),
     In("tag", Method(188, "tag", <<Prm("a", S_)>>, S_, "overload")),
     In("tag", Method(189, "tag_0", <<Prm("a", Sc("b"))>>, Sc("b"), "overload")),
     In("rev", Method(191, "rev", <<Prm("a", S_)>>, S_, "overload")),
     In("rev", Method(190, "rev", <<Prm("a", I_)>>, I_, "overload")),
     \* THE LESS COMMON SCALARS (int8 uint8 int16 uint16 int64 uint64 float32) INSIDE COMPOSITES, in the
     \* positions where the generated code carries the composite as a dynamic value (property: Set<P> builds
     \* value.Opaque(signature, bytes), the object cuts it out of the stream with the TypeReader of the
     \* signature, Get<P> decodes what is stored; "any" parameters, results, fields, elements; signals),
     \* each with data FOLLOWING the composite (a last field, a following argument)
     Method(200, "mix", <<Prm("v", MixT), Prm("tail", S_)>>, MixT, "plain"),
     Property(201, "mixProp", <<Prm("v", MixT)>>, FALSE, "plain"),
     Signal(202, "mixSig", <<Prm("v", MixT), Prm("tail", S_)>>, FALSE, "plain"),
     Signal(203, "mixOnly", <<Prm("v", MixT)>>, FALSE, "plain"),
     Method(204, "vecs", <<Prm("a1", List(Sc("c"))), Prm("a2", List(Sc("C"))), Prm("a3", List(Sc("w"))),
                           Prm("a4", List(Sc("W"))), Prm("a5", List(Sc("l"))), Prm("a6", List(Sc("L"))),
                           Prm("a7", List(Sc("f"))), Prm("tail", S_)>>, VecsT, "plain"),
     Property(205, "vecsProp", <<Prm("v", VecsT)>>, FALSE, "plain"),
     Signal(206, "vecsSig", <<Prm("v", VecsT), Prm("tail", S_)>>, FALSE, "plain"),
     Method(207, "maps2", <<Prm("a1", Map(Sc("c"), Sc("C"))), Prm("a2", Map(Sc("C"), Sc("w"))),
                            Prm("a3", Map(Sc("w"), Sc("W"))), Prm("a4", Map(Sc("W"), Sc("l"))),
                            Prm("a5", Map(Sc("l"), Sc("L"))), Prm("a6", Map(Sc("L"), Sc("f"))),
                            Prm("a7", Map(Sc("f"), Sc("c"))), Prm("tail", S_)>>, MapsT, "plain"),
     Property(208, "mapsProp", <<Prm("v", MapsT)>>, FALSE, "plain"),
     Signal(209, "mapsSig", <<Prm("v", MapsT), Prm("tail", S_)>>, FALSE, "plain"),
     \* the container itself is the property value / the payload
     Property(210, "octets", <<Prm("v", List(Sc("C")))>>, FALSE, "plain"),
     Property(211, "wideMap", <<Prm("v", Map(Sc("W"), Sc("l")))>>, FALSE, "plain"),
     Signal(212, "samples", <<Prm("v", List(Sc("w"))), Prm("tail", S_)>>, FALSE, "plain"),
     Signal(213, "floats", <<Prm("v", List(Sc("f")))>>, FALSE, "plain"),
     \* the scalar itself is the property value (value.NewValue's own constructors) / the payload
     Property(214, "u8", <<Prm("v", Sc("C"))>>, FALSE, "plain"),
     Property(215, "i16", <<Prm("v", Sc("w"))>>, FALSE, "plain"),
     Property(216, "u16", <<Prm("v", Sc("W"))>>, FALSE, "plain"),
     Property(217, "i64", <<Prm("v", Sc("l"))>>, FALSE, "plain"),
     Property(218, "u64", <<Prm("v", Sc("L"))>>, FALSE, "plain"),
     Property(219, "f32", <<Prm("v", Sc("f"))>>, FALSE, "plain"),
     Signal(220, "scalarsSig", <<Prm("a1", Sc("c")), Prm("a2", Sc("C")), Prm("a3", Sc("w")), Prm("a4", Sc("W")),
                                 Prm("a5", Sc("l")), Prm("a6", Sc("L")), Prm("a7", Sc("f")), Prm("tail", S_)>>, FALSE, "plain"),
     Signal(221, "sigI8", <<Prm("v", Sc("c"))>>, FALSE, "plain"),
     Signal(222, "sigU16", <<Prm("v", Sc("W"))>>, FALSE, "plain"),
     Signal(223, "sigU64", <<Prm("v", Sc("L"))>>, FALSE, "plain"),
     Signal(224, "sigU8", <<Prm("v", Sc("C"))>>, FALSE, "plain"),
     Signal(235, "sigI16", <<Prm("v", Sc("w"))>>, FALSE, "plain"),
     Signal(236, "sigI64", <<Prm("v", Sc("l"))>>, FALSE, "plain"),
     Signal(237, "sigF32", <<Prm("v", Sc("f"))>>, FALSE, "plain"),
     \* inside "any": arguments (with a following one), results, payloads, a field followed by another
     \* field, elements of Vec<any> / Map<str,any>, the composite itself holding containers of structures
     Method(225, "anyMix", <<Prm("v", Dyn(<<MixT, VecsT, MapsT>>)), Prm("tail", S_)>>, Dyn(<<VecsT, MapsT, MixT>>), "plain"),
     Method(226, "anyScalars", <<Prm("a1", Dyn(<<Sc("c"), Sc("C"), Sc("w")>>)), Prm("a2", Dyn(<<Sc("W"), Sc("l"), Sc("L")>>)),
                                 Prm("a3", Dyn(<<Sc("f"), Sc("d"), Sc("I")>>)), Prm("tail", I_)>>,
            Dyn(<<Sc("L"), Sc("c"), Sc("W")>>), "plain"),
     Method(227, "anyDeep", <<Prm("v", Dyn(<<List(MixT), Map(S_, MixT), Tuple(<<MixT, S_>>)>>)), Prm("tail", S_)>>,
            Dyn(<<Map(Sc("w"), List(Sc("C"))), List(List(Sc("c"))), List(Sc("W"))>>), "plain"),
     Signal(228, "anySig", <<Prm("v", Dyn(<<MixT, VecsT, MapsT>>)), Prm("tail", S_)>>, FALSE, "plain"),
     Signal(229, "anyOnly", <<Prm("v", Dyn(<<MapsT, MixT, List(Sc("L"))>>))>>, FALSE, "plain"),
     Method(230, "box", <<Prm("v", BoxT), Prm("tail", S_)>>, BoxT, "plain"),
     Property(231, "boxProp", <<Prm("v", BoxT)>>, FALSE, "plain"),
     Method(232, "anyList", <<Prm("v", List(Dyn(<<Sc("c"), Sc("W"), MixT>>))), Prm("tail", S_)>>,
            Map(S_, Dyn(<<Sc("L"), Sc("f"), VecsT>>)), "plain"),
     Method(234, "anyBack", <<Prm("a1", Dyn(<<Sc("l"), Sc("f"), Sc("C")>>)), Prm("tail", Sc("c"))>>,
            Dyn(<<Sc("C"), Sc("w"), Sc("l")>>), "plain"),
     Property(233, "anyProp", <<Prm("v", Dyn(<<MixT, Sc("W"), MapsT>>))>>, FALSE, "property-any") >>

Pools == [a |-> PoolA, b |-> PoolB, c |-> PoolC]
ThePool == Pools[Pool]

(***************************************************************************)
(* Generator: chosen = indices of the pool, added in increasing order       *)
(***************************************************************************)
VARIABLES chosen, last
ivars == <<chosen, last>>

Actions == {ThePool[i] : i \in chosen}
\* "object": actions that exchange objects of interfaces of the package and that the generators handle
\* (like "plain" they combine freely); every other class is a special one
\* "overload": members of overload groups that the generators handle
Special(i) == ThePool[i].cls \notin {"plain", "object", "overload"}

\* Units: an action outside any group, or >= 2 members of one overload group (a group only makes sense
\* with several members in ONE interface).  MaxActions bounds the units.  The members of a group stand
\* next to each other in the pool; a group is visited once.
Grouped(i) == ThePool[i].grp # ""
GroupOf(i) == {j \in DOMAIN ThePool : ThePool[j].grp = ThePool[i].grp}
Leaders == {i \in DOMAIN ThePool : Grouped(i) /\ \A j \in GroupOf(i) : i <= j}
Groups == {ThePool[i].grp : i \in Leaders}
NUnits == Cardinality({i \in chosen : ~Grouped(i)}) + Cardinality({ThePool[i].grp : i \in {j \in chosen : Grouped(j)}})
GroupsContiguous == \A l \in Leaders : GroupOf(l) = l..Max(GroupOf(l))
ASSUME GroupsContiguous

IInit == chosen = {} /\ last = 0
Add(i) == /\ ~Grouped(i)
          /\ i > last
          /\ NUnits < MaxActions
          /\ Special(i) => \A j \in chosen : ~Special(j)
          /\ chosen' = chosen \cup {i}
          /\ last' = i
AddGroup(S) == /\ Cardinality(S) >= 2
               /\ \E l \in Leaders : /\ S \subseteq GroupOf(l)
                                     /\ l > last
                                     /\ last' = Max(GroupOf(l))
               /\ NUnits < MaxActions
               /\ (\E i \in S : Special(i)) => (\A j \in chosen : ~Special(j)) /\ Cardinality({i \in S : Special(i)}) = 1
               /\ chosen' = chosen \cup S
GroupSets == UNION {SUBSET GroupOf(l) : l \in Leaders}
INext == \/ \E i \in DOMAIN ThePool : Add(i)
         \/ \E S \in GroupSets : AddGroup(S)
ISpec == IInit /\ [][INext]_ivars

(***************************************************************************)
(* Theorems                                                                 *)
(***************************************************************************)
UniqueIds == \A a, b \in Actions : a.id = b.id => a = b
\* every signature of the meta-object is in the grammar and denotes the declared type
SigsInGrammar ==
  \A a \in Actions : /\ RoundTrip(Erase(PayloadType(a)))
                     /\ RoundTrip(Erase(a.ret))
TupleShaped == \A a \in Actions : ~a.bare => PayloadType(a).k = "tuple"
BareIsSingle == \A a \in Actions : a.bare => Len(a.ps) = 1 /\ a.kind # "method"
\* one definition per struct name within the interface (the collision class is about the opposite)
Consistent ==
  LET all == UNION {ActionStructs(a) : a \in {x \in Actions : x.cls # "struct-name-collision"}}
  IN \A s1, s2 \in all : s1.name = s2.name => s1 = s2
\* void is a return type only
VoidOnlyReturned ==
  LET RECURSIVE HasVoid(_)
      HasVoid(T) == CASE T.k = "sc"   -> T.c = "v"
                      [] T.k = "obj"  -> FALSE
                      [] T.k = "dyn"  -> FALSE
                      [] T.k = "list" -> HasVoid(T.e)
                      [] T.k = "map"  -> HasVoid(T.key) \/ HasVoid(T.val)
                      [] OTHER        -> \E i \in DOMAIN T.ms : HasVoid(T.ms[i])
  IN \A a \in Actions : ~HasVoid(Tuple(ParamTypes(a))) /\ (a.ret = Void \/ ~HasVoid(a.ret))
AtMostOneSpecial == Cardinality({i \in chosen : Special(i)}) <= 1
\* an overload group is in the interface with two members at least, or not at all
GroupsTogether == \A g \in Groups : Cardinality({i \in chosen : ThePool[i].grp = g}) # 1
UnitsBounded == NUnits <= MaxActions
=============================================================================
