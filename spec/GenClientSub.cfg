SPECIFICATION GSpec
CONSTANTS
  Handlers = {1, 10, 11}
  Msgs = {1, 20}
  InitSlots = 10
  Calls = {1}
  HS = 10
  HD = 11
  EV = 20
  WithSub = TRUE
  WithDisc = FALSE
  WithHalf = FALSE
VIEW View
INVARIANTS OkMeansReplied LateCallsFail CloserAtMostOnce QueueCloseAtMostOnce
CHECK_DEADLOCK FALSE
