SPECIFICATION SSpec
CONSTANTS
  Handlers = {1, 10, 11}
  Msgs = {1, 20}
  InitSlots = 2
  Calls = {1}
  HS = 10
  HD = 11
  EV = 20
  WithSub = TRUE
  WithDisc = FALSE
  WithHalf = FALSE
INVARIANTS TypeOK CloserAtMostOnce QueueCloseAtMostOnce CloserBeforeQueueClose SlotUniqueAmongLive
           OkMeansReplied LateCallsFail
PROPERTIES CallsEnd SubCloses CancelCloses ClosedStaysClosed
CHECK_DEADLOCK FALSE
