---------------------------- MODULE GenManagerLog ----------------------------
(***************************************************************************)
(* Behaviour export for ManagerLog (the code as found: its Dev_* on),       *)
(* replayed on a real LogManager by harness/cmd/signal (logger-replay).     *)
(*                                                                         *)
(* The harness plays the clients one command at a time: it starts an        *)
(* operation through the generated proxies (on the connection of the        *)
(* client concerned), loses a connection, or - when the command carries a   *)
(* hold h - arms the gate before the step h so that the operation parks     *)
(* there (vp: logger.verbosity.computed, fp: logger.filters.computed,       *)
(* fj: logger.addfilter.locked) and is released by a later command; the     *)
(* manager's goroutines run to rest in between (all their interleavings are *)
(* explored: while they run the history is part of the state).              *)
(*                                                                         *)
(* "T" lines: the history of one behaviour, [o, t, l, p, v, q, h, msgs,     *)
(* post] per command; post = the observation at rest, CUMULATIVE:           *)
(*   ops[t]  result of the last operation of thread t: r = 0 none, 1 ok,    *)
(*           2 error, 9 has not returned; v = the value returned            *)
(*           (addProvider: index, property read: level)                     *)
(*   rcv[l]  ids of the messages listener l's client received by            *)
(*           onLogMessage, bat[l] the lists received by onLogMessages,      *)
(*           pev[l] the change events of its logLevel property              *)
(*   told[p] the calls provider p's implementor received                    *)
(*   dem     the demands of ManagerLog.tla that are broken in this state    *)
(*           (the code as found: a replay that CONFORMS here confirms the   *)
(*           deviation on the real code)                                    *)
(* PrintAll = TRUE: one line per (state at rest, command) transition (the   *)
(* histories are hidden by the VIEW): transition coverage.  FALSE: a line   *)
(* when the behaviour has MaxCmds commands (simulation).                    *)
(***************************************************************************)
EXTENDS MCManagerLog, Json

CONSTANTS MaxCmds, PrintAll
VARIABLES hist, settled
gvars == <<vars, hist, settled>>

GInit == Init /\ hist = <<>> /\ settled = TRUE

OpCode(t) == [r |-> IF Busy(t) THEN 9 ELSE th[t].ret, v |-> th[t].val]
\* the demands of ManagerLog.tla that do not hold in this state at rest (what the code as found does to them)
Broken == {d \in {"DeliveredExactly", "VerbosityIsJoin", "NeverTooQuiet", "FiltersAreJoin", "LogLevelIsRegister", "LevelIsProperty", "NotStuck"} :
             CASE d = "DeliveredExactly" -> ~DeliveredExactly
               [] d = "VerbosityIsJoin" -> ~VerbosityIsJoin
               [] d = "NeverTooQuiet" -> ~NeverTooQuiet
               [] d = "FiltersAreJoin" -> ~FiltersAreJoin
               [] d = "LogLevelIsRegister" -> ~LogLevelIsRegister
               [] d = "LevelIsProperty" -> ~LevelIsProperty
               [] d = "NotStuck" -> \E t \in Threads : Busy(t) /\ ~Parked(t)}
Obs == [ops |-> [t \in Threads |-> OpCode(t)], rcv |-> rcv, bat |-> bat, pev |-> pev, told |-> told, dem |-> Broken]

Cmd(o, t, l, p, v, q, h, msgs) ==
  /\ Len(hist) < MaxCmds
  /\ hist' = Append(hist, [o |-> o, t |-> t, l |-> l, p |-> p, v |-> v, q |-> q, h |-> h, msgs |-> msgs, post |-> Obs])
  /\ settled' = FALSE

Command ==
  \/ \E h \in HoldPoints : StartCreate(h) /\ Cmd("create", 0, th'[0].l, 0, 0, "", h, <<>>)
  \/ \E p \in Providers, h \in HoldPoints : StartAddProv(p, h) /\ Cmd("addprov", 0, 0, p, 0, "", h, <<>>)
  \/ \E x \in 0..pnext : StartRmProv(x) /\ Cmd("rmprov", 0, 0, 0, x, "", "", <<>>)
  \/ \E p \in Providers, b \in Batches : StartLog(p, b) /\ Cmd("log", 0, 0, p, 0, "", "", th'[0].msgs)
  \/ \E p \in Providers, v \in LevelsUsed : StartRLog(p, v) /\ Cmd("rlog", 0, 0, p, v, "", "", th'[0].msgs)
  \/ \E l \in Listeners, h \in HoldPoints :
        \/ \E v \in LevelsUsed \cup {BadLevel} : \/ StartSetLevel(l, v, h) /\ Cmd("setlevel", l, l, 0, v, "", h, <<>>)
                                                 \/ StartSetProp(l, v, h) /\ Cmd("setprop", l, l, 0, v, "", h, <<>>)
        \/ \E q \in Pats \cup {BadPat}, v \in LevelsUsed \cup {BadLevel} :
              StartAddFilter(l, q, v, h) /\ Cmd("addfilter", l, l, 0, v, q, h, <<>>)
        \/ StartClear(l, h) /\ Cmd("clear", l, l, 0, 0, "", h, <<>>)
  \/ \E l \in Listeners : \/ StartGetProp(l) /\ Cmd("getprop", l, l, 0, 0, "", "", <<>>)
                          \/ StartTerminate(l) /\ Cmd("terminate", l, l, 0, 0, "", "", <<>>)
                          \/ Drop(l) /\ Cmd("drop", l, l, 0, 0, "", "", <<>>)
  \/ \E p \in Providers : PDrop(p) /\ Cmd("pdrop", 0, 0, p, 0, "", "", <<>>)
  \/ \E t \in Threads : Release(t) /\ Cmd("release", t, 0, 0, 0, "", "", <<>>)

Settle == /\ ~settled /\ settled' = TRUE
          /\ hist' = [hist EXCEPT ![Len(hist)].post = Obs]
          /\ (PrintAll \/ Len(hist) = MaxCmds) => PrintT(<<"T", ToJson(hist')>>)
          /\ UNCHANGED vars

GNext == IF ENABLED Internal THEN (Internal /\ UNCHANGED <<hist, settled>>)
         ELSE IF ~settled THEN Settle
         ELSE Command
GSpec == GInit /\ [][GNext]_gvars
\* the observations and the message counter are hidden: one visit per state of the code
View == <<lst, lnext, prov, pnext, sub, conn, pconn, pv, pf, rv, th, logHolds, lmPend, pmR, fmW, hold, nhold, nMgr, nLst, settled,
          IF settled THEN <<>> ELSE hist>>
=============================================================================
