SPECIFICATION Spec
CONSTANTS
  Threads <- CastProbe
  Conns = {"c1"}
  Signals = {"A", "B"}
  Objects = {"o1", "o2", "o3"}
  ConnOf <- CastConn
  SigOf <- CastSig
  ObjOf <- CastObj
  Rounds <- CR1
  EmitSeq <- EmitProbe
  QCap = 8
  Dev_ProxySectionsNotAtomic = FALSE
  Dev_SendAfterSnapshot = FALSE
  Devs = {}
  Probe <- ProbeFilter
  Failing = {}
  Inject <- InjC1O1A
  Rogue = {}
INVARIANTS ProbeSeen ProbePending
CHECK_DEADLOCK FALSE
