SPECIFICATION Spec
CONSTANTS
  Closers = {"c1", "c2"}
  Senders = {"s1"}
  Handlers = {"h1"}
  MaxIn = 2
  Permissive = FALSE
  LockFirst = TRUE
INVARIANTS TypeOK
PROPERTIES CloseReturns
CHECK_DEADLOCK FALSE
