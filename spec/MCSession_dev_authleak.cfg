SPECIFICATION Spec
CONSTANTS
  Gor = {"g1", "g2"}
  Eps = {"E"}
  Svcs = {"e"}
  Adv <- AdvAll
  MaxReq = 1
  MaxLoss = 0
  AuthMayRefuse = TRUE
  Dev_RUnlockUnderWriteLock = FALSE
  Dev_NilChannelWhenAllSkipped = FALSE
  Dev_AuthFailureLeaksConnection = TRUE
  Dev_DeadClientStaysInPool = FALSE
  Dev_PoolKeyedByAdvertised = FALSE
  Dev_CloserBeforeInsert = FALSE
INVARIANTS TypeOK ExtraConnectionsClosed
CHECK_DEADLOCK FALSE
