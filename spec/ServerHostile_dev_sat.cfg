SPECIFICATION Spec
CONSTANTS
  MaxLen = 4
  Alphabet = "satcore"
  Dev_DupUserStucksObject = FALSE
  Dev_AuthFloodCrashes = FALSE
  Dev_HostileCountCrashes = FALSE
  Dev_SaturationDeadlocks = TRUE
  Dev_SendBlocksOnUnreadSocket = FALSE
INVARIANTS ServerUp AllServe
CHECK_DEADLOCK FALSE
