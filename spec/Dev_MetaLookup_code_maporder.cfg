SPECIFICATION Spec
CONSTANTS
  Universe = "quick"
  MapOrder = {"s", "p"}
  LastChanceAny = {"m", "s", "p"}
  WalkSorted = TRUE
  AssumeUserRange = TRUE
  QueryTypes = {"lookup"}
INVARIANTS Deterministic
CHECK_DEADLOCK FALSE
