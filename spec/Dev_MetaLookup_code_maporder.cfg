SPECIFICATION Spec
CONSTANTS
  Universe = "quick"
  MapOrder = {"s", "p"}
  LastChanceAny = {"m", "s", "p"}
  WalkSorted = TRUE
  AssumeUserRange = TRUE
INVARIANTS Deterministic
CHECK_DEADLOCK FALSE
