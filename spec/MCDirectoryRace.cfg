SPECIFICATION Spec
CONSTANTS
  Callers = {"p", "q"}
  Names = {"a", "b"}
  MaxOps = 3
  Locked = TRUE
INVARIANTS NameHeldByAtMostOne IdsUnique EventsInOrder MutualExclusion
CHECK_DEADLOCK FALSE
