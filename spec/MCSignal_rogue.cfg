SPECIFICATION Spec
CONSTANTS
  Threads <- T1
  Conns = {"c1", "c2"}
  Signals = {"A"}
  Objects = {"o1"}
  ConnOf <- CastConn
  SigOf <- CastSig
  ObjOf <- CastObj
  Rounds <- CR2
  EmitSeq <- EmitO11
  QCap = 2
  Dev_ProxySectionsNotAtomic = FALSE
  Dev_SendAfterSnapshot = FALSE
  Devs = {}
  Probe <- NoProbe
  Failing = {}
  Inject <- NoInject
  Rogue = {"c2"}
INVARIANTS TypeOK NoDuplicate InOrderNoGap Complete NoForeignSignal ClosedAfterCancel NothingAfterUnregisterAck OthersUndisturbed AtMostOneRegistration NoLeak RemovedAtMostOnce NoDeadRegistration
CHECK_DEADLOCK FALSE
