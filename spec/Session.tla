------------------------------- MODULE Session -------------------------------
(* bus/session/session.go: the connection pool of a Session shared by several
   goroutines (C19).

   Session.client(info) (l.56-93), one action per step a concurrent goroutine
   can observe; `poll` (address -> client) is protected by the RWMutex
   `pollMutex`, modelled by the number of readers holding it, the goroutines
   queued in RLock behind a writer (Go counts them in readerCount as soon as
   they arrive), and the writer:

     Start(g, a)      Proxy(name) -> findServiceName (under serviceListMutex) -> client(info)
     RLockEnter(g)    l.60   RLock: taken at once, or queued behind a writer that holds / waits
     RLockGranted(g)         a queued reader gets the lock once no writer holds it.  (Who goes first
                             when readers are queued AND writers wait is left open: a superset of
                             what sync.RWMutex does, so the invariants cover the real mutex.)
     LookupHit(g)     l.61-66  entry found: RUnlock, return the shared client
     LookupMiss(g)    l.61-68  nothing found: RUnlock
     Dial(g)          l.69   SelectEndPoint: a NEW connection to the endpoint + authenticate
     Lock(g)          l.81   blocks while readers or another writer hold the lock
     Insert(g)        l.82,88-90  re-check found nothing: poll[a] := own client; Unlock
     Dup(g)           l.82-86  re-check found an entry: release, close the OWN connection,
                               return the shared client
     Closer(a)        l.75-79  the connection of poll[a] is lost: Lock; delete; Unlock (one step;
                               only in configurations with ConnLoss = TRUE)

   Deviation (code as found): Dev_RUnlockUnderWriteLock - the Dup branch calls
   RUnlock while holding the WRITE lock.  The Go runtime aborts the process
   (`fatal error: sync: RUnlock of unlocked RWMutex`) when no reader is
   queued; with queued readers the reader count is corrupted and the write
   lock is never released: every later request blocks for ever.

   Second process (l.201-247): the update loop refreshes serviceList under
   serviceListMutex whenever the directory signals a change; Start reads the
   list under the same mutex.  The two mutexes are never held together.      *)
EXTENDS Naturals, FiniteSets, Sequences, TLC

CONSTANTS Gor,        \* goroutines sharing the session
          Addrs,      \* endpoints (one service behind each)
          MaxReq,     \* requests per goroutine
          ConnLoss,   \* BOOLEAN: connections may be lost (closer runs)
          Dev_RUnlockUnderWriteLock

NULL == 0          \* no connection
NoG == "none"      \* no goroutine

VARIABLES pc,        \* g -> "idle" | "rlock" | "rlock_q" | "locked_r" | "dial" | "lock" | "locked_w" | "stuck"
          tgt,       \* g -> address requested
          mine,      \* g -> connection dialed by g in this request (or NULL)
          ret,       \* g -> connection of the client returned by the last request (or NULL)
          reqs,      \* g -> requests started
          poll,      \* address -> connection id of the pooled client (or NULL)
          readers,   \* goroutines holding the read lock
          writer,    \* goroutine holding the write lock (or NULL)
          wwait,     \* goroutines waiting in Lock (Go: a waiting writer blocks new readers)
          conns,     \* connection id -> [addr, open]
          crashed,   \* the runtime aborted the process
          leaked,    \* the write lock was given up with RUnlock: it stays locked for ever
          svcList, svcMu, dirty   \* serviceList, who holds serviceListMutex, pending directory signal
vars == <<pc, tgt, mine, ret, reqs, poll, readers, writer, wwait, conns, crashed, leaked, svcList, svcMu, dirty>>

ConnIds == DOMAIN conns
NewConn == Cardinality(DOMAIN conns) + 1
OpenTo(a) == {c \in DOMAIN conns : conns[c].addr = a /\ conns[c].open}

Init == /\ pc = [g \in Gor |-> "idle"] /\ tgt = [g \in Gor |-> CHOOSE a \in Addrs : TRUE]
        /\ mine = [g \in Gor |-> NULL] /\ ret = [g \in Gor |-> NULL] /\ reqs = [g \in Gor |-> 0]
        /\ poll = [a \in Addrs |-> NULL]
        /\ readers = {} /\ writer = NoG /\ wwait = {}
        /\ conns = [c \in {} |-> [addr |-> CHOOSE a \in Addrs : TRUE, open |-> TRUE]]
        /\ crashed = FALSE /\ leaked = FALSE
        /\ svcList = Addrs /\ svcMu = NoG /\ dirty = FALSE

Goto(g, l) == pc' = [pc EXCEPT ![g] = l]
Alive == ~crashed
UnchangedList == UNCHANGED <<svcList, svcMu, dirty>>

(* Proxy(name): findServiceName under serviceListMutex (one step), then client(info) *)
Start(g, a) ==
  /\ Alive /\ pc[g] = "idle" /\ reqs[g] < MaxReq
  /\ svcMu = NoG /\ a \in svcList
  /\ reqs' = [reqs EXCEPT ![g] = @ + 1]
  /\ tgt' = [tgt EXCEPT ![g] = a] /\ mine' = [mine EXCEPT ![g] = NULL] /\ ret' = [ret EXCEPT ![g] = NULL]
  /\ Goto(g, "rlock")
  /\ UNCHANGED <<poll, readers, writer, wwait, conns, crashed, leaked>> /\ UnchangedList

RLockEnter(g) ==
  /\ Alive /\ pc[g] = "rlock"
  /\ IF writer = NoG /\ wwait = {} /\ ~leaked
       THEN readers' = readers \cup {g} /\ Goto(g, "locked_r")
       ELSE Goto(g, "rlock_q") /\ UNCHANGED readers          \* counted by the mutex, blocked
  /\ UNCHANGED <<tgt, mine, ret, reqs, poll, writer, wwait, conns, crashed, leaked>> /\ UnchangedList
RLockGranted(g) ==
  /\ Alive /\ pc[g] = "rlock_q"
  /\ writer = NoG /\ ~leaked
  /\ readers' = readers \cup {g}
  /\ Goto(g, "locked_r")
  /\ UNCHANGED <<tgt, mine, ret, reqs, poll, writer, wwait, conns, crashed, leaked>> /\ UnchangedList

LookupHit(g) ==
  /\ Alive /\ pc[g] = "locked_r" /\ poll[tgt[g]] # NULL
  /\ readers' = readers \ {g}
  /\ ret' = [ret EXCEPT ![g] = poll[tgt[g]]]
  /\ Goto(g, "idle")
  /\ UNCHANGED <<tgt, mine, reqs, poll, writer, wwait, conns, crashed, leaked>> /\ UnchangedList

LookupMiss(g) ==
  /\ Alive /\ pc[g] = "locked_r" /\ poll[tgt[g]] = NULL
  /\ readers' = readers \ {g}
  /\ Goto(g, "dial")
  /\ UNCHANGED <<tgt, mine, ret, reqs, poll, writer, wwait, conns, crashed, leaked>> /\ UnchangedList

Dial(g) ==
  /\ Alive /\ pc[g] = "dial"
  /\ conns' = [c \in DOMAIN conns \cup {NewConn} |->
                 IF c = NewConn THEN [addr |-> tgt[g], open |-> TRUE] ELSE conns[c]]
  /\ mine' = [mine EXCEPT ![g] = NewConn]
  /\ Goto(g, "lock")
  /\ UNCHANGED <<tgt, ret, reqs, poll, readers, writer, wwait, crashed, leaked>> /\ UnchangedList

\* goroutines that called RLock while the writer holds the lock: Go has already counted them
QueuedReaders == {h \in Gor : pc[h] = "rlock_q"}

\* Lock(): announce (new readers are held back from now on), then acquire when free
LockWait(g) ==
  /\ Alive /\ pc[g] = "lock" /\ g \notin wwait
  /\ wwait' = wwait \cup {g}
  /\ UNCHANGED <<pc, tgt, mine, ret, reqs, poll, readers, writer, conns, crashed, leaked>> /\ UnchangedList
Lock(g) ==
  /\ Alive /\ pc[g] = "lock" /\ g \in wwait
  /\ writer = NoG /\ readers = {} /\ ~leaked
  /\ writer' = g /\ wwait' = wwait \ {g}
  /\ Goto(g, "locked_w")
  /\ UNCHANGED <<tgt, mine, ret, reqs, poll, readers, conns, crashed, leaked>> /\ UnchangedList

Insert(g) ==
  /\ Alive /\ pc[g] = "locked_w" /\ writer = g /\ poll[tgt[g]] = NULL
  /\ poll' = [poll EXCEPT ![tgt[g]] = mine[g]]
  /\ ret' = [ret EXCEPT ![g] = mine[g]]
  /\ writer' = NoG
  /\ Goto(g, "idle")
  /\ UNCHANGED <<tgt, mine, reqs, readers, wwait, conns, crashed, leaked>> /\ UnchangedList

Dup(g) ==
  /\ Alive /\ pc[g] = "locked_w" /\ writer = g /\ poll[tgt[g]] # NULL
  /\ IF Dev_RUnlockUnderWriteLock
       THEN \* s.pollMutex.RUnlock() with the write lock held
            IF QueuedReaders = {}
              THEN /\ crashed' = TRUE /\ Goto(g, "stuck")
                   /\ UNCHANGED <<ret, writer, conns, leaked>>
              ELSE \* reader count corrupted; the write lock is never released
                   /\ leaked' = TRUE
                   /\ conns' = [conns EXCEPT ![mine[g]].open = FALSE]
                   /\ ret' = [ret EXCEPT ![g] = poll[tgt[g]]]
                   /\ Goto(g, "idle")
                   /\ UNCHANGED <<writer, crashed>>
       ELSE /\ writer' = NoG
            /\ conns' = [conns EXCEPT ![mine[g]].open = FALSE]     \* endpoint.Close() of the duplicate
            /\ ret' = [ret EXCEPT ![g] = poll[tgt[g]]]
            /\ Goto(g, "idle")
            /\ UNCHANGED <<crashed, leaked>>
  /\ UNCHANGED <<tgt, mine, reqs, poll, readers, wwait>> /\ UnchangedList

(* the pooled connection to a is lost: the closer deletes the entry under the write lock *)
Closer(a) ==
  /\ Alive /\ ConnLoss /\ poll[a] # NULL
  /\ writer = NoG /\ readers = {} /\ ~leaked
  /\ conns' = [conns EXCEPT ![poll[a]].open = FALSE]
  /\ poll' = [poll EXCEPT ![a] = NULL]
  /\ UNCHANGED <<pc, tgt, mine, ret, reqs, readers, writer, wwait, crashed, leaked>> /\ UnchangedList

(* update loop: a directory signal arrives; Services() is fetched WITHOUT the mutex, then stored under it *)
Signal == /\ Alive /\ ~dirty /\ dirty' = TRUE
          /\ UNCHANGED <<pc, tgt, mine, ret, reqs, poll, readers, writer, wwait, conns, crashed, leaked, svcList, svcMu>>
Refresh == /\ Alive /\ dirty /\ svcMu = NoG
           /\ svcList' = Addrs /\ dirty' = FALSE
           /\ UNCHANGED <<pc, tgt, mine, ret, reqs, poll, readers, writer, wwait, conns, crashed, leaked, svcMu>>

Run(g) == \/ RLockEnter(g) \/ RLockGranted(g) \/ LookupHit(g) \/ LookupMiss(g) \/ Dial(g)
          \/ LockWait(g) \/ Lock(g) \/ Insert(g) \/ Dup(g)
Next == \/ \E g \in Gor : (\E a \in Addrs : Start(g, a)) \/ Run(g)
        \/ \E a \in Addrs : Closer(a)
        \/ Signal \/ Refresh

Fairness == /\ \A g \in Gor : SF_vars(Run(g))
            /\ WF_vars(Refresh)
Spec == Init /\ [][Next]_vars
FairSpec == Spec /\ Fairness

-----------------------------------------------------------------------------
TypeOK == /\ \A g \in Gor : pc[g] \in {"idle", "rlock", "rlock_q", "locked_r", "dial", "lock", "locked_w", "stuck"}
          /\ readers \subseteq Gor /\ writer \in Gor \cup {NoG}

\* a mutex is only released by who holds it, in the mode it is held: Go aborts the process otherwise
NoBadUnlock == ~crashed /\ ~leaked

\* the RWMutex itself
MutexOK == /\ (writer # NoG => readers = {})
           /\ \A g \in Gor : (pc[g] = "locked_r" <=> g \in readers) /\ (pc[g] = "locked_w" <=> writer = g)

Quiescent == \A g \in Gor : pc[g] = "idle"

\* at quiescence at most one open connection per endpoint, and it is the pooled one
AtMostOneConnPerEndpoint ==
  Quiescent => \A a \in Addrs : /\ Cardinality(OpenTo(a)) <= 1
                                /\ OpenTo(a) = IF poll[a] = NULL THEN {} ELSE {poll[a]}

\* every finished request returned the client everybody shares (while no connection is lost)
AllGetTheSharedClient ==
  ~ConnLoss => \A g \in Gor : (pc[g] = "idle" /\ reqs[g] > 0) => (ret[g] # NULL /\ ret[g] = poll[tgt[g]])

\* a returned client is never a closed connection (the duplicate is closed, not the shared one)
ReturnedIsOpen == ~ConnLoss => \A g \in Gor : ret[g] # NULL => conns[ret[g]].open

\* every request terminates (FairSpec)
Terminates == \A g \in Gor : [](pc[g] # "idle" => <>(pc[g] = "idle"))
\* no state in which some goroutine is blocked for ever while nobody can move
NoDeadlock == (~crashed /\ \E g \in Gor : pc[g] # "idle") => \E g \in Gor : ENABLED Run(g)
=============================================================================
