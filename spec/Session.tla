------------------------------- MODULE Session -------------------------------
(* bus/session/session.go + bus/client.go SelectEndPoint: the connection pool
   of a Session shared by several goroutines (C19).

   Services advertise a LIST of addresses (Adv).  An address is live (one of
   Eps: somebody listens there), in the test range ("T": 198.18.0.x, never
   dialed) or dead (anything else: the dial fails).  Session.client(info), one
   action per step a concurrent goroutine can observe; `poll` (address ->
   client) is protected by the RWMutex `pollMutex`, modelled by the readers
   holding it, the goroutines queued in RLock behind a writer (Go counts them
   in readerCount as soon as they arrive), and the writer:

     Start(g, s)      Proxy(name) -> findServiceName (under serviceListMutex) -> client(info)
     RLockEnter(g)    RLock: taken at once, or queued behind a writer that holds / waits
     RLockGranted(g)  a queued reader gets the lock once no writer holds it.  (Who goes first
                      when readers are queued AND writers wait is left open: a superset of
                      what sync.RWMutex does, so the invariants cover the real mutex.)
     LookupHit(g)     `for _, addr := range info.Endpoints`: the first advertised address with
                      an entry: RUnlock, return the shared client
     LookupMiss(g)    no advertised address has an entry: RUnlock
     SelectDial(g)    bus.SelectEndPoint: the first advertised address that is not skipped and
                      can be dialed: a NEW connection to it
     SelectFail(g)    no such address: an error is returned (Dev_NilChannelWhenAllSkipped: with
                      every address in the test range no dial was tried, the error is nil, the
                      channel is nil: channel.EndPoint() panics, the process dies)
     AuthOK(g)        channel.Authenticate() accepted: SelectEndPoint returns the address
                      actually connected (cad)
     AuthRefused(g)   refused: error; the connection is closed
                      (Dev_AuthFailureLeaksConnection: it is left open)
     AuthLost(g)      the connection was lost before the answer: error
     LockWait(g)/Lock(g)   pollMutex.Lock(): announce, then acquire when free
     Insert(g)        re-check misses: poll[cad] := own client; Unlock
     AddHandler(g)    endpoint.AddHandler(.., closer): its own step AFTER the insert; a connection
                      lost in between is reported to the closer at once
                      (Dev_DeadClientStaysInPool: a handler added to a closed end point is never
                      told; the dead client stays in the pool for ever)
     Dup(g)           re-check hits: Unlock, close the OWN connection, return the shared client
     Lose(c)          the network / the peer drops connection c (at any point: before the insert,
                      between insert and AddHandler, after); a registered closer is scheduled
     Closer(c)        closer of c (own goroutine): Lock; delete(poll, key); Unlock (one step)

   The pool is keyed by the connected address (Dev_PoolKeyedByAdvertised: by the
   first advertised one); the closer is registered after the insert
   (Dev_CloserBeforeInsert: before Lock(), so that also the loser of a dial
   race carries one).

   Deviation Dev_RUnlockUnderWriteLock: the Dup branch calls RUnlock while
   holding the WRITE lock.  The Go runtime aborts the process when no reader
   is queued; with queued readers the reader count is corrupted and the write
   lock is never released.

   Second process: the update loop refreshes serviceList under
   serviceListMutex whenever the directory signals a change; Start reads the
   list under the same mutex.  The two mutexes are never held together.      *)
EXTENDS Naturals, FiniteSets, Sequences, TLC

CONSTANTS Gor,        \* goroutines sharing the session
          Eps,        \* live addresses (= remote endpoints)
          Svcs,       \* registered services
          Adv,        \* service -> sequence of advertised addresses
          MaxReq,     \* requests per goroutine
          MaxLoss,    \* connections that may be lost (0: none)
          AuthMayRefuse,   \* BOOLEAN: an authentication may be refused
          Dev_RUnlockUnderWriteLock,
          Dev_NilChannelWhenAllSkipped,
          Dev_AuthFailureLeaksConnection,
          Dev_DeadClientStaysInPool,
          Dev_PoolKeyedByAdvertised,
          Dev_CloserBeforeInsert

\* address lists used by the configurations (Adv <- AdvAll)
AdvAll == [s \in {"e", "f", "xe", "te", "ef", "t", "x", "tx"} |->
             CASE s = "e"  -> <<"E">>            \* one live address
               [] s = "f"  -> <<"F">>
               [] s = "xe" -> <<"X", "E">>       \* a dead address first
               [] s = "te" -> <<"T", "E">>       \* a test-range address first
               [] s = "ef" -> <<"E", "F">>       \* reachable at both endpoints
               [] s = "t"  -> <<"T">>            \* test range only
               [] s = "x"  -> <<"X">>            \* dead only
               [] s = "tx" -> <<"T", "X">>]

NULL == 0          \* no connection
NoG == "none"      \* no goroutine
TestRange == {"T"}

Range(f) == {f[i] : i \in DOMAIN f}
AllAddrs == Eps \cup UNION {Range(Adv[s]) : s \in Svcs}
Usable(a) == a \notin TestRange /\ a \in Eps
\* index of the address SelectEndPoint connects to (0: none)
FirstUsable(s) == IF \E i \in DOMAIN Adv[s] : Usable(Adv[s][i])
                    THEN CHOOSE i \in DOMAIN Adv[s] : Usable(Adv[s][i]) /\ \A j \in 1..(i-1) : ~Usable(Adv[s][j])
                    ELSE 0
Reachable(s) == FirstUsable(s) # 0
\* some dial was attempted (and failed): SelectEndPoint has an error to return
DialTried(s) == \E i \in DOMAIN Adv[s] : Adv[s][i] \notin TestRange

VARIABLES pc,        \* g -> "idle" | "rlock" | "rlock_q" | "locked_r" | "select" | "auth" | "lock" | "locked_w" | "addh" | "stuck"
          svc,       \* g -> service requested
          mine,      \* g -> connection dialed by g in this request (or NULL)
          cad,       \* g -> address actually connected ("" before)
          ret,       \* g -> connection of the client returned by the last request (or NULL)
          res,       \* g -> outcome of the last request: "none" | "ok" | "unreachable" | "refused" | "lost"
          reqs,      \* g -> requests started
          poll,      \* address -> connection id of the pooled client (or NULL)
          readers,   \* goroutines holding the read lock
          writer,    \* goroutine holding the write lock (or NoG)
          wwait,     \* goroutines waiting in Lock (Go: a waiting writer blocks new readers)
          conns,     \* connection id -> [ep, st: "open" | "closed" (by the session) | "lost", h: closer registered, key: what the closer deletes]
          cpend,     \* connections whose closer has been started and has not run yet
          losses,    \* connections lost so far
          crashed,   \* the runtime aborted the process
          leaked,    \* the write lock was given up with RUnlock: it stays locked for ever
          svcList, svcMu, dirty   \* serviceList, who holds serviceListMutex, pending directory signal
vars == <<pc, svc, mine, cad, ret, res, reqs, poll, readers, writer, wwait, conns, cpend, losses, crashed, leaked, svcList, svcMu, dirty>>

ConnIds == DOMAIN conns
NewConn == Cardinality(DOMAIN conns) + 1
OpenTo(a) == {c \in DOMAIN conns : conns[c].ep = a /\ conns[c].st = "open"}
AnySvc == CHOOSE s \in Svcs : TRUE
NoConns == [c \in {} |-> [ep |-> "", st |-> "open", h |-> FALSE, key |-> ""]]

Init == /\ pc = [g \in Gor |-> "idle"] /\ svc = [g \in Gor |-> AnySvc]
        /\ mine = [g \in Gor |-> NULL] /\ cad = [g \in Gor |-> ""] /\ ret = [g \in Gor |-> NULL]
        /\ res = [g \in Gor |-> "none"] /\ reqs = [g \in Gor |-> 0]
        /\ poll = [a \in AllAddrs |-> NULL]
        /\ readers = {} /\ writer = NoG /\ wwait = {}
        /\ conns = NoConns /\ cpend = {} /\ losses = 0
        /\ crashed = FALSE /\ leaked = FALSE
        /\ svcList = Svcs /\ svcMu = NoG /\ dirty = FALSE

Goto(g, l) == pc' = [pc EXCEPT ![g] = l]
Alive == ~crashed
UnchangedList == UNCHANGED <<svcList, svcMu, dirty>>
UnchangedMutex == UNCHANGED <<readers, writer, wwait>>
UnchangedFate == UNCHANGED <<crashed, leaked, losses>>
Done(g, r, c) == /\ res' = [res EXCEPT ![g] = r] /\ ret' = [ret EXCEPT ![g] = c] /\ Goto(g, "idle")

(* Proxy(name): findServiceName under serviceListMutex (one step), then client(info) *)
Start(g, s) ==
  /\ Alive /\ pc[g] = "idle" /\ reqs[g] < MaxReq
  /\ svcMu = NoG /\ s \in svcList
  /\ reqs' = [reqs EXCEPT ![g] = @ + 1]
  /\ svc' = [svc EXCEPT ![g] = s] /\ mine' = [mine EXCEPT ![g] = NULL] /\ cad' = [cad EXCEPT ![g] = ""]
  /\ ret' = [ret EXCEPT ![g] = NULL] /\ res' = [res EXCEPT ![g] = "none"]
  /\ Goto(g, "rlock")
  /\ UNCHANGED <<poll, conns, cpend>> /\ UnchangedMutex /\ UnchangedFate /\ UnchangedList

RLockEnter(g) ==
  /\ Alive /\ pc[g] = "rlock"
  /\ IF writer = NoG /\ wwait = {} /\ ~leaked
       THEN readers' = readers \cup {g} /\ Goto(g, "locked_r")
       ELSE Goto(g, "rlock_q") /\ UNCHANGED readers          \* counted by the mutex, blocked
  /\ UNCHANGED <<svc, mine, cad, ret, res, reqs, poll, writer, wwait, conns, cpend>> /\ UnchangedFate /\ UnchangedList
RLockGranted(g) ==
  /\ Alive /\ pc[g] = "rlock_q"
  /\ writer = NoG /\ ~leaked
  /\ readers' = readers \cup {g}
  /\ Goto(g, "locked_r")
  /\ UNCHANGED <<svc, mine, cad, ret, res, reqs, poll, writer, wwait, conns, cpend>> /\ UnchangedFate /\ UnchangedList

\* the advertised addresses that have an entry, in list order
HitIdx(s) == {i \in DOMAIN Adv[s] : poll[Adv[s][i]] # NULL}
FirstHit(s) == Adv[s][CHOOSE i \in HitIdx(s) : \A j \in HitIdx(s) : i <= j]

LookupHit(g) ==
  /\ Alive /\ pc[g] = "locked_r" /\ HitIdx(svc[g]) # {}
  /\ readers' = readers \ {g}
  /\ Done(g, "ok", poll[FirstHit(svc[g])])
  /\ UNCHANGED <<svc, mine, cad, reqs, poll, writer, wwait, conns, cpend>> /\ UnchangedFate /\ UnchangedList

LookupMiss(g) ==
  /\ Alive /\ pc[g] = "locked_r" /\ HitIdx(svc[g]) = {}
  /\ readers' = readers \ {g}
  /\ Goto(g, "select")
  /\ UNCHANGED <<svc, mine, cad, ret, res, reqs, poll, writer, wwait, conns, cpend>> /\ UnchangedFate /\ UnchangedList

(* bus.SelectEndPoint: skip the test range, try to dial in list order *)
SelectDial(g) ==
  /\ Alive /\ pc[g] = "select" /\ Reachable(svc[g])
  /\ LET a == Adv[svc[g]][FirstUsable(svc[g])]
     IN conns' = [c \in DOMAIN conns \cup {NewConn} |->
                    IF c = NewConn THEN [ep |-> a, st |-> "open", h |-> FALSE, key |-> ""] ELSE conns[c]]
  /\ mine' = [mine EXCEPT ![g] = NewConn]
  /\ Goto(g, "auth")
  /\ UNCHANGED <<svc, cad, ret, res, reqs, poll, cpend>> /\ UnchangedMutex /\ UnchangedFate /\ UnchangedList

SelectFail(g) ==
  /\ Alive /\ pc[g] = "select" /\ ~Reachable(svc[g])
  /\ IF Dev_NilChannelWhenAllSkipped /\ ~DialTried(svc[g])
       THEN \* ("", nil, nil): channel.EndPoint() on a nil interface
            /\ crashed' = TRUE /\ Goto(g, "stuck") /\ UNCHANGED <<ret, res, leaked, losses>>
       ELSE /\ Done(g, "unreachable", NULL) /\ UnchangedFate
  /\ UNCHANGED <<svc, mine, cad, reqs, poll, conns, cpend>> /\ UnchangedMutex /\ UnchangedList

\* what Session.client uses as key for re-check, insert and closer
KeyOf(g, a) == IF Dev_PoolKeyedByAdvertised THEN Adv[svc[g]][1] ELSE a

AuthOK(g) ==
  /\ Alive /\ pc[g] = "auth" /\ conns[mine[g]].st = "open"
  /\ cad' = [cad EXCEPT ![g] = conns[mine[g]].ep]
  /\ conns' = [conns EXCEPT ![mine[g]].key = KeyOf(g, conns[mine[g]].ep),
                            ![mine[g]].h = Dev_CloserBeforeInsert]
  /\ Goto(g, "lock")
  /\ UNCHANGED <<svc, mine, ret, res, reqs, poll, cpend>> /\ UnchangedMutex /\ UnchangedFate /\ UnchangedList

AuthRefused(g) ==
  /\ Alive /\ AuthMayRefuse /\ pc[g] = "auth" /\ conns[mine[g]].st = "open"
  /\ IF Dev_AuthFailureLeaksConnection THEN UNCHANGED conns
                                       ELSE conns' = [conns EXCEPT ![mine[g]].st = "closed"]
  /\ Done(g, "refused", NULL)
  /\ UNCHANGED <<svc, mine, cad, reqs, poll, cpend>> /\ UnchangedMutex /\ UnchangedFate /\ UnchangedList

AuthLost(g) ==
  /\ Alive /\ pc[g] = "auth" /\ conns[mine[g]].st = "lost"
  /\ Done(g, "lost", NULL)
  /\ UNCHANGED <<svc, mine, cad, reqs, poll, conns, cpend>> /\ UnchangedMutex /\ UnchangedFate /\ UnchangedList

\* goroutines that called RLock while the writer holds the lock: Go has already counted them
QueuedReaders == {h \in Gor : pc[h] = "rlock_q"}

\* Lock(): announce (new readers are held back from now on), then acquire when free
LockWait(g) ==
  /\ Alive /\ pc[g] = "lock" /\ g \notin wwait
  /\ wwait' = wwait \cup {g}
  /\ UNCHANGED <<pc, svc, mine, cad, ret, res, reqs, poll, readers, writer, conns, cpend>> /\ UnchangedFate /\ UnchangedList
Lock(g) ==
  /\ Alive /\ pc[g] = "lock" /\ g \in wwait
  /\ writer = NoG /\ readers = {} /\ ~leaked
  /\ writer' = g /\ wwait' = wwait \ {g}
  /\ Goto(g, "locked_w")
  /\ UNCHANGED <<svc, mine, cad, ret, res, reqs, poll, readers, conns, cpend>> /\ UnchangedFate /\ UnchangedList

MyKey(g) == conns[mine[g]].key

Insert(g) ==
  /\ Alive /\ pc[g] = "locked_w" /\ writer = g /\ poll[MyKey(g)] = NULL
  /\ poll' = [poll EXCEPT ![MyKey(g)] = mine[g]]
  /\ writer' = NoG
  /\ Goto(g, "addh")
  /\ UNCHANGED <<svc, mine, cad, ret, res, reqs, readers, wwait, conns, cpend>> /\ UnchangedFate /\ UnchangedList

\* endpoint.AddHandler(filter, consumer, closer); return c
AddHandler(g) ==
  /\ Alive /\ pc[g] = "addh"
  /\ LET c == mine[g]
     IN IF conns[c].h                                \* Dev_CloserBeforeInsert: registered already
          THEN UNCHANGED <<conns, cpend>>
          ELSE /\ conns' = [conns EXCEPT ![c].h = TRUE]
               /\ cpend' = IF conns[c].st = "lost" /\ ~Dev_DeadClientStaysInPool THEN cpend \cup {c} ELSE cpend
  /\ Done(g, "ok", mine[g])
  /\ UNCHANGED <<svc, mine, cad, reqs, poll>> /\ UnchangedMutex /\ UnchangedFate /\ UnchangedList

\* endpoint.Close() of connection c by the session: the handlers' closers are started
SessionCloses(c) ==
  /\ conns' = [conns EXCEPT ![c].st = IF @ = "open" THEN "closed" ELSE @]
  /\ cpend' = IF conns[c].h /\ conns[c].st = "open" THEN cpend \cup {c} ELSE cpend

Dup(g) ==
  /\ Alive /\ pc[g] = "locked_w" /\ writer = g /\ poll[MyKey(g)] # NULL
  /\ IF Dev_RUnlockUnderWriteLock
       THEN \* s.pollMutex.RUnlock() with the write lock held
            IF QueuedReaders = {}
              THEN /\ crashed' = TRUE /\ Goto(g, "stuck")
                   /\ UNCHANGED <<ret, res, writer, conns, cpend, leaked>>
              ELSE \* reader count corrupted; the write lock is never released
                   /\ leaked' = TRUE
                   /\ SessionCloses(mine[g])
                   /\ Done(g, "ok", poll[MyKey(g)])
                   /\ UNCHANGED <<writer, crashed>>
       ELSE /\ writer' = NoG
            /\ SessionCloses(mine[g])                       \* endpoint.Close() of the duplicate
            /\ Done(g, "ok", poll[MyKey(g)])
            /\ UNCHANGED <<crashed, leaked>>
  /\ UNCHANGED <<svc, mine, cad, reqs, poll, readers, wwait, losses>> /\ UnchangedList

(* connection c is lost (peer or network); the closers registered on its end point are started *)
Lose(c) ==
  /\ Alive /\ losses < MaxLoss /\ c \in DOMAIN conns /\ conns[c].st = "open"
  /\ conns' = [conns EXCEPT ![c].st = "lost"]
  /\ cpend' = IF conns[c].h THEN cpend \cup {c} ELSE cpend
  /\ losses' = losses + 1
  /\ UNCHANGED <<pc, svc, mine, cad, ret, res, reqs, poll, crashed, leaked>> /\ UnchangedMutex /\ UnchangedList

(* the closer of c: Lock; delete(poll, key); Unlock - keyed by address, whoever owns the entry now *)
Closer(c) ==
  /\ Alive /\ c \in cpend
  /\ writer = NoG /\ readers = {} /\ ~leaked
  /\ poll' = [poll EXCEPT ![conns[c].key] = NULL]
  /\ cpend' = cpend \ {c}
  /\ UNCHANGED <<pc, svc, mine, cad, ret, res, reqs, conns>> /\ UnchangedMutex /\ UnchangedFate /\ UnchangedList

(* update loop: a directory signal arrives; Services() is fetched WITHOUT the mutex, then stored under it *)
Signal == /\ Alive /\ ~dirty /\ dirty' = TRUE
          /\ UNCHANGED <<pc, svc, mine, cad, ret, res, reqs, poll, conns, cpend, svcList, svcMu>> /\ UnchangedMutex /\ UnchangedFate
Refresh == /\ Alive /\ dirty /\ svcMu = NoG
           /\ svcList' = Svcs /\ dirty' = FALSE
           /\ UNCHANGED <<pc, svc, mine, cad, ret, res, reqs, poll, conns, cpend, svcMu>> /\ UnchangedMutex /\ UnchangedFate

Run(g) == \/ RLockEnter(g) \/ RLockGranted(g) \/ LookupHit(g) \/ LookupMiss(g)
          \/ SelectDial(g) \/ SelectFail(g) \/ AuthOK(g) \/ AuthRefused(g) \/ AuthLost(g)
          \/ LockWait(g) \/ Lock(g) \/ Insert(g) \/ AddHandler(g) \/ Dup(g)
Closers == \E c \in cpend : Closer(c)
Next == \/ \E g \in Gor : (\E s \in Svcs : Start(g, s)) \/ Run(g)
        \/ \E c \in DOMAIN conns : Lose(c)
        \/ Closers
        \/ Signal \/ Refresh

Fairness == /\ \A g \in Gor : SF_vars(Run(g))
            /\ SF_vars(Closers)
            /\ WF_vars(Refresh)
Spec == Init /\ [][Next]_vars
FairSpec == Spec /\ Fairness

-----------------------------------------------------------------------------
TypeOK == /\ \A g \in Gor : pc[g] \in {"idle", "rlock", "rlock_q", "locked_r", "select", "auth", "lock", "locked_w", "addh", "stuck"}
          /\ readers \subseteq Gor /\ writer \in Gor \cup {NoG}
          /\ \A g \in Gor : res[g] \in {"none", "ok", "unreachable", "refused", "lost"}
          /\ cpend \subseteq DOMAIN conns

\* the process does not crash
ProcessAlive == ~crashed
\* a mutex is only released by who holds it, in the mode it is held: Go aborts the process otherwise
NoBadUnlock == ~crashed /\ ~leaked

\* the RWMutex itself
MutexOK == /\ (writer # NoG => readers = {})
           /\ \A g \in Gor : (pc[g] = "locked_r" <=> g \in readers) /\ (pc[g] = "locked_w" <=> writer = g)

Quiescent == (\A g \in Gor : pc[g] = "idle") /\ cpend = {}
Finished(g) == pc[g] = "idle" /\ reqs[g] > 0

\* every request for a service with a reachable address succeeds (unless its authentication is refused
\* or its connection lost under way); a request for a service without one returns an error
RequestOutcome ==
  \A g \in Gor : Finished(g) =>
    /\ res[g] # "none"
    /\ (res[g] = "unreachable") <=> ~Reachable(svc[g])
    /\ res[g] = "refused" => AuthMayRefuse
    /\ res[g] = "lost" => MaxLoss > 0
    /\ res[g] = "ok" <=> ret[g] # NULL

\* ... with a working client: never one the session has closed itself, and one that leads to an
\* address the service advertises
ReturnedIsOpen ==
  \A g \in Gor : ret[g] # NULL => /\ conns[ret[g]].st # "closed"
                                  /\ conns[ret[g]].ep \in Range(Adv[svc[g]])
                                  /\ (MaxLoss = 0 => conns[ret[g]].st = "open")

\* at quiescence at most one live connection per remote endpoint ...
AtMostOneConnPerEndpoint ==
  Quiescent => \A a \in Eps : Cardinality(OpenTo(a)) <= 1
\* ... every other connection that was dialed has been closed (duplicates, refused authentications) ...
ExtraConnectionsClosed ==
  Quiescent => \A c \in DOMAIN conns : conns[c].st = "open" => \E a \in AllAddrs : poll[a] = c
\* ... the pool holds no client whose connection is gone ...
PoolHoldsLiveClients ==
  Quiescent => \A a \in AllAddrs : poll[a] # NULL => conns[poll[a]].st = "open"
\* ... and every finished request holds the client everybody shares
AllGetTheSharedClient ==
  MaxLoss = 0 => \A g \in Gor : (Finished(g) /\ res[g] = "ok") => \E a \in AllAddrs : poll[a] = ret[g]

\* every request terminates (FairSpec)
Terminates == \A g \in Gor : [](pc[g] # "idle" => <>(pc[g] = "idle"))
\* a lost pooled connection is eventually forgotten (FairSpec)
LostIsForgotten == \A a \in Eps : []((poll[a] # NULL /\ conns[poll[a]].st = "lost" /\ conns[poll[a]].h) => <>(poll[a] = NULL \/ conns[poll[a]].st = "open"))
\* no state in which some goroutine is blocked for ever while nobody can move
NoDeadlock == (~crashed /\ \E g \in Gor : pc[g] # "idle") => \/ \E g \in Gor : ENABLED Run(g)
                                                             \/ ENABLED Closers
=============================================================================
