--------------------------- MODULE MCObjectModes ---------------------------
(* Model-checking instances of ObjectModes.tla: the request alphabets of the
   configurations (a configuration file cannot spell records).              *)
EXTENDS ObjectModes

Of(as) == {t \in FullAlphabet : t.a \in as}
\* everything
Alpha_all == FullAlphabet
\* tracing: subscribers of both signals come and go while tracing is switched, an emitter, a plain call
Alpha_trace == Of({A_REG, A_UNREG, A_ETRACE, A_FIRE, A_HELLO})
\* statistics: both switches, counted calls, the counters read and reset, one subscriber whose stored channel counts
Alpha_stats == {t \in Of({A_ESTATS, A_ETRACE, A_STATS, A_CLEAR, A_HELLO, A_FIRE, A_REG}) :
                  (t.a = A_REG => t.sig = SIG_S /\ t.u = 1) /\ (t.a = A_ETRACE => t.b = 1)}
\* subscriptions under the modes: the user signal only, modes switched on and off
Alpha_subs == {t \in Of({A_REG, A_UNREG, A_ESTATS, A_ETRACE, A_FIRE}) : t.a = A_REG => t.sig = SIG_S}
\* a lost connection: closers against the object's goroutine
Alpha_disc == {t \in Of({A_REG, A_UNREG, A_ETRACE, A_FIRE}) : t.a = A_ETRACE => t.b = 1}
Alpha_disc_q == {t \in Of({A_REG, A_FIRE}) : t.a = A_REG => (t.sig = SIG_T) = (t.u = 1)}
\* one, two, three traceObject subscribers, registered before and after tracing was enabled
Alpha_three == {t \in Of({A_REG, A_ETRACE, A_HELLO}) : (t.a = A_REG => t.sig = SIG_T) /\ (t.a = A_ETRACE => t.b = 1)}
\* the alphabets of the deviation configurations (the smallest that show the deviation)
Alpha_dev_sub == {t \in Of({A_REG, A_UNREG, A_FIRE}) : t.a = A_REG => t.sig = SIG_S}
Alpha_dev_sub3 == {t \in Alpha_dev_sub : t.a = A_UNREG => t.u = 1}
Alpha_dev_stats == {t \in Of({A_ESTATS, A_ETRACE, A_HELLO, A_CLEAR, A_FIRE, A_REG}) :
                      (t.a = A_REG => t.sig = SIG_S /\ t.u = 1) /\ (t.a \in {A_ESTATS, A_ETRACE} => t.b = 1)}
=============================================================================
