-------------------------- MODULE GenEndPointStall --------------------------
(***************************************************************************)
(* Behaviour export for EndPointStall: commands (environment steps and the  *)
(* starts of application calls) are issued at quiescent states only; after  *)
(* each command the end point's own steps run to quiescence and the         *)
(* observable state is recorded.  One "T" record per (quiescent state,      *)
(* command) transition, carrying a history that reaches it.                  *)
(***************************************************************************)
EXTENDS EndPointStall, Json

VARIABLES hist, settled
gvars == <<vars, hist, settled>>

GInit == Init /\ hist = <<>> /\ settled = TRUE

Code(x) == CASE x = "idle" -> 0 [] x \in {"start", "wantlock", "locked", "detach", "writing", "make", "remove"} -> 1
             [] x \in {"done", "ok", "made", "rmok"} -> 2 [] x \in {"err", "rmerr"} -> 3 [] OTHER -> 9
Obs == [cl |-> [c \in Closers |-> Code(cl[c])],
        sn |-> [s \in Senders |-> Code(sn[s])],
        api |-> [h \in Handlers |-> IF api[h] = "rmok" THEN 4 ELSE Code(api[h])],
        closed |-> [h \in Handlers |-> IF hs[h] \in {"removed", "closed"} THEN 1 ELSE 0],
        got |-> got,
        replies |-> replies,
        stream |-> IF stream = "closed" THEN 1 ELSE 0,
        rd |-> CASE rd = "read" /\ inbox = <<>> -> 0 [] rd = "stopped" -> 2 [] OTHER -> 8]

Cmd(o, a) == /\ hist' = Append(hist, [o |-> o, a |-> a, post |-> Obs])
             /\ settled' = FALSE

Command ==
  \/ \E k \in Kinds : PeerSend(k) /\ Cmd("send", k)
  \/ PeerStall /\ Cmd("stall", "")
  \/ PeerResume /\ Cmd("resume", "")
  \/ PeerClose /\ Cmd("fail", "")
  \/ \E c \in Closers : StartClose(c) /\ Cmd("close", c)
  \/ \E s \in Senders : StartSend(s) /\ Cmd("write", s)
  \/ \E h \in Handlers : \/ StartMake(h) /\ Cmd("make", h)
                         \/ StartRemove(h) /\ Cmd("remove", h)

Settle == /\ ~settled /\ settled' = TRUE
          /\ hist' = [hist EXCEPT ![Len(hist)].post = Obs]
          /\ PrintT(<<"T", ToJson(hist')>>)
          /\ UNCHANGED vars

GNext == IF ENABLED Internal THEN (Internal /\ UNCHANGED <<hist, settled>>)
         ELSE IF ~settled THEN Settle
         ELSE Command
GSpec == GInit /\ [][GNext]_gvars
View == <<vars, settled, IF settled THEN <<>> ELSE hist>>
\* at a quiescent state every started Close() has returned (the safety face of CloseReturns)
QuiescentCloseDone == (~ENABLED Internal) => \A c \in Closers : cl[c] \in {"idle", "done"}
=============================================================================
