SPECIFICATION Spec
CONSTANTS
  Srv = {1, 2}
  Names = {"a", "b"}
  Clients = {1}
  MaxAtt = 3
  MaxCuts = 1
  MaxProxies = 1
  MaxDrops = 0
  Dev_NoCleanup = TRUE
  Dev_RouterFirst = TRUE
  Dev_NoLease = TRUE
  Dev_StaleKept = TRUE
  Dev_StagingUnchecked = FALSE
  Dev_IdReuse = TRUE
  Dev_LookupStaged = FALSE
  Dev_RemovedForStaged = FALSE
  Dev_EnableErrorIgnored = FALSE
INVARIANTS IdsIncreasing
VIEW MCView
CHECK_DEADLOCK FALSE
