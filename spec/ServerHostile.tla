---------------------------- MODULE ServerHostile ----------------------------
(***************************************************************************)
(* C12: what one authenticated, hostile client can do to a server, and     *)
(* what the other clients must still get.                                  *)
(*                                                                         *)
(* The server hosts a directory object (service 1) and a probe service     *)
(* with two objects.  The hostile client sends a finite sequence of        *)
(* requests from the alphabet Ops on one connection and then goes away     *)
(* (cleanly or in the middle of a frame).  The model keeps what matters    *)
(* for the verdict: which objects still serve (alive), whether the process *)
(* is up, which event subscriptions the hostile connection holds, and the  *)
(* answer class each request gets.  The lock-level reasons an object can   *)
(* stop serving are modelled in SignalLock.tla (duplicate user id) and     *)
(* Server.tla (capability map); here they appear as named deviations:      *)
(*   Dev_DupUserStucksObject   a second registerEvent with a registered    *)
(*                             user id never returns: the object is stuck  *)
(*   Dev_AuthFloodCrashes      a flood of authenticate calls aborts the    *)
(*                             process (unsynchronised capability map)     *)
(*   Dev_HostileCountCrashes   a hostile element count in a request whose  *)
(*                             generated decoder allocates from the wire   *)
(*                             (C07) aborts the process                    *)
(*                                                                         *)
(* Saturation (alphabets "satcore", "sat"): the probe service has a method *)
(* whose body waits for a gate only the environment opens.  `slow` starts  *)
(* it on an object; what the hostile client then sends to that object      *)
(* piles up in the mailbox (10), in the hand of the connection's consumer  *)
(* goroutine, in the handler queue (10) and in the socket: floods of calls *)
(* and posts on one or two connections, registrations, a terminate.  A     *)
(* cooperative client may call meanwhile (victim_call) and a fresh one may *)
(* ask the objects that are not inside the slow method (probe_others).     *)
(* While the gate is closed nothing is demanded of the slow object nor of  *)
(* the flooded connections.  The gate is opened by `release`, at the       *)
(* latest at the end of the sequence; then every call of the cooperative   *)
(* client is answered and every object no terminate request has named      *)
(* serves.  Who holds which lock while which queue is full is the subject  *)
(* of SignalLockPath.tla; here the outcome appears as the deviation        *)
(*   Dev_SaturationDeadlocks   a terminate processed with two consumers    *)
(*                             parked on the mailbox stops the service; a  *)
(*                             registration processed while the same       *)
(*                             connection floods posts stops the object    *)
(*                                                                         *)
(* A client that does not read (alphabet "noread"): stop_reading leaves    *)
(* what the server sends in the socket, flood_big sends calls whose        *)
(* replies are larger than what the socket buffers.  The property demands  *)
(* that every object goes on answering the others; the code as found       *)
(* writes the reply from the object's mailbox goroutine with no deadline:  *)
(*   Dev_SendBlocksOnUnreadSocket  the object answers nobody as long as    *)
(*                             that connection stays open                  *)
(* With all deviations off: ServerUp and AllServe are invariants.          *)
(***************************************************************************)
EXTENDS Naturals, Sequences, FiniteSets, TLC, Json

CONSTANTS MaxLen, Alphabet, Dev_DupUserStucksObject, Dev_AuthFloodCrashes, Dev_HostileCountCrashes,
          Dev_SaturationDeadlocks, Dev_SendBlocksOnUnreadSocket

Targets == {"dir", "p1", "p2"}            \* directory object, probe objects
GenericActs == {0, 1, 2, 3, 5, 6, 7, 8, 80, 81, 82, 83, 84, 85}
DirActs == {100, 101, 102, 103, 104, 105, 108, 109}
ProbeActs == {100, 101}
GarbageKinds == {"empty", "trunc", "garbage", "count"}
(* requests whose generated decoder allocates make([]T, count) straight from the wire *)
CountSensitive(t, a) == t = "dir" /\ a \in {102, 105}

Op(k, t, a, x) == [k |-> k, t |-> t, a |-> a, x |-> x]
FullOps ==
       {Op("reg", t, 0, u) : t \in Targets, u \in {"fresh", "again", "victim"}}
  \cup {Op("unreg", t, 1, u) : t \in Targets, u \in {"mine", "unknown", "victim"}}
  \cup {Op("reg_wrongobj", t, 0, "fresh") : t \in Targets}
  \cup {Op("unknown_action", t, 9999, "") : t \in Targets}
  \cup {Op("garbage", t, a, g) : t \in Targets, a \in GenericActs, g \in GarbageKinds}
  \cup {Op("garbage", "dir", a, g) : a \in DirActs, g \in GarbageKinds}
  \cup {Op("garbage", t, a, g) : t \in {"p1", "p2"}, a \in ProbeActs, g \in GarbageKinds}
  \cup {Op("setprop", t, 6, x) : t \in Targets, x \in {"wrongname", "wrongtype"}}
  \cup {Op("terminate_other", t, 3, "") : t \in Targets}
  \cup {Op("flood_calls", "p1", 25, "A"), Op("flood_auth", "dir", 8, "")}
  \cup {Op("auth_wrongtype", "dir", 8, x) : x \in {"user", "token", "both", "extra"}}
  \cup {Op("disconnect", "dir", 0, x) : x \in {"header", "payload"}}
(* one representative per class *)
SmallOps ==
       {Op("reg", "p1", 0, u) : u \in {"fresh", "again", "victim"}}
  \cup {Op("reg", "dir", 0, "again")}
  \cup {Op("unreg", "p1", 1, u) : u \in {"mine", "unknown", "victim"}}
  \cup {Op("reg_wrongobj", "p1", 0, "fresh"), Op("unknown_action", "p2", 9999, "")}
  \cup {Op("garbage", "p1", 0, "trunc"), Op("garbage", "p1", 6, "count"), Op("garbage", "dir", 102, "count"),
        Op("garbage", "dir", 101, "garbage"), Op("garbage", "p2", 100, "count")}
  \cup {Op("setprop", "p1", 6, "wrongtype"), Op("terminate_other", "p2", 3, "")}
  \cup {Op("flood_calls", "p1", 25, "A"), Op("flood_auth", "dir", 8, "")}
  \cup {Op("auth_wrongtype", "dir", 8, x) : x \in {"user", "token"}}
  \cup {Op("disconnect", "dir", 0, x) : x \in {"header", "payload"}}
(* saturation.  a = number of requests: above the capacities on the path (handler queue 10 + 1 in the consumer's hand
   + mailbox 10 + 1 in the method) for calls, which are refused when the queue is full; a few hundred for posts, which
   are small and may also sit in the socket.  x = the connection of the hostile client ("A", "B") *)
FloodCalls == 40
FloodPosts == 300
RegBurst == 5
SatCoreOps ==
       {Op("flood_calls", "p1", FloodCalls, x) : x \in {"A", "B"}}
  \cup {Op("flood_posts", "p1", FloodPosts, "A"), Op("reg_many", "p1", RegBurst, "A")}
  \cup {Op("terminate", "p1", 3, "A"), Op("victim_call", "p1", 100, "")}
SatOps ==
       {Op("slow", t, 100, "A") : t \in {"p1", "p2"}}
  \cup {Op("flood_calls", t, FloodCalls, x) : t \in {"p1", "p2"}, x \in {"A", "B"}}
  \cup {Op("flood_posts", "p1", FloodPosts, x) : x \in {"A", "B"}}
  \cup {Op("reg_many", "p1", RegBurst, x) : x \in {"A", "B"}} \cup {Op("unreg_many", "p1", RegBurst, "A")}
  \cup {Op("terminate", t, 3, "A") : t \in {"p1", "p2"}}
  \cup {Op("victim_call", t, 100, "") : t \in Targets}
  \cup {Op("probe_others", "", 0, ""), Op("release", "", 0, "")}
  \cup {Op("disconnect", "dir", 0, "header")}
NoReadOps ==
       {Op("stop_reading", "", 0, "A"), Op("probe_others", "", 0, ""), Op("disconnect", "dir", 0, "header")}
  \cup {Op("flood_big", t, 20, "A") : t \in {"p1", "p2"}}
Saturating == Alphabet \in {"satcore", "sat"}
Ops == CASE Alphabet = "full" -> FullOps
         [] Alphabet = "small" -> SmallOps
         [] Alphabet = "satcore" -> SatCoreOps \cup {Op("slow", "p1", 100, "A")}
         [] Alphabet = "sat" -> SatOps
         [] Alphabet = "noread" -> NoReadOps
         [] Alphabet = "noread1" -> NoReadOps \ {Op("flood_big", "p2", 20, "A")}
EnvKinds == {"victim_call", "probe_others", "release"}      \* not sent by the hostile client

VARIABLES
  hist,     \* requests sent so far, with the answer class each one gets
  mine,     \* mine[t]: does the hostile connection hold a subscription it made on t ("again" repeats it)
  stuck,    \* objects whose mailbox goroutine will never take another mail
  up,       \* the server process runs
  open,     \* the hostile connection is open
  busy,     \* objects inside the slow method (the gate is closed)
  gone,     \* objects a terminate request has named
  parked,   \* parked[t]: connections ("A", "B", "V" the cooperative client) with requests waiting behind the slow call on t
  posted,   \* posted[t]: connections that flood posts behind the slow call on t
  queued,   \* queued[t]: "term" / "reg" requests waiting behind the slow call on t
  deaf,     \* the hostile client has stopped reading its socket
  choked    \* objects whose mailbox goroutine waits in SendReply for the hostile client to read (deviation)

vars == <<hist, mine, stuck, up, open, busy, gone, parked, posted, queued, deaf, choked>>

Init == /\ hist = <<>> /\ mine = [t \in Targets |-> FALSE]
        /\ stuck = {} /\ up = TRUE /\ open = TRUE
        /\ busy = {} /\ gone = {}
        /\ parked = [t \in Targets |-> {}] /\ posted = [t \in Targets |-> {}] /\ queued = [t \in Targets |-> {}]
        /\ deaf = FALSE /\ choked = {}

(* answer class: "reply" | "error" | "none" (no answer expected, possible or waited for) | "any" *)
SatKinds == {"slow", "flood_posts", "reg_many", "unreg_many", "terminate", "victim_call", "probe_others", "release",
             "stop_reading", "flood_big"}
IsSat(op) == op.k \in SatKinds \/ (op.k = "flood_calls" /\ op.t \in busy)
(* what the deviation makes of the state after the step: the whole probe service, or one object, will never serve again *)
Doomed(b, pk, ps, qd) ==
  IF ~Dev_SaturationDeadlocks THEN {}
  ELSE UNION {(IF "term" \in qd[t] /\ Cardinality(pk[t]) >= 2 THEN {"p1", "p2"} ELSE {})
              \cup (IF "reg" \in qd[t] /\ ps[t] # {} THEN {t} ELSE {}) : t \in b}
Send(op) ==
  /\ up /\ Len(hist) < MaxLen
  /\ op.k \notin EnvKinds => open
  /\ Saturating => (hist = <<>> <=> (op.k = "slow" /\ op.t = "p1"))
  /\ op.k = "slow" => op.t \notin busy \cup gone \cup stuck
  /\ op.k = "release" => busy # {}
  /\ LET dup == op.k = "reg" /\ ((op.x = "again" /\ mine[op.t]) \/ op.x = "victim")
         dead == op.t \in stuck
         behind == op.t \in busy                          \* the request waits behind the slow call
         crash == \/ Dev_AuthFloodCrashes /\ op.k = "flood_auth"
                  \/ Dev_HostileCountCrashes /\ op.k = "garbage" /\ op.x = "count" /\ CountSensitive(op.t, op.a)
         sticks == Dev_DupUserStucksObject /\ dup /\ ~behind
         ans == IF dead \/ crash \/ sticks \/ behind \/ IsSat(op) THEN "none"
                ELSE CASE op.k = "reg" -> IF dup THEN "error" ELSE "reply"
                       [] op.k = "unreg" -> IF op.x = "mine" /\ mine[op.t] THEN "reply" ELSE "error"
                       [] op.k \in {"reg_wrongobj", "unknown_action", "setprop", "terminate_other"} -> "error"
                       [] op.k = "auth_wrongtype" -> "any"   \* authenticate (service 0) again, with a capability map that
                                                             \* decodes but holds a credential of another type than string:
                                                             \* refused by a reply (error state) or an error, never a crash
                       [] op.k = "garbage" -> "any"     \* an error for undecodable arguments, a reply when the
                                                        \* action takes none or the bytes happen to decode
                       [] op.k \in {"flood_calls", "flood_auth", "disconnect"} -> "none"
         busy2 == CASE op.k = "slow" -> busy \cup {op.t}
                    [] op.k = "release" -> {}
                    [] OTHER -> busy
         gone2 == IF op.k = "terminate" THEN gone \cup {op.t} ELSE gone
         parked2 == CASE op.k = "release" -> [t \in Targets |-> {}]
                      [] op.k \in {"flood_calls", "flood_posts"} /\ behind -> [parked EXCEPT ![op.t] = @ \cup {op.x}]
                      [] op.k = "victim_call" /\ behind /\ parked[op.t] # {} -> [parked EXCEPT ![op.t] = @ \cup {"V"}]
                      [] OTHER -> parked
         posted2 == CASE op.k = "release" -> [t \in Targets |-> {}]
                      [] op.k = "flood_posts" /\ behind -> [posted EXCEPT ![op.t] = @ \cup {op.x}]
                      [] OTHER -> posted
         queued2 == CASE op.k = "release" -> [t \in Targets |-> {}]
                      [] op.k = "terminate" /\ behind -> [queued EXCEPT ![op.t] = @ \cup {"term"}]
                      [] op.k \in {"reg_many", "unreg_many"} /\ behind -> [queued EXCEPT ![op.t] = @ \cup {"reg"}]
                      [] OTHER -> queued
         stuck2 == (IF sticks /\ ~dead THEN stuck \cup {op.t} ELSE stuck) \cup Doomed(busy \cup busy2, parked2, posted2, queued2)
         choked2 == CASE op.k = "disconnect" -> {}         \* the connection is closed: the pending writes fail
                      [] op.k = "flood_big" /\ deaf /\ Dev_SendBlocksOnUnreadSocket -> choked \cup {op.t}
                      [] OTHER -> choked
         (* probe_others: the objects a fresh client asks in the middle of the sequence (the gate may be closed) *)
         srv == IF op.k = "probe_others" THEN Targets \ (busy \cup gone \cup stuck2 \cup choked2) ELSE {}
     IN /\ hist' = Append(hist, [op |-> op, ans |-> ans, srv |-> srv])
        /\ mine' = IF dead \/ crash \/ sticks THEN mine
                   ELSE CASE op.k = "reg" /\ ~dup -> [mine EXCEPT ![op.t] = TRUE]
                          [] op.k = "unreg" /\ op.x = "mine" -> [mine EXCEPT ![op.t] = FALSE]
                          [] OTHER -> mine
        /\ stuck' = stuck2
        /\ up' = ~crash
        /\ open' = (open /\ op.k # "disconnect")
        /\ busy' = busy2 /\ gone' = gone2 /\ parked' = parked2 /\ posted' = posted2 /\ queued' = queued2
        /\ deaf' = (deaf \/ op.k = "stop_reading") /\ choked' = choked2

Next == \E op \in Ops : Send(op)
Spec == Init /\ [][Next]_vars

(* C12 *)
ServerUp == up
AllServe == stuck = {} /\ choked = {}
(* what a fresh client must find after the sequence, the hostile client gone and the gate open (the harness opens it if
   the sequence has not):
   every object serves except those a terminate request has named; the calls of the cooperative client are answered
   - by anything when the object is one of those *)
Expect == [up |-> up, serving |-> Targets \ (stuck \cup gone), gone |-> gone]
Export == hist # <<>> => PrintT(<<"Q", ToJson([h |-> hist, e |-> Expect])>>)
=============================================================================
