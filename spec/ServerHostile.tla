---------------------------- MODULE ServerHostile ----------------------------
(***************************************************************************)
(* C12: what one authenticated, hostile client can do to a server, and     *)
(* what the other clients must still get.                                  *)
(*                                                                         *)
(* The server hosts a directory object (service 1) and a probe service     *)
(* with two objects.  The hostile client sends a finite sequence of        *)
(* requests from the alphabet Ops on one connection and then goes away     *)
(* (cleanly or in the middle of a frame).  The model keeps what matters    *)
(* for the verdict: which objects still serve (alive), whether the process *)
(* is up, which event subscriptions the hostile connection holds, and the  *)
(* answer class each request gets.  The lock-level reasons an object can   *)
(* stop serving are modelled in SignalLock.tla (duplicate user id) and     *)
(* Server.tla (capability map); here they appear as named deviations:      *)
(*   Dev_DupUserStucksObject   a second registerEvent with a registered    *)
(*                             user id never returns: the object is stuck  *)
(*   Dev_AuthFloodCrashes      a flood of authenticate calls aborts the    *)
(*                             process (unsynchronised capability map)     *)
(*   Dev_HostileCountCrashes   a hostile element count in a request whose  *)
(*                             generated decoder allocates from the wire   *)
(*                             (C07) aborts the process                    *)
(* With all deviations off: ServerUp and AllServe are invariants.          *)
(***************************************************************************)
EXTENDS Naturals, Sequences, FiniteSets, TLC, Json

CONSTANTS MaxLen, Alphabet, Dev_DupUserStucksObject, Dev_AuthFloodCrashes, Dev_HostileCountCrashes

Targets == {"dir", "p1", "p2"}            \* directory object, probe objects
GenericActs == {0, 1, 2, 3, 5, 6, 7, 8, 80, 81, 82, 83, 84, 85}
DirActs == {100, 101, 102, 103, 104, 105, 108, 109}
ProbeActs == {100, 101}
GarbageKinds == {"empty", "trunc", "garbage", "count"}
(* requests whose generated decoder allocates make([]T, count) straight from the wire *)
CountSensitive(t, a) == t = "dir" /\ a \in {102, 105}

Op(k, t, a, x) == [k |-> k, t |-> t, a |-> a, x |-> x]
FullOps ==
       {Op("reg", t, 0, u) : t \in Targets, u \in {"fresh", "again", "victim"}}
  \cup {Op("unreg", t, 1, u) : t \in Targets, u \in {"mine", "unknown", "victim"}}
  \cup {Op("reg_wrongobj", t, 0, "fresh") : t \in Targets}
  \cup {Op("unknown_action", t, 9999, "") : t \in Targets}
  \cup {Op("garbage", t, a, g) : t \in Targets, a \in GenericActs, g \in GarbageKinds}
  \cup {Op("garbage", "dir", a, g) : a \in DirActs, g \in GarbageKinds}
  \cup {Op("garbage", t, a, g) : t \in {"p1", "p2"}, a \in ProbeActs, g \in GarbageKinds}
  \cup {Op("setprop", t, 6, x) : t \in Targets, x \in {"wrongname", "wrongtype"}}
  \cup {Op("terminate_other", t, 3, "") : t \in Targets}
  \cup {Op("flood_calls", "p1", 100, ""), Op("flood_auth", "dir", 8, "")}
  \cup {Op("disconnect", "dir", 0, x) : x \in {"header", "payload"}}
(* one representative per class *)
SmallOps ==
       {Op("reg", "p1", 0, u) : u \in {"fresh", "again", "victim"}}
  \cup {Op("reg", "dir", 0, "again")}
  \cup {Op("unreg", "p1", 1, u) : u \in {"mine", "unknown", "victim"}}
  \cup {Op("reg_wrongobj", "p1", 0, "fresh"), Op("unknown_action", "p2", 9999, "")}
  \cup {Op("garbage", "p1", 0, "trunc"), Op("garbage", "p1", 6, "count"), Op("garbage", "dir", 102, "count"),
        Op("garbage", "dir", 101, "garbage"), Op("garbage", "p2", 100, "count")}
  \cup {Op("setprop", "p1", 6, "wrongtype"), Op("terminate_other", "p2", 3, "")}
  \cup {Op("flood_calls", "p1", 100, ""), Op("flood_auth", "dir", 8, "")}
  \cup {Op("disconnect", "dir", 0, x) : x \in {"header", "payload"}}
Ops == IF Alphabet = "full" THEN FullOps ELSE SmallOps

VARIABLES
  hist,     \* requests sent so far, with the answer class each one gets
  mine,     \* mine[t]: does the hostile connection hold a subscription it made on t ("again" repeats it)
  stuck,    \* objects whose mailbox goroutine will never take another mail
  up,       \* the server process runs
  open      \* the hostile connection is open

vars == <<hist, mine, stuck, up, open>>

Init == /\ hist = <<>> /\ mine = [t \in Targets |-> FALSE]
        /\ stuck = {} /\ up = TRUE /\ open = TRUE

(* answer class: "reply" | "error" | "none" (no answer expected or possible) *)
Send(op) ==
  /\ open /\ up /\ Len(hist) < MaxLen
  /\ LET dup == op.k = "reg" /\ ((op.x = "again" /\ mine[op.t]) \/ op.x = "victim")
         dead == op.t \in stuck
         crash == \/ Dev_AuthFloodCrashes /\ op.k = "flood_auth"
                  \/ Dev_HostileCountCrashes /\ op.k = "garbage" /\ op.x = "count" /\ CountSensitive(op.t, op.a)
         sticks == Dev_DupUserStucksObject /\ dup
         ans == IF dead \/ crash \/ sticks THEN "none"
                ELSE CASE op.k = "reg" -> IF dup THEN "error" ELSE "reply"
                       [] op.k = "unreg" -> IF op.x = "mine" /\ mine[op.t] THEN "reply" ELSE "error"
                       [] op.k \in {"reg_wrongobj", "unknown_action", "setprop", "terminate_other"} -> "error"
                       [] op.k = "garbage" -> "any"     \* an error for undecodable arguments, a reply when the
                                                        \* action takes none or the bytes happen to decode
                       [] op.k \in {"flood_calls", "flood_auth", "disconnect"} -> "none"
     IN /\ hist' = Append(hist, [op |-> op, ans |-> ans])
        /\ mine' = IF dead \/ crash \/ sticks THEN mine
                   ELSE CASE op.k = "reg" /\ ~dup -> [mine EXCEPT ![op.t] = TRUE]
                          [] op.k = "unreg" /\ op.x = "mine" -> [mine EXCEPT ![op.t] = FALSE]
                          [] OTHER -> mine
        /\ stuck' = IF sticks /\ ~dead THEN stuck \cup {op.t} ELSE stuck
        /\ up' = ~crash
        /\ open' = (op.k # "disconnect")

Next == \E op \in Ops : Send(op)
Spec == Init /\ [][Next]_vars

(* C12 *)
ServerUp == up
AllServe == stuck = {}
(* what the probe of a fresh client must find after the sequence *)
Expect == [up |-> up, serving |-> Targets \ stuck]
Export == hist # <<>> => PrintT(<<"Q", ToJson([h |-> hist, e |-> Expect])>>)
=============================================================================
