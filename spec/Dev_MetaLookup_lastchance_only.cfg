SPECIFICATION Spec
CONSTANTS
  Universe = "quick"
  MapOrder = {}
  LastChanceAny = {"m"}
  WalkSorted = TRUE
  AssumeUserRange = TRUE
  QueryTypes = {"lookup"}
INVARIANTS NeverAnotherOverload
CHECK_DEADLOCK FALSE
