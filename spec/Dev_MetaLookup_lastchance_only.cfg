SPECIFICATION Spec
CONSTANTS
  Universe = "quick"
  MapOrder = {}
  LastChanceAny = {"m"}
  WalkSorted = TRUE
  AssumeUserRange = TRUE
INVARIANTS NeverAnotherOverload
CHECK_DEADLOCK FALSE
