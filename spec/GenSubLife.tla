---------------------------- MODULE GenSubLife ----------------------------
(***************************************************************************)
(* Behaviour export for SubLife: commands at states of rest, one "T"        *)
(* record per (state of rest, command) transition - for both designs, so    *)
(* that an implementation of either finds its outcomes among the allowed    *)
(* ones; whether a behaviour is acceptable is decided by the invariants in  *)
(* the trace validation, not here.                                           *)
(***************************************************************************)
EXTENDS SubLife, Json

VARIABLES hist, settled
gvars == <<svars, hist, settled>>
GInit == SInit /\ hist = <<>> /\ settled = TRUE

Obs == [got |-> [x \in Subs |-> got[x]],
        closed |-> [x \in Subs |-> IF evClosed[x] /\ reading[x] THEN 1 ELSE 0],
        free |-> FirstFree]

Cmd(o, a) == /\ hist' = Append(hist, [o |-> o, a |-> a, post |-> Obs]) /\ settled' = FALSE
Command ==
  \/ \E x \in Subs : \/ Subscribe(x) /\ Cmd("sub", x)
                     \/ Cancel(x) /\ Cmd("cancel", x)
                     \/ Pause(x) /\ gs[x] # "none" /\ Cmd("pause", x)
                     \/ Resume(x) /\ Cmd("resume", x)
  \/ \E m \in Msgs : PeerMsg(m) /\ Cmd("msg", m)
  \/ LocalClose /\ Cmd("close", 0)
  \/ PeerGone /\ Cmd("gone", 0)
Settle == /\ ~settled /\ settled' = TRUE
          /\ hist' = [hist EXCEPT ![Len(hist)].post = Obs]
          /\ PrintT(<<"T", ToJson(hist')>>)
          /\ UNCHANGED svars
GNext == IF ENABLED Internal THEN (Internal /\ UNCHANGED <<hist, settled>>)
         ELSE IF ~settled THEN Settle
         ELSE Command
GSpec == GInit /\ [][GNext]_gvars
View == <<svars, settled, IF settled THEN <<>> ELSE hist>>
=============================================================================
