SPECIFICATION Spec
CONSTANTS
  MaxDepth = 4
  SibSet = "four"
  NameSet = "four"
  ExportWide = FALSE
  ExportNear = FALSE
INVARIANTS Export InvRoundTrip InvBlanks
CHECK_DEADLOCK FALSE
