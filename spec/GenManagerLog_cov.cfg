\* transition coverage of a small world: 2 listeners, 1 recording provider, 2 levels, 1 pattern
SPECIFICATION GSpec
CONSTANTS
  Listeners = {1, 2}
  Providers = {1}
  RealProv = {}
  LevelsUsed = {2, 6}
  BadLevel = 7
  Pats = {"core"}
  BadPat = "("
  Cats = {"core", "core.net", "app"}
  InitLive = {}
  InitProv = {}
  Hist = TRUE
  MaxHold = 0
  MaxMgr = 3
  MaxLst = 1
  MgrOps = {"create", "addprov", "rmprov", "log"}
  LstOps = {"setlevel", "setprop", "addfilter", "clear", "terminate", "drop"}
  MaxCmds = 99
  PrintAll = TRUE
  Match <- MCMatch
  PCat <- MCPCat
  ClientOf <- MCClientOf
  Batches <- MCBatches1
  Dev_FilterOnlyWidens = TRUE
  Dev_MinCategoryJoin = TRUE
  Dev_NoRecomputeOnTerminate = TRUE
  Dev_LostListenerKept = TRUE
  Dev_StalePush = TRUE
  Dev_SetLevelBypassesProperty = TRUE
  Dev_AddFilterHoldsLock = TRUE
  Dev_UnlockedFilterRead = TRUE
  Dev_RejectedWriteSaved = FALSE
VIEW View
CHECK_DEADLOCK FALSE
