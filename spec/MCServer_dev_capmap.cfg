SPECIFICATION Spec
CONSTANTS
  Conns <- TwoConns
  InitAuthed <- NoConns
  Svcs = {1}
  Objs <- ProbeObjs
  Methods = {100}
  GenericActs = {8}
  FailTags = {}
  QCap = 2
  MCap = 1
  SrvAccept <- CodeFilter
  StubRuns <- ReqTypes
  AuthRuns <- CallOnly
  AuthMode = "yes"
  Script <- ScriptFTF
  PeerMsgs <- TinyAlphabet
  MaxSends = 2
  Hangups = FALSE
  Dev_CapMapUnsynchronised = TRUE
INVARIANTS ServerUp
CHECK_DEADLOCK FALSE
