SPECIFICATION Spec
CONSTANTS
  MaxChunks = 10
INVARIANTS TypeOK
CHECK_DEADLOCK FALSE
