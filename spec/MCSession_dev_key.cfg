SPECIFICATION Spec
CONSTANTS
  Gor = {"g1", "g2"}
  Eps = {"E"}
  Svcs = {"e", "xe"}
  Adv <- AdvAll
  MaxReq = 1
  MaxLoss = 0
  AuthMayRefuse = FALSE
  Dev_RUnlockUnderWriteLock = FALSE
  Dev_NilChannelWhenAllSkipped = FALSE
  Dev_AuthFailureLeaksConnection = FALSE
  Dev_DeadClientStaysInPool = FALSE
  Dev_PoolKeyedByAdvertised = TRUE
  Dev_CloserBeforeInsert = FALSE
INVARIANTS TypeOK AtMostOneConnPerEndpoint
CHECK_DEADLOCK FALSE
