------------------------------- MODULE Cancel -------------------------------
(***************************************************************************)
(* Call cancellation on the CLIENT side: bus/client.go client.Call with a  *)
(* cancel channel (l.45-136), reached from bus/proxy.go CallID (l.37-39:   *)
(* the channel is ctx.Done() of the proxy made by WithContext, l.172-174).  *)
(* An extension of Client.tla (calls over EndPoint.tla and a stream that    *)
(* can fail): the same registration / send / select steps, plus the cancel  *)
(* request of the application racing every one of them, the kind of the     *)
(* peer's answer (Reply, Error, Cancelled), and the frames the client       *)
(* leaves on the wire.                                                      *)
(*                                                                         *)
(*   action            code (bus/client.go unless said otherwise)           *)
(*   ----------------  ---------------------------------------------------- *)
(*   CancelReq(k)      the application closes the cancel channel / cancels  *)
(*                     the context (environment; proxy.go:37-39, 172-174)   *)
(*   XStart(k)         l.49-55 "Do nothing if cancel is already closed":     *)
(*                     closed -> ErrCancelled, nothing registered, no id     *)
(*                     drawn, nothing sent;  otherwise l.57-78 newMessage +  *)
(*                     MakeHandler (endpoint.go:278-293, one step under      *)
(*                     handlersMutex; filter on service/object/action/id,    *)
(*                     single shot, l.63-69)                                 *)
(*   XSendBegin(k)     l.81 endpoint.Send enters stream.Write                *)
(*   XSendEnd(k)       l.81 Write returned nil (the request is on the wire)  *)
(*   XSendFail(k)      l.81-86 Write failed: RemoveHandler(id), error        *)
(*   XAwaitReply(k)    l.101 `case response, ok = <-reply` with a message;   *)
(*                     l.115-135: Reply -> value, Error -> error,            *)
(*                     Cancelled -> ErrCancelled                             *)
(*   XAwaitErr(k)      l.99  `case err := <-errors` (closer pushed the       *)
(*                     shutdown's error, l.71-75)                            *)
(*   XAwaitClosed(k)   l.101-104 reply channel closed and empty              *)
(*   AwaitCancel(k)    l.105-107 `case <-cancel`: the select takes the       *)
(*                     cancel branch and enters stream.Write with the        *)
(*                     Cancel frame (cancelMessage l.39-43: the request's    *)
(*                     header, type Cancel, no payload)                      *)
(*   CancelSendEnd(k)  l.107,112 Write returned nil -> ErrCancelled          *)
(*                     NOTHING else: the reply handler registered at l.78    *)
(*                     stays in the end point's table (Cleanup = "none")     *)
(*   CancelSendFail(k) l.107-111 Write failed -> "cancel failed" error       *)
(*   XPeerReply(k,t)   the peer answers request k with a frame of kind t     *)
(*   end point steps   EndPoint.tla (dispatch / self removal of a matched    *)
(*                     single-shot handler endpoint.go:325-365, shutdown     *)
(*                     236-252, RemoveHandler 262-274)                       *)
(*                                                                         *)
(* When several branches of the select are ready (reply and cancel, error   *)
(* and cancel) Go picks any: both actions are enabled.                       *)
(*                                                                         *)
(* What the code does after a cancelled call: the handler is removed only    *)
(* by the late answer (it matches, keep = false) or by the loss of the       *)
(* connection.  `Cleanup` names the alternatives:                            *)
(*   "none"    the code                                                      *)
(*   "byslot"  RemoveHandler(id) after the Cancel frame (the obvious         *)
(*             repair) - refuted by TLC: the answer may have arrived         *)
(*             meanwhile, the slot been reused, and the handler removed is   *)
(*             ANOTHER call's (ErrorHasCause fails)                          *)
(*   "byident" removal only if the slot still holds this call's handler,     *)
(*             decided under the mutex (needs an end point API that does     *)
(*             not exist): the conforming design, all invariants hold        *)
(*   "lazy"    a repair inside client.go: the cancel branch sets a flag the  *)
(*             call's own filter reads; a flagged filter answers (no match,  *)
(*             do not keep), so the NEXT message dispatched - whatever it    *)
(*             is - makes the end point drop the handler, by identity and    *)
(*             under its mutex.  Every invariant but NoHandlerLeft holds;    *)
(*             LazyCleanup: the handler goes with the next message           *)
(* Dev_* switches are deviations used as vacuity guards (each makes one      *)
(* invariant fail) and as the model of the mutants in design-notes/mutants.  *)
(***************************************************************************)
EXTENDS Client

CONSTANTS Kinds,                 \* kinds of answer the peer uses: 2 Reply, 3 Error, 5 Cancelled
          Cancellable,           \* calls whose cancel channel the application may close
          Cleanup,               \* "none" | "byslot" | "byident"
          Dev_NoPreCheck,        \* l.49-55 missing: an already cancelled call registers and sends
          Dev_CancelBeforeSend,  \* the cancel branch can be taken before the request was written
          Dev_ResendCancel,      \* the Cancel frame is written twice
          Dev_WrongId,           \* the Cancel frame carries another call's id
          Dev_FilterIgnoresId,   \* the reply filter matches on service/object/action only
          Dev_SharedCancel,      \* a closed cancel channel is seen by every call of the client
          Dev_WaitsForAck        \* after the Cancel frame the call keeps waiting for the answer

VARIABLES creq,   \* [Calls -> BOOLEAN] the cancel channel of the call is closed
          pre,    \* [Calls -> BOOLEAN] it was closed when Call was entered (history)
          rk,     \* [Calls -> 0 | kind] kind of the answer the peer sent for request k
          got,    \* [Calls -> 0 | request] whose answer the call consumed (history)
          wire    \* frames completely written: [t |-> 1 Call | 7 Cancel, k |-> request named by the id, by |-> writer]

xvars == <<creq, pre, rk, got, wire>>
xall == <<allvars, xvars>>

XInit ==
  /\ CInit
  /\ creq = [k \in Calls |-> FALSE] /\ pre = [k \in Calls |-> FALSE]
  /\ rk = [k \in Calls |-> 0] /\ got = [k \in Calls |-> 0] /\ wire = <<>>

NCancel(k) == Cardinality({i \in 1..Len(wire) : wire[i].t = 7 /\ wire[i].by = k})
CancelSeen(k) == creq[k] \/ (Dev_SharedCancel /\ \E j \in Calls : creq[j])
Other(k) == IF \E j \in Calls : j # k THEN CHOOSE j \in Calls : j # k ELSE k

(***************************************************************************)
(* The application                                                          *)
(***************************************************************************)
CancelReq(k) ==
  /\ k \in Cancellable /\ ~creq[k]
  /\ creq' = [creq EXCEPT ![k] = TRUE]
  /\ UNCHANGED <<allvars, pre, rk, got, wire>>

(***************************************************************************)
(* Call                                                                     *)
(***************************************************************************)
XStart(k) ==
  /\ cst[k] = "idle"
  /\ pre' = [pre EXCEPT ![k] = CancelSeen(k)]
  /\ IF CancelSeen(k) /\ ~Dev_NoPreCheck
       THEN /\ cst' = [cst EXCEPT ![k] = "done"] /\ out' = [out EXCEPT ![k] = 5]
            /\ UNCHANGED <<vars, hslot, late, peer, seen, replied, half, derr, sub, subGot, evSent, faulted>>
       ELSE StartCall(k)
  /\ UNCHANGED <<creq, rk, got, wire>>

XSendBegin(k) == SendBegin(k) /\ UNCHANGED xvars

XSendEnd(k) ==
  /\ SendEnd(k)
  /\ wire' = Append(wire, [t |-> 1, k |-> k, by |-> k])
  /\ UNCHANGED <<creq, pre, rk, got>>

XSendFail(k) == SendFail(k) /\ UNCHANGED xvars

\* the select takes the message out of the reply channel; its type decides the outcome
XAwaitReply(k) ==
  /\ cst[k] = "wrote" /\ QLen(k) > 0
  /\ LET m == delivered[k][taken[k] + 1] IN
       /\ out' = [out EXCEPT ![k] = rk[m]]
       /\ got' = [got EXCEPT ![k] = m]
  /\ taken' = [taken EXCEPT ![k] = @ + 1]
  /\ cst' = [cst EXCEPT ![k] = "done"]
  /\ UNCHANGED <<slots, hst, delivered, cap, closerN, closeN, stream, mu, proc, inbox, cur, res>>
  /\ UNCHANGED <<hslot, late, peer, seen, replied, half, derr, sub, subGot, evSent, faulted>>
  /\ UNCHANGED <<creq, pre, rk, wire>>

XAwaitErr(k) == AwaitErr(k) /\ UNCHANGED xvars
XAwaitClosed(k) == AwaitClosed(k) /\ UNCHANGED xvars

\* `case <-cancel`: from here on the call looks at nothing else; it is inside Write with the Cancel frame
AwaitCancel(k) ==
  /\ cst[k] = "wrote" \/ (Dev_CancelBeforeSend /\ cst[k] = "reg")
  /\ CancelSeen(k)
  /\ ~(Dev_WaitsForAck /\ NCancel(k) > 0)
  /\ cst' = [cst EXCEPT ![k] = "cwriting"]
  /\ UNCHANGED <<vars, out, hslot, late, peer, seen, replied, half, derr, sub, subGot, evSent, faulted>>
  /\ UNCHANGED xvars

\* what happens to the reply handler once the Cancel frame is out
CleanupStep(k) ==
  CASE Cleanup \in {"none", "lazy"} -> UNCHANGED vars
    [] Cleanup = "byslot" -> (RemoveBegin(hslot[k]) \/ RemoveErr(hslot[k]))
    [] Cleanup = "byident" -> IF hslot[k] \in 1..Len(slots) /\ slots[hslot[k]] = k
                                THEN RemoveBegin(hslot[k])
                                ELSE mu = Free /\ UNCHANGED vars

CancelSendEnd(k) ==
  /\ cst[k] = "cwriting" /\ WriteOK
  /\ wire' = Append(wire, [t |-> 7, k |-> IF Dev_WrongId THEN Other(k) ELSE k, by |-> k])
  /\ IF Dev_ResendCancel /\ NCancel(k) = 0
       THEN UNCHANGED <<vars, cst, out>>                                   \* writes it once more
       ELSE IF Dev_WaitsForAck
         THEN cst' = [cst EXCEPT ![k] = "wrote"] /\ UNCHANGED <<vars, out>> \* back into the select
         ELSE /\ cst' = [cst EXCEPT ![k] = "done"] /\ out' = [out EXCEPT ![k] = 5]
              /\ CleanupStep(k)
  /\ UNCHANGED <<hslot, late, peer, seen, replied, half, derr, sub, subGot, evSent, faulted>>
  /\ UNCHANGED <<creq, pre, rk, got>>

CancelSendFail(k) ==
  /\ cst[k] = "cwriting" /\ ~WriteOK
  /\ cst' = [cst EXCEPT ![k] = "done"] /\ out' = [out EXCEPT ![k] = 3]
  /\ CleanupStep(k)
  /\ UNCHANGED <<hslot, late, peer, seen, replied, half, derr, sub, subGot, evSent, faulted>>
  /\ UNCHANGED xvars

(***************************************************************************)
(* The peer: one answer per request, of any kind, at any time after the     *)
(* request became visible - in particular after the call was cancelled      *)
(***************************************************************************)
XPeerReply(k, t) ==
  /\ PeerReply(k)
  /\ rk' = [rk EXCEPT ![k] = t]
  /\ UNCHANGED <<creq, pre, got, wire>>

(***************************************************************************)
(* The end point with the filters of client.Call                            *)
(***************************************************************************)
\* the call went through its cancel branch and has returned
Flagged(h) == Cleanup = "lazy" /\ h \in Calls /\ cst[h] = "done" /\ NCancel(h) > 0
CMatch(h) == IF h \in Calls THEN ~Flagged(h) /\ (IF Dev_FilterIgnoresId THEN cur \in Calls ELSE cur = h)
             ELSE IF h = HS THEN cur = EV ELSE FALSE
CKeep(h) == IF h \in Calls THEN ~CMatch(h) /\ ~Flagged(h) ELSE TRUE

XEPStep ==
  \/ \E h \in Handlers : \/ SyncCloser(h) \/ SyncQClose(h) \/ Visit(h, CMatch(h), CKeep(h))
                         \/ Deliver(h) \/ Blocked(h) \/ SelfRemove(h) \/ AsyncCloser(h) \/ AsyncQClose(h)
  \/ RemoveEnd \/ (peer # "failed" /\ ReadMsg) \/ DispatchBegin \/ ProcShutdown

XInternal ==
  \/ (XEPStep /\ UNCHANGED cvars /\ UNCHANGED xvars)
  \/ \E h \in Handlers : DetachC(h) /\ UNCHANGED xvars
  \/ ReadErrC /\ UNCHANGED xvars
  \/ \E k \in Calls : XSendBegin(k) \/ XAwaitReply(k) \/ XAwaitErr(k) \/ XAwaitClosed(k) \/ AwaitCancel(k)

XEnv ==
  \/ \E k \in Calls : \/ XStart(k) \/ XSendEnd(k) \/ XSendFail(k) \/ CancelSendEnd(k) \/ CancelSendFail(k)
                      \/ CancelReq(k) \/ \E t \in Kinds : XPeerReply(k, t)
  \/ (StartDisc \/ Fail \/ PeerCloseC \/ LocalClose) /\ UNCHANGED xvars

XNext == XInternal \/ XEnv
\* the write gates are part of the environment in replays, but a real Write returns by itself
XProgress == XInternal \/ \E k \in Calls : XSendEnd(k) \/ XSendFail(k) \/ CancelSendEnd(k) \/ CancelSendFail(k)
XSpec == XInit /\ [][XNext]_xall /\ WF_xall(XProgress)
         /\ (\A k \in Calls : WF_xall(XAwaitReply(k) \/ XAwaitErr(k) \/ XAwaitClosed(k) \/ AwaitCancel(k)))
         /\ (\A k \in Calls : WF_xall(CancelSendEnd(k) \/ CancelSendFail(k)))
         /\ (\A h \in Handlers : WF_xall((AsyncCloser(h) \/ AsyncQClose(h)) /\ UNCHANGED cvars /\ UNCHANGED xvars))

(***************************************************************************)
(* Properties (the client's half of C04 under cancellation)                 *)
(***************************************************************************)
XTypeOK == /\ \A k \in Calls : out[k] \in {0, 2, 3, 5} /\ rk[k] \in Kinds \cup {0} /\ got[k] \in Calls \cup {0}
           /\ \A k \in Calls : (cst[k] = "done") <=> (out[k] # 0)

\* exactly one outcome: once a call has returned nothing about it changes (value XOR cancelled XOR error)
OutcomeIsFinal == [][\A k \in Calls : out[k] # 0 => (out'[k] = out[k] /\ cst'[k] = "done")]_xall

\* a call consumes its own answer only - in particular never the late answer of a cancelled call
OwnAnswer == \A k \in Calls : got[k] \in {0, k}
ValueIsOwnReply == \A k \in Calls : out[k] = 2 => (got[k] = k /\ rk[k] = 2)
\* ErrCancelled only for a call whose own cancel channel was closed (or that the peer declared cancelled)
CancelledOnlyOnRequest == \A k \in Calls : out[k] = 5 => (creq[k] \/ (got[k] # 0 /\ rk[got[k]] = 5))
\* an error only after a fault of the connection or an Error answer: cancelling one call fails no other
ErrorHasCause == \A k \in Calls : out[k] = 3 => (faulted \/ (got[k] # 0 /\ rk[got[k]] = 3))

AtMostOneCancelFrame == \A k \in Calls : NCancel(k) <= 1
\* a Cancel frame follows the request it names, and is written by that call, after its cancel request
CancelAfterRequest == \A i \in 1..Len(wire) : wire[i].t = 7 =>
                         \E j \in 1..(i - 1) : wire[j].t = 1 /\ wire[j].by = wire[i].by
CancelFrameOwnId == \A i \in 1..Len(wire) : wire[i].t = 7 => wire[i].k = wire[i].by
CancelFrameOnlyOnRequest == \A i \in 1..Len(wire) : wire[i].t = 7 => creq[wire[i].by]
\* an already cancelled call does nothing at all
PreCancelledDoesNothing == \A k \in Calls : pre[k] =>
                             /\ hst[k] = "unreg" /\ out[k] = 5
                             /\ \A i \in 1..Len(wire) : wire[i].by # k
\* nothing is left behind: the handler of a call that has returned is gone (or is being removed by the
\* dispatch that delivered the answer)
NoHandlerLeft == \A k \in Calls : (cst[k] = "done" /\ hst[k] = "live") => (mu.op = "dispatch" /\ mu.h = k)

\* the "lazy" repair: a handler left by a cancelled call goes with the next message the end point reads
LazyCleanup == \A k \in Calls : (Flagged(k) /\ hst[k] = "live" /\ inbox # <<>>) ~> (hst[k] # "live")

\* a cancelled call returns, whatever the peer and the connection do
CancelledCallsReturn == \A k \in Calls : (creq[k] /\ cst[k] # "idle") ~> (cst[k] = "done")
\* ... and the others are not held up by it
XAnsweredCallsReturn == \A k \in Calls : replied[k] ~> (cst[k] = "done")
=============================================================================
