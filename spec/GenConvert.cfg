SPECIFICATION Spec
CONSTANTS
  Universe = "quick"
INVARIANTS InvWant InvValueOfTarget InvRoundTrip InvIdentity InvExclusive InvMapsKeepSize InvWellFormed Export
CHECK_DEADLOCK FALSE
