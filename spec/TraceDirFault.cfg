SPECIFICATION XSpec
CONSTANTS
  Names = {"a", "b"}
  MaxId = 100000
  BadKinds = {"noname", "nomachine", "nopid", "noep", "emptyep"}
  Eps = {"e1", "e2"}
CONSTRAINT Track
INVARIANTS NameHeldByAtMostOne VisibleIffReady EventsOncePerTransitionInOrder
POSTCONDITION Accepted
CHECK_DEADLOCK FALSE
