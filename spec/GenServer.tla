------------------------------ MODULE GenServer ------------------------------
(***************************************************************************)
(* Behaviour generation for C06 (spec -> code): hostile message sequences   *)
(* of unauthenticated peers on two connections.                             *)
(*                                                                         *)
(* hist = the frames the peers wrote: [c, m, w].  w = TRUE: the peer waited *)
(* until nothing moved inside the server before writing (the harness       *)
(* settles); w = FALSE: it wrote while the server was still working on     *)
(* earlier frames (pipelining - the documented asynchrony between service   *)
(* 0's mailbox goroutine and the consumer's firewall).  Every quiescent     *)
(* state exports <<hist, observation>>: what each peer has received, which  *)
(* streams the server closed, which probe methods ran, what the             *)
(* Authenticator was asked.  The harness groups by the written frames: a    *)
(* settled replay has exactly one expected observation, a pipelined replay  *)
(* a set (union over the w flags).                                          *)
(***************************************************************************)
EXTENDS MCServer, Json

VARIABLE hist
gvars == <<vars, hist>>

GSend(c, pm, w) ==
  /\ sent < MaxSends
  /\ w = Quiescent
  /\ hist = <<>> => c = "c1"        \* the two connections are interchangeable
  /\ c2s' = [c2s EXCEPT ![c] = Append(@, [type |-> pm.type, svc |-> pm.svc, obj |-> pm.obj, act |-> pm.act,
                                          id |-> sent + 1, tag |-> ToString(sent + 1), pl |-> pm.pl, conn |-> c])]
  /\ sent' = sent + 1
  /\ hist' = Append(hist, [c |-> c, m |-> pm, w |-> w])
  /\ UNCHANGED <<s2c, sclosed, pclosed, srvVars, histVars>>

GInit == Init /\ hist = <<>>
GNext == \/ SrvNext /\ UNCHANGED <<sent, hist>>
         \/ \E c \in Conns, pm \in PeerMsgs, w \in BOOLEAN : GSend(c, pm, w)
GSpec == GInit /\ [][GNext]_gvars

Obs == [got    |-> [c \in Conns |-> [i \in 1..Len(s2c[c]) |-> [type |-> s2c[c][i].type, id |-> s2c[c][i].id, val |-> s2c[c][i].val]]],
        closed |-> [c \in Conns |-> sclosed[c]],
        execs  |-> [i \in 1..Len(execLog) |-> [id |-> execLog[i].id, type |-> execLog[i].type, conn |-> execLog[i].conn]],
        auth   |-> [i \in 1..Len(authLog) |-> [pair |-> authLog[i].pair, ok |-> authLog[i].ok]]]

Export == (hist # <<>> /\ Quiescent) => PrintT(<<"H", ToJson([h |-> hist, o |-> Obs])>>)
=============================================================================
