------------------------------ MODULE SoupWire ------------------------------
(***************************************************************************)
(* Hostile-input generator for C07, run under TLC's simulator (the seed is *)
(* the check's seed).  A behaviour appends chunks from a structural        *)
(* alphabet; every state reached is an input (the inputs are closed under  *)
(* prefixes by construction).  Three walkers:                              *)
(*   mode 1  byte soup for the binary decoders: single structural bytes,   *)
(*           small and hostile 32-bit counts, signature strings            *)
(*   mode 2  token soup for signature.Parse                                *)
(*   mode 3  token soup for idl.ParsePackage                               *)
(* plus the deep-nesting descriptors ("N": open^n inner close^n).          *)
(* State variables are integers / sequences of integers only.              *)
(***************************************************************************)
EXTENDS Wire, Json

CONSTANT MaxChunks

ByteChunks == <<
   <<0>>, <<1>>, <<4>>, <<127>>, <<128>>, <<255>>, <<91>>, <<93>>, <<123>>, <<125>>, <<40>>, <<41>>,
   <<60>>, <<62>>, <<44>>, <<115>>, <<109>>, <<105>>, <<118>>,
   LE(0, 4), LE(1, 4), LE(2, 4), LE(3, 4), LE(5, 4),
   <<255, 255, 255, 255>>, <<0, 0, 0, 128>>, <<255, 255, 255, 127>>, <<0, 0, 1, 0>>, <<1, 16, 0, 0>>,
   Str(Sig(S("i"))), Str(Sig(S("s"))), Str(Sig(S("m"))), Str(Sig(S("v"))), Str(Sig(S("r"))), Str(Sig(S("o"))),
   Str(Sig(List(S("m")))), Str(Sig(List(S("s")))), Str(Sig(Map(S("s"), S("m")))), Str(Sig(List(S("v")))),
   Str(Sig(List(Tup(<<>>)))), Str(Sig(Tup(<<S("s"), List(S("i"))>>))), Str(Sig(Map(S("v"), S("v")))),
   Str(<<104, 105>>) >>

SigTokens == <<"[", "]", "{", "}", "(", ")", "<", ">", ",", "s", "m", "i", "v", "I", "b", "X", "o", "c", "L", "d",
               "r", "A", "a1", "_", " ", "ss", "[i]", "{sm}", "()", "(i)<A,a>", "<A<b>,a>">>

IdlTokens == <<"package", "interface", "struct", "enum", "end", "fn", "sig", "prop", "p", "Foo", "bar", "x", "_y",
               "(", ")", ":", ",", "->", "//", "NL", "=", "1", "-1", "int32", "str", "any", "obj", "bool", "uint64",
               "float32", "unknown", "Vec<", "Map<", "Tuple<", ">", "<", "uid:100", "range", "A<b>", "#", "'">>

Table(m) == CASE m = 1 -> ByteChunks [] m = 2 -> SigTokens [] m = 3 -> IdlTokens
(* every IDL walk starts from a well-formed header so that the walk reaches the grammar's interior *)
IdlHead == <<"package", "p", "NL", "interface", "Foo", "NL">>

VARIABLES mode, buf
vars == <<mode, buf>>

Out(m, b) == IF m = 1 THEN [mode |-> m, bytes |-> Concat([i \in 1..Len(b) |-> ByteChunks[b[i]]]), toks |-> <<>>]
             ELSE [mode |-> m, bytes |-> <<>>,
                   toks |-> (IF m = 3 THEN IdlHead ELSE <<>>) \o [i \in 1..Len(b) |-> Table(m)[b[i]]]]

Init == mode \in 1..3 /\ buf = <<>>
Next == /\ Len(buf) < MaxChunks
        /\ \E c \in 1..Len(Table(mode)) : buf' = Append(buf, c)
        /\ UNCHANGED mode
        /\ PrintT(<<"S", ToJson(Out(mode, buf'))>>)
Spec == Init /\ [][Next]_vars

TypeOK == mode \in 1..3 /\ Len(buf) <= MaxChunks /\ \A i \in 1..Len(buf) : buf[i] \in 1..Len(Table(mode))

(* deep nesting: text = open^n inner close^n *)
NestFamilies == {<<"sig", "[", "i", "]">>, <<"sig", "(", "i", ")">>, <<"sig", "{s", "i", "}">>,
                 <<"sig", "((", "i", ")<A,a>)">>, <<"sig", "(", "", ")">>, <<"sig", "[", "", "">>,
                 <<"idl", "Vec<", "int32", ">">>, <<"idl", "Map<str,", "int32", ">">>,
                 <<"idl", "Tuple<", "int32", ">">>, <<"idl", "Vec<", "", "">>}
NestDepths == {4, 8, 12, 16, 20, 24, 28, 32, 64, 256, 1000}
ASSUME \A f \in NestFamilies : \A n \in NestDepths :
          PrintT(<<"N", ToJson([lang |-> f[1], open |-> f[2], inner |-> f[3], close |-> f[4], n |-> n])>>)
=============================================================================
