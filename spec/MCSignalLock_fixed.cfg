SPECIFICATION Spec
CONSTANTS
  Users = {"u1", "u2"}
  Conns = {"cA", "cB"}
  MaxLen = 3
  Variant = "fixed"
  Disconnects = {"cA"}
INVARIANTS CloserDoesNotReenter NoSelfDeadlock NoBlockingUnderS TableConsistent
PROPERTIES ObjectKeepsServing
