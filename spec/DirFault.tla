------------------------------ MODULE DirFault ------------------------------
(* The service directory's notifications under SUBSCRIBER FAULTS (extension of
   C15): the outcome of a directory operation and the directory's state must
   not depend on the health of the observers of serviceAdded / serviceRemoved.

   Directory.tla (extended, not edited) is the sequential registry: one action
   per method, emission = one more entry of `events`.  Here the two emitting
   methods are cut where the code gives other goroutines (the peers, the
   readers of their connections) room to act, and the observers appear:

     bus/directory/directory.go  (the whole method runs under s.mutex)
       ReadyMove(id)   ServiceReady l.152-158       lock; staging -> services
                       -- gate directory.ready.moved l.159 --
       UnregMove(id)   UnregisterService l.131-136  lock; delete(services, id)
                       -- gate directory.unregister.deleted l.137 --
       ReadyFail / UnregQuiet / RegisterOp / UpdateOp / LookupOp / ListOp
                       the methods that emit nothing: one step each
                       (l.108-129, l.143-149, l.165-166, l.169-187, l.80-106)
       Return          l.160-164 / l.138-142: the error of SignalServiceAdded /
                       SignalServiceRemoved is DROPPED, `return nil`; unlock
     bus/signal.go  UpdateSignal (called through directory_stub_gen.go
                    SignalServiceAdded l.279-293 / SignalServiceRemoved l.294-308)
       Snapshot        l.214-221  copy of the matching subscribers under
                       signalsMutex.RLock (hook event signal/snapshot)
                       -- gate signal.update.send l.224, once per subscriber --
       SendNext        l.225-235  replyEvent -> channel.Send -> endPoint.Send ->
                       Message.Write on the subscriber's connection, in the
                       order of the snapshot.  io.EOF => the subscriber is
                       forgotten; ANY OTHER error => remembered as the value
                       UpdateSignal returns, the subscriber stays, the loop
                       goes on with the next subscriber
       NoticeOne(o,k)  forgetSignalUser l.115-131 under signalsMutex.Lock, run by
                       the closer of the handler that addSignalUser l.88-93
                       attached to the subscriber's connection: the entry is
                       overwritten by the LAST one and the slice shortened
                       (swap-remove: the order of the table changes)
     environment (the peers)
       Break(o)        the peer shuts down its read side / stops reading with
                       an error: the server's write fails with EPIPE - not
                       io.EOF - while the server's read side stays open, so
                       nothing tells the server and the observer STAYS in the
                       subscriber table
       Drop(o)         the peer closes its connection; the server's reader
                       will notice (NoticeOne) some time later
       Stall(o)        (WithStall) the peer neither reads nor fails: once the
                       socket buffer is full the server's write blocks - there
                       is no write deadline (bus/net/endpoint.go Send l.231,
                       bus/net/message.go Write l.187) - with s.mutex held

   The subscriber table (signalHandler.signals) is rendered as the backing
   array `arr` and its length `tlen`, because swap-remove leaves the old last
   entry in the array: a loop that walked the live array instead of the copy
   would meet one subscriber twice (Dev_LiveTable).

   Shadow variables s* run the *sequential* specification (INSTANCE of
   Directory) on the same operations with no observer at all: the property is
   that the real thing can not be told from it.

   Dev_* switches are deviations (all FALSE in the property configuration):
   each is a way the code could depend on the observers' health, each breaks
   one of the invariants below (vacuity guard, MCDirFault_dev_*.cfg).
   WithStall = TRUE is the code AS IT IS (OpReturns fails: finding
   dirfault/stall/...).                                                      *)
EXTENDS Directory

CONSTANTS ObsSeq,      \* the observers in the order in which they subscribed
          WithBreak, WithDrop, WithStall,      \* fault kinds the environment uses
          WithReads,                           \* Lookup / List among the operations (they only change `ret`)
          Dev_ReturnSendError,       \* Ready/Unregister return the error of the emission
          Dev_RollbackOnSendError,   \* ... and undo the state change before they do
          Dev_EmitThenCommit,        \* Unregister emits first and deletes only if that went well
          Dev_StopAtFirstError,      \* UpdateSignal gives up at the first failed send
          Dev_ResendOnError,         \* the directory emits once more when the emission failed
          Dev_LiveTable              \* UpdateSignal walks the live table instead of a copy

\* values for ObsSeq (a configuration file can not write a sequence)
Obs1 == <<"o1">>
Obs2 == <<"o1", "o2">>
Obs3 == <<"o1", "o2", "o3">>

\* at most one deviation at a time
Devs == <<Dev_ReturnSendError, Dev_RollbackOnSendError, Dev_EmitThenCommit, Dev_StopAtFirstError,
          Dev_ResendOnError, Dev_LiveTable>>
ASSUME Cardinality({j \in 1..Len(Devs) : Devs[j]}) <= 1

O == {ObsSeq[i] : i \in 1..Len(ObsSeq)}
Sigs == {"added", "removed"}       \* signal 106 serviceAdded, 107 serviceRemoved

VARIABLES health,   \* o -> "ok" | "deaf" | "gone" | "stalled"
          arr, tlen,  \* subscriber table: backing array of [o, k], logical length
          recv,     \* o -> sequence of events received
          cur,      \* the emitting operation in progress (s.mutex is held while cur.st # "idle")
          pre,      \* history: state and received counts when the operation in progress started
          sStaging, sServices, sLastID, sEvents, sRet, sLife   \* the sequential shadow
dvars == <<staging, services, lastID, events, ret, life>>
svars == <<sStaging, sServices, sLastID, sEvents, sRet, sLife>>
ovars == <<health, arr, tlen, recv>>
fvars == <<dvars, svars, ovars, cur, pre>>

Shadow == INSTANCE Directory WITH staging <- sStaging, services <- sServices, lastID <- sLastID,
                                   events <- sEvents, ret <- sRet, life <- sLife

IdleCur == [st |-> "idle", k |-> "", id |-> 0, n |-> "", ep |-> "", snap |-> <<>>, len |-> 0, i |-> 1,
            err |-> FALSE, tries |-> 0]
Here == [staging |-> staging, services |-> services, lastID |-> lastID,
         rl |-> [o \in O |-> Len(recv[o])]]
NoPre == [staging |-> <<>>, services |-> <<>>, lastID |-> 0, rl |-> [o \in O |-> 0]]
Table == SubSeq(arr, 1, tlen)
Entry(o, k) == [o |-> o, k |-> k]

FInit == /\ Init /\ Shadow!Init
         /\ health = [o \in O |-> "ok"]
         \* every observer subscribed to serviceAdded, then to serviceRemoved, one observer after the other
         /\ arr = [j \in 1..2 * Len(ObsSeq) |-> Entry(ObsSeq[(j + 1) \div 2], IF j % 2 = 1 THEN "added" ELSE "removed")]
         /\ tlen = 2 * Len(ObsSeq)
         /\ recv = [o \in O |-> <<>>]
         /\ cur = IdleCur
         /\ pre = NoPre

-----------------------------------------------------------------------------
(* operations that emit nothing: the whole method is one critical section *)
Quiet(A, SA) == /\ cur.st = "idle" /\ A /\ SA
                /\ UNCHANGED <<ovars, cur, pre>>
RegisterOp(n, k) == Quiet(Register(n, k), Shadow!Register(n, k))
UpdateOp(id, n, k, ep) == Quiet(Update(id, n, k, ep), Shadow!Update(id, n, k, ep))
LookupOp(n) == WithReads /\ Quiet(Lookup(n), Shadow!Lookup(n))
ListOp == WithReads /\ Quiet(List, Shadow!List)
ReadyFail(id) == id \notin DOMAIN staging /\ Quiet(Ready(id), Shadow!Ready(id))
UnregQuiet(id) == id \notin DOMAIN services /\ Quiet(Unregister(id), Shadow!Unregister(id))

(* the two emitting methods, first critical step: the linearization point *)
Emitting(k, id, inf) == [IdleCur EXCEPT !.st = "moved", !.k = k, !.id = id, !.n = inf.name, !.ep = inf.ep]
ReadyMove(id) ==
  /\ cur.st = "idle" /\ id \in DOMAIN staging
  /\ Ready(id) /\ Shadow!Ready(id)
  /\ pre' = Here
  /\ cur' = Emitting("added", id, staging[id])
  /\ UNCHANGED ovars
UnregMove(id) ==
  /\ cur.st = "idle" /\ id \in DOMAIN services
  /\ IF Dev_EmitThenCommit
       THEN /\ events' = Append(events, Ev("removed", id, services[id].name))
            /\ UNCHANGED <<staging, services, lastID, ret, life>>
       ELSE Unregister(id)
  /\ Shadow!Unregister(id)
  /\ pre' = Here
  /\ cur' = Emitting("removed", id, services[id])
  /\ UNCHANGED ovars

(* UpdateSignal *)
Matching(t, k) == SelectSeq(t, LAMBDA e : e.k = k)
Snapshot ==
  /\ cur.st = "moved"
  /\ cur' = [cur EXCEPT !.st = "sending", !.i = 1, !.err = FALSE,
                        !.snap = IF Dev_LiveTable THEN <<>> ELSE Matching(Table, cur.k),
                        !.len = IF Dev_LiveTable THEN tlen ELSE Len(Matching(Table, cur.k))]
  /\ UNCHANGED <<dvars, svars, ovars, pre>>
Cell(j) == IF Dev_LiveTable THEN arr[j] ELSE cur.snap[j]
SendNext ==
  /\ cur.st = "sending" /\ cur.i <= cur.len
  /\ LET e == Cell(cur.i) IN
       IF e.k # cur.k
         THEN cur' = [cur EXCEPT !.i = @ + 1] /\ UNCHANGED recv       \* (live table only) another signal's entry
         ELSE /\ health[e.o] # "stalled"          \* Write blocks: this step never happens
              /\ IF health[e.o] = "ok"
                   THEN /\ recv' = [recv EXCEPT ![e.o] = Append(@, Ev(cur.k, cur.id, cur.n))]
                        /\ cur' = [cur EXCEPT !.i = @ + 1]
                   ELSE /\ UNCHANGED recv              \* EPIPE / closed connection: not io.EOF
                        /\ cur' = [cur EXCEPT !.err = TRUE,
                                              !.i = IF Dev_StopAtFirstError THEN cur.len + 1 ELSE @ + 1]
  /\ UNCHANGED <<dvars, svars, health, arr, tlen, pre>>

(* back in the directory: what becomes of the emission's error *)
Return ==
  /\ cur.st = "sending" /\ cur.i > cur.len
  /\ CASE Dev_ResendOnError /\ cur.err /\ cur.tries = 0 ->
            /\ cur' = [cur EXCEPT !.st = "moved", !.tries = 1]
            /\ UNCHANGED dvars
       [] Dev_EmitThenCommit /\ cur.k = "removed" ->
            /\ cur' = IdleCur
            /\ IF cur.err
                 THEN ret' = R("send", 0) /\ UNCHANGED <<staging, services, lastID, events, life>>
                 ELSE /\ services' = Without(services, cur.id)
                      /\ life' = [life EXCEPT ![cur.id] = "goneR"]
                      /\ ret' = R("", 0)
                      /\ UNCHANGED <<staging, lastID, events>>
       [] Dev_RollbackOnSendError /\ cur.err ->
            /\ cur' = IdleCur
            /\ ret' = R("send", 0)
            /\ IF cur.k = "added"
                 THEN /\ staging' = With(staging, cur.id, services[cur.id])
                      /\ services' = Without(services, cur.id)
                      /\ life' = [life EXCEPT ![cur.id] = "staged"]
                 ELSE /\ services' = With(services, cur.id, [name |-> cur.n, ep |-> cur.ep])
                      /\ life' = [life EXCEPT ![cur.id] = "ready"]
                      /\ UNCHANGED staging
            /\ UNCHANGED <<lastID, events>>
       [] Dev_ReturnSendError /\ cur.err ->
            /\ cur' = IdleCur
            /\ ret' = R("send", 0)
            /\ UNCHANGED <<staging, services, lastID, events, life>>
       [] OTHER ->
            /\ cur' = IdleCur
            /\ UNCHANGED dvars
  /\ pre' = IF cur'.st = "idle" THEN NoPre ELSE pre
  /\ UNCHANGED <<svars, ovars>>

-----------------------------------------------------------------------------
(* the environment: silent changes of the observers' health *)
Break(o) == /\ WithBreak /\ health[o] = "ok"
            /\ health' = [health EXCEPT ![o] = "deaf"]
            /\ UNCHANGED <<dvars, svars, arr, tlen, recv, cur, pre>>
Stall(o) == /\ WithStall /\ health[o] = "ok"
            /\ health' = [health EXCEPT ![o] = "stalled"]
            /\ UNCHANGED <<dvars, svars, arr, tlen, recv, cur, pre>>
Drop(o) == /\ WithDrop /\ health[o] # "gone"
           /\ health' = [health EXCEPT ![o] = "gone"]
           /\ UNCHANGED <<dvars, svars, arr, tlen, recv, cur, pre>>

Pos(o, k) == CHOOSE j \in 1..tlen : arr[j] = Entry(o, k)
Has(o, k) == \E j \in 1..tlen : arr[j] = Entry(o, k)
SwapRemove(a, n, j) == [a EXCEPT ![j] = a[n]]      \* the old last entry stays in the array
NoticeOne(o, k) ==
  /\ health[o] = "gone" /\ Has(o, k)
  /\ arr' = SwapRemove(arr, tlen, Pos(o, k))
  /\ tlen' = tlen - 1
  /\ UNCHANGED <<dvars, svars, health, recv, cur, pre>>

Fault == \E o \in O : Break(o) \/ Stall(o) \/ Drop(o) \/ \E k \in Sigs : NoticeOne(o, k)
Progress == Snapshot \/ SendNext \/ Return
Operation == \/ \E n \in AllNames, k \in Kinds : RegisterOp(n, k)
             \/ \E id \in Ids : ReadyMove(id) \/ ReadyFail(id) \/ UnregMove(id) \/ UnregQuiet(id)
             \/ \E id \in Ids, n \in AllNames, k \in Kinds, ep \in Eps : UpdateOp(id, n, k, ep)
             \/ \E n \in AllNames : LookupOp(n)
             \/ ListOp
FNext == Operation \/ Progress \/ Fault
FSpec == FInit /\ [][FNext]_fvars
FairSpec == FSpec /\ WF_fvars(Progress)

-----------------------------------------------------------------------------
(* The property.  `quiescent` = no directory operation in progress.          *)
Quiescent == cur.st = "idle"
IsPrefix(s, t) == Len(s) <= Len(t) /\ SubSeq(t, 1, Len(s)) = s
Announced == SubSeq(sEvents, 2, Len(sEvents))    \* the transitions since the observers subscribed

FTypeOK == /\ health \in [O -> {"ok", "deaf", "gone", "stalled"}]
           /\ tlen \in 0..Len(arr)
           /\ cur.st \in {"idle", "moved", "sending"}
           /\ \A o \in O : health[o] # "gone" => Has(o, "added") /\ Has(o, "removed")

\* a legal register / ready / unregister succeeds, an illegal one fails, whatever the observers do:
\* the value returned is the one the registry without observers returns
OutcomeIsSequential == Quiescent => ret = sRet

\* ... and the state changes exactly as it does there (name and id released on unregister included)
StateIsSequential == Quiescent => <<staging, services, lastID>> = <<sStaging, sServices, sLastID>>

\* healthy observers: exactly one serviceAdded per transition to ready, one serviceRemoved per removal, in order
HealthyObserversSeeEveryTransitionOnce ==
  \A o \in O : health[o] = "ok" =>
     IF Quiescent THEN recv[o] = Announced
     ELSE recv[o] = Announced \/ recv[o] = SubSeq(Announced, 1, Len(Announced) - 1)

\* nobody ever receives anything else than the transitions, each once, in order
EveryObserverSeesAPrefix == \A o \in O : IsPrefix(recv[o], Announced)

\* never a serviceRemoved for a service that stays registered
NoRemovedForRegistered ==
  Quiescent => \A o \in O : \A j \in 1..Len(recv[o]) :
     recv[o][j].k = "removed" => recv[o][j].id \notin (DOMAIN services \cup DOMAIN staging)

\* a failed operation changes nothing and emits nothing (action property: the step on which an operation
\* returns a failure; `pre` is what was there when it started)
FailedOpChangesAndEmitsNothing ==
  [][(cur'.st = "idle" /\ ret'.e # "" /\ (cur.st # "idle" \/ ret' # ret \/ <<staging, services, lastID>>' # <<staging, services, lastID>>)) =>
       IF cur.st = "idle"
         THEN UNCHANGED <<staging, services, lastID, events, recv>>
         ELSE /\ <<staging', services', lastID'>> = <<pre.staging, pre.services, pre.lastID>>
              /\ \A o \in O : Len(recv'[o]) = pre.rl[o]]_fvars

\* whatever is retried: per identifier at most one serviceAdded, then at most one serviceRemoved
AtMostOncePerTransition ==
  \A o \in O : \A id \in 1..MaxId :
     LET es == SelectSeq(recv[o], LAMBDA e : e.id = id) IN
       \/ es = <<>>
       \/ Len(es) = 1 /\ es[1].k = "added"
       \/ Len(es) = 2 /\ es[1].k = "added" /\ es[2].k = "removed"
       \/ id = 1 /\ Len(es) = 1 /\ es[1].k = "removed"    \* the directory itself: ready before anybody subscribed

\* the directory's own invariants (Directory.tla) at quiescence
QNameHeldByAtMostOne == Quiescent => NameHeldByAtMostOne
QVisibleIffReady == Quiescent => VisibleIffReady
QEventsOncePerTransitionInOrder == Quiescent => EventsOncePerTransitionInOrder

\* what the code does with an observer whose connection only fails on write: it stays subscribed
DeafStaysSubscribed == \A o \in O : health[o] \in {"deaf", "stalled"} => Has(o, "added") /\ Has(o, "removed")

\* the two closers of a lost connection run in any order: the order of the survivors, per signal, is the same
\* (justifies the fixed order used by the behaviour export)
RemoveBoth(o, k1, k2) ==
  LET p1 == Pos(o, k1)
      a1 == SwapRemove(arr, tlen, p1)
      t1 == SubSeq(a1, 1, tlen - 1)
      p2 == CHOOSE j \in 1..tlen - 1 : t1[j] = Entry(o, k2)
      a2 == SwapRemove(a1, tlen - 1, p2)
  IN SubSeq(a2, 1, tlen - 2)
Paired == \A o \in O : Has(o, "added") <=> Has(o, "removed")      \* no other connection half forgotten
NoticeOrderIrrelevant ==
  Paired => \A o \in O : (Has(o, "added") /\ Has(o, "removed")) =>
     \A k \in Sigs : Matching(RemoveBoth(o, "added", "removed"), k) = Matching(RemoveBoth(o, "removed", "added"), k)

\* state constraint of the small configurations: the directory does not unregister itself
KeepDirectory == 1 \in DOMAIN services

\* liveness: an operation that started returns (fails with WithStall: the code as it is)
OpReturns == (cur.st # "idle") ~> (cur.st = "idle")
=============================================================================
