SPECIFICATION TSpec
CONSTANTS
  Valid <- ValidRange
  Invalid <- InvalidRange
  Subs = {"s1", "s2"}
  WrongKinds <- AllWrong
  Dev_ValidateByBytesOnly = FALSE
  MaxWrites = 0
VIEW TView
CONSTRAINT Track
INVARIANTS TypedReads StoredTyped AcceptedWritesValidated OneEventPerAcceptedWrite
POSTCONDITION Report
CHECK_DEADLOCK FALSE
