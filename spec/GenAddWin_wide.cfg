SPECIFICATION GSpec
CONSTANTS
  NAdd = 3
  StreamLen = 3
  MaxReseed = 2
  MaxCalls = 1
  MaxRemoves = 1
  ReserveMode = "both"
  CommitMode = "both"
  PendingAnswers = TRUE
  RemoveReserved = TRUE
  WithTerminate = TRUE
  Tag = "T"
  MaxLen = 99
  SampleMod = 20
VIEW View
CHECK_DEADLOCK FALSE
