-------------------------- MODULE DirectoryProofs --------------------------
(* TLAPS proof that the safety core of C15's sequential specification is an
   INDUCTIVE invariant of Directory.tla for EVERY set of names, every bound
   MaxId and every number of operations (TLC checks the same formulas for 3
   names and identifiers <= 4/5 only).  *)
EXTENDS Directory, TLAPS

ASSUME MaxIdNat == MaxId \in Nat

LifeStates == {"staged", "ready", "goneS", "goneR"}

IsInfo(x) == x = [name |-> x.name, ep |-> x.ep]

Ind == /\ lastID \in Nat /\ lastID >= 1
       /\ \A i \in DOMAIN staging : IsInfo(staging[i])
       /\ \A i \in DOMAIN services : IsInfo(services[i])
       /\ DOMAIN life = 1..lastID
       /\ \A i \in DOMAIN life : life[i] \in LifeStates
       /\ DOMAIN staging \subseteq 1..lastID
       /\ DOMAIN services \subseteq 1..lastID
       /\ DOMAIN staging \cap DOMAIN services = {}
       /\ \A i \in DOMAIN life : (i \in DOMAIN services) <=> (life[i] = "ready")
       /\ \A i \in DOMAIN life : (i \in DOMAIN staging) <=> (life[i] = "staged")
       /\ \A i, j \in DOMAIN staging : i # j => staging[i].name # staging[j].name
       /\ \A i, j \in DOMAIN services : i # j => services[i].name # services[j].name
       /\ \A i \in DOMAIN staging, j \in DOMAIN services : staging[i].name # services[j].name

THEOREM InitInd == Init => Ind
  BY DEF Init, Ind, LifeStates, SD, IsInfo

LEMMA RegisterInd == ASSUME Ind, NEW n \in AllNames, NEW k \in Kinds, Register(n, k) PROVE Ind'
  BY MaxIdNat DEF Ind, Register, Unchanged, With, NamesOf, LifeStates, R, IsInfo

LEMMA ReadyInd == ASSUME Ind, NEW id \in Ids, Ready(id) PROVE Ind'
  BY DEF Ind, Ready, Unchanged, With, Without, LifeStates, R, Ev, IsInfo

LEMMA UnregisterInd == ASSUME Ind, NEW id \in Ids, Unregister(id) PROVE Ind'
  BY DEF Ind, Unregister, Unchanged, With, Without, LifeStates, R, Ev, IsInfo

LEMMA UpdateInd == ASSUME Ind, NEW id \in Ids, NEW n \in AllNames, NEW k \in Kinds, NEW ep \in Eps, Update(id, n, k, ep) PROVE Ind'
<1>1. CASE k # "ok" \/ id \notin DOMAIN services \/ services[id].name # n
  BY <1>1 DEF Ind, Update, Unchanged, LifeStates, R, IsInfo
<1>2. CASE k = "ok" /\ id \in DOMAIN services /\ services[id].name = n
  <2>1. services' = [services EXCEPT ![id].ep = ep] /\ UNCHANGED <<staging, lastID, events, life>>
    BY <1>2 DEF Update
  <2>2. DOMAIN services' = DOMAIN services
    BY <2>1
  <2>3. \A j \in DOMAIN services : services'[j].name = services[j].name /\ IsInfo(services'[j])
    <3>1. IsInfo(services[id])
      BY <1>2 DEF Ind
    <3>2. services'[id] = [services[id] EXCEPT !.ep = ep]
      BY <2>1, <1>2
    <3>3. services'[id] = [name |-> services[id].name, ep |-> ep]
      BY <3>1, <3>2 DEF IsInfo
    <3>4. \A j \in DOMAIN services : j # id => services'[j] = services[j]
      BY <2>1
    <3> QED BY <3>3, <3>4 DEF Ind, IsInfo
  <2> QED BY <2>1, <2>2, <2>3 DEF Ind, LifeStates
<1> QED BY <1>1, <1>2

LEMMA LookupInd == ASSUME Ind, NEW n \in AllNames, Lookup(n) PROVE Ind'
  BY DEF Ind, Lookup, Unchanged, IsInfo

LEMMA ListInd == ASSUME Ind, List PROVE Ind'
  BY DEF Ind, List, Unchanged, IsInfo

THEOREM NextInd == Ind /\ [Next]_vars => Ind'
<1>1. ASSUME Ind, Next PROVE Ind'
  BY <1>1, RegisterInd, ReadyInd, UnregisterInd, UpdateInd, LookupInd, ListInd DEF Next
<1>2. ASSUME Ind, UNCHANGED vars PROVE Ind'
  BY <1>2 DEF Ind, vars, IsInfo
<1> QED BY <1>1, <1>2

THEOREM Safety == Spec => []Ind
  BY InitInd, NextInd, PTL DEF Spec

(* what the inductive invariant gives: the state predicates of C15 *)
THEOREM IndImplies == Ind => NameHeldByAtMostOne
  BY DEF Ind, NameHeldByAtMostOne

THEOREM IndImpliesVisible == Ind => /\ \A i \in DOMAIN life : (i \in DOMAIN services) <=> (life[i] = "ready")
                                    /\ \A i \in DOMAIN life : (i \in DOMAIN staging) <=> (life[i] = "staged")
  BY DEF Ind

(* identifiers are assigned strictly increasing and never reused: the action under the box of
   IdsStrictlyIncreasingNeverReused holds for every step from a state of the inductive invariant *)
IdsAct == /\ lastID' >= lastID
          /\ \A i \in DOMAIN life : i \in DOMAIN life'
          /\ \A i \in DOMAIN life' \ DOMAIN life : i = lastID' /\ lastID' = lastID + 1 /\ ret'.v = i
          /\ \A i \in DOMAIN life : life[i] \in {"goneS", "goneR"} => life'[i] = life[i]

LEMMA IdsRegister == ASSUME Ind, NEW n \in AllNames, NEW k \in Kinds, Register(n, k) PROVE IdsAct
  BY MaxIdNat DEF Ind, Register, Unchanged, With, NamesOf, LifeStates, R, IdsAct
LEMMA IdsReady == ASSUME Ind, NEW id \in Ids, Ready(id) PROVE IdsAct
  BY DEF Ind, Ready, Unchanged, With, Without, LifeStates, R, Ev, IdsAct
LEMMA IdsUnregister == ASSUME Ind, NEW id \in Ids, Unregister(id) PROVE IdsAct
  BY DEF Ind, Unregister, Unchanged, With, Without, LifeStates, R, Ev, IdsAct
LEMMA IdsUpdate == ASSUME Ind, NEW id \in Ids, NEW n \in AllNames, NEW k \in Kinds, NEW ep \in Eps, Update(id, n, k, ep) PROVE IdsAct
  BY DEF Ind, Update, Unchanged, LifeStates, R, IdsAct
LEMMA IdsLookup == ASSUME Ind, NEW n \in AllNames, Lookup(n) PROVE IdsAct
  BY DEF Ind, Lookup, Unchanged, IdsAct
LEMMA IdsList == ASSUME Ind, List PROVE IdsAct
  BY DEF Ind, List, Unchanged, IdsAct

THEOREM IdsStep == Ind /\ [Next]_vars => IdsAct \/ UNCHANGED vars
<1>1. ASSUME Ind, Next PROVE IdsAct
  BY <1>1, IdsRegister, IdsReady, IdsUnregister, IdsUpdate, IdsLookup, IdsList DEF Next
<1> QED BY <1>1
=============================================================================
