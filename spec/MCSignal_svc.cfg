SPECIFICATION Spec
CONSTANTS
  Threads <- Cast18
  Conns = {"c1"}
  Signals = {"A"}
  Objects = {"o1", "o3"}
  ConnOf <- CastConn
  SigOf <- CastSig
  ObjOf <- CastObj
  Rounds <- CR1
  EmitSeq <- EmitO13
  QCap = 2
  Dev_ProxySectionsNotAtomic = FALSE
  Dev_SendAfterSnapshot = FALSE
  Devs = {}
  Probe <- NoProbe
  Failing = {}
  Inject <- NoInject
  Rogue = {}
INVARIANTS TypeOK NoDuplicate InOrderNoGap Complete NoForeignSignal ClosedAfterCancel NothingAfterUnregisterAck OthersUndisturbed AtMostOneRegistration NoLeak RemovedAtMostOnce NoDeadRegistration
CHECK_DEADLOCK FALSE
