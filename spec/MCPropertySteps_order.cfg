SPECIFICATION Spec
CONSTANTS
  Updaters = {"u1", "u2"}
  Subs = {"s1", "s2"}
  ValuesOf <- ValuesT
  MaxOps <- OpsT2
  InitTables <- TabNone
  Foreign = {}
  Movers = {}
  Closers = {}
  MaxMoves = 0
  Atomic = FALSE
  Dev_IterateLiveSlice = FALSE
  Dev_SendErrorFailsWrite = FALSE
INVARIANTS EventsInWriteOrder
CHECK_DEADLOCK FALSE
