SPECIFICATION Spec
CONSTANTS
  Updaters = {"u1", "u2"}
  Subs = {"s1", "s2"}
  ValuesOf <- ValuesT
  MaxOps <- OpsT2
INVARIANTS EventsInWriteOrder
CHECK_DEADLOCK FALSE
