SPECIFICATION GSpec
CONSTANTS
  Names = {"a"}
  MaxId = 3
  BadKinds = {"noname"}
  Eps = {}
  UpdKinds = {"ok"}
  ObsSeq <- Obs2
  WithBreak = TRUE
  WithDrop = TRUE
  WithStall = FALSE
  WithReads = FALSE
  WithPlans = TRUE
  SeqMode = TRUE
  MaxLen = 5
  Dev_ReturnSendError = FALSE
  Dev_RollbackOnSendError = FALSE
  Dev_EmitThenCommit = FALSE
  Dev_StopAtFirstError = FALSE
  Dev_ResendOnError = FALSE
  Dev_LiveTable = FALSE
INVARIANTS OutcomeIsSequential StateIsSequential HealthyObserversSeeEveryTransitionOnce EveryObserverSeesAPrefix
CHECK_DEADLOCK FALSE
