SPECIFICATION Spec
CONSTANTS
  Cap = 10
  NMsgs = 5
  Dev_StopOnConsumerError = FALSE
INVARIANTS RoomMeansNoDrop
CHECK_DEADLOCK FALSE
