SPECIFICATION GSpec
CONSTANTS
  Handlers = {1, 2, 101, 102, 103, 104, 105, 106, 107, 108, 109}
  Users = {1, 2}
  Prefill = 9
  Msgs = {1001}
  MaxMsgs = 1
  Kinds = {1, 2}
  InitSlots = 10
VIEW View
INVARIANTS QuiescentIsExact CloserAtMostOnce QueueCloseAtMostOnce CloserBeforeQueueClose
CHECK_DEADLOCK FALSE
