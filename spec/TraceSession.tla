---------------------------- MODULE TraceSession ----------------------------
(* Validation of recorded executions of session.Session against Session.tla
   (C19, c).  The hooks of Session.client emit, while the lock protecting the
   step is held,

     miss(call, addr)          lookup under RLock found nothing
     hit(call, addr, client)   lookup under RLock found `client`
     dialed(call, addr)        a new connection was established
     insert(call, addr, client)  under the write lock: poll[addr] := client
     dup(call, addr, client)     under the write lock: entry found, own connection closed
     closed(addr)              closer: entry deleted under the write lock

   Every request (call) is one goroutine of the specification with MaxReq = 1.
   Each event stands for the fixed sequence of specification actions that the
   code performs inside that critical section; the trace specification runs
   them one by one (micro-steps), so every invariant of Session.tla is
   evaluated in every intermediate state and an event that is not enabled
   (an insert while the pool holds an entry, a hit on an empty pool, a hit
   returning another client than the pooled one ...) rejects the trace.
   Rounds (one fresh session each) are concatenated: reset ... end.          *)
EXTENDS Session, Json, IOUtils, TLCExt

ASSUME TLCSet(2, ndJsonDeserialize(IOEnv.TRACE))
TraceLog == TLCGet(2)
ASSUME TLCSet(3, Len(TraceLog))
TraceLen == TLCGet(3)

CONSTANT MaxCalls
CallRange == {"c" \o ToString(i) : i \in 1..MaxCalls}     \* cfg: Gor <- CallRange

VARIABLES l,     \* next event
          k,     \* next micro-step of that event
          cid    \* address -> identity of the real pooled client (0: none)
tvars == <<vars, l, k, cid>>

Prog(e) == CASE e = "miss"   -> <<"Start", "RLockEnter", "LookupMiss">>
             [] e = "hit"    -> <<"Start", "RLockEnter", "LookupHit">>
             [] e = "dialed" -> <<"Dial">>
             [] e = "insert" -> <<"LockWait", "Lock", "Insert">>
             [] e = "dup"    -> <<"LockWait", "Lock", "Dup">>
             [] e = "closed" -> <<"Closer">>
             [] OTHER        -> <<"none">>

Do(name, g, a) ==
  CASE name = "Start"      -> Start(g, a)
    [] name = "RLockEnter" -> RLockEnter(g) /\ pc'[g] = "locked_r"
    [] name = "LookupMiss" -> LookupMiss(g) /\ tgt[g] = a
    [] name = "LookupHit"  -> LookupHit(g) /\ tgt[g] = a
    [] name = "Dial"       -> Dial(g) /\ tgt[g] = a
    [] name = "LockWait"   -> LockWait(g) /\ tgt[g] = a
    [] name = "Lock"       -> Lock(g)
    [] name = "Insert"     -> Insert(g)
    [] name = "Dup"        -> Dup(g)
    [] name = "Closer"     -> Closer(a)

TInit == Init /\ l = 1 /\ k = 1 /\ cid = [a \in Addrs |-> 0]

Event ==
  /\ l <= TraceLen
  /\ LET T == TraceLog[l]
         P == Prog(T.k)
     IN /\ T.k \notin {"reset", "end"}
        /\ Do(P[k], T.call, T.addr)
        /\ IF k < Len(P)
             THEN k' = k + 1 /\ l' = l /\ UNCHANGED cid
             ELSE /\ k' = 1 /\ l' = l + 1
                  /\ CASE T.k = "insert" -> cid' = [cid EXCEPT ![T.addr] = T.client]
                       [] T.k = "closed" -> cid' = [cid EXCEPT ![T.addr] = 0]
                       [] T.k \in {"hit", "dup"} -> T.client = cid[T.addr] /\ UNCHANGED cid   \* the SHARED client
                       [] OTHER -> UNCHANGED cid

Reset ==
  /\ l <= TraceLen /\ TraceLog[l].k = "reset" /\ k = 1
  /\ pc' = [g \in Gor |-> "idle"] /\ tgt' = [g \in Gor |-> CHOOSE a \in Addrs : TRUE]
  /\ mine' = [g \in Gor |-> NULL] /\ ret' = [g \in Gor |-> NULL] /\ reqs' = [g \in Gor |-> 0]
  /\ poll' = [a \in Addrs |-> NULL]
  /\ readers' = {} /\ writer' = NoG /\ wwait' = {}
  /\ conns' = [c \in {} |-> [addr |-> CHOOSE a \in Addrs : TRUE, open |-> TRUE]]
  /\ crashed' = FALSE /\ leaked' = FALSE
  /\ svcList' = Addrs /\ svcMu' = NoG /\ dirty' = FALSE
  /\ cid' = [a \in Addrs |-> 0]
  /\ l' = l + 1 /\ k' = 1

\* end of a round: everybody returned (the quiescence invariants are evaluated in this state)
End == /\ l <= TraceLen /\ TraceLog[l].k = "end" /\ k = 1
       /\ Quiescent
       /\ l' = l + 1 /\ UNCHANGED <<vars, k, cid>>

TNext == Event \/ Reset \/ End
TSpec == TInit /\ [][TNext]_tvars

Track == TLCSet(1, IF TLCGet(1) < l THEN l ELSE TLCGet(1))
Accepted == /\ PrintT(<<"HWM", TLCGet(1), TraceLen>>)
            /\ TLCGet(1) = TraceLen + 1
ASSUME TLCSet(1, 0)
=============================================================================
