---------------------------- MODULE TraceSession ----------------------------
(* Validation of recorded executions of session.Session against Session.tla
   (C19, c).  The hooks of Session.client emit, while the lock protecting the
   step is held,

     request(call, svc)        client(info) entered for service svc
     miss(call)                lookup under RLock found nothing for any advertised address
     hit(call, addr, client)   lookup under RLock found `client` under addr
     dialed(call, addr)        SelectEndPoint connected to addr and was authenticated
     selfail(call)             SelectEndPoint returned an error
     insert(call, addr, client)  under the write lock: poll[addr] := client
     dup(call, addr, client)     under the write lock: entry found, own connection closed
     closed(addr)              closer: entry deleted under the write lock

   Every request (call) is one goroutine of the specification with MaxReq = 1.
   Each event stands for the fixed sequence of specification actions that the
   code performs inside that critical section; the trace specification runs
   them one by one (micro-steps), so every invariant of Session.tla is
   evaluated in every intermediate state and an event that is not enabled
   (an insert while the pool holds an entry, a hit on an empty pool, a hit
   returning another client than the pooled one, a connection to another
   address than the first usable one of the service's list, an entry under
   another key than the connected address, an error for a service that can
   be reached and was not refused ...) rejects the trace.
   Rounds (one fresh session each) are concatenated: reset ... end.          *)
EXTENDS Session, Json, IOUtils, TLCExt

ASSUME TLCSet(2, ndJsonDeserialize(IOEnv.TRACE))
TraceLog == TLCGet(2)
ASSUME TLCSet(3, Len(TraceLog))
TraceLen == TLCGet(3)

CONSTANT MaxCalls
CallRange == {"c" \o ToString(i) : i \in 1..MaxCalls}     \* cfg: Gor <- CallRange
\* the services of the free-running harness + the directory itself (cfg: Adv <- AdvTrace)
AdvTrace == [s \in DOMAIN AdvAll \cup {"dir"} |-> IF s = "dir" THEN <<"D">> ELSE AdvAll[s]]

VARIABLES l,     \* next event
          k,     \* next micro-step of that event
          cid    \* address -> identity of the real pooled client (0: none)
tvars == <<vars, l, k, cid>>

Prog(e, g) == CASE e = "request" -> <<"Start">>
                [] e = "miss"    -> <<"RLockEnter", "LookupMiss">>
                [] e = "hit"     -> <<"RLockEnter", "LookupHit">>
                [] e = "dialed"  -> <<"SelectDial", "AuthOK">>
                [] e = "selfail" -> IF Reachable(svc[g]) THEN <<"SelectDial", "AuthRefused">> ELSE <<"SelectFail">>
                [] e = "insert"  -> <<"LockWait", "Lock", "Insert", "AddHandler">>
                [] e = "dup"     -> <<"LockWait", "Lock", "Dup">>
                [] e = "closed"  -> <<"Lose", "Closer">>
                [] OTHER         -> <<"none">>

Do(name, g, T) ==
  CASE name = "Start"      -> Start(g, T.svc)
    [] name = "RLockEnter" -> RLockEnter(g) /\ pc'[g] = "locked_r"
    [] name = "LookupMiss" -> LookupMiss(g)
    [] name = "LookupHit"  -> LookupHit(g) /\ FirstHit(svc[g]) = T.addr
    [] name = "SelectDial" -> SelectDial(g)
    [] name = "SelectFail" -> SelectFail(g)
    [] name = "AuthOK"     -> AuthOK(g) /\ cad'[g] = T.addr              \* the address actually connected
    [] name = "AuthRefused" -> AuthRefused(g)
    [] name = "LockWait"   -> LockWait(g) /\ MyKey(g) = T.addr            \* the key the pool is accessed under
    [] name = "Lock"       -> Lock(g)
    [] name = "Insert"     -> Insert(g)
    [] name = "AddHandler" -> AddHandler(g)
    [] name = "Dup"        -> Dup(g)
    [] name = "Lose"       -> poll[T.addr] # NULL /\ Lose(poll[T.addr])
    [] name = "Closer"     -> \E c \in cpend : conns[c].key = T.addr /\ Closer(c)

TInit == Init /\ l = 1 /\ k = 1 /\ cid = [a \in AllAddrs |-> 0]

Event ==
  /\ l <= TraceLen
  /\ LET T == TraceLog[l]
         P == Prog(T.k, T.call)
     IN /\ T.k \notin {"reset", "end"}
        /\ Do(P[k], T.call, T)
        /\ IF k < Len(P)
             THEN k' = k + 1 /\ l' = l /\ UNCHANGED cid
             ELSE /\ k' = 1 /\ l' = l + 1
                  /\ CASE T.k = "insert" -> cid' = [cid EXCEPT ![T.addr] = T.client]
                       [] T.k = "closed" -> cid' = [cid EXCEPT ![T.addr] = 0]
                       [] T.k \in {"hit", "dup"} -> T.client = cid[T.addr] /\ UNCHANGED cid   \* the SHARED client
                       [] OTHER -> UNCHANGED cid

Reset ==
  /\ l <= TraceLen /\ TraceLog[l].k = "reset" /\ k = 1
  /\ pc' = [g \in Gor |-> "idle"] /\ svc' = [g \in Gor |-> AnySvc]
  /\ mine' = [g \in Gor |-> NULL] /\ cad' = [g \in Gor |-> ""] /\ ret' = [g \in Gor |-> NULL]
  /\ res' = [g \in Gor |-> "none"] /\ reqs' = [g \in Gor |-> 0]
  /\ poll' = [a \in AllAddrs |-> NULL]
  /\ readers' = {} /\ writer' = NoG /\ wwait' = {}
  /\ conns' = NoConns /\ cpend' = {} /\ losses' = 0
  /\ crashed' = FALSE /\ leaked' = FALSE
  /\ svcList' = Svcs /\ svcMu' = NoG /\ dirty' = FALSE
  /\ cid' = [a \in AllAddrs |-> 0]
  /\ l' = l + 1 /\ k' = 1

\* end of a round: everybody returned (the quiescence invariants are evaluated in this state)
End == /\ l <= TraceLen /\ TraceLog[l].k = "end" /\ k = 1
       /\ Quiescent
       /\ l' = l + 1 /\ UNCHANGED <<vars, k, cid>>

TNext == Event \/ Reset \/ End
TSpec == TInit /\ [][TNext]_tvars

Track == TLCSet(1, IF TLCGet(1) < l THEN l ELSE TLCGet(1))
Accepted == /\ PrintT(<<"HWM", TLCGet(1), TraceLen>>)
            /\ TLCGet(1) = TraceLen + 1
ASSUME TLCSet(1, 0)
=============================================================================
