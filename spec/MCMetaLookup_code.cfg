SPECIFICATION Spec
CONSTANTS
  Universe = "quick"
  MapOrder = {"s", "p"}
  LastChanceAny = {"m", "s", "p"}
  WalkSorted = TRUE
  AssumeUserRange = TRUE
  QueryTypes = {"lookup"}
INVARIANTS SoundName ExactWins ErrorOnlyIfNothing OwnActionReachable PropertyEventId
CHECK_DEADLOCK FALSE
