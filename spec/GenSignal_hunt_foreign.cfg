SPECIFICATION GSpec
CONSTANTS
  Threads <- CastProbe
  Conns = {"c1", "c2"}
  Signals = {"A", "B"}
  Objects = {"o1", "o2", "o3"}
  ConnOf <- CastConn
  SigOf <- CastSig
  ObjOf <- CastObj
  Rounds <- CR1
  EmitSeq <- EmitProbe
  QCap = 8
  Dev_ProxySectionsNotAtomic = TRUE
  Dev_SendAfterSnapshot = TRUE
  Devs = {}
  Probe <- NoProbe
  Failing = {}
  Inject <- InjC1O1A
  Rogue = {"c2"}
  Hunt = "W_foreign"
INVARIANT HuntOpen
VIEW GView
CONSTRAINT OneByOne
CHECK_DEADLOCK FALSE
