SPECIFICATION Spec
CONSTANTS
  AuthMode = "no"
  Script <- ScriptFTF
  Shapes <- NoAnswers
  Creds <- FewCreds
  Answers <- FewAnswers
  Foreign = TRUE
  Driver = "client"
  Clients <- One
  MaxSends = 1
  MaxProbes = 0
  Holds = FALSE
  Dev_WrongTypedReadAsEmpty = FALSE
  Dev_ClientStateTrusted = FALSE
  Dev_MarkBeforeAsk = FALSE
  Dev_ContinueReadsAsDone = FALSE
  Dev_RefusalLeavesOpen = FALSE
  Dev_FailureOpens = FALSE
  Dev_NewTokenSubstitutes = FALSE
  Dev_ContinueForEver = FALSE
  Dev_TokenNotKept = FALSE
  Dev_ContinueCountsAsDone = TRUE
INVARIANTS OkNeedsDone
CHECK_DEADLOCK FALSE
