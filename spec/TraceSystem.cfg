SPECIFICATION TSpec
CONSTANTS
  Conns <- TrConns
  InitAuthed <- TrConns
  Svcs = {1}
  Objs <- TrObjs
  Methods = {100, 101}
  GenericActs = {8}
  FailTags <- TrFail
  QCap = 10
  MCap = 10
  SrvAccept <- CodeFilter
  StubRuns <- ReqTypes
  AuthRuns <- CallOnly
  AuthMode = "yes"
  Script <- TrScript
  PeerMsgs <- NoMsgs
  MaxSends = 0
  Hangups = FALSE
  Dev_CapMapUnsynchronised = FALSE
  Calls <- TrCalls
  ClientOf <- TrClientOf
  EpOf <- TrEpOf
  SvcOf <- TrSvcOf
  ObjOf <- TrObjOf
  ActOf <- TrActOf
  Raws <- TrRaws
  Deviations <- NoDev
INVARIANTS AtMostOneOutcome OwnResult ExecOnceIfOk ExecAtMostOnce PostAtMostOnce PostNoResponse FramesOwed OnlyCallAndPostExecute ErrorIsOwn NotDone
CONSTRAINT Track
POSTCONDITION Report
CHECK_DEADLOCK FALSE
