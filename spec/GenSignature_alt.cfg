SPECIFICATION Spec
CONSTANTS
  MaxDepth = 2
  SibSet = "three"
  NameSet = "four"
  ExportWide = FALSE
  ExportNear = FALSE
INVARIANTS Export InvRoundTrip
CHECK_DEADLOCK FALSE
