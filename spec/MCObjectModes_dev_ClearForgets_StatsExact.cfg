SPECIFICATION Spec
CONSTANTS
  Conns = {1, 2}
  Users = {1}
  Alphabet <- Alpha_dev_stats
  MaxMsgs = 3
  MaxStack = 12
  WithDisconnect = FALSE
  SendWhen = "idle"
  AutoOff = FALSE
  KeepOut = "none"
  Dev_NoTraceGuard = FALSE
  Dev_CompareChannel = FALSE
  Dev_TracedWrapsRaw = FALSE
  Dev_StatAnyAction = FALSE
  Dev_ClearForgets = TRUE
  Dev_ReplyBypassesTrace = FALSE
  Dev_RemoveDropsLast = FALSE
  Dev_LateRegistrationKept = FALSE
INVARIANTS StatsExact
CHECK_DEADLOCK FALSE
