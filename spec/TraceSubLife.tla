--------------------------- MODULE TraceSubLife ---------------------------
(***************************************************************************)
(* Trace validation for SubLife (harness: cmd/endpoint/sublife.go).  Each   *)
(* line is a command the harness issued with the observable state it saw    *)
(* afterwards; the client's and the end point's own steps are silent.  The  *)
(* design a trace follows (filter self-removal or the repair) is TLC's      *)
(* choice per trace: either is a behaviour - what decides is whether the    *)
(* demands (OwnSlotOnly, NotDisturbed, InOrderOnce) hold in the states an   *)
(* explanation of the trace goes through (see Good below).  A line with rest = 1 (the harness waited *)
(* its full time-out) must be a state of rest.                               *)
(* Lines: [ev |-> "cmd", o, a, rest, obs] | [ev |-> "reset"].                *)
(***************************************************************************)
EXTENDS SubLife, Json, IOUtils, TLCExt

ASSUME TLCSet(2, ndJsonDeserialize(IOEnv.TRACE))
TraceLog == TLCGet(2)
ASSUME TLCSet(3, Len(TraceLog))
TraceLen == TLCGet(3)

VARIABLES l, ph
tvars == <<svars, l, ph>>
E == TraceLog[l]

ObsIs(o) == /\ \A x \in Subs : /\ Len(o.got[x]) = Len(got[x]) /\ \A i \in 1..Len(got[x]) : o.got[x][i] = got[x][i]
                               /\ o.closed[x] = (IF evClosed[x] /\ reading[x] THEN 1 ELSE 0)
            /\ (o.free # 0 => (mu = Free /\ o.free = FirstFree))

TInit == SInit /\ l = 1 /\ ph = "cmd"
Issue == /\ l <= TraceLen /\ E.ev = "cmd" /\ ph = "cmd" /\ ph' = "obs" /\ UNCHANGED l
         /\ CASE E.o = "sub" -> Subscribe(E.a)
              [] E.o = "cancel" -> Cancel(E.a)
              [] E.o = "pause" -> Pause(E.a)
              [] E.o = "resume" -> Resume(E.a)
              [] E.o = "msg" -> PeerMsg(E.a)
              [] E.o = "close" -> LocalClose
              [] E.o = "gone" -> PeerGone
Silent == l <= TraceLen /\ Internal /\ UNCHANGED <<l, ph>>
Seen == /\ l <= TraceLen /\ E.ev = "cmd" /\ ph = "obs"
        /\ ObsIs(E.obs) /\ (E.rest = 1 => ~ENABLED Internal)
        /\ l' = l + 1 /\ ph' = "cmd" /\ UNCHANGED svars
TReset == /\ l <= TraceLen /\ E.ev = "reset" /\ ph = "cmd" /\ l' = l + 1 /\ UNCHANGED ph
          /\ design' \in Designs
          /\ slots' = [i \in 1..InitSlots |-> NULL]
          /\ hst' = [h \in Handlers |-> "unreg"] /\ delivered' = [h \in Handlers |-> <<>>]
          /\ taken' = [h \in Handlers |-> 0] /\ cap' = [h \in Handlers |-> 0]
          /\ closerN' = [h \in Handlers |-> 0] /\ closeN' = [h \in Handlers |-> 0]
          /\ stream' = "open" /\ mu' = Free /\ proc' = "reading" /\ inbox' = <<>> /\ cur' = NULL /\ res' = ResNone
          /\ gs' = [x \in Subs |-> "none"] /\ slotOf' = [x \in Subs |-> 0]
          /\ cancelReq' = [x \in Subs |-> FALSE] /\ reading' = [x \in Subs |-> TRUE]
          /\ got' = [x \in Subs |-> <<>>] /\ evClosed' = [x \in Subs |-> FALSE]
          /\ remover' = NULL /\ sentM' = {}
\* The demands on a behaviour.  With both designs admitted they are NOT invariants of the specification (the design
\* as found violates them), and TLC explores explanations the trace will contradict later: so they are not
\* checked as INVARIANTS (that would blame the trace for a branch it does not follow) but prune the search - a
\* trace is accepted iff SOME behaviour that satisfies them throughout explains it, and rejected at the line
\* from which every explanation needs a violation.
Good == OwnSlotOnly /\ NotDisturbed /\ InOrderOnce
TNext == (Issue \/ Silent \/ Seen \/ TReset) /\ Good'
TSpec == TInit /\ [][TNext]_tvars

Track == TLCSet(1, IF TLCGet(1) < l THEN l ELSE TLCGet(1))
InitMark == TLCSet(1, 0)
ASSUME InitMark
Accepted == IF TLCGet(1) = TraceLen + 1 THEN TRUE
            ELSE /\ PrintT(<<"REJECTED", ToJson([line |-> TLCGet(1), event |-> TraceLog[TLCGet(1)]])>>)
                 /\ FALSE
=============================================================================
