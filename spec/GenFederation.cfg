SPECIFICATION GSpec
CONSTANTS
  Srv = {1, 2}
  Names = {"a", "b"}
  Clients = {1}
  MaxAtt = 3
  MaxCuts = 1
  MaxProxies = 0
  MaxDrops = 0
  Dev_NoCleanup = TRUE
  Dev_RouterFirst = TRUE
  Dev_NoLease = TRUE
  Dev_StaleKept = TRUE
  Dev_StagingUnchecked = FALSE
  Dev_IdReuse = FALSE
  Dev_LookupStaged = FALSE
  Dev_RemovedForStaged = FALSE
  Dev_EnableErrorIgnored = FALSE
  Tag = "T"
  MaxLen = 99
  SampleMod = 20
VIEW View
CHECK_DEADLOCK FALSE
