SPECIFICATION FairSpec
CONSTANTS
  Names = {"a"}
  MaxId = 2
  BadKinds = {}
  Eps = {}
  ObsSeq <- Obs2
  WithBreak = TRUE
  WithDrop = FALSE
  WithStall = TRUE
  WithReads = FALSE
  Dev_ReturnSendError = FALSE
  Dev_RollbackOnSendError = FALSE
  Dev_EmitThenCommit = FALSE
  Dev_StopAtFirstError = FALSE
  Dev_ResendOnError = FALSE
  Dev_LiveTable = FALSE
PROPERTIES OpReturns
CHECK_DEADLOCK FALSE
