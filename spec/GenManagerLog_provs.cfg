\* transition coverage with two recording providers that come, go and lose their connection
SPECIFICATION GSpec
CONSTANTS
  Listeners = {1}
  Providers = {1, 2}
  RealProv = {}
  LevelsUsed = {2, 6}
  BadLevel = 7
  Pats = {"core"}
  BadPat = "("
  Cats = {"core", "core.net", "app"}
  InitLive = {}
  InitProv = {}
  Hist = TRUE
  MaxHold = 0
  MaxMgr = 5
  MaxLst = 1
  MgrOps = {"create", "addprov", "rmprov", "pdrop"}
  LstOps = {"setlevel", "addfilter"}
  MaxCmds = 99
  PrintAll = TRUE
  Match <- MCMatch
  PCat <- MCPCat
  ClientOf <- MCClientOf
  Batches <- MCBatches1
  Dev_FilterOnlyWidens = TRUE
  Dev_MinCategoryJoin = TRUE
  Dev_NoRecomputeOnTerminate = TRUE
  Dev_LostListenerKept = TRUE
  Dev_StalePush = TRUE
  Dev_SetLevelBypassesProperty = TRUE
  Dev_AddFilterHoldsLock = TRUE
  Dev_UnlockedFilterRead = TRUE
  Dev_RejectedWriteSaved = FALSE
VIEW View
CHECK_DEADLOCK FALSE
