--------------------------- MODULE GenFederation ---------------------------
(* Behaviour export for Federation (DESIGN.md 2.2 b), replayed by harness/cmd/registry (sub-command federation)
   on REAL servers: a directory.NewServer, |Srv| services.NewServer over unix sockets, client sessions.  Every
   step of Federation is a command the harness issues at rest:
     nsstart s n     a goroutine calls server s .NewService(n, object k); the harness waits until Activate of
                     object k has been entered (it parks there - user code) or NewService returned
     nsact s ok      Activate returns nil / an error; the ServiceReady request of s is HELD by the relay in front
                     of the directory (the harness waits until it is there, or until NewService returned)
     deliver s       the relay lets the held request (ServiceReady / UnregisterService) through
     cut s mode      the relay closes the connection of s: "idle"; "req" - the held request is dropped;
                     "rep" - it is forwarded and the connection closed when the directory's reply comes back
     svcterm k       a goroutine calls Terminate of the service NewService k returned; UnregisterService is held
     srvterm s       server s .Terminate()
     pstart c n      a goroutine calls session c .Proxy(n, 1); parked at gate session.client.enter (found) or returned
     pdial c         released; parked at gate session.client.dialed (connected) or returned
     pmeta c         released; Proxy returns; a proxy is called (Hello) and must reach the object the model names
     drop c          the relay in front of the service server closes the connection the parked session has just made
   obs, compared after every command: the outcome, the directory's list and every lookup as a FRESH session sees
   them, the events a subscriber received during the step, the requests of the servers that reached the directory during the step, what session.Proxy(n, 1) + Hello of a fresh session
   gives for every name, the identifiers every running server routes, OnTerminate counters, pool sizes.
   Tag "T": one behaviour per transition of the state graph (history hidden by the VIEW, the PrintT inside
   the action).                                                                                        *)
EXTENDS Federation, Json, IOUtils

CONSTANTS Tag, MaxLen, SampleMod
VARIABLE hist
gvars == <<vars, hist>>

Op(k, s, n, a, m) == [k |-> k, s |-> s, n |-> n, a |-> a, m |-> m]
Obs == [out |-> out,
        list |-> Visible,
        reach |-> [n \in Names |-> Reach(n)],
        routed |-> [s \in Srv |-> IF up[s] THEN RoutedIds(s) ELSE {}],
        up |-> up,
        term |-> term,
        pool |-> [c \in Clients |-> Cardinality(conn[c] \cup stale[c])],
        pc |-> [s \in Srv |-> op[s].pc]]
Selected == SampleMod = 1 \/ TLCGet("generated") % SampleMod = (CHOOSE n \in 0..99 : ToString(n) = IOEnv.SEL)
Step(o) == /\ hist' = Append(hist, [op |-> o, obs |-> Obs', ev |-> SubSeq(evs', Len(evs) + 1, Len(evs')),
                                 rq |-> SubSeq(reqs', Len(reqs) + 1, Len(reqs'))])
           /\ Selected => PrintT(<<Tag, ToJson(hist')>>)

GInit == Init /\ hist = <<>>
GNext == \/ \E s \in Srv : \/ \E n \in Names : NsStart(s, n) /\ Step(Op("nsstart", s, n, 0, ""))
                           \/ NsAct(s, TRUE) /\ Step(Op("nsact", s, "", 1, ""))
                           \/ NsAct(s, FALSE) /\ Step(Op("nsact", s, "", 0, ""))
                           \/ Deliver(s) /\ Step(Op("deliver", s, "", 0, ""))
                           \/ SrvTerm(s) /\ Step(Op("srvterm", s, "", 0, ""))
                           \/ \E m \in {"idle", "req", "rep"} : Cut(s, m) /\ Step(Op("cut", s, "", 0, m))
         \/ \E k \in Att : SvcTerm(k) /\ Step(Op("svcterm", 0, "", k, ""))
         \/ \E c \in Clients : \/ \E n \in Names : PStart(c, n) /\ Step(Op("pstart", c, n, 0, ""))
                               \/ PDial(c) /\ Step(Op("pdial", c, "", 0, ""))
                               \/ PMeta(c) /\ Step(Op("pmeta", c, "", 0, ""))
                               \/ ConnDrop(c) /\ Step(Op("drop", c, "", 0, ""))
GSpec == GInit /\ [][GNext]_gvars
Short == Len(hist) < MaxLen
View == <<staging, services, lastID, up, link, routed, op, att, activated, term, natt, cl, conn, stale, ncut, nprox, ndrop>>
=============================================================================
