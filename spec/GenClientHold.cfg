SPECIFICATION GSpec
CONSTANTS
  Handlers = {1, 2, 10, 11}
  Msgs = {1, 2, 20}
  InitSlots = 10
  Calls = {1, 2}
  HS = 10
  HD = 11
  EV = 20
  WithSub = FALSE
  WithDisc = TRUE
  WithHalf = FALSE
VIEW View
INVARIANTS OkMeansReplied NoFaultNoError LateCallsFail DisconnectAtMostOnce CloserAtMostOnce QueueCloseAtMostOnce
CHECK_DEADLOCK FALSE
