------------------------------ MODULE Convert ------------------------------
(***************************************************************************)
(* Structural conversion (type/conversion/conversion.go, used by            *)
(* bus/proxy.go Call2 when the remote signature differs from the expected   *)
(* one).                                                                    *)
(*                                                                          *)
(*   * Go type trees: the 8 sized integer kinds, float32/64, string, bool,  *)
(*     slice, map, struct with named fields                                 *)
(*   * Compatible(S, T): the relation of the property statement - integers  *)
(*     of the same signedness at least as wide, float32 -> float64,         *)
(*     identical string/bool, element-wise slices and maps, structs matched *)
(*     by (case-insensitive) field name where every source field has a      *)
(*     counterpart (the target may have more fields, in any order)          *)
(*   * Conv(S, T, v): the converted value (structural; defined whenever the *)
(*     shapes agree, so that it is also the way back T -> S)                *)
(*   * ClashReached(S, T, v): converting v meets two kinds of different     *)
(*     classes (bool / string / integer / float / slice / map / struct):    *)
(*     the conversion must be refused                                       *)
(*   Pairs that are neither (narrowing, signedness change, source fields    *)
(*   without counterpart) get no verdict: the statement does not define     *)
(*   them.                                                                  *)
(*                                                                          *)
(* Theorems (invariants of the one-step generator, and ASSUMEs over the     *)
(* small all-pairs universe in MCConvert): Compatible is reflexive and      *)
(* transitive; the converted value is a value of the target type; the way   *)
(* back recovers the source; conversion composes; Compatible and            *)
(* ClashReached exclude each other.                                         *)
(*                                                                          *)
(* Numbers outside TLC's 32-bit integers are named boundary values with     *)
(* the smallest signed / unsigned width that holds them.                    *)
(***************************************************************************)
EXTENDS Integers, Sequences, FiniteSets, TLC

CONSTANTS Universe      \* name of the source-type universe (SrcSets)

Range(f) == {f[i] : i \in DOMAIN f}

(***************************************************************************)
(* Scalar kinds                                                             *)
(***************************************************************************)
IntKinds   == {"int8", "int16", "int32", "int64"}
UintKinds  == {"uint8", "uint16", "uint32", "uint64"}
FloatKinds == {"float32", "float64"}
ScalarKinds == IntKinds \cup UintKinds \cup FloatKinds \cup {"string", "bool"}
Width == [int8 |-> 8, int16 |-> 16, int32 |-> 32, int64 |-> 64,
          uint8 |-> 8, uint16 |-> 16, uint32 |-> 32, uint64 |-> 64,
          float32 |-> 32, float64 |-> 64]

(* named integers: sn / un = smallest signed / unsigned width holding the
   value, 0 = none                                                          *)
IntTable ==
  [zero   |-> [sn |-> 8,  un |-> 8],    \* 0
   one    |-> [sn |-> 8,  un |-> 8],    \* 1
   neg1   |-> [sn |-> 8,  un |-> 0],    \* -1
   max8   |-> [sn |-> 8,  un |-> 8],    \* 127
   min8   |-> [sn |-> 8,  un |-> 0],    \* -128
   umax8  |-> [sn |-> 16, un |-> 8],    \* 255
   max16  |-> [sn |-> 16, un |-> 16],   \* 32767
   min16  |-> [sn |-> 16, un |-> 0],
   umax16 |-> [sn |-> 32, un |-> 16],   \* 65535
   max32  |-> [sn |-> 32, un |-> 32],
   min32  |-> [sn |-> 32, un |-> 0],
   umax32 |-> [sn |-> 64, un |-> 32],
   max64  |-> [sn |-> 64, un |-> 64],
   min64  |-> [sn |-> 64, un |-> 0],
   umax64 |-> [sn |-> 0,  un |-> 64]]
IntNames == DOMAIN IntTable
\* float32 values (exactly representable as float64) and proper float64 values
F32Names == {"f0", "f1_5", "fneg2_25", "fmax32", "fsub32"}
F64Names == F32Names \cup {"dpi", "dmax64"}
StrNames == {"s_empty", "s_a", "s_utf8"}       \* "", "a", a text with multi-byte characters
BoolNames == {"true", "false"}

ScalarVals(k) ==
  IF k \in IntKinds THEN {n \in IntNames : IntTable[n].sn # 0 /\ IntTable[n].sn <= Width[k]}
  ELSE IF k \in UintKinds THEN {n \in IntNames : IntTable[n].un # 0 /\ IntTable[n].un <= Width[k]}
  ELSE IF k = "float32" THEN F32Names
  ELSE IF k = "float64" THEN F64Names
  ELSE IF k = "string" THEN StrNames
  ELSE BoolNames

\* two values per kind for use inside containers: the extreme of exactly this
\* kind, and a second one that differs from the zero value
SmallVals(k) ==
  CASE k = "int8"   -> {"min8", "one"}
    [] k = "int16"  -> {"min16", "max8"}
    [] k = "int32"  -> {"max32", "neg1"}
    [] k = "int64"  -> {"min64", "max16"}
    [] k = "uint8"  -> {"umax8", "one"}
    [] k = "uint16" -> {"umax16", "max8"}
    [] k = "uint32" -> {"umax32", "one"}
    [] k = "uint64" -> {"umax64", "umax16"}
    [] k = "float32" -> {"fmax32", "fneg2_25"}
    [] k = "float64" -> {"dpi", "f1_5"}
    [] k = "string" -> {"s_utf8", "s_a"}
    [] k = "bool"   -> {"true", "false"}

ZeroScalar(k) == IF k \in IntKinds \cup UintKinds THEN "zero"
                 ELSE IF k \in FloatKinds THEN "f0"
                 ELSE IF k = "string" THEN "s_empty" ELSE "false"

(***************************************************************************)
(* Type trees                                                               *)
(***************************************************************************)
K(k)           == [k |-> k]
Slice(e)       == [k |-> "slice", e |-> e]
MapOf(key, val) == [k |-> "map", key |-> key, val |-> val]
Fld(n, t)      == [n |-> n, t |-> t]
StructOf(fs)   == [k |-> "struct", fs |-> fs]

IsScalar(T) == T.k \in ScalarKinds
Class(T) == IF T.k \in IntKinds \cup UintKinds THEN "integer"
            ELSE IF T.k \in FloatKinds THEN "float"
            ELSE T.k            \* string, bool, slice, map, struct

\* Go field names are exported; matching is by lower-cased name (conversion.go l.118-121)
LowerOf == [A |-> "a", B |-> "b", C |-> "c", Name |-> "name", NAME |-> "name",
            NaMe |-> "name", Extra |-> "extra", X |-> "x"]
FieldNames == DOMAIN LowerOf
Match(S, j, T) == {i \in DOMAIN S.fs : LowerOf[S.fs[i].n] = LowerOf[T.fs[j].n]}
\* index of the source field feeding target field j (0: none).  The code takes the first match.
Feeder(S, T, j) == IF Match(S, j, T) = {} THEN 0 ELSE CHOOSE i \in Match(S, j, T) : \A i2 \in Match(S, j, T) : i <= i2

WellFormed(T) ==  \* field names pairwise distinct up to case
  T.k = "struct" => \A i, j \in DOMAIN T.fs : i # j => LowerOf[T.fs[i].n] # LowerOf[T.fs[j].n]

(***************************************************************************)
(* The relation of the statement                                            *)
(***************************************************************************)
ScalarCompatible(s, t) ==
  \/ s \in IntKinds /\ t \in IntKinds /\ Width[t] >= Width[s]
  \/ s \in UintKinds /\ t \in UintKinds /\ Width[t] >= Width[s]
  \/ s \in FloatKinds /\ t \in FloatKinds /\ Width[t] >= Width[s]
  \/ s \in {"string", "bool"} /\ s = t

RECURSIVE Compatible(_, _)
Compatible(S, T) ==
  IF IsScalar(S) /\ IsScalar(T) THEN ScalarCompatible(S.k, T.k)
  ELSE IF S.k # T.k THEN FALSE
  ELSE CASE S.k = "slice"  -> Compatible(S.e, T.e)
         [] S.k = "map"    -> Compatible(S.key, T.key) /\ Compatible(S.val, T.val)
         [] S.k = "struct" -> \A i \in DOMAIN S.fs :
                                \E j \in DOMAIN T.fs : /\ Feeder(S, T, j) = i
                                                       /\ Compatible(S.fs[i].t, T.fs[j].t)

\* the shapes agree: Conv is defined (also the direction back)
RECURSIVE Shaped(_, _)
Shaped(S, T) ==
  IF IsScalar(S) /\ IsScalar(T) THEN Class(S) = Class(T)
  ELSE IF S.k # T.k THEN FALSE
  ELSE CASE S.k = "slice"  -> Shaped(S.e, T.e)
         [] S.k = "map"    -> Shaped(S.key, T.key) /\ Shaped(S.val, T.val)
         [] S.k = "struct" -> \A j \in DOMAIN T.fs :
                                Feeder(S, T, j) # 0 => Shaped(S.fs[Feeder(S, T, j)].t, T.fs[j].t)

(***************************************************************************)
(* Values: scalars are names, slices sequences, maps sets of <<key, value>> *)
(* pairs with distinct keys, structs sequences (one value per field)        *)
(***************************************************************************)
RECURSIVE Zero(_)
Zero(T) == IF IsScalar(T) THEN ZeroScalar(T.k)
           ELSE CASE T.k = "slice"  -> <<>>
                  [] T.k = "map"    -> {}
                  [] T.k = "struct" -> [i \in DOMAIN T.fs |-> Zero(T.fs[i].t)]

\* all tuples over a sequence of sets
RECURSIVE Product(_)
Product(sets) == IF sets = <<>> THEN {<<>>}
                 ELSE {<<x>> \o r : x \in Head(sets), r \in Product(Tail(sets))}

\* at most three elements of a set, chosen deterministically
Few(S) == IF Cardinality(S) <= 3 THEN S
          ELSE LET a == CHOOSE x \in S : TRUE
                   b == CHOOSE x \in S \ {a} : TRUE
                   c == CHOOSE x \in S \ {a, b} : TRUE
               IN {a, b, c}

RECURSIVE Vals(_, _)
\* d = nesting depth: 0 = the value itself (every boundary value of a scalar); inside a
\* container two values per scalar; from the second container level on at most three
\* values per element type (the universe stays finite and small for depth-3 types)
Vals(T, d) ==
  IF IsScalar(T) THEN (IF d = 0 THEN ScalarVals(T.k) ELSE SmallVals(T.k))
  ELSE LET Sub(X) == IF d >= 1 THEN Few(Vals(X, d + 1)) ELSE Vals(X, d + 1)
       IN CASE T.k = "slice" ->
              LET E == Sub(T.e)
              IN {<<>>} \cup {<<a>> : a \in E} \cup {<<a, b>> : a \in E, b \in E}
         [] T.k = "map" ->
              LET Ks == Sub(T.key)
                  Vs == Sub(T.val)
              IN {{}} \cup {{<<a, x>>} : a \in Ks, x \in Vs}
                 \cup {{<<a, x>>, <<b, y>>} : a \in Ks, b \in Ks, x \in Vs, y \in Vs}
         [] T.k = "struct" ->
              Product([i \in DOMAIN T.fs |-> Sub(T.fs[i].t)])
\* the comprehension above also yields "maps" with one key twice; they are removed
IsFunctional(m) == \A p, q \in m : p[1] = q[1] => p = q
RECURSIVE ValOK(_, _)
ValOK(T, v) ==
  IF IsScalar(T) THEN v \in ScalarVals(T.k)
  ELSE CASE T.k = "slice"  -> \A i \in DOMAIN v : ValOK(T.e, v[i])
         [] T.k = "map"    -> IsFunctional(v) /\ \A p \in v : ValOK(T.key, p[1]) /\ ValOK(T.val, p[2])
         [] T.k = "struct" -> DOMAIN v = DOMAIN T.fs /\ \A i \in DOMAIN v : ValOK(T.fs[i].t, v[i])
Values(T) == {v \in Vals(T, 0) : ValOK(T, v)}

(***************************************************************************)
(* The conversion function (defined when Shaped(S, T))                      *)
(***************************************************************************)
RECURSIVE Conv(_, _, _)
Conv(S, T, v) ==
  IF IsScalar(S) THEN v                      \* the same number / text / truth value
  ELSE CASE S.k = "slice"  -> [i \in DOMAIN v |-> Conv(S.e, T.e, v[i])]
         [] S.k = "map"    -> {<<Conv(S.key, T.key, p[1]), Conv(S.val, T.val, p[2])>> : p \in v}
         [] S.k = "struct" -> [j \in DOMAIN T.fs |->
                                 LET i == Feeder(S, T, j)
                                 IN IF i = 0 THEN Zero(T.fs[j].t)
                                    ELSE Conv(S.fs[i].t, T.fs[j].t, v[i])]

(* converting v : S into T meets two kinds of different classes *)
RECURSIVE ClashReached(_, _, _)
ClashReached(S, T, v) ==
  IF Class(S) # Class(T) THEN TRUE
  ELSE CASE S.k = "slice"  -> \E i \in DOMAIN v : ClashReached(S.e, T.e, v[i])
         [] S.k = "map"    -> \E p \in v : ClashReached(S.key, T.key, p[1]) \/ ClashReached(S.val, T.val, p[2])
         [] S.k = "struct" -> \E j \in DOMAIN T.fs :
                                LET i == Feeder(S, T, j)
                                IN i # 0 /\ ClashReached(S.fs[i].t, T.fs[j].t, v[i])
         [] OTHER          -> FALSE

(***************************************************************************)
(* Universes                                                                *)
(***************************************************************************)
AllScalars == {K(k) : k \in ScalarKinds}
St2(n1, t1, n2, t2) == StructOf(<<Fld(n1, t1), Fld(n2, t2)>>)
St3(n1, t1, n2, t2, n3, t3) == StructOf(<<Fld(n1, t1), Fld(n2, t2), Fld(n3, t3)>>)

KeyKinds == {"int8", "int32", "uint16", "uint64", "string", "bool", "float32"}
ValKinds == {"int16", "uint32", "string", "float32", "bool"}

Depth1 ==
  {Slice(s) : s \in AllScalars}
  \cup {MapOf(K(a), K(b)) : a \in KeyKinds, b \in ValKinds}
  \cup {StructOf(<<Fld("A", s)>>) : s \in AllScalars}
  \cup {St2("A", K("int8"), "B", K("string")),
        St3("Name", K("uint16"), "C", K("float32"), "B", K("bool")),
        St2("B", K("int32"), "A", K("int32"))}

PointT == St2("A", K("int16"), "B", K("uint8"))
Depth2 ==
  {Slice(Slice(K("int16"))), Slice(MapOf(K("string"), K("uint8"))), Slice(PointT),
   MapOf(K("int32"), Slice(K("string"))), MapOf(K("string"), PointT),
   MapOf(K("uint8"), MapOf(K("int8"), K("float32"))),
   St2("A", Slice(K("uint32")), "Name", K("string")),
   St2("Name", MapOf(K("int8"), K("int16")), "B", K("bool")),
   St3("A", PointT, "B", K("int64"), "C", Slice(K("float32")))}

Depth3 ==
  {Slice(MapOf(K("int8"), Slice(K("int16")))),
   MapOf(K("string"), St2("A", Slice(K("uint8")), "B", K("float32"))),
   St2("A", Slice(PointT), "Name", MapOf(K("uint16"), PointT))}

SrcSets == [scalars |-> AllScalars,
            small   |-> AllScalars \cup {Slice(K("int8")), Slice(K("string")), MapOf(K("int8"), K("string")),
                                         MapOf(K("string"), K("uint16")), PointT,
                                         St2("B", K("int32"), "A", K("int32"))},
            quick   |-> AllScalars \cup Depth1 \cup Depth2,
            full    |-> AllScalars \cup Depth1 \cup Depth2 \cup Depth3
                        \cup {MapOf(a, b) : a \in AllScalars, b \in AllScalars}      \* every key kind x every value kind
                        \cup {St2("A", a, "Name", b) : a \in AllScalars, b \in {K("int8"), K("uint16"), K("float32"), K("string")}}]
Src == SrcSets[Universe]

(* targets: structural widenings of S, and struct variants *)
ScalarTargets(k) == {K(t) : t \in {t \in ScalarKinds : ScalarCompatible(k, t)}}
Widest(k) == IF k \in IntKinds THEN "int64" ELSE IF k \in UintKinds THEN "uint64"
             ELSE IF k \in FloatKinds THEN "float64" ELSE k
RECURSIVE WidenAll(_)
WidenAll(T) ==
  IF IsScalar(T) THEN K(Widest(T.k))
  ELSE CASE T.k = "slice"  -> Slice(WidenAll(T.e))
         [] T.k = "map"    -> MapOf(WidenAll(T.key), WidenAll(T.val))
         [] T.k = "struct" -> StructOf([i \in DOMAIN T.fs |-> Fld(T.fs[i].n, WidenAll(T.fs[i].t))])

Reverse(s) == [i \in DOMAIN s |-> s[Len(s) + 1 - i]]
CaseVariant == [A |-> "A", B |-> "B", C |-> "C", Name |-> "NAME", NAME |-> "NaMe", NaMe |-> "Name",
                Extra |-> "Extra", X |-> "X"]

RECURSIVE Targets(_)
Targets(T) ==
  IF IsScalar(T) THEN ScalarTargets(T.k)
  ELSE CASE T.k = "slice" -> {Slice(e) : e \in Targets(T.e)}
         [] T.k = "map"   -> {MapOf(a, b) : a \in Targets(T.key), b \in Targets(T.val)}
         [] T.k = "struct" ->
              LET same   == T
                  wide   == WidenAll(T)
                  single == UNION {{StructOf([T.fs EXCEPT ![i] = Fld(T.fs[i].n, t)]) :
                                      t \in Targets(T.fs[i].t)} : i \in DOMAIN T.fs}
                  \* shape variants of the widened struct
                  rev    == StructOf(Reverse(wide.fs))
                  \* the same members in the other order: the wire layouts of source and target may then be
                  \* the same string of member types (B int32, A int32 -> A int32, B int32) - only the names tell
                  revSame == StructOf(Reverse(T.fs))
                  recase == StructOf([i \in DOMAIN T.fs |-> Fld(CaseVariant[T.fs[i].n], T.fs[i].t)])
                  extraF == StructOf(<<Fld("Extra", K("string"))>> \o wide.fs \o <<Fld("X", Slice(K("int8")))>>)
              IN {same, wide, rev, revSame, recase, extraF} \cup single

(* targets that clash somewhere *)
OtherClass(T) ==
  LET c == Class(T)
  IN {x \in {K("bool"), K("string"), K("int32"), K("uint64"), K("float64"), Slice(K("int32")),
             MapOf(K("string"), K("int32")), StructOf(<<Fld("A", K("int32"))>>)} : Class(x) # c}
RECURSIVE Clashes(_)
Clashes(T) ==
  OtherClass(T) \cup
  (IF IsScalar(T) THEN {}
   ELSE CASE T.k = "slice" -> {Slice(e) : e \in Clashes(T.e)}
          [] T.k = "map"   -> {MapOf(a, WidenAll(T.val)) : a \in {x \in OtherClass(T.key) : IsScalar(x)}}
                              \cup {MapOf(WidenAll(T.key), b) : b \in OtherClass(T.val)}
          [] T.k = "struct" ->
               UNION {{StructOf([T.fs EXCEPT ![i] = Fld(T.fs[i].n, t)]) : t \in OtherClass(T.fs[i].t)} :
                        i \in DOMAIN T.fs})

(***************************************************************************)
(* Theorems on one vector (S, T, v)                                         *)
(***************************************************************************)
ThTargetsCompatible(S) == \A T \in Targets(S) : Compatible(S, T) /\ WellFormed(T)
ThValueOfTarget(S, T, v) == Compatible(S, T) => ValOK(T, Conv(S, T, v))
ThRoundTrip(S, T, v) == Compatible(S, T) => Shaped(T, S) /\ Conv(T, S, Conv(S, T, v)) = v
ThIdentity(S, v) == Conv(S, S, v) = v
ThExclusive(S, T, v) == ~(Compatible(S, T) /\ ClashReached(S, T, v))
\* a map never loses entries by conversion into a compatible type (keys stay distinct)
RECURSIVE MapsKeepSize(_, _, _)
MapsKeepSize(S, T, v) ==
  IF IsScalar(S) THEN TRUE
  ELSE CASE S.k = "slice"  -> \A i \in DOMAIN v : MapsKeepSize(S.e, T.e, v[i])
         [] S.k = "map"    -> /\ Cardinality(Conv(S, T, v)) = Cardinality(v)
                              /\ \A p \in v : MapsKeepSize(S.val, T.val, p[2])
         [] S.k = "struct" -> \A j \in DOMAIN T.fs : LET i == Feeder(S, T, j) IN
                                 i # 0 => MapsKeepSize(S.fs[i].t, T.fs[j].t, v[i])
ThMapsKeepSize(S, T, v) == Compatible(S, T) => MapsKeepSize(S, T, v)

(***************************************************************************)
(* One-step generator: a state is a vector                                  *)
(***************************************************************************)
VARIABLE vec
Triples == UNION {UNION {{[S |-> S, T |-> T, v |-> v, want |-> "ok"] : v \in Values(S)} : T \in Targets(S)} : S \in Src}
           \cup
           UNION {UNION {{[S |-> S, T |-> T, v |-> v, want |-> "error"] :
                            v \in {x \in Values(S) : ClashReached(S, T, x)}} : T \in Clashes(S)} : S \in Src}
Init == vec \in Triples
Next == UNCHANGED vec
Spec == Init /\ [][Next]_vec

InvWant == /\ vec.want = "ok" <=> Compatible(vec.S, vec.T)
           /\ vec.want = "error" <=> ClashReached(vec.S, vec.T, vec.v)
InvValueOfTarget == ThValueOfTarget(vec.S, vec.T, vec.v)
InvRoundTrip == ThRoundTrip(vec.S, vec.T, vec.v)
InvIdentity == ThIdentity(vec.S, vec.v)
InvExclusive == ThExclusive(vec.S, vec.T, vec.v)
InvMapsKeepSize == ThMapsKeepSize(vec.S, vec.T, vec.v)
InvWellFormed == WellFormed(vec.S) /\ ValOK(vec.S, vec.v)
=============================================================================
