SPECIFICATION GSpec
CONSTANTS
  NAdd = 3
  StreamLen = 3
  MaxReseed = 2
  MaxCalls = 2
  MaxRemoves = 2
  ReserveMode = "both"
  CommitMode = "both"
  PendingAnswers = TRUE
  RemoveReserved = FALSE
  WithTerminate = FALSE
  Tag = "T"
  MaxLen = 99
  SampleMod = 20
VIEW View
CHECK_DEADLOCK FALSE
