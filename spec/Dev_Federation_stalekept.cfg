SPECIFICATION Spec
CONSTANTS
  Srv = {1, 2}
  Names = {"a", "b"}
  Clients = {1}
  MaxAtt = 2
  MaxCuts = 1
  MaxProxies = 2
  MaxDrops = 1
  Dev_NoCleanup = FALSE
  Dev_RouterFirst = FALSE
  Dev_NoLease = FALSE
  Dev_StaleKept = TRUE
  Dev_StagingUnchecked = FALSE
  Dev_IdReuse = FALSE
  Dev_LookupStaged = FALSE
  Dev_RemovedForStaged = FALSE
  Dev_EnableErrorIgnored = FALSE
INVARIANTS StaleOnlyDown
VIEW MCView
CHECK_DEADLOCK FALSE
