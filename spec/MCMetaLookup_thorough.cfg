SPECIFICATION Spec
CONSTANTS
  Universe = "thorough"
  MapOrder = {}
  LastChanceAny = {}
  WalkSorted = TRUE
  AssumeUserRange = TRUE
INVARIANTS SoundName ExactWins NeverAnotherOverload Deterministic ErrorOnlyIfNothing OwnActionReachable PropertyEventId NamesDistinct NamesCover NamesStable FirstKeepsBare FullKeepsIdsUnique FullKeepsActions FullHasGeneric FullIdempotent ActionNameSound
CHECK_DEADLOCK FALSE
