SPECIFICATION Spec
CONSTANTS
  AuthMode = "yes"
  Script <- ScriptFTF
  Shapes <- TinyShapes
  Creds <- NoCreds
  Answers <- NoAnswers
  Foreign = FALSE
  Driver = "peer"
  Clients <- One
  MaxSends = 4
  MaxProbes = 2
  Holds = TRUE
  Dev_WrongTypedReadAsEmpty = TRUE
  Dev_ClientStateTrusted = FALSE
  Dev_MarkBeforeAsk = FALSE
  Dev_ContinueReadsAsDone = FALSE
  Dev_RefusalLeavesOpen = FALSE
  Dev_FailureOpens = FALSE
  Dev_NewTokenSubstitutes = FALSE
  Dev_ContinueForEver = FALSE
  Dev_TokenNotKept = FALSE
  Dev_ContinueCountsAsDone = FALSE
INVARIANTS AskedOnlyPresentedPairs
CHECK_DEADLOCK FALSE
