------------------------- MODULE TraceEndPointStall -------------------------
(***************************************************************************)
(* Trace validation for EndPointStall: the harness (cmd/endpoint/stall.go)  *)
(* logs every command it issued and the observable state it saw afterwards. *)
(* The command is the specification's step with the logged argument; the    *)
(* end point's own steps are silent and chosen by TLC; a line is consumed    *)
(* when the observable state equals the logged one.  A line logged after    *)
(* the harness waited its full time-out (rest = 1) must be a state of rest: *)
(* no step of the end point is enabled - this is how "Close() returns",     *)
(* "a blocked Send is released", "detached handlers get closed" are decided  *)
(* on the real code.  Commands may be issued before the end point is at     *)
(* rest (the harness cannot see that), so races between a command and the   *)
(* steps still pending are all explored.  Which messages are refused (and   *)
(* who writes the refusal) is left open (Permissive): the number of         *)
(* refusals is logged but not constrained here.                              *)
(* Lines: [ev |-> "cmd", o, a, rest, obs] | [ev |-> "reset"].                *)
(***************************************************************************)
EXTENDS EndPointStall, Json, IOUtils, TLCExt

ASSUME TLCSet(2, ndJsonDeserialize(IOEnv.TRACE))
TraceLog == TLCGet(2)
ASSUME TLCSet(3, Len(TraceLog))
TraceLen == TLCGet(3)

VARIABLES l, ph     \* line; "cmd": its command is still to be issued | "obs": issued, the state is awaited
tvars == <<vars, l, ph>>

E == TraceLog[l]
Code(x) == CASE x = "idle" -> 0 [] x \in {"start", "wantlock", "locked", "detach", "writing", "make", "remove"} -> 1
             [] x \in {"done", "ok", "made"} -> 2 [] x \in {"err", "rmerr"} -> 3 [] x = "rmok" -> 4 [] OTHER -> 9
ObsIs(o) == /\ \A c \in DOMAIN o.cl : o.cl[c] = Code(cl[c])
            /\ \A s \in DOMAIN o.sn : o.sn[s] = Code(sn[s])
            /\ \A h \in DOMAIN o.api : /\ o.api[h] = Code(api[h])
                                   /\ o.closed[h] = (IF hs[h] \in {"removed", "closed"} THEN 1 ELSE 0)
                                   /\ o.got[h] = got[h]
            /\ o.stream = (IF stream = "closed" THEN 1 ELSE 0)
            /\ o.rd = (CASE rd = "read" /\ inbox = <<>> -> 0 [] rd = "stopped" -> 2 [] OTHER -> 8)   \* waiting for input | finished | neither

TInit == Init /\ l = 1 /\ ph = "cmd"

Issue == /\ l <= TraceLen /\ E.ev = "cmd" /\ ph = "cmd" /\ ph' = "obs" /\ UNCHANGED l
         /\ CASE E.o = "send" -> PeerSend(E.a)
              [] E.o = "stall" -> PeerStall
              [] E.o = "resume" -> PeerResume
              [] E.o = "fail" -> PeerClose
              [] E.o = "close" -> StartClose(E.a)
              [] E.o = "write" -> StartSend(E.a)
              [] E.o = "make" -> StartMake(E.a)
              [] E.o = "remove" -> StartRemove(E.a)
Silent == l <= TraceLen /\ Internal /\ UNCHANGED <<l, ph>>
Seen == /\ l <= TraceLen /\ E.ev = "cmd" /\ ph = "obs"
        /\ ObsIs(E.obs) /\ (E.rest = 1 => ~ENABLED Internal)
        /\ l' = l + 1 /\ ph' = "cmd" /\ UNCHANGED vars
TReset == /\ l <= TraceLen /\ E.ev = "reset" /\ ph = "cmd" /\ l' = l + 1 /\ UNCHANGED ph
          /\ stream' = "open" /\ stalled' = FALSE /\ mu' = None /\ rd' = "read" /\ cur' = None
          /\ inbox' = <<>> /\ sent' = 0
          /\ cl' = [c \in Closers |-> "idle"] /\ sn' = [s \in Senders |-> "idle"]
          /\ hs' = [h \in Handlers |-> "unreg"] /\ api' = [h \in Handlers |-> "idle"]
          /\ got' = [h \in Handlers |-> 0] /\ replies' = 0 /\ pend' = 0

TNext == Issue \/ Silent \/ Seen \/ TReset
TSpec == TInit /\ [][TNext]_tvars

Track == TLCSet(1, IF TLCGet(1) < l THEN l ELSE TLCGet(1))
InitMark == TLCSet(1, 0)
ASSUME InitMark
Accepted == IF TLCGet(1) = TraceLen + 1 THEN TRUE
            ELSE /\ PrintT(<<"REJECTED", ToJson([line |-> TLCGet(1), event |-> TraceLog[TLCGet(1)]])>>)
                 /\ FALSE
=============================================================================
