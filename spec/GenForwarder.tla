--------------------------- MODULE GenForwarder ---------------------------
(* Export for Forwarder: every assignment of consumer verdicts to a sequence of NMsgs messages that    *)
(* the handler's filter selects (the queue has room: the harness feeds them one at a time), with the   *)
(* sequence the consumer must have been given at the end.                                               *)
EXTENDS Forwarder, Json, TLC
ASSUME \A v \in [1..NMsgs -> BOOLEAN] :
         PrintT(<<"W", ToJson([verdicts |-> [i \in 1..NMsgs |-> v[i]], expect |-> [i \in 1..NMsgs |-> i]])>>)
=============================================================================
