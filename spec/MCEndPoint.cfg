SPECIFICATION MCSpec
CONSTANTS
  Handlers = {1, 2, 3}
  Msgs = {11, 12}
  InitSlots = 2
  FilterOf <- MCFilter
  MaxShutdowns = 2
INVARIANTS TypeOK CloserAtMostOnce QueueCloseAtMostOnce CloserBeforeQueueClose ClosedMeansBoth
           SlotUniqueAmongLive SlotsHoldOpenHandlers DeliveredInOrderOnce NoStuckMutex
PROPERTIES NoDeliveryAfterClose NoSlotStealing
CHECK_DEADLOCK FALSE
