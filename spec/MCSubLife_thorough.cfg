SPECIFICATION SSpec
CONSTANTS
  Handlers = {1, 2}
  Subs = {1, 2}
  Msgs = {11, 19, 21}
  InitSlots = 2
  Designs = {FALSE}
  StaleOnClosed = FALSE
INVARIANTS TypeOK CloserAtMostOnce QueueCloseAtMostOnce CloserBeforeQueueClose SlotUniqueAmongLive
           OwnSlotOnly NotDisturbed InOrderOnce NoHandlerLeft
PROPERTIES ClosedIsFinal CancelCloses NoDeliveryAfterClose NoSlotStealing
CHECK_DEADLOCK FALSE
