---------------------------- MODULE GenEndPoint ----------------------------
(***************************************************************************)
(* Behaviour export for EndPoint (DESIGN.md 2.2 b): API operations applied *)
(* one at a time, each run to quiescence (internal steps have priority),   *)
(* one shortest-path test per (quiescent state, operation) transition.     *)
(* A test is the list of operations with the observation expected BEFORE   *)
(* each of them; the always-enabled "observe" operation makes the effect of *)
(* the last real operation checked as well.                                 *)
(* Prefill filler handlers (never match, keep) occupy the first slots so    *)
(* that with the code's InitSlots = 10 the append path is reached.          *)
(***************************************************************************)
EXTENDS EndPoint, Json

CONSTANTS Users,      \* handler ids the test drives (subset of Handlers)
          Prefill,    \* number of filler handlers (ids 101..100+Prefill)
          MaxMsgs,    \* messages injected per behaviour
          Kinds       \* filter kinds available to make: subset of 1..4

VARIABLES kind,       \* [Handlers -> 0..4]  1 keepAll 2 onceAll 3 never 4 onceNever
          nmsg, hist
gvars == <<vars, kind, nmsg, hist>>

Fillers == {100 + i : i \in 1..Prefill}
ASSUME Handlers = Users \cup Fillers

Matches(h) == kind[h] \in {1, 2}
Keeps(h) == kind[h] \in {1, 3}

GInit ==
  /\ slots = [i \in 1..InitSlots |-> IF i <= Prefill THEN 100 + i ELSE NULL]
  /\ hst = [h \in Handlers |-> IF h \in Fillers THEN "live" ELSE "unreg"]
  /\ delivered = [h \in Handlers |-> <<>>] /\ taken = [h \in Handlers |-> 0]
  /\ cap = [h \in Handlers |-> IF h \in Fillers THEN 1 ELSE 0]
  /\ closerN = [h \in Handlers |-> 0] /\ closeN = [h \in Handlers |-> 0]
  /\ stream = "open" /\ mu = Free /\ proc = "reading" /\ inbox = <<>> /\ cur = NULL /\ res = ResNone
  /\ kind = [h \in Handlers |-> IF h \in Fillers THEN 3 ELSE 0]
  /\ nmsg = 0 /\ hist = <<>>

\* internal steps, in a fixed priority order (they commute; the order only fixes the path)
Internal ==
  \/ \E h \in Handlers : \/ SyncCloser(h) \/ SyncQClose(h) \/ Visit(h, Matches(h), Keeps(h))
                         \/ Deliver(h) \/ Blocked(h) \/ SelfRemove(h) \/ Detach(h)
  \/ RemoveEnd \/ ReadMsg \/ DispatchBegin \/ ReadErr \/ ProcShutdown
  \/ \E h \in Handlers : /\ (AsyncCloser(h) \/ AsyncQClose(h))
                         /\ \A g \in Handlers : g < h => hst[g] \notin {"detached", "closerDone"}
\* Quiescent <=> no internal step is enabled, written as a state function so that it can be primed
Quiescent == /\ mu = Free
             /\ ~(proc = "reading" /\ stream = "open" /\ inbox # <<>>)
             /\ proc \notin {"dispatching", "closing"}
             /\ ~(proc = "reading" /\ stream = "closed")
             /\ \A h \in Handlers : hst[h] \notin {"detached", "closerDone"}
QuiescentIsExact == Quiescent <=> ~ENABLED Internal

StCode(h) == CASE hst[h] = "unreg" -> 0 [] hst[h] = "live" -> 1 [] hst[h] = "closed" -> 2 [] OTHER -> 9
Obs == [slots |-> [i \in 1..Len(slots) |-> slots[i]],
        st |-> [h \in Users |-> StCode(h)],
        dl |-> [h \in Users |-> delivered[h]],
        cn |-> [h \in Users |-> closerN[h]],
        qn |-> [h \in Users |-> closeN[h]],
        fcn |-> [h \in Fillers |-> closerN[h]],
        res |-> res,
        dead |-> IF proc = "stopped" THEN 1 ELSE 0]

\* an API operation starts; if the endpoint is quiescent right after it the test is complete
Op(o, a, b) == /\ hist' = Append(hist, [o |-> o, a |-> a, b |-> b, post |-> Obs'])
               /\ (Quiescent' => PrintT(<<"T", ToJson(hist')>>))

NextUser == IF \E h \in Users : hst[h] = "unreg"
            THEN CHOOSE h \in Users : hst[h] = "unreg" /\ \A g \in Users : hst[g] = "unreg" => h <= g
            ELSE 0

ApiOp ==
  \/ \E k \in Kinds, c \in {1} :
        /\ NextUser # 0 /\ MakeHandler(NextUser, c)
        /\ kind' = [kind EXCEPT ![NextUser] = k] /\ UNCHANGED nmsg /\ Op("make", k, c)
  \/ \E i \in {0} \cup (Prefill + 1)..(Len(slots) + 1) :   \* fillers are never removed by hand
        /\ (RemoveBegin(i) \/ RemoveErr(i)) /\ UNCHANGED <<kind, nmsg>> /\ Op("remove", i - 1, 0)
  \/ /\ nmsg < MaxMsgs /\ stream = "open" /\ proc = "reading"
     /\ inbox' = Append(inbox, 1000 + nmsg + 1) /\ nmsg' = nmsg + 1
     /\ UNCHANGED <<slots, hst, delivered, taken, cap, closerN, closeN, stream, mu, proc, cur, res, kind>>
     /\ Op("msg", 1000 + nmsg + 1, 0)
  \/ /\ ShutdownBegin /\ UNCHANGED <<kind, nmsg>> /\ Op("close", 0, 0)
  \/ /\ PeerClose /\ UNCHANGED <<kind, nmsg>> /\ Op("peerclose", 0, 0)

\* internal steps run to quiescence; the step that reaches it completes the test:
\* the observation expected after the last operation is filled in and the test exported
InternalStep ==
  /\ Internal /\ UNCHANGED <<kind, nmsg>>
  /\ IF Quiescent'
       THEN /\ hist' = [hist EXCEPT ![Len(hist)].post = Obs']
            /\ PrintT(<<"T", ToJson(hist')>>)
       ELSE UNCHANGED hist

GNext == IF Quiescent THEN ApiOp ELSE InternalStep
GSpec == GInit /\ [][GNext]_gvars
\* quiescent states are identified (one shortest path each); while an operation is in
\* progress the history is part of the state, so every (state, operation) transition runs
\* to its own completion and is exported as its own test
View == <<vars, kind, nmsg, IF Quiescent THEN <<>> ELSE hist>>
=============================================================================
