------------------------------- MODULE Service -------------------------------
(* bus/service.go: the object table of a service (C16).

   serviceImpl keeps two maps under one RWMutex: objects (id -> Actor) and
   boxes (id -> MailBox of that actor).  One action per critical section of
   the code:

     Add          l.86-119   pick an identifier, register object and mailbox, activate
     AddFail      l.106-112  the same, but obj.Activate returns an error
     Remove(id)   l.153-163  delete the entry, then (outside the lock) obj.OnTerminate()
     RemoteTerminate(id)     a `terminate` call (action 3) delivered through Receive and the
                             object's mailbox: object.go l.133-140 -> Activation.Terminate ->
                             objectTerminator -> Remove(own id)
     Call(id)     l.166-175  Receive looks the MAILBOX up (boxes, not objects) and enqueues;
                             the mailbox goroutine runs the method (Exec)
     Subscribe(id, s)        registerEvent through the same path
     Emit(k)                 the live object k emits a signal to its subscribers
     SvcTerminate l.178-189  OnTerminate of every object, then Router/Namespace removal

   Objects are *instances* 1..MaxInst (1 = the service's main object, id 1);
   identifiers handed out by Add are random 31-bit numbers in the code - the
   specification uses the smallest unused number >= 2, the harness compares
   identifiers only through the instance they denote.

   Deviations (the code as found; all FALSE in the property configuration):
     Dev_BoxKeptAfterRemove       Remove deletes objects[id] but leaves boxes[id]: the removed
                                  object keeps receiving and executing calls
     Dev_IdZeroAfterMainRemoved   when object 1 is gone Add uses index 0, again and again,
                                  overwriting the previous holder
     Dev_TerminateKeepsObjects    Service.Terminate leaves the objects registered: a later Remove
                                  (or a second Terminate) runs OnTerminate again
     Dev_FailedAddLeavesEntry     a failed activation leaves objects[id] = nil (and a mailbox that
                                  never answers): Remove(id) / Terminate then dereference nil

   THE CLIENT-SIDE SERVICE (ClientSide = TRUE): bus/service_reference.go, clientService -
   the objects a client hosts (proxy.ProxyService), reached through handlers on the client's
   end point.  The same object table, the same invariants; what differs is modelled as what
   the code does:

     identifiers      2^31 + counter (nextID), never reused: the n-th Add gets identifier n in the
                      model (real identifier 2^31 + n - 1, compared exactly by the harness);
                      there is no main object
     objects[id]      the entry of objectsHandlers (id -> handler slot, kept in `slot`)
     handlers[s]      the end point's handler table (bus/net/endpoint.go): MakeHandler takes the
                      FIRST free slot, RemoveHandler(s) closes whatever handler sits in slot s; the
                      handler's closer runs OnTerminate
     boxes[id]        the instance whose handler filters on id (what an incoming message reaches)
     Add              l.56-97: activation errors are IGNORED (AddFail = Add), handler registered
     Remove(id)       l.99-108: entry looked up and deleted, RemoveHandler(slot): an error if the
                      entry is unknown or the handler is already gone
     RemoteTerminate  a terminate frame runs Activation.Terminate = Remove(own id) on the handler's
                      consumer goroutine
     SvcTerminate     l.110-120: Remove of every entry (stops at the first error); the service
                      stays usable
     ConnClose        the end point shuts down (endPoint.closeWith): the closer of EVERY handler
                      runs - every object is terminated exactly once; the entries stay behind
                      (a later Remove / Terminate reports an error, nothing runs twice)
     a message to an identifier without handler is refused by the end point's dispatcher

   Deviations of the client-side service:
     Dev_ClientRemoveKeepsEntry   Remove leaves the objectsHandlers entry: a second Remove of the
                                  same identifier closes whichever handler now sits in the slot
                                  (add X, remove X, add Y, remove X terminates Y)
     Dev_ClientLateCallDropped    the code as found: a call addressed to a removed client-side
                                  object matches no handler and is dropped - never answered     *)
EXTENDS Naturals, FiniteSets, TLC

CONSTANTS MaxInst, Subs,
          MaxExec, MaxEmit,     \* bounds of the counters (state constraint Bounded)
          Dev_BoxKeptAfterRemove, Dev_IdZeroAfterMainRemoved,
          Dev_TerminateKeepsObjects, Dev_FailedAddLeavesEntry,
          ClientSide,           \* FALSE: serviceImpl (bus/service.go); TRUE: clientService (bus/service_reference.go)
          Dev_ClientRemoveKeepsEntry, Dev_ClientLateCallDropped

Inst == 1..MaxInst
Ids  == 0..MaxInst + 1            \* MaxInst+1 is never handed out: "unknown id"
NONE == 0                         \* no instance
NILOBJ == MaxInst + 1             \* objects[id] = nil (failed activation)
Slots == 1..MaxInst               \* handler slots of the client's end point (slot s = index s-1)

VARIABLES objects,   \* id -> instance | NONE | NILOBJ      (serviceImpl.objects)
          boxes,     \* id -> instance whose mailbox is registered | NONE | NILOBJ (pending mailbox)
          st,        \* instance -> "new" | "live" | "removed" | "failed"
          idOf,      \* instance -> identifier it was given (0 while "new")
          term,      \* instance -> number of OnTerminate calls
          exec,      \* instance -> number of method invocations
          subs,      \* instance -> subscribers currently registered
          told,      \* instance -> subscriber -> termination errors received
          got,       \* instance -> subscriber -> events received
          svc,       \* "up" | "down"
          crashed,   \* nil dereference
          ret,       \* [e, v] of the last operation; e = "silent": the message was never answered
          slot,      \* client side: id -> handler slot stored in objectsHandlers (0: no entry)
          handlers,  \* client side: slot -> instance whose handler sits there | NONE
          conn       \* client side: "open" | "closed" (the end point the objects hang on)
vars == <<objects, boxes, st, idOf, term, exec, subs, told, got, svc, crashed, ret, slot, handlers, conn>>

R(e, v) == [e |-> e, v |-> v]
HasMain == ~ClientSide             \* a service starts with its main object (instance 1, id 1); a service reference with none
InitTable == [i \in Ids |-> IF i = 1 /\ HasMain THEN 1 ELSE NONE]
InitSt == [k \in Inst |-> IF k = 1 /\ HasMain THEN "live" ELSE "new"]
InitIdOf == [k \in Inst |-> IF k = 1 /\ HasMain THEN 1 ELSE 0]
NoSlot == [i \in Ids |-> 0]
NoHandler == [s \in Slots |-> NONE]
Init == /\ objects = InitTable /\ boxes = InitTable
        /\ st = InitSt /\ idOf = InitIdOf
        /\ slot = NoSlot /\ handlers = NoHandler /\ conn = "open"
        /\ term = [k \in Inst |-> 0] /\ exec = [k \in Inst |-> 0]
        /\ subs = [k \in Inst |-> {}]
        /\ told = [k \in Inst |-> [s \in Subs |-> 0]]
        /\ got = [k \in Inst |-> [s \in Subs |-> 0]]
        /\ svc = "up" /\ crashed = FALSE /\ ret = R("", 0)

Alive == ~crashed
NextInst == CHOOSE k \in Inst : st[k] = "new" /\ \A j \in Inst : st[j] = "new" => k <= j
Fresh == CHOOSE i \in 2..MaxInst : objects[i] = NONE /\ boxes[i] = NONE /\ \A j \in Inst : idOf[j] # i
         \* an identifier never used before: the code draws 31 random bits
PickId == IF ClientSide THEN NextInst          \* 2^31 + nextID: the n-th Add gets the n-th identifier
          ELSE IF Dev_IdZeroAfterMainRemoved /\ objects[1] = NONE THEN 0 ELSE Fresh

\* IsFresh(id): never handed out before (the code draws 31 random bits; the client counts)
IsFresh(id) == IF ClientSide THEN id = NextInst
               ELSE id >= 2 /\ objects[id] = NONE /\ boxes[id] = NONE /\ \A j \in Inst : idOf[j] # id

\* endPoint.MakeHandler: the first free slot
FreeSlot == CHOOSE s \in Slots : handlers[s] = NONE /\ \A t \in Slots : handlers[t] = NONE => s <= t

AddAs(k, id) ==      \* instance k is added under identifier id
  /\ Alive /\ svc = "up" /\ conn = "open" /\ st[k] = "new"
  /\ objects' = [objects EXCEPT ![id] = k]
  /\ boxes' = [boxes EXCEPT ![id] = k]
  /\ IF ClientSide
       THEN slot' = [slot EXCEPT ![id] = FreeSlot] /\ handlers' = [handlers EXCEPT ![FreeSlot] = k]
       ELSE UNCHANGED <<slot, handlers>>
  /\ st' = [st EXCEPT ![k] = "live"]
  /\ idOf' = [idOf EXCEPT ![k] = id]
  /\ ret' = R("", k)
  /\ UNCHANGED <<term, exec, subs, told, got, svc, crashed, conn>>
Add == (\E k \in Inst : st[k] = "new") /\ AddAs(NextInst, PickId)

AddFailAs(k, id) ==
  IF ClientSide
    THEN AddAs(k, id)          \* clientService.Add ignores the error of obj.Activate (l.66-74)
    ELSE
      /\ Alive /\ svc = "up" /\ st[k] = "new"
      /\ st' = [st EXCEPT ![k] = "failed"]
      /\ idOf' = [idOf EXCEPT ![k] = id]
      /\ IF Dev_FailedAddLeavesEntry
           THEN objects' = [objects EXCEPT ![id] = NILOBJ] /\ boxes' = [boxes EXCEPT ![id] = NILOBJ]
           ELSE UNCHANGED <<objects, boxes>>
      /\ ret' = R("err", k)
      /\ UNCHANGED <<term, exec, subs, told, got, svc, crashed, slot, handlers, conn>>
AddFail == (\E k \in Inst : st[k] = "new") /\ AddFailAs(NextInst, PickId)

\* OnTerminate of instance k: hook, subscribers told and dropped
Terminated(k, t, tl, sb) ==
  /\ t = [term EXCEPT ![k] = @ + 1]
  /\ tl = [told EXCEPT ![k] = [s \in Subs |-> IF s \in subs[k] THEN @[s] + 1 ELSE @[s]]]
  /\ sb = [subs EXCEPT ![k] = {}]
\* ... of every instance of the set H
TerminatedAll(H, t, tl, sb, stn) ==
  /\ t = [k \in Inst |-> IF k \in H THEN term[k] + 1 ELSE term[k]]
  /\ tl = [k \in Inst |-> [s \in Subs |-> IF k \in H /\ s \in subs[k] THEN told[k][s] + 1 ELSE told[k][s]]]
  /\ sb = [k \in Inst |-> IF k \in H THEN {} ELSE subs[k]]
  /\ stn = [k \in Inst |-> IF k \in H THEN "removed" ELSE st[k]]

SDoRemove(id) ==   \* the body of serviceImpl.Remove; ret is set by the caller
  /\ UNCHANGED <<slot, handlers>>
  /\ IF objects[id] \in Inst
       THEN LET k == objects[id] IN
            /\ objects' = [objects EXCEPT ![id] = NONE]
            /\ boxes' = IF Dev_BoxKeptAfterRemove THEN boxes ELSE [boxes EXCEPT ![id] = NONE]
            /\ st' = [st EXCEPT ![k] = "removed"]
            /\ Terminated(k, term', told', subs')
            /\ UNCHANGED crashed
       ELSE IF objects[id] = NILOBJ
         THEN crashed' = TRUE /\ UNCHANGED <<objects, boxes, st, term, told, subs>>     \* nil.OnTerminate()
         ELSE UNCHANGED <<objects, boxes, st, term, told, subs, crashed>>

CDoRemove(id) ==   \* the body of clientService.Remove: entry deleted, then endPoint.RemoveHandler(slot)
  /\ UNCHANGED crashed
  /\ IF objects[id] = NONE
       THEN UNCHANGED <<objects, boxes, slot, handlers, st, term, told, subs>>
       ELSE LET s == slot[id]
                k == handlers[s]       \* whoever sits in that slot NOW
            IN /\ IF Dev_ClientRemoveKeepsEntry THEN UNCHANGED <<objects, slot>>
                    ELSE objects' = [objects EXCEPT ![id] = NONE] /\ slot' = [slot EXCEPT ![id] = 0]
               /\ IF k = NONE
                    THEN UNCHANGED <<boxes, handlers, st, term, told, subs>>       \* "invalid handler id"
                    ELSE /\ handlers' = [handlers EXCEPT ![s] = NONE]
                         /\ boxes' = [boxes EXCEPT ![idOf[k]] = NONE]
                         /\ st' = IF k = objects[id] THEN [st EXCEPT ![k] = "removed"] ELSE st
                         /\ Terminated(k, term', told', subs')       \* the closer of the handler

DoRemove(id) == IF ClientSide THEN CDoRemove(id) ELSE SDoRemove(id)
RemoveOK(id) == IF ClientSide THEN objects[id] # NONE /\ handlers[slot[id]] # NONE
                ELSE objects[id] \in Inst

Remove(id) ==
  /\ Alive
  /\ DoRemove(id)
  /\ ret' = IF RemoveOK(id) THEN R("", 0) ELSE R("err", 0)
  /\ UNCHANGED <<idOf, exec, got, svc, conn>>

\* which instance a message addressed to id reaches (NONE: error reply)
Target(id) == IF svc = "up" /\ boxes[id] \in Inst THEN boxes[id] ELSE NONE
\* the answer to a message that reaches nobody
Refused == IF ClientSide /\ Dev_ClientLateCallDropped THEN R("silent", 0) ELSE R("err", 0)

RemoteTerminate(id) ==
  /\ Alive /\ conn = "open" /\ boxes[id] # NILOBJ
  /\ IF Target(id) = NONE
       THEN ret' = Refused /\ UNCHANGED <<objects, boxes, st, term, told, subs, crashed, slot, handlers>>
       ELSE /\ DoRemove(idOf[Target(id)])       \* the terminator removes the id given at activation
            /\ ret' = R("", 0)                  \* the error of Remove is dropped (service.go l.11-14)
  /\ UNCHANGED <<idOf, exec, got, svc, conn>>

Call(id) ==
  /\ Alive /\ conn = "open" /\ boxes[id] # NILOBJ    \* a pending mailbox never answers: not driven
  /\ IF Target(id) = NONE
       THEN ret' = Refused /\ UNCHANGED exec
       ELSE exec' = [exec EXCEPT ![Target(id)] = @ + 1] /\ ret' = R("", 0)
  /\ UNCHANGED <<objects, boxes, st, idOf, term, subs, told, got, svc, crashed, slot, handlers, conn>>

Subscribe(id, s) ==
  /\ Alive /\ boxes[id] # NILOBJ /\ ~ClientSide
  /\ \A k \in Inst : s \notin subs[k]            \* one registration per subscriber connection at a time
  /\ IF Target(id) = NONE
       THEN ret' = R("err", 0) /\ UNCHANGED subs
       ELSE subs' = [subs EXCEPT ![Target(id)] = @ \cup {s}] /\ ret' = R("", 0)
  /\ UNCHANGED <<objects, boxes, st, idOf, term, exec, told, got, svc, crashed, slot, handlers, conn>>

Emit(k) ==
  /\ Alive /\ st[k] = "live" /\ svc = "up" /\ ~ClientSide
  /\ got' = [got EXCEPT ![k] = [s \in Subs |-> IF s \in subs[k] THEN @[s] + 1 ELSE @[s]]]
  /\ ret' = R("", 0)
  /\ UNCHANGED <<objects, boxes, st, idOf, term, exec, subs, told, svc, crashed, slot, handlers, conn>>

SSvcTerminate ==
  /\ IF \E i \in Ids : objects[i] = NILOBJ
       THEN crashed' = TRUE /\ UNCHANGED <<objects, boxes, st, term, told, subs, svc>>
       ELSE LET Here == {objects[i] : i \in {j \in Ids : objects[j] \in Inst}} IN
            /\ TerminatedAll(Here, term', told', subs', st')
            /\ IF Dev_TerminateKeepsObjects
                 THEN UNCHANGED <<objects, boxes>>
                 ELSE objects' = [i \in Ids |-> NONE] /\ boxes' = [i \in Ids |-> NONE]
            /\ svc' = "down"
            /\ UNCHANGED crashed
  /\ ret' = R("", 0)
  /\ UNCHANGED <<slot, handlers>>

\* clientService.Terminate: Remove of every entry, returns at the first error.  With the connection
\* open (and no deviation) every entry has its handler: all are removed.  After the connection
\* closed every entry is stale: the first Remove deletes its entry and fails - one entry less, an
\* error, nothing else (which entry goes is the map's iteration order and cannot be observed).
CSvcTerminate ==
  LET entries == {i \in Ids : objects[i] # NONE}
      stale   == {i \in entries : handlers[slot[i]] = NONE}
      Here    == {handlers[slot[i]] : i \in entries} \ {NONE}
  IN /\ UNCHANGED <<svc, crashed>>
     /\ IF conn = "closed"
          THEN /\ IF entries = {} THEN UNCHANGED <<objects, slot>>
                    ELSE LET e == CHOOSE x \in entries : \A y \in entries : x <= y IN
                         objects' = [objects EXCEPT ![e] = NONE] /\ slot' = [slot EXCEPT ![e] = 0]
               /\ UNCHANGED <<boxes, handlers, st, term, told, subs>>
               /\ ret' = IF entries = {} THEN R("", 0) ELSE R("err", 0)
          ELSE /\ TerminatedAll(Here, term', told', subs', st')
               /\ handlers' = [s \in Slots |-> IF handlers[s] \in Here THEN NONE ELSE handlers[s]]
               /\ boxes' = [i \in Ids |-> IF boxes[i] \in Here THEN NONE ELSE boxes[i]]
               /\ IF Dev_ClientRemoveKeepsEntry THEN UNCHANGED <<objects, slot>>
                    ELSE objects' = [i \in Ids |-> NONE] /\ slot' = NoSlot
               /\ ret' = IF stale = {} /\ Cardinality(Here) = Cardinality(entries) THEN R("", 0) ELSE R("err", 0)

SvcTerminate ==
  /\ Alive
  /\ IF ClientSide THEN CSvcTerminate ELSE SSvcTerminate
  /\ UNCHANGED <<idOf, exec, got, conn>>

\* the end point of the client shuts down (closed by either side, or a read error):
\* endPoint.closeWith runs the closer of EVERY handler - each hosted object is terminated once
ConnClose ==
  /\ ClientSide /\ Alive /\ conn = "open"
  /\ LET Here == {handlers[s] : s \in Slots} \ {NONE} IN
     TerminatedAll(Here, term', told', subs', st')
  /\ handlers' = NoHandler /\ boxes' = [i \in Ids |-> NONE]
  /\ conn' = "closed" /\ ret' = R("", 0)
  /\ UNCHANGED <<objects, slot, idOf, exec, got, svc, crashed>>

Next == \/ Add \/ AddFail \/ SvcTerminate \/ ConnClose
        \/ \E id \in Ids : Remove(id) \/ RemoteTerminate(id) \/ Call(id)
        \/ \E id \in Ids, s \in Subs : Subscribe(id, s)
        \/ \E k \in Inst : Emit(k)
Spec == Init /\ [][Next]_vars

-----------------------------------------------------------------------------
(* C16 *)
TypeOK == /\ \A i \in Ids : objects[i] \in Inst \cup {NONE, NILOBJ} /\ boxes[i] \in Inst \cup {NONE, NILOBJ}
          /\ \A k \in Inst : st[k] \in {"new", "live", "removed", "failed"}
          /\ \A i \in Ids : slot[i] \in Slots \cup {0}
          /\ \A s \in Slots : handlers[s] \in Inst \cup {NONE}
          /\ conn \in {"open", "closed"}

\* identifiers unique among the live objects, every live object reachable under its identifier
UniqueLiveIds ==
  /\ \A j, k \in Inst : (j # k /\ st[j] = "live" /\ st[k] = "live") => idOf[j] # idOf[k]
  /\ \A k \in Inst : (st[k] = "live" /\ svc = "up") => (objects[idOf[k]] = k /\ boxes[idOf[k]] = k)

\* client side: identifiers are handed out in order and never reused; every entry of a live
\* object designates the slot of ITS handler, a handler belongs to a live object
ClientTable ==
  ClientSide =>
    /\ \A k \in Inst : st[k] # "new" => idOf[k] = k
    /\ \A k \in Inst : st[k] = "live" => (slot[idOf[k]] \in Slots /\ handlers[slot[idOf[k]]] = k)
    /\ \A s \in Slots : handlers[s] # NONE => (st[handlers[s]] = "live" /\ boxes[idOf[handlers[s]]] = handlers[s])
    /\ \A i \in Ids : boxes[i] # NONE => \E s \in Slots : handlers[s] = boxes[i]
    /\ conn = "closed" => \A k \in Inst : st[k] # "live"

\* the termination hook has run exactly once for a removed object, never for a live one
TerminateHookExactlyOnce ==
  \A k \in Inst : /\ st[k] = "removed" => term[k] = 1
                  /\ st[k] \in {"new", "live"} => term[k] = 0
                  /\ term[k] <= 1

\* remaining subscribers are told, once
SubscribersTold ==
  \A k \in Inst : /\ \A s \in Subs : told[k][s] <= 1
                  /\ st[k] = "removed" => subs[k] = {}

\* no invocation of a removed object (the message is answered with an error instead)
NoInvocationAfterRemoval == [][\A k \in Inst : st[k] \in {"removed", "failed"} => exec'[k] = exec[k]]_vars
NoLateSubscription == [][\A k \in Inst : st[k] \in {"removed", "failed"} => subs'[k] \subseteq subs[k]]_vars
\* ... and every message is answered (with an error when nobody is there)
EveryCallAnswered == ret.e # "silent"

\* removing one object never affects the others (service Terminate and the loss of the
\* connection concern every object by definition)
OthersUnaffected ==
  [][(svc' = "up" /\ ~(ClientSide /\ conn' # conn) /\ ~(ClientSide /\ SvcTerminate)) =>
       /\ Cardinality({k \in Inst : st[k] = "live" /\ st'[k] # "live"}) <= 1
       /\ \A k \in Inst : (st[k] = "live" /\ st'[k] = "live") =>
             (idOf'[k] = idOf[k] /\ term'[k] = term[k] /\ subs[k] \subseteq subs'[k] /\ told'[k] = told[k])]_vars

NoCrash == ~crashed

\* state constraint: the invocation and event counters only matter up to a small bound
Bounded == \A k \in Inst : exec[k] <= MaxExec /\ \A s \in Subs : got[k][s] <= MaxEmit
=============================================================================
