------------------------------- MODULE Service -------------------------------
(* bus/service.go: the object table of a service (C16).

   serviceImpl keeps two maps under one RWMutex: objects (id -> Actor) and
   boxes (id -> MailBox of that actor).  One action per critical section of
   the code:

     Add          l.86-119   pick an identifier, register object and mailbox, activate
     AddFail      l.106-112  the same, but obj.Activate returns an error
     Remove(id)   l.153-163  delete the entry, then (outside the lock) obj.OnTerminate()
     RemoteTerminate(id)     a `terminate` call (action 3) delivered through Receive and the
                             object's mailbox: object.go l.133-140 -> Activation.Terminate ->
                             objectTerminator -> Remove(own id)
     Call(id)     l.166-175  Receive looks the MAILBOX up (boxes, not objects) and enqueues;
                             the mailbox goroutine runs the method (Exec)
     Subscribe(id, s)        registerEvent through the same path
     Emit(k)                 the live object k emits a signal to its subscribers
     SvcTerminate l.178-189  OnTerminate of every object, then Router/Namespace removal

   Objects are *instances* 1..MaxInst (1 = the service's main object, id 1);
   identifiers handed out by Add are random 31-bit numbers in the code - the
   specification uses the smallest unused number >= 2, the harness compares
   identifiers only through the instance they denote.

   Deviations (the code as found; all FALSE in the property configuration):
     Dev_BoxKeptAfterRemove       Remove deletes objects[id] but leaves boxes[id]: the removed
                                  object keeps receiving and executing calls
     Dev_IdZeroAfterMainRemoved   when object 1 is gone Add uses index 0, again and again,
                                  overwriting the previous holder
     Dev_TerminateKeepsObjects    Service.Terminate leaves the objects registered: a later Remove
                                  (or a second Terminate) runs OnTerminate again
     Dev_FailedAddLeavesEntry     a failed activation leaves objects[id] = nil (and a mailbox that
                                  never answers): Remove(id) / Terminate then dereference nil       *)
EXTENDS Naturals, FiniteSets, TLC

CONSTANTS MaxInst, Subs,
          MaxExec, MaxEmit,     \* bounds of the counters (state constraint Bounded)
          Dev_BoxKeptAfterRemove, Dev_IdZeroAfterMainRemoved,
          Dev_TerminateKeepsObjects, Dev_FailedAddLeavesEntry

Inst == 1..MaxInst
Ids  == 0..MaxInst + 1            \* MaxInst+1 is never handed out: "unknown id"
NONE == 0                         \* no instance
NILOBJ == MaxInst + 1             \* objects[id] = nil (failed activation)

VARIABLES objects,   \* id -> instance | NONE | NILOBJ      (serviceImpl.objects)
          boxes,     \* id -> instance whose mailbox is registered | NONE | NILOBJ (pending mailbox)
          st,        \* instance -> "new" | "live" | "removed" | "failed"
          idOf,      \* instance -> identifier it was given (0 while "new")
          term,      \* instance -> number of OnTerminate calls
          exec,      \* instance -> number of method invocations
          subs,      \* instance -> subscribers currently registered
          told,      \* instance -> subscriber -> termination errors received
          got,       \* instance -> subscriber -> events received
          svc,       \* "up" | "down"
          crashed,   \* nil dereference
          ret        \* [e, v] of the last operation
vars == <<objects, boxes, st, idOf, term, exec, subs, told, got, svc, crashed, ret>>

R(e, v) == [e |-> e, v |-> v]
Init == /\ objects = [i \in Ids |-> IF i = 1 THEN 1 ELSE NONE]
        /\ boxes = [i \in Ids |-> IF i = 1 THEN 1 ELSE NONE]
        /\ st = [k \in Inst |-> IF k = 1 THEN "live" ELSE "new"]
        /\ idOf = [k \in Inst |-> IF k = 1 THEN 1 ELSE 0]
        /\ term = [k \in Inst |-> 0] /\ exec = [k \in Inst |-> 0]
        /\ subs = [k \in Inst |-> {}]
        /\ told = [k \in Inst |-> [s \in Subs |-> 0]]
        /\ got = [k \in Inst |-> [s \in Subs |-> 0]]
        /\ svc = "up" /\ crashed = FALSE /\ ret = R("", 0)

Alive == ~crashed
NextInst == CHOOSE k \in Inst : st[k] = "new" /\ \A j \in Inst : st[j] = "new" => k <= j
Fresh == CHOOSE i \in 2..MaxInst : objects[i] = NONE /\ boxes[i] = NONE /\ \A j \in Inst : idOf[j] # i
         \* an identifier never used before: the code draws 31 random bits
PickId == IF Dev_IdZeroAfterMainRemoved /\ objects[1] = NONE THEN 0 ELSE Fresh

\* IsFresh(id): never handed out before (the code draws 31 random bits)
IsFresh(id) == id >= 2 /\ objects[id] = NONE /\ boxes[id] = NONE /\ \A j \in Inst : idOf[j] # id

AddAs(k, id) ==      \* instance k is added under identifier id
  /\ Alive /\ svc = "up" /\ st[k] = "new"
  /\ objects' = [objects EXCEPT ![id] = k]
  /\ boxes' = [boxes EXCEPT ![id] = k]
  /\ st' = [st EXCEPT ![k] = "live"]
  /\ idOf' = [idOf EXCEPT ![k] = id]
  /\ ret' = R("", k)
  /\ UNCHANGED <<term, exec, subs, told, got, svc, crashed>>
Add == (\E k \in Inst : st[k] = "new") /\ AddAs(NextInst, PickId)

AddFailAs(k, id) ==
  /\ Alive /\ svc = "up" /\ st[k] = "new"
  /\ st' = [st EXCEPT ![k] = "failed"]
  /\ idOf' = [idOf EXCEPT ![k] = id]
  /\ IF Dev_FailedAddLeavesEntry
       THEN objects' = [objects EXCEPT ![id] = NILOBJ] /\ boxes' = [boxes EXCEPT ![id] = NILOBJ]
       ELSE UNCHANGED <<objects, boxes>>
  /\ ret' = R("err", k)
  /\ UNCHANGED <<term, exec, subs, told, got, svc, crashed>>
AddFail == (\E k \in Inst : st[k] = "new") /\ AddFailAs(NextInst, PickId)

\* OnTerminate of instance k: hook, subscribers told and dropped
Terminated(k, t, tl, sb) ==
  /\ t = [term EXCEPT ![k] = @ + 1]
  /\ tl = [told EXCEPT ![k] = [s \in Subs |-> IF s \in subs[k] THEN @[s] + 1 ELSE @[s]]]
  /\ sb = [subs EXCEPT ![k] = {}]

DoRemove(id) ==   \* the body of serviceImpl.Remove; ret is set by the caller
  IF objects[id] \in Inst
    THEN LET k == objects[id] IN
         /\ objects' = [objects EXCEPT ![id] = NONE]
         /\ boxes' = IF Dev_BoxKeptAfterRemove THEN boxes ELSE [boxes EXCEPT ![id] = NONE]
         /\ st' = [st EXCEPT ![k] = "removed"]
         /\ Terminated(k, term', told', subs')
         /\ UNCHANGED crashed
    ELSE IF objects[id] = NILOBJ
      THEN crashed' = TRUE /\ UNCHANGED <<objects, boxes, st, term, told, subs>>     \* nil.OnTerminate()
      ELSE UNCHANGED <<objects, boxes, st, term, told, subs, crashed>>

Remove(id) ==
  /\ Alive
  /\ DoRemove(id)
  /\ ret' = IF objects[id] \in Inst THEN R("", 0) ELSE R("err", 0)
  /\ UNCHANGED <<idOf, exec, got, svc>>

\* which instance a message addressed to id reaches (NONE: error reply)
Target(id) == IF svc = "up" /\ boxes[id] \in Inst THEN boxes[id] ELSE NONE

RemoteTerminate(id) ==
  /\ Alive /\ boxes[id] # NILOBJ
  /\ IF Target(id) = NONE
       THEN ret' = R("err", 0) /\ UNCHANGED <<objects, boxes, st, term, told, subs, crashed>>
       ELSE /\ DoRemove(idOf[Target(id)])       \* the terminator removes the id given at activation
            /\ ret' = R("", 0)                  \* the error of Remove is dropped (service.go l.11-14)
  /\ UNCHANGED <<idOf, exec, got, svc>>

Call(id) ==
  /\ Alive /\ boxes[id] # NILOBJ                \* a pending mailbox never answers: not driven
  /\ IF Target(id) = NONE
       THEN ret' = R("err", 0) /\ UNCHANGED exec
       ELSE exec' = [exec EXCEPT ![Target(id)] = @ + 1] /\ ret' = R("", 0)
  /\ UNCHANGED <<objects, boxes, st, idOf, term, subs, told, got, svc, crashed>>

Subscribe(id, s) ==
  /\ Alive /\ boxes[id] # NILOBJ
  /\ \A k \in Inst : s \notin subs[k]            \* one registration per subscriber connection at a time
  /\ IF Target(id) = NONE
       THEN ret' = R("err", 0) /\ UNCHANGED subs
       ELSE subs' = [subs EXCEPT ![Target(id)] = @ \cup {s}] /\ ret' = R("", 0)
  /\ UNCHANGED <<objects, boxes, st, idOf, term, exec, told, got, svc, crashed>>

Emit(k) ==
  /\ Alive /\ st[k] = "live" /\ svc = "up"
  /\ got' = [got EXCEPT ![k] = [s \in Subs |-> IF s \in subs[k] THEN @[s] + 1 ELSE @[s]]]
  /\ ret' = R("", 0)
  /\ UNCHANGED <<objects, boxes, st, idOf, term, exec, subs, told, svc, crashed>>

SvcTerminate ==
  /\ Alive
  /\ IF \E i \in Ids : objects[i] = NILOBJ
       THEN crashed' = TRUE /\ UNCHANGED <<objects, boxes, st, term, told, subs, svc>>
       ELSE LET Here == {objects[i] : i \in {j \in Ids : objects[j] \in Inst}} IN
            /\ term' = [k \in Inst |-> IF k \in Here THEN term[k] + 1 ELSE term[k]]
            /\ told' = [k \in Inst |-> [s \in Subs |-> IF k \in Here /\ s \in subs[k] THEN told[k][s] + 1 ELSE told[k][s]]]
            /\ subs' = [k \in Inst |-> IF k \in Here THEN {} ELSE subs[k]]
            /\ st' = [k \in Inst |-> IF k \in Here THEN "removed" ELSE st[k]]
            /\ IF Dev_TerminateKeepsObjects
                 THEN UNCHANGED <<objects, boxes>>
                 ELSE objects' = [i \in Ids |-> NONE] /\ boxes' = [i \in Ids |-> NONE]
            /\ svc' = "down"
            /\ UNCHANGED crashed
  /\ ret' = R("", 0)
  /\ UNCHANGED <<idOf, exec, got>>

Next == \/ Add \/ AddFail \/ SvcTerminate
        \/ \E id \in Ids : Remove(id) \/ RemoteTerminate(id) \/ Call(id)
        \/ \E id \in Ids, s \in Subs : Subscribe(id, s)
        \/ \E k \in Inst : Emit(k)
Spec == Init /\ [][Next]_vars

-----------------------------------------------------------------------------
(* C16 *)
TypeOK == /\ \A i \in Ids : objects[i] \in Inst \cup {NONE, NILOBJ} /\ boxes[i] \in Inst \cup {NONE, NILOBJ}
          /\ \A k \in Inst : st[k] \in {"new", "live", "removed", "failed"}

\* identifiers unique among the live objects, every live object reachable under its identifier
UniqueLiveIds ==
  /\ \A j, k \in Inst : (j # k /\ st[j] = "live" /\ st[k] = "live") => idOf[j] # idOf[k]
  /\ \A k \in Inst : (st[k] = "live" /\ svc = "up") => (objects[idOf[k]] = k /\ boxes[idOf[k]] = k)

\* the termination hook has run exactly once for a removed object, never for a live one
TerminateHookExactlyOnce ==
  \A k \in Inst : /\ st[k] = "removed" => term[k] = 1
                  /\ st[k] \in {"new", "live"} => term[k] = 0
                  /\ term[k] <= 1

\* remaining subscribers are told, once
SubscribersTold ==
  \A k \in Inst : /\ \A s \in Subs : told[k][s] <= 1
                  /\ st[k] = "removed" => subs[k] = {}

\* no invocation of a removed object (the message is answered with an error instead)
NoInvocationAfterRemoval == [][\A k \in Inst : st[k] \in {"removed", "failed"} => exec'[k] = exec[k]]_vars
NoLateSubscription == [][\A k \in Inst : st[k] \in {"removed", "failed"} => subs'[k] \subseteq subs[k]]_vars

\* removing one object never affects the others
OthersUnaffected ==
  [][svc' = "up" =>
       /\ Cardinality({k \in Inst : st[k] = "live" /\ st'[k] # "live"}) <= 1
       /\ \A k \in Inst : (st[k] = "live" /\ st'[k] = "live") =>
             (idOf'[k] = idOf[k] /\ term'[k] = term[k] /\ subs[k] \subseteq subs'[k] /\ told'[k] = told[k])]_vars

NoCrash == ~crashed

\* state constraint: the invocation and event counters only matter up to a small bound
Bounded == \A k \in Inst : exec[k] <= MaxExec /\ \A s \in Subs : got[k][s] <= MaxEmit
=============================================================================
