SPECIFICATION GSpec
CONSTANTS
  Handlers = {1, 2, 3}
  Users = {1, 2, 3}
  Prefill = 0
  Msgs = {1001, 1002}
  MaxMsgs = 2
  Kinds = {1, 2, 4}
  InitSlots = 10
VIEW View
INVARIANTS QuiescentIsExact CloserAtMostOnce QueueCloseAtMostOnce CloserBeforeQueueClose
CHECK_DEADLOCK FALSE
