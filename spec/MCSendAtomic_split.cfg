SPECIFICATION Spec
CONSTANTS
  Senders = {1, 2}
  PerSender = 2
  WritesPerSend = 2
INVARIANTS Intact
CHECK_DEADLOCK FALSE
