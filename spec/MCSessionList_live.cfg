SPECIFICATION FairSpec
CONSTANTS
  Names = {"a"}
  Eps = {"E", "F"}
  MaxReg = 1
  Gor = {"g1"}
  Terms = {"t1"}
  QCap = 1
  WithGone = TRUE
  WithIdReq = FALSE
  Dev_ListBeforeSubscribe = FALSE
  Dev_AddedIgnored = FALSE
  Dev_RemovedIgnored = FALSE
  Dev_RefreshThenDrain = FALSE
  Dev_StoreNotAtomic = FALSE
  Dev_CancelNotCleared = FALSE
  Dev_CancelCheckOutsideLock = FALSE
  Dev_FailedRefreshKeepsSession = FALSE
  Dev_TerminateLeavesDirectory = FALSE
  Dev_ResolveByNameAgain = FALSE
INVARIANTS TypeOK ProcessAlive CancelAtMostOnce ListIsSnapshot QuiescentListCurrent ResolvedWhatWasFound FailedRefreshClosesSession TerminatedIsStopped LoopStopsOnce
PROPERTIES AnnouncedIsListed RemovedIsForgotten RequestsReturn TerminateReturns LoopStops
CHECK_DEADLOCK FALSE
