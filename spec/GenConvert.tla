----------------------------- MODULE GenConvert -----------------------------
(* Vector export for Convert (DESIGN.md 2.2 b).
   "V": [S, T, v, want, out]  one conversion: source type, target type, source
        value, the verdict the statement demands ("ok" / "error") and, for
        "ok", the value the target must hold afterwards.  The way back
        (T -> S must give v again) is checked by the harness on the same vector.
   "C": [S, T, U, v, out]     a chain S -> T -> U of compatible conversions
        (out: the value of type U), then U -> S back to v.                   *)
EXTENDS Convert, Json

Vec == [S |-> vec.S, T |-> vec.T, v |-> vec.v, want |-> vec.want,
        out |-> IF vec.want = "ok" THEN Conv(vec.S, vec.T, vec.v) ELSE "none"]
Export == PrintT(<<"V", ToJson(Vec)>>)

ChainSrc == SrcSets["small"]
ASSUME \A S \in ChainSrc : \A T \in Targets(S) : \A U \in Targets(T) : \A v \in Values(S) :
          /\ Compatible(S, U)
          /\ Conv(U, S, Conv(T, U, Conv(S, T, v))) = v
          /\ (T # S /\ U # T /\ WellFormed(T) /\ WellFormed(U)) =>
               PrintT(<<"C", ToJson([S |-> S, T |-> T, U |-> U, v |-> v, out |-> Conv(T, U, Conv(S, T, v))])>>)
=============================================================================
