SPECIFICATION Spec
CONSTANTS
  Universe = "quick"
  MapOrder = {}
  LastChanceAny = {}
  WalkSorted = TRUE
  AssumeUserRange = TRUE
INVARIANTS ProxyIdentsDistinct
CHECK_DEADLOCK FALSE
