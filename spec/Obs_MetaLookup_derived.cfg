SPECIFICATION Spec
CONSTANTS
  Universe = "quick"
  MapOrder = {}
  LastChanceAny = {}
  WalkSorted = TRUE
  AssumeUserRange = TRUE
  QueryTypes = {"names"}
INVARIANTS ProxyIdentsDistinct
CHECK_DEADLOCK FALSE
