------------------------------ MODULE GenIdl ------------------------------
(* Export for Idl (C18): one line per interface of the generator's state
   graph: "I": [cls, acts]  cls = the class of the interface (the class of its
   one non-plain action, else "plain"), acts = the meta-object entries
   (MetaOf) - which are also the expected result of GenerateIDL o ParseIDL. *)
EXTENDS Idl, Json

ItfClass == IF \E i \in chosen : Special(i)
            THEN ThePool[CHOOSE i \in chosen : Special(i)].cls ELSE "plain"
Export == PrintT(<<"I", ToJson([cls |-> ItfClass, acts |-> {MetaOf(a) : a \in Actions}])>>)
=============================================================================
