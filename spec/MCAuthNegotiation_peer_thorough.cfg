SPECIFICATION Spec
CONSTANTS
  AuthMode <- EnvAuthMode
  Script <- ScriptFTF
  Shapes <- MidShapes
  Creds <- NoCreds
  Answers <- NoAnswers
  Foreign = FALSE
  Driver = "peer"
  Clients <- One
  MaxSends = 4
  MaxProbes = 2
  Holds = TRUE
  Dev_WrongTypedReadAsEmpty = FALSE
  Dev_ClientStateTrusted = FALSE
  Dev_MarkBeforeAsk = FALSE
  Dev_ContinueReadsAsDone = FALSE
  Dev_RefusalLeavesOpen = FALSE
  Dev_FailureOpens = FALSE
  Dev_NewTokenSubstitutes = FALSE
  Dev_ContinueForEver = FALSE
  Dev_TokenNotKept = FALSE
  Dev_ContinueCountsAsDone = FALSE
INVARIANTS TypeOK GateNeedsAcceptedPair AskedOnlyPresentedPairs DeliveredOnlyBehindAcceptedPair ContinueNeverOpens RefusedProbeCloses
PROPERTIES FailedAuthKeepsGate
CHECK_DEADLOCK FALSE
