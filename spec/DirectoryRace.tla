---------------------------- MODULE DirectoryRace ----------------------------
(* The "split rendering" of the service directory (DESIGN.md 3.1, C15): the
   method bodies of bus/directory/directory.go as the sequence of steps a
   second caller can interleave with, for callers that do NOT go through the
   object's mailbox (directoryNamespace.Reserve / Enable / Remove run on the
   caller's goroutine).  The cut points are exactly the vhook gates of the
   code:

     RegisterService   RegCheck  (l.96-105: name free among staging, services)
                       -- gate directory.register.checked --
                       RegInc    (l.106 lastID++)
                       RegPut    (l.107-109 staging[lastID] = info; return lastID)
     ServiceReady      ReadyMove (l.131-134 staging -> services)
                       -- gate directory.ready.moved --
                       ReadyEmit (l.135-138 serviceAdded)
     UnregisterService UnregDel  (l.113-115 / 122-124)
                       -- gate directory.unregister.deleted --
                       UnregEmit (l.116-119 serviceRemoved)

   Locked = TRUE models the mutex of serviceDirectory (taken at method entry,
   released at return, held while the signal is emitted); Locked = FALSE is the
   code before that repair.  TLC: with the lock every interleaving keeps the
   invariants; without it NameHeldByAtMostOne / IdsUnique fail after four
   steps (both callers pass RegCheck before either inserts).               *)
EXTENDS Naturals, Sequences, FiniteSets, TLC

CONSTANTS Callers, Names, MaxOps, Locked

VARIABLES staging, services,   \* id -> name
          lastID, events,      \* events: sequence of <<kind, id>>
          lock,                \* "free" or the caller holding the mutex
          pc, arg, ops,        \* per caller: program counter, current argument, operations started
          got                  \* sequence of ids returned by successful registrations
vars == <<staging, services, lastID, events, lock, pc, arg, ops, got>>

Without(f, i) == [x \in DOMAIN f \ {i} |-> f[x]]
With(f, i, v) == [x \in DOMAIN f \cup {i} |-> IF x = i THEN v ELSE f[x]]
NamesOf(f) == {f[i] : i \in DOMAIN f}
IdsArg == 1..(1 + MaxOps * Cardinality(Callers))

Init == /\ staging = [i \in {} |-> "x"] /\ services = [i \in {1} |-> "ServiceDirectory"]
        /\ lastID = 1 /\ events = <<>> /\ lock = "free"
        /\ pc = [c \in Callers |-> "idle"] /\ arg = [c \in Callers |-> [n |-> "", id |-> 0]]
        /\ ops = [c \in Callers |-> 0] /\ got = <<>>

Acquire(c) == IF Locked THEN lock = "free" /\ lock' = c ELSE UNCHANGED lock
Release(c) == IF Locked THEN lock' = "free" ELSE UNCHANGED lock
Goto(c, l) == pc' = [pc EXCEPT ![c] = l]

(* ---- RegisterService ---- *)
RegCheck(c, n) ==
  /\ pc[c] = "idle" /\ ops[c] < MaxOps /\ Acquire(c)
  /\ ops' = [ops EXCEPT ![c] = @ + 1]
  /\ arg' = [arg EXCEPT ![c] = [n |-> n, id |-> 0]]
  /\ IF n \in NamesOf(staging) \cup NamesOf(services)
       THEN Goto(c, "unlock")                       \* refused
       ELSE Goto(c, "reg_checked")
  /\ UNCHANGED <<staging, services, lastID, events, got>>
RegInc(c) ==
  /\ pc[c] = "reg_checked" /\ lastID' = lastID + 1 /\ Goto(c, "reg_inc")
  /\ UNCHANGED <<staging, services, events, lock, arg, ops, got>>
RegPut(c) ==
  /\ pc[c] = "reg_inc"
  /\ staging' = With(staging, lastID, arg[c].n)
  /\ got' = Append(got, lastID)
  /\ Goto(c, "unlock")
  /\ UNCHANGED <<services, lastID, events, lock, arg, ops>>

(* ---- ServiceReady ---- *)
ReadyMove(c, id) ==
  /\ pc[c] = "idle" /\ ops[c] < MaxOps /\ Acquire(c)
  /\ ops' = [ops EXCEPT ![c] = @ + 1]
  /\ arg' = [arg EXCEPT ![c] = [n |-> "", id |-> id]]
  /\ IF id \in DOMAIN staging
       THEN /\ services' = With(services, id, staging[id]) /\ staging' = Without(staging, id)
            /\ Goto(c, "ready_moved")
       ELSE /\ Goto(c, "unlock") /\ UNCHANGED <<staging, services>>
  /\ UNCHANGED <<lastID, events, got>>
ReadyEmit(c) ==
  /\ pc[c] = "ready_moved" /\ events' = Append(events, <<"added", arg[c].id>>) /\ Goto(c, "unlock")
  /\ UNCHANGED <<staging, services, lastID, lock, arg, ops, got>>

(* ---- UnregisterService ---- *)
UnregDel(c, id) ==
  /\ pc[c] = "idle" /\ ops[c] < MaxOps /\ Acquire(c)
  /\ ops' = [ops EXCEPT ![c] = @ + 1]
  /\ arg' = [arg EXCEPT ![c] = [n |-> "", id |-> id]]
  /\ IF id \in DOMAIN services
       THEN services' = Without(services, id) /\ Goto(c, "unreg_deleted") /\ UNCHANGED staging
       ELSE IF id \in DOMAIN staging
         THEN staging' = Without(staging, id) /\ Goto(c, "unlock") /\ UNCHANGED services
         ELSE Goto(c, "unlock") /\ UNCHANGED <<staging, services>>
  /\ UNCHANGED <<lastID, events, got>>
UnregEmit(c) ==
  /\ pc[c] = "unreg_deleted" /\ events' = Append(events, <<"removed", arg[c].id>>) /\ Goto(c, "unlock")
  /\ UNCHANGED <<staging, services, lastID, lock, arg, ops, got>>

Return(c) == /\ pc[c] = "unlock" /\ Release(c) /\ Goto(c, "idle")
             /\ UNCHANGED <<staging, services, lastID, events, arg, ops, got>>

Next == \E c \in Callers :
          \/ \E n \in Names : RegCheck(c, n)
          \/ RegInc(c) \/ RegPut(c)
          \/ \E id \in IdsArg : ReadyMove(c, id) \/ UnregDel(c, id)
          \/ ReadyEmit(c) \/ UnregEmit(c) \/ Return(c)
Spec == Init /\ [][Next]_vars

-----------------------------------------------------------------------------
NameHeldByAtMostOne ==
  /\ DOMAIN staging \cap DOMAIN services = {}
  /\ \A i, j \in DOMAIN staging \cup DOMAIN services :
       LET nm(x) == IF x \in DOMAIN staging THEN staging[x] ELSE services[x]
       IN i # j => nm(i) # nm(j)
IdsUnique == \A i, j \in 1..Len(got) : i < j => got[i] < got[j]     \* strictly increasing, never reused
\* per identifier: added at most once, removed at most once and only after added
EventsInOrder ==
  \A id \in IdsArg :
    LET es == SelectSeq(events, LAMBDA e : e[2] = id)
    IN \/ es = <<>> \/ es = <<<<"added", id>>>> \/ es = <<<<"added", id>>, <<"removed", id>>>>
       \/ (id = 1 /\ es = <<<<"removed", 1>>>>)       \* the directory's own entry was added before anybody listened
\* the mutex really is one
MutualExclusion == Locked => Cardinality({c \in Callers : pc[c] # "idle"}) <= 1
=============================================================================
