SPECIFICATION GSpec
CONSTANTS
  MaxInst = 3
  MaxExec = 1
  MaxEmit = 1
  Subs = {"s1"}
  SampleMod = 2
  Tag = "T"
  MaxLen = 99
  Dev_BoxKeptAfterRemove = FALSE
  Dev_IdZeroAfterMainRemoved = FALSE
  Dev_TerminateKeepsObjects = FALSE
  Dev_FailedAddLeavesEntry = FALSE
  ClientSide = FALSE
  Dev_ClientRemoveKeepsEntry = FALSE
  Dev_ClientLateCallDropped = FALSE
VIEW View
CONSTRAINT Bounded
INVARIANTS UniqueLiveIds TerminateHookExactlyOnce SubscribersTold NoCrash
CHECK_DEADLOCK FALSE
