SPECIFICATION Spec
CONSTANTS
  Conns = {1, 2}
  Users = {1}
  Alphabet <- Alpha_three
  MaxMsgs = 3
  MaxStack = 16
  WithDisconnect = FALSE
  SendWhen = "idle"
  AutoOff = FALSE
  KeepOut = "none"
  Dev_NoTraceGuard = TRUE
  Dev_CompareChannel = FALSE
  Dev_TracedWrapsRaw = FALSE
  Dev_StatAnyAction = FALSE
  Dev_ClearForgets = FALSE
  Dev_ReplyBypassesTrace = FALSE
  Dev_RemoveDropsLast = FALSE
  Dev_LateRegistrationKept = FALSE
INVARIANTS TraceBounded
CHECK_DEADLOCK FALSE
