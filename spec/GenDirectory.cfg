SPECIFICATION GSpec
CONSTANTS
  Names = {"a", "b"}
  MaxId = 3
  BadKinds = {"noname", "nomachine", "nopid", "noep", "emptyep"}
  Eps = {"e2"}
  UpdKinds = {"ok", "nomachine"}
  Tag = "T"
  SampleMod = 1
  MaxLen = 99
VIEW View
INVARIANTS NameHeldByAtMostOne VisibleIffReady EventsOncePerTransitionInOrder
CHECK_DEADLOCK FALSE
