SPECIFICATION GSpec
CONSTANTS
  Threads <- Cast1678
  Conns = {"c1", "c2"}
  Signals = {"A", "B"}
  Objects = {"o1", "o2", "o3"}
  ConnOf <- CastConn
  SigOf <- CastSig
  ObjOf <- CastObj
  Rounds <- CR1
  EmitSeq <- EmitO1231
  QCap = 8
  Dev_ProxySectionsNotAtomic = TRUE
  Dev_SendAfterSnapshot = TRUE
  Devs = {}
  Probe <- NoProbe
  Failing = {}
  Inject <- InjC1O1A
  Rogue = {}
  Hunt = ""
CHECK_DEADLOCK FALSE
