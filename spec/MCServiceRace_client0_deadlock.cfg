SPECIFICATION Spec
CONSTANTS
  r1 = r1
  r2 = r2
  r3 = r3
  Racers = {r1, r2}
  Live0 = 2
  Pool = {3, 4, 5}
  Ops = {"terminate", "add"}
  MaxOps = 1
  RemoveMode = "client0"
  TerminateMode = "client0"
  AddMode = "locked"
INVARIANTS TypeOK MutualExclusion TerminateHookExactlyOnce OneRemoveSucceeds UniqueLiveIds
CHECK_DEADLOCK TRUE
