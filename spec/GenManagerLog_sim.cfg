\* simulated behaviours of the code as found: 3 listeners (the third belongs to the client of the first), a recording and a real
\* provider, every operation, no gate
SPECIFICATION GSpec
CONSTANTS
  Listeners = {1, 2, 3}
  Providers = {1, 2}
  RealProv = {2}
  LevelsUsed = {2, 4, 6}
  BadLevel = 7
  Pats = {"core", "app"}
  BadPat = "("
  Cats = {"core", "core.net", "app"}
  InitLive = {}
  InitProv = {}
  Hist = TRUE
  MaxHold = 0
  MaxMgr = 99
  MaxLst = 99
  MgrOps = {"create", "addprov", "rmprov", "log", "rlog", "pdrop"}
  LstOps = {"setlevel", "setprop", "getprop", "addfilter", "clear", "terminate", "drop"}
  MaxCmds = 14
  PrintAll = FALSE
  Match <- MCMatch
  PCat <- MCPCat
  ClientOf <- MCClientOf31
  Batches <- MCBatches2
  Dev_FilterOnlyWidens = TRUE
  Dev_MinCategoryJoin = TRUE
  Dev_NoRecomputeOnTerminate = TRUE
  Dev_LostListenerKept = TRUE
  Dev_StalePush = TRUE
  Dev_SetLevelBypassesProperty = TRUE
  Dev_AddFilterHoldsLock = TRUE
  Dev_UnlockedFilterRead = TRUE
  Dev_RejectedWriteSaved = FALSE
CHECK_DEADLOCK FALSE
