SPECIFICATION Spec
CONSTANTS
  Threads <- Cast94
  Conns = {"c2", "c3"}
  Signals = {"A"}
  Objects = {"o1"}
  ConnOf <- CastConn
  SigOf <- CastSig
  ObjOf <- CastObj
  Rounds <- CR1
  EmitSeq <- EmitO11
  QCap = 2
  Dev_ProxySectionsNotAtomic = FALSE
  Dev_SendAfterSnapshot = FALSE
  Devs = {}
  Probe <- NoProbe
  Failing = {"c3"}
  Inject <- NoInject
  Rogue = {}
INVARIANTS TypeOK NoDuplicate InOrderNoGap Complete NoForeignSignal ClosedAfterCancel NothingAfterUnregisterAck OthersUndisturbed AtMostOneRegistration NoLeak RemovedAtMostOnce NoDeadRegistration
CHECK_DEADLOCK FALSE
