SPECIFICATION TSpec
CONSTANTS
  LocalConns = {}
  FreeOrder = TRUE
  DevBoth = FALSE
  PinConn = FALSE
  WithGates = FALSE
  MaxGates = 0
  Modes = {"fast"}
  CloseErr = {1}
  Svcs = {1, 2}
  Objs = {11, 12, 21}
  InitSvcs = {1, 2}
  Conns = {1, 2}
  InitConns = {1, 2}
  Calls = {1, 2, 3, 4}
  MaxSrvTerm = 1
  TermSvcs = {1, 2}
  CallConns = {1, 2}
  CallObjs = {11, 12, 21}
  EnvOps = {"listenfail"}
  Dev_SecondTerminatePanics = FALSE
  Dev_TerminateAfterStopPanics = FALSE
  Dev_LateAcceptStaysOpen = FALSE
  Dev_FailedNewServiceKeepsName = FALSE
  Dev_CloseAllStopsAtError = FALSE
  Dev_SplitSvcSwap = FALSE
  Dev_TerminatorKeepsName = FALSE
  Dev_TerminatorRemovesAll = FALSE
  Dev_TerminateKeepsService = FALSE
  Dev_EnqueueDropsAfterTerminate = FALSE
  Dev_ListenFailNoStop = FALSE
INVARIANTS TypeOK NoPanic TermAtMostOnce ServerDownComplete AllConnectionsClosed ListenFailStops SvcDownComplete LateCallsRefused
CONSTRAINT Track
POSTCONDITION Accepted
CHECK_DEADLOCK FALSE
