-------------------------- MODULE GenAuthNegotiation --------------------------
(***************************************************************************)
(* Behaviour export for AuthNegotiation (spec -> code).  The harness plays  *)
(* the environment one command at a time; between two commands both sides  *)
(* run until nothing moves (a held Authenticator counts as rest).           *)
(*   peer:   auth(shape) | probe | hold | release      (raw frames against  *)
(*           a real StandAloneServer)                                       *)
(*   client: start(i, creds) | again(i) | answer(a) | hold | release        *)
(*           (bus.Authentication against the real server, or against a      *)
(*           foreign server whose answers are the commands)                 *)
(* hist = the commands with the observation after each; exported at every   *)
(* state of rest.  GENVIEW = "cover": hist is hidden from the fingerprint:  *)
(* one behaviour per (state of rest, command) transition, reached by a      *)
(* shortest prefix; "tree": every command sequence up to MaxSends.          *)
(***************************************************************************)
EXTENDS MCAuthNegotiation, Json

VARIABLES hist, settled
gvars == <<vars, hist, settled>>

NoA == [k |-> "", nt |-> ""]
Arg(i, sh, cr, a) == [i |-> i, sh |-> sh, u |-> cr[1], t |-> cr[2], ans |-> a]
NoCr == <<"", "">>

Obs == [gate   |-> Gate,
        closed |-> sclosed,
        asked  |-> asked,
        got    |-> [k \in 1..Len(got) |-> got[k].kind],
        nprobe |-> nprobe,
        held   |-> (sph = "asking" /\ hold),
        cli    |-> [i \in Clients |-> [ph |-> cli[i].ph, out |-> cli[i].out, n |-> cli[i].n, t |-> cli[i].t, nt |-> cli[i].nt]],
        pend   |-> [k \in 1..Len(fq) |-> [kind |-> fq[k].kind, u |-> fq[k].sh.u, t |-> fq[k].sh.t]]]

Cmd(o, a) == /\ hist' = Append(hist, [o |-> o, a |-> a, post |-> Obs])
             /\ settled' = FALSE

Command ==
  \/ \E sh \in Shapes : PeerAuth(sh) /\ Cmd("auth", Arg(0, sh, NoCr, NoA))
  \/ PeerProbe /\ Cmd("probe", Arg(0, NoShape, NoCr, NoA))
  \/ Hold /\ Cmd("hold", Arg(0, NoShape, NoCr, NoA))
  \/ Release /\ Cmd("release", Arg(0, NoShape, NoCr, NoA))
  \/ \E i \in Clients, cr \in Creds : CliStart(i, cr) /\ Cmd("start", Arg(i, NoShape, cr, NoA))
  \/ \E i \in Clients : CliAgain(i) /\ Cmd("again", Arg(i, NoShape, NoCr, NoA))
  \/ \E a \in Answers : ForeignAnswer(a) /\ Cmd("answer", Arg(0, NoShape, NoCr, a))

Settle == /\ ~settled /\ settled' = TRUE
          /\ hist' = [hist EXCEPT ![Len(hist)].post = Obs]
          /\ PrintT(<<"T", ToJson(hist')>>)
          /\ UNCHANGED vars

GInit == Init /\ hist = <<>> /\ settled = TRUE
GNext == IF ENABLED Internal THEN (Internal /\ UNCHANGED <<hist, settled>>)
         ELSE IF ~settled THEN Settle
         ELSE Command
GSpec == GInit /\ [][GNext]_gvars

(* vectors of the gate's reading of a state entry (bus/auth.go l.39-57) *)
ASSUME PrintT(<<"S", ToJson([s \in StateVals |-> ReadsAsDone(s)])>>)

(* cover: what the next steps depend on (the histories asked / got / sent are not part of it, except the
   position in the script) *)
Abstract == <<inq, mbox, sph, scur, cstate, sclosed, hold, outq, cli, fq, Len(asked) % 3, issued>>
View == IF IOEnv.GENVIEW = "cover"
        THEN <<Abstract, settled, IF settled THEN <<>> ELSE hist>>
        ELSE <<vars, settled, hist>>
=============================================================================
