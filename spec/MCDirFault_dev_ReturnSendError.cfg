SPECIFICATION FSpec
CONSTANTS
  Names = {"a"}
  MaxId = 3
  BadKinds = {}
  Eps = {}
  ObsSeq <- Obs2
  WithBreak = TRUE
  WithDrop = TRUE
  WithStall = FALSE
  WithReads = FALSE
  Dev_ReturnSendError = TRUE
  Dev_RollbackOnSendError = FALSE
  Dev_EmitThenCommit = FALSE
  Dev_StopAtFirstError = FALSE
  Dev_ResendOnError = FALSE
  Dev_LiveTable = FALSE
CONSTRAINT KeepDirectory
INVARIANTS OutcomeIsSequential
CHECK_DEADLOCK FALSE
