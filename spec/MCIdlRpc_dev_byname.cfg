\* Vacuity / sensitivity of RightOverloadRuns: with the named deviation "by-name-only" (the proxy resolves
\* the action id of a call by the method name alone) TLC must find a call that another overload executes.
SPECIFICATION RSpec
CONSTANTS
  Pool = "c"
  MaxActions = 1
  MaxOps = 1
  MaxPick = 1
  Layouts = {"aux-first"}
  Devs = {"by-name-only"}
INVARIANTS RTypeOK RightOverloadRuns
CHECK_DEADLOCK FALSE
