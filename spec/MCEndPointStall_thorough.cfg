SPECIFICATION Spec
CONSTANTS
  Closers = {"c1", "c2"}
  Senders = {"s1"}
  Handlers = {"h1", "h2"}
  MaxIn = 3
  Permissive = FALSE
  LockFirst = FALSE
INVARIANTS TypeOK MutexHeldByOne ClosedMeansDetached ApiWaits
PROPERTIES CloseReturns SendReleased ReaderStops DetachedGetClosed NoWorkAfterStop
CHECK_DEADLOCK FALSE
