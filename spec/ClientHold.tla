----------------------------- MODULE ClientHold -----------------------------
(***************************************************************************)
(* Client.tla with the connection's shutdown held open (C11).               *)
(*                                                                         *)
(* endPoint.closeWith is stream.Close() followed by the sweep of the        *)
(* handlers under the mutex; Client.tla renders it as one step at the       *)
(* moment the stream is closed.  While the reader goroutine has seen the    *)
(* read error but has not closed the stream yet (proc = "closing") the      *)
(* connection is half dead: with an end-of-stream the write side still      *)
(* accepts requests.  The environment can hold the system in that state     *)
(* (the harness blocks the transport's Close at its entry) and start calls  *)
(* there: each must register, be written, and fail once the shutdown goes   *)
(* on - a call that is neither swept nor refused would wait for ever.       *)
(*   Hold    arm the gate: the reader's closeWith cannot proceed            *)
(*   Unhold  release it                                                     *)
(* The user's own Close() is not issued while the gate is armed.            *)
(***************************************************************************)
EXTENDS Client

VARIABLE hold
hvars == <<allvars, hold>>

HInit == CInit /\ hold = 0      \* 0 never armed | 1 armed | 2 released (armed at most once)

Hold == hold = 0 /\ ~faulted /\ hold' = 1 /\ UNCHANGED allvars
Unhold == hold = 1 /\ hold' = 2 /\ UNCHANGED allvars

\* the reader's shutdown (the only step from "closing" to "stopped") waits for the gate
HInternal == Internal /\ UNCHANGED hold /\ ~(hold = 1 /\ proc = "closing" /\ proc' = "stopped")
\* LocalClose is the only environment step that closes the stream
HEnv == \/ Env /\ UNCHANGED hold /\ (hold = 1 => stream' = stream)
        \/ Hold \/ Unhold

HNext == HInternal \/ HEnv
HProgress == HInternal \/ Unhold \/ (UNCHANGED hold /\ \E k \in Calls : SendEnd(k) \/ SendFail(k))
HSpec == HInit /\ [][HNext]_hvars /\ WF_hvars(HProgress)
         /\ \A k \in Calls : WF_hvars((AwaitReply(k) \/ AwaitErr(k) \/ AwaitClosed(k)) /\ UNCHANGED hold)
         /\ \A h \in Handlers : WF_hvars((AsyncCloser(h) \/ AsyncQClose(h)) /\ UNCHANGED <<cvars, hold>>)

\* a call started while the shutdown is held is written to a stream that still accepts it
HeldCallIsWritten == \A k \in Calls : (hold = 1 /\ proc = "closing" /\ peer = "eof" /\ cst[k] = "writing") => seen[k]
=============================================================================
