SPECIFICATION TSpec
CONSTANTS
  Handlers <- HandlerRange
  MaxHandlers = 16
  Msgs = {0}
  InitSlots = 10
CONSTRAINT Track
INVARIANTS CloserAtMostOnce QueueCloseAtMostOnce CloserBeforeQueueClose SlotUniqueAmongLive
POSTCONDITION Accepted
CHECK_DEADLOCK FALSE
