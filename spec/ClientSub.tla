------------------------------ MODULE ClientSub ------------------------------
(***************************************************************************)
(* Client.tla with the subscription's cancel function (bus/client.go        *)
(* Subscribe, l.160-176): the forwarding goroutine selects between its      *)
(* queue and the abort channel; on abort it removes its handler - which     *)
(* fails when a shutdown has already cleared the slot - and closes the      *)
(* events channel all the same.  Whatever the order of connection loss and  *)
(* cancel, the subscriber's channel ends up closed (C11, C13).              *)
(*   CancelReq   the application calls cancel()              (environment)  *)
(*   CancelTake  the goroutine takes the abort branch: RemoveHandler(id)     *)
(*               (valid or stale), close(events)                             *)
(***************************************************************************)
EXTENDS Client

VARIABLES cancelReq, subSlot,
          reading,   \* 0 the subscriber reads its channel | 1 it has stopped reading | 2 it reads again
          gstate     \* forwarding goroutine: "select" | "sending" (blocked in `events <- payload`: the channel
                     \* is unbuffered, so neither the abort channel nor the queue is looked at meanwhile)
svars == <<allvars, cancelReq, subSlot, reading, gstate>>

SInit == CInit /\ cancelReq = FALSE /\ subSlot = 0 /\ reading = 0 /\ gstate = "select"

\* the slot MakeHandler returned to Subscribe
TrackSlot == subSlot' = IF hst[HS] = "unreg" /\ hst'[HS] = "live" THEN res' ELSE subSlot

Extra == <<cancelReq, subSlot, reading, gstate>>

CancelReq == /\ WithSub /\ sub = "on" /\ ~cancelReq /\ cancelReq' = TRUE
             /\ UNCHANGED <<allvars, subSlot, reading, gstate>>
\* the subscriber stops / resumes reading its channel (each once)
Pause == /\ WithSub /\ sub = "on" /\ reading = 0 /\ reading' = 1 /\ UNCHANGED <<allvars, cancelReq, subSlot, gstate>>
Resume == /\ reading = 1 /\ reading' = 2 /\ UNCHANGED <<allvars, cancelReq, subSlot, gstate>>

CancelTake ==
  /\ sub = "on" /\ cancelReq /\ gstate = "select"
  /\ (RemoveBegin(subSlot) \/ RemoveErr(subSlot))
  /\ sub' = "closed"
  /\ UNCHANGED <<cst, out, hslot, late, peer, seen, replied, half, derr, subGot, evSent, faulted>>
  /\ UNCHANGED Extra

\* the goroutine takes an event while nobody reads: it blocks in the send
TakeBlocked ==
  /\ sub = "on" /\ gstate = "select" /\ reading = 1 /\ QLen(HS) > 0
  /\ taken' = [taken EXCEPT ![HS] = @ + 1] /\ gstate' = "sending"
  /\ UNCHANGED <<slots, hst, delivered, cap, closerN, closeN, stream, mu, proc, inbox, cur, res>>
  /\ UNCHANGED <<cvars, cancelReq, subSlot, reading>>
\* the subscriber reads again: the blocked send completes
Deliver2 ==
  /\ gstate = "sending" /\ reading # 1
  /\ subGot' = subGot + 1 /\ gstate' = "select"
  /\ UNCHANGED <<vars, cst, out, hslot, late, peer, seen, replied, half, derr, sub, evSent, faulted>>
  /\ UNCHANGED <<cancelReq, subSlot, reading>>

\* Client's own steps: forwarding (the only step that changes subGot) needs a reading subscriber, and the
\* goroutine notices the closed queue (the only Internal step closing the subscription) only in its select
Guarded(A) == /\ A /\ UNCHANGED <<cancelReq, reading, gstate>> /\ TrackSlot
              /\ (subGot' # subGot => (reading # 1 /\ gstate = "select"))
              /\ ((sub = "on" /\ sub' = "closed") => gstate = "select")
SInternal == Guarded(Internal) \/ CancelTake \/ TakeBlocked \/ Deliver2
SEnv == Guarded(Env) \/ CancelReq \/ Pause \/ Resume
SNext == SInternal \/ SEnv
SProgress == SInternal \/ Resume \/ (UNCHANGED Extra /\ \E k \in Calls : SendEnd(k) \/ SendFail(k))
SSpec == SInit /\ [][SNext]_svars /\ WF_svars(SProgress) /\ WF_svars(CancelTake) /\ WF_svars(Resume) /\ WF_svars(Deliver2)
         /\ \A k \in Calls : WF_svars((AwaitReply(k) \/ AwaitErr(k) \/ AwaitClosed(k)) /\ UNCHANGED Extra)
         /\ \A h \in Handlers : WF_svars((AsyncCloser(h) \/ AsyncQClose(h)) /\ UNCHANGED <<cvars, cancelReq, subSlot, reading, gstate>>)
         /\ WF_svars(Guarded(SubQueueClosed))

\* a cancelled subscription is closed, whether or not the connection was lost before, during or after
CancelCloses == (sub = "on" /\ cancelReq) ~> (sub = "closed")
\* nothing is forwarded once the channel is closed
ClosedStaysClosed == [][sub = "closed" => (sub' = "closed" /\ subGot' = subGot)]_svars
=============================================================================
