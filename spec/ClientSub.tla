------------------------------ MODULE ClientSub ------------------------------
(***************************************************************************)
(* Client.tla with the subscription's cancel function (bus/client.go        *)
(* Subscribe, l.160-176): the forwarding goroutine selects between its      *)
(* queue and the abort channel; on abort it removes its handler - which     *)
(* fails when a shutdown has already cleared the slot - and closes the      *)
(* events channel all the same.  Whatever the order of connection loss and  *)
(* cancel, the subscriber's channel ends up closed (C11, C13).              *)
(*   CancelReq   the application calls cancel()              (environment)  *)
(*   CancelTake  the goroutine takes the abort branch: RemoveHandler(id)     *)
(*               (valid or stale), close(events)                             *)
(***************************************************************************)
EXTENDS Client

VARIABLES cancelReq, subSlot
svars == <<allvars, cancelReq, subSlot>>

SInit == CInit /\ cancelReq = FALSE /\ subSlot = 0

\* the slot MakeHandler returned to Subscribe
TrackSlot == subSlot' = IF hst[HS] = "unreg" /\ hst'[HS] = "live" THEN res' ELSE subSlot

CancelReq == /\ WithSub /\ sub = "on" /\ ~cancelReq /\ cancelReq' = TRUE
             /\ UNCHANGED <<allvars, subSlot>>

CancelTake ==
  /\ sub = "on" /\ cancelReq
  /\ (RemoveBegin(subSlot) \/ RemoveErr(subSlot))
  /\ sub' = "closed"
  /\ UNCHANGED <<cst, out, hslot, late, peer, seen, replied, half, derr, subGot, evSent, faulted>>
  /\ UNCHANGED <<cancelReq, subSlot>>

SInternal == (Internal /\ UNCHANGED cancelReq /\ TrackSlot) \/ CancelTake
SEnv == (Env /\ UNCHANGED cancelReq /\ TrackSlot) \/ CancelReq
SNext == SInternal \/ SEnv
SProgress == SInternal \/ (UNCHANGED <<cancelReq, subSlot>> /\ \E k \in Calls : SendEnd(k) \/ SendFail(k))
SSpec == SInit /\ [][SNext]_svars /\ WF_svars(SProgress) /\ WF_svars(CancelTake)
         /\ \A k \in Calls : WF_svars((AwaitReply(k) \/ AwaitErr(k) \/ AwaitClosed(k)) /\ UNCHANGED <<cancelReq, subSlot>>)
         /\ \A h \in Handlers : WF_svars((AsyncCloser(h) \/ AsyncQClose(h)) /\ UNCHANGED <<cvars, cancelReq, subSlot>>)
         /\ WF_svars(SubQueueClosed /\ UNCHANGED <<cancelReq, subSlot>>)

\* a cancelled subscription is closed, whether or not the connection was lost before, during or after
CancelCloses == (sub = "on" /\ cancelReq) ~> (sub = "closed")
\* nothing is forwarded once the channel is closed
ClosedStaysClosed == [][sub = "closed" => (sub' = "closed" /\ subGot' = subGot)]_svars
=============================================================================
