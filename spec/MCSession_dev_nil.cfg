SPECIFICATION Spec
CONSTANTS
  Gor = {"g1", "g2"}
  Eps = {"E"}
  Svcs = {"e", "t", "tx"}
  Adv <- AdvAll
  MaxReq = 1
  MaxLoss = 0
  AuthMayRefuse = FALSE
  Dev_RUnlockUnderWriteLock = FALSE
  Dev_NilChannelWhenAllSkipped = TRUE
  Dev_AuthFailureLeaksConnection = FALSE
  Dev_DeadClientStaysInPool = FALSE
  Dev_PoolKeyedByAdvertised = FALSE
  Dev_CloserBeforeInsert = FALSE
INVARIANTS TypeOK ProcessAlive
CHECK_DEADLOCK FALSE
