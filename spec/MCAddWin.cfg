SPECIFICATION Spec
CONSTANTS
  NAdd = 3
  StreamLen = 4
  MaxReseed = 2
  MaxCalls = 2
  MaxRemoves = 2
  ReserveMode = "both"
  CommitMode = "both"
  PendingAnswers = TRUE
  RemoveReserved = FALSE
  WithTerminate = FALSE
INVARIANTS TypeOK UniqueLiveIds Callable HookExactlyOnce NoGhostExecution AllAnswered NoReservationLeft
CHECK_DEADLOCK FALSE
