SPECIFICATION Spec
CONSTANTS
  Conns = {1, 2}
  Users = {1, 2}
  Alphabet <- Alpha_subs
  MaxMsgs = 4
  MaxStack = 12
  WithDisconnect = FALSE
  SendWhen = "idle"
  AutoOff = FALSE
  KeepOut = "none"
  Dev_NoTraceGuard = FALSE
  Dev_CompareChannel = FALSE
  Dev_TracedWrapsRaw = FALSE
  Dev_StatAnyAction = FALSE
  Dev_ClearForgets = FALSE
  Dev_ReplyBypassesTrace = FALSE
  Dev_RemoveDropsLast = FALSE
  Dev_LateRegistrationKept = FALSE
INVARIANTS TypeOK NoCrash AnsweredOnce UnregisterOwnSucceeds NoEventAfterUnregister EventsOnceInOrder NoSubscriberOfLostConnection TraceBounded StatsExact
CHECK_DEADLOCK FALSE
