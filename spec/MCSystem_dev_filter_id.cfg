SPECIFICATION SysSpec
CONSTANTS
  Conns <- OneConn
  InitAuthed <- OneConn
  Svcs = {1, 2}
  Objs <- ObjsT
  Methods = {100, 101}
  GenericActs = {8}
  FailTags = {}
  QCap = 1
  MCap = 1
  SrvAccept <- CodeFilter
  StubRuns <- ReqTypes
  AuthRuns <- CallOnly
  AuthMode = "yes"
  Script <- NoScript
  PeerMsgs <- NoPeerMsgs
  MaxSends = 0
  Hangups = FALSE
  Dev_CapMapUnsynchronised = FALSE
  Calls <- KTid
  ClientOf <- clientT
  EpOf <- epT
  SvcOf <- svcT
  ObjOf <- objT
  ActOf <- actT
  Raws <- rawT
  Deviations = {"FilterIgnoresId"}
INVARIANTS TypeOK AtMostOneOutcome OwnResult ExecOnceIfOk ExecAtMostOnce PostAtMostOnce PostNoResponse FramesOwed OnlyCallAndPostExecute ErrorIsOwn
CHECK_DEADLOCK FALSE
