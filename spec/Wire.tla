-------------------------------- MODULE Wire --------------------------------
(***************************************************************************)
(* The documented QiMessaging serialization (doc/about-qimessaging.md,     *)
(* "Serialization"), byte exact, as recursive operators over abstract      *)
(* type trees.  This module is the single, independent statement of the    *)
(* format that every codec of the implementation is compared against:      *)
(*   type/value (NewValue / Value.Write), meta/signature (TypeReader),     *)
(*   type/encoding (reflection encoder / decoder), type/basic, the         *)
(*   generated struct codecs (type/object, bus/directory), bus             *)
(*   (ReadCapabilityMap) and bus/net (Message).                            *)
(*                                                                         *)
(* Bytes are numbers 0..255, byte strings are sequences.  TLC integers are *)
(* 32-bit, so integer values that do not fit (and IEEE-754 constants) are  *)
(* *named* by their decimal spelling and mapped to bytes by lookup tables; *)
(* hostile 32-bit constants are byte quadruples.                           *)
(*                                                                         *)
(* Types   [k |-> c] for the scalar codes                                  *)
(*           b c C w W i I l L f d s  (bool, int8..uint64, float, double,  *)
(*           string), r (raw, only as a dynamic value), v (void),          *)
(*           m (dynamic value), o (object reference), X (unknown)          *)
(*         [k |-> "list", e |-> T]          [k |-> "map", key, val]        *)
(*         [k |-> "tuple", ms |-> <<T..>>]                                 *)
(*         [k |-> "struct", name, fs, ms]   (name, fs[i]: ASCII sequences) *)
(* Values  numeric: decimal spelling (a string); bool: BOOLEAN; s, r: byte *)
(*         sequence; v: "void"; list: sequence; map: sequence of <<k, x>>  *)
(*         (association list, keys distinct); tuple/struct: sequence of    *)
(*         member values; m: <<T, x>> (a typed value); o: value of ObjRefT *)
(***************************************************************************)
EXTENDS Integers, Sequences, FiniteSets, TLC

Err == [err |-> TRUE]
IsErr(x) == "err" \in DOMAIN x

RECURSIVE LE(_, _)
LE(n, w) == IF w = 0 THEN <<>> ELSE <<n % 256>> \o LE(n \div 256, w - 1)

RECURSIVE Concat(_)
Concat(ss) == IF ss = <<>> THEN <<>> ELSE Head(ss) \o Concat(Tail(ss))

Drop(b, n) == SubSeq(b, n + 1, Len(b))
Take(b, n) == SubSeq(b, 1, n)

(***************************************************************************)
(* Scalar kinds                                                            *)
(***************************************************************************)
NumKinds == {"c", "C", "w", "W", "i", "I", "l", "L", "f", "d"}
Width(k) == CASE k \in {"c", "C"} -> 1 [] k \in {"w", "W"} -> 2
              [] k \in {"i", "I", "f"} -> 4 [] k \in {"l", "L", "d"} -> 8

(* boundary values of every numeric kind: <<decimal spelling, bytes>>,     *)
(* "interesting" first (the first two form the reduced set used inside     *)
(* containers)                                                             *)
NumSeq(k) ==
  CASE k = "c" -> << <<"1", <<1>>>>, <<"-128", <<128>>>>, <<"0", <<0>>>>, <<"-1", <<255>>>>, <<"127", <<127>>>> >>
    [] k = "C" -> << <<"1", <<1>>>>, <<"255", <<255>>>>, <<"0", <<0>>>>, <<"128", <<128>>>> >>
    [] k = "w" -> << <<"258", <<2, 1>>>>, <<"-32768", <<0, 128>>>>, <<"0", <<0, 0>>>>, <<"1", <<1, 0>>>>,
                     <<"-1", <<255, 255>>>>, <<"32767", <<255, 127>>>> >>
    [] k = "W" -> << <<"258", <<2, 1>>>>, <<"65535", <<255, 255>>>>, <<"0", <<0, 0>>>>, <<"1", <<1, 0>>>>,
                     <<"32768", <<0, 128>>>> >>
    [] k = "i" -> << <<"16909060", <<4, 3, 2, 1>>>>, <<"-2147483648", <<0, 0, 0, 128>>>>, <<"0", <<0, 0, 0, 0>>>>,
                     <<"1", <<1, 0, 0, 0>>>>, <<"-1", <<255, 255, 255, 255>>>>, <<"2147483647", <<255, 255, 255, 127>>>> >>
    [] k = "I" -> << <<"16909060", <<4, 3, 2, 1>>>>, <<"4294967295", <<255, 255, 255, 255>>>>, <<"0", <<0, 0, 0, 0>>>>,
                     <<"1", <<1, 0, 0, 0>>>>, <<"2147483648", <<0, 0, 0, 128>>>> >>
    [] k = "l" -> << <<"72623859790382856", <<8, 7, 6, 5, 4, 3, 2, 1>>>>,
                     <<"-9223372036854775808", <<0, 0, 0, 0, 0, 0, 0, 128>>>>,
                     <<"0", <<0, 0, 0, 0, 0, 0, 0, 0>>>>, <<"1", <<1, 0, 0, 0, 0, 0, 0, 0>>>>,
                     <<"-1", <<255, 255, 255, 255, 255, 255, 255, 255>>>>,
                     <<"9223372036854775807", <<255, 255, 255, 255, 255, 255, 255, 127>>>> >>
    [] k = "L" -> << <<"72623859790382856", <<8, 7, 6, 5, 4, 3, 2, 1>>>>,
                     <<"18446744073709551615", <<255, 255, 255, 255, 255, 255, 255, 255>>>>,
                     <<"0", <<0, 0, 0, 0, 0, 0, 0, 0>>>>, <<"1", <<1, 0, 0, 0, 0, 0, 0, 0>>>>,
                     <<"9223372036854775808", <<0, 0, 0, 0, 0, 0, 0, 128>>>> >>
    [] k = "f" -> << <<"1.5", <<0, 0, 192, 63>>>>, <<"-2.25", <<0, 0, 16, 192>>>>, <<"0", <<0, 0, 0, 0>>>>,
                     <<"3.4028235e+38", <<255, 255, 127, 127>>>> >>
    [] k = "d" -> << <<"1.5", <<0, 0, 0, 0, 0, 0, 248, 63>>>>, <<"-2.25", <<0, 0, 0, 0, 0, 0, 2, 192>>>>,
                     <<"0", <<0, 0, 0, 0, 0, 0, 0, 0>>>>,
                     <<"1.7976931348623157e+308", <<255, 255, 255, 255, 255, 255, 239, 127>>>> >>

NumNames(k)  == {NumSeq(k)[i][1] : i \in 1..Len(NumSeq(k))}
NumSmall(k)  == {NumSeq(k)[1][1], NumSeq(k)[2][1]}
NumBytes(k, name) == LET i == CHOOSE i \in 1..Len(NumSeq(k)) : NumSeq(k)[i][1] = name IN NumSeq(k)[i][2]
(* inverse; "?" for a byte pattern outside the table (never compared)      *)
NumName(k, b) == IF \E i \in 1..Len(NumSeq(k)) : NumSeq(k)[i][2] = b
                 THEN NumSeq(k)[CHOOSE i \in 1..Len(NumSeq(k)) : NumSeq(k)[i][2] = b][1]
                 ELSE "?"

(* the tables agree with two's complement little endian wherever TLC can   *)
(* compute it (integer kinds, |n| < 2^31)                                  *)
Arith == [n \in {"0", "1", "-1", "-128", "127", "128", "255", "258", "-32768", "32767", "32768", "65535",
                 "16909060", "-2147483648", "2147483647"} |->
           CASE n = "0" -> 0 [] n = "1" -> 1 [] n = "-1" -> -1 [] n = "-128" -> -128 [] n = "127" -> 127
             [] n = "128" -> 128 [] n = "255" -> 255 [] n = "258" -> 258 [] n = "-32768" -> -32768
             [] n = "32767" -> 32767 [] n = "32768" -> 32768 [] n = "65535" -> 65535
             [] n = "16909060" -> 16909060 [] n = "-2147483648" -> -2147483647 - 1
             [] n = "2147483647" -> 2147483647]
RECURSIVE LEpad(_, _, _)
LEpad(n, w, pad) == IF w = 0 THEN <<>>
                    ELSE IF w > 4 THEN LEpad(n, 4, pad) \o [i \in 1..(w - 4) |-> pad]
                    ELSE <<n % 256>> \o LEpad(n \div 256, w - 1, pad)
TwosLE(n, w) == IF n >= 0 THEN LEpad(n, w, 0)
                ELSE LET m == LEpad(-(n + 1), w, 0) IN [i \in 1..w |-> 255 - m[i]]
TablesAgreeWithArithmetic ==
  \A k \in NumKinds \ {"f", "d"} : \A name \in NumNames(k) \cap DOMAIN Arith :
      NumBytes(k, name) = TwosLE(Arith[name], Width(k))

(***************************************************************************)
(* Signatures (ASCII sequences)                                            *)
(***************************************************************************)
Code == [b |-> 98, c |-> 99, C |-> 67, w |-> 119, W |-> 87, i |-> 105, I |-> 73, l |-> 108, L |-> 76,
         f |-> 102, d |-> 100, s |-> 115, m |-> 109, o |-> 111, r |-> 114, v |-> 118, X |-> 88]
ScalarKinds == DOMAIN Code
KindOfCode(c) == CHOOSE k \in ScalarKinds : Code[k] = c
(* codes the signature grammar knows ("r" is not one of them: raw data     *)
(* exists only as a dynamic value)                                         *)
SigCodes == {Code[k] : k \in ScalarKinds \ {"r"}}

S(k)        == [k |-> k]
List(e)     == [k |-> "list", e |-> e]
Map(a, b)   == [k |-> "map", key |-> a, val |-> b]
Tup(ms)     == [k |-> "tuple", ms |-> ms]
Struct(n, fs, ms) == [k |-> "struct", name |-> n, fs |-> fs, ms |-> ms]

RECURSIVE Sig(_)
Sig(T) ==
  CASE T.k \in ScalarKinds -> <<Code[T.k]>>
    [] T.k = "list"   -> <<91>> \o Sig(T.e) \o <<93>>
    [] T.k = "map"    -> <<123>> \o Sig(T.key) \o Sig(T.val) \o <<125>>
    [] T.k = "tuple"  -> <<40>> \o Concat([i \in 1..Len(T.ms) |-> Sig(T.ms[i])]) \o <<41>>
    [] T.k = "struct" -> <<40>> \o Concat([i \in 1..Len(T.ms) |-> Sig(T.ms[i])]) \o <<41>>
                         \o <<60>> \o T.name \o Concat([i \in 1..Len(T.fs) |-> <<44>> \o T.fs[i]]) \o <<62>>

(* reference signature parser: the grammar of doc "Signatures", no blanks.  *)
IsAlpha(c) == (c >= 65 /\ c <= 90) \/ (c >= 97 /\ c <= 122)
IsIdent(c) == IsAlpha(c) \/ (c >= 48 /\ c <= 57) \/ c = 95
RECURSIVE IdentLen(_)
IdentLen(b) == IF b = <<>> \/ ~IsIdent(Head(b)) THEN 0 ELSE 1 + IdentLen(Tail(b))
PIdent(b) == IF b = <<>> \/ ~IsAlpha(Head(b)) THEN Err
             ELSE LET n == IdentLen(b) IN [id |-> Take(b, n), rest |-> Drop(b, n)]
RECURSIVE PNames(_)     \* { "," ident }  up to ">"
PNames(b) == IF b = <<>> THEN Err
             ELSE IF Head(b) = 62 THEN [ids |-> <<>>, rest |-> Tail(b)]
             ELSE IF Head(b) # 44 THEN Err
             ELSE LET i == PIdent(Tail(b)) IN
                  IF IsErr(i) THEN Err
                  ELSE LET r == PNames(i.rest) IN
                       IF IsErr(r) THEN Err ELSE [ids |-> <<i.id>> \o r.ids, rest |-> r.rest]
RECURSIVE PType(_), PMany(_)
PMany(b) ==             \* { type } up to ")"
  IF b = <<>> THEN Err
  ELSE IF Head(b) = 41 THEN [ts |-> <<>>, rest |-> Tail(b)]
  ELSE LET r == PType(b) IN
       IF IsErr(r) THEN Err
       ELSE LET q == PMany(r.rest) IN
            IF IsErr(q) THEN Err ELSE [ts |-> <<r.t>> \o q.ts, rest |-> q.rest]
PType(b) ==
  IF b = <<>> THEN Err
  ELSE LET c == Head(b) IN
    IF c \in SigCodes THEN [t |-> S(KindOfCode(c)), rest |-> Tail(b)]
    ELSE IF c = 91 THEN
      LET r == PType(Tail(b)) IN
      IF IsErr(r) THEN Err
      ELSE IF r.rest = <<>> \/ Head(r.rest) # 93 THEN Err
      ELSE [t |-> List(r.t), rest |-> Tail(r.rest)]
    ELSE IF c = 123 THEN
      LET r1 == PType(Tail(b)) IN
      IF IsErr(r1) THEN Err
      ELSE LET r2 == PType(r1.rest) IN
           IF IsErr(r2) THEN Err
           ELSE IF r2.rest = <<>> \/ Head(r2.rest) # 125 THEN Err
           ELSE [t |-> Map(r1.t, r2.t), rest |-> Tail(r2.rest)]
    ELSE IF c = 40 THEN
      LET q == PMany(Tail(b)) IN
      IF IsErr(q) THEN Err
      ELSE IF q.rest # <<>> /\ Head(q.rest) = 60 THEN
             LET n == PIdent(Tail(q.rest)) IN
             IF IsErr(n) THEN Err
             ELSE LET f == PNames(n.rest) IN
                  IF IsErr(f) THEN Err
                  ELSE IF Len(f.ids) # Len(q.ts) THEN Err
                  ELSE [t |-> Struct(n.id, f.ids, q.ts), rest |-> f.rest]
           ELSE [t |-> Tup(q.ts), rest |-> q.rest]
    ELSE Err
ParseSig(b) == LET r == PType(b) IN IF IsErr(r) THEN Err ELSE IF r.rest # <<>> THEN Err ELSE r.t

(***************************************************************************)
(* The types the protocol itself is made of                                *)
(***************************************************************************)
N_MetaObject == <<77, 101, 116, 97, 79, 98, 106, 101, 99, 116>>
N_methods == <<109, 101, 116, 104, 111, 100, 115>>
N_signals == <<115, 105, 103, 110, 97, 108, 115>>
N_properties == <<112, 114, 111, 112, 101, 114, 116, 105, 101, 115>>
N_description == <<100, 101, 115, 99, 114, 105, 112, 116, 105, 111, 110>>
N_MetaMethod == <<77, 101, 116, 97, 77, 101, 116, 104, 111, 100>>
N_uid == <<117, 105, 100>>
N_returnSignature == <<114, 101, 116, 117, 114, 110, 83, 105, 103, 110, 97, 116, 117, 114, 101>>
N_name == <<110, 97, 109, 101>>
N_parametersSignature == <<112, 97, 114, 97, 109, 101, 116, 101, 114, 115, 83, 105, 103, 110, 97, 116, 117, 114, 101>>
N_parameters == <<112, 97, 114, 97, 109, 101, 116, 101, 114, 115>>
N_returnDescription == <<114, 101, 116, 117, 114, 110, 68, 101, 115, 99, 114, 105, 112, 116, 105, 111, 110>>
N_MetaMethodParameter == <<77, 101, 116, 97, 77, 101, 116, 104, 111, 100, 80, 97, 114, 97, 109, 101, 116, 101, 114>>
N_MetaSignal == <<77, 101, 116, 97, 83, 105, 103, 110, 97, 108>>
N_signature == <<115, 105, 103, 110, 97, 116, 117, 114, 101>>
N_MetaProperty == <<77, 101, 116, 97, 80, 114, 111, 112, 101, 114, 116, 121>>
N_ObjectReference == <<79, 98, 106, 101, 99, 116, 82, 101, 102, 101, 114, 101, 110, 99, 101>>
N_metaObject == <<109, 101, 116, 97, 79, 98, 106, 101, 99, 116>>
N_serviceID == <<115, 101, 114, 118, 105, 99, 101, 73, 68>>
N_objectID == <<111, 98, 106, 101, 99, 116, 73, 68>>
N_ServiceInfo == <<83, 101, 114, 118, 105, 99, 101, 73, 110, 102, 111>>
N_serviceId == <<115, 101, 114, 118, 105, 99, 101, 73, 100>>
N_machineId == <<109, 97, 99, 104, 105, 110, 101, 73, 100>>
N_processId == <<112, 114, 111, 99, 101, 115, 115, 73, 100>>
N_endpoints == <<101, 110, 100, 112, 111, 105, 110, 116, 115>>
N_sessionId == <<115, 101, 115, 115, 105, 111, 110, 73, 100>>
N_objectUid == <<111, 98, 106, 101, 99, 116, 85, 105, 100>>

MetaMethodParameterT == Struct(N_MetaMethodParameter, <<N_name, N_description>>, <<S("s"), S("s")>>)
MetaMethodT == Struct(N_MetaMethod,
                      <<N_uid, N_returnSignature, N_name, N_parametersSignature, N_description, N_parameters,
                        N_returnDescription>>,
                      <<S("I"), S("s"), S("s"), S("s"), S("s"), List(MetaMethodParameterT), S("s")>>)
MetaSignalT   == Struct(N_MetaSignal, <<N_uid, N_name, N_signature>>, <<S("I"), S("s"), S("s")>>)
MetaPropertyT == Struct(N_MetaProperty, <<N_uid, N_name, N_signature>>, <<S("I"), S("s"), S("s")>>)
MetaObjectT == Struct(N_MetaObject, <<N_methods, N_signals, N_properties, N_description>>,
                      <<Map(S("I"), MetaMethodT), Map(S("I"), MetaSignalT), Map(S("I"), MetaPropertyT), S("s")>>)
ObjRefT == Struct(N_ObjectReference, <<N_metaObject, N_serviceID, N_objectID>>, <<MetaObjectT, S("I"), S("I")>>)
ServiceInfoT == Struct(N_ServiceInfo,
                       <<N_name, N_serviceId, N_machineId, N_processId, N_endpoints, N_sessionId, N_objectUid>>,
                       <<S("s"), S("I"), S("s"), S("I"), List(S("s")), S("s"), S("s")>>)
CapabilityMapT == Map(S("s"), S("m"))

(***************************************************************************)
(* Encoder.  EncOrd writes map entries in the order of the association     *)
(* list; the order of map entries on the wire is unspecified, so the set   *)
(* of valid encodings of a value is Enc(T, v) = EncOrd over Perms(T, v).   *)
(***************************************************************************)
Str(b) == LE(Len(b), 4) \o b           \* string / raw buffer / signature on the wire

RECURSIVE EncOrd(_, _)
EncOrd(T, v) ==
  CASE T.k \in NumKinds -> NumBytes(T.k, v)
    [] T.k = "b" -> IF v THEN <<1>> ELSE <<0>>
    [] T.k \in {"s", "r"} -> Str(v)
    [] T.k = "v" -> <<>>
    [] T.k = "m" -> Str(Sig(v[1])) \o EncOrd(v[1], v[2])
    [] T.k = "o" -> EncOrd(ObjRefT, v)
    [] T.k = "list" -> LE(Len(v), 4) \o Concat([i \in 1..Len(v) |-> EncOrd(T.e, v[i])])
    [] T.k = "map" -> LE(Len(v), 4)
                      \o Concat([i \in 1..Len(v) |-> EncOrd(T.key, v[i][1]) \o EncOrd(T.val, v[i][2])])
    [] T.k \in {"tuple", "struct"} -> Concat([i \in 1..Len(T.ms) |-> EncOrd(T.ms[i], v[i])])

EncValue(T, v) == EncOrd(S("m"), <<T, v>>)   \* signature-prefixed dynamic value

(* The decoders' documented caps (C07's mechanism) bound what a legal datum may announce; a datum exactly *)
(* AT a cap is a legal value and must round-trip like any other.                                          *)
ListValueCap == 4096
ListOfVoidValues(n) == EncValue(List(S("m")), [i \in 1..n |-> <<S("v"), <<>>>>])

RECURSIVE SeqProd(_)                      \* {s : s[i] \in f[i]}
SeqProd(f) == IF f = <<>> THEN {<<>>}
              ELSE LET R == SeqProd(Tail(f)) IN UNION {{<<x>> \o r : r \in R} : x \in Head(f)}
RECURSIVE Orders(_)                        \* all orderings of a sequence of distinct elements
Orders(s) == IF s = <<>> THEN {<<>>}
             ELSE UNION {{<<s[i]>> \o r : r \in Orders([j \in 1..(Len(s) - 1) |-> IF j < i THEN s[j] ELSE s[j + 1]])}
                         : i \in 1..Len(s)}
RECURSIVE Perms(_, _)
Perms(T, v) ==
  CASE T.k = "m" -> {<<v[1], x>> : x \in Perms(v[1], v[2])}
    [] T.k = "o" -> Perms(ObjRefT, v)
    [] T.k = "list" -> SeqProd([i \in 1..Len(v) |-> Perms(T.e, v[i])])
    [] T.k = "map" -> UNION {SeqProd([i \in 1..Len(p) |->
                                         UNION {{<<a, x>> : x \in Perms(T.val, p[i][2])} : a \in Perms(T.key, p[i][1])}])
                             : p \in Orders(v)}
    [] T.k \in {"tuple", "struct"} -> SeqProd([i \in 1..Len(T.ms) |-> Perms(T.ms[i], v[i])])
    [] OTHER -> {v}
Enc(T, v) == {EncOrd(T, p) : p \in Perms(T, v)}

(***************************************************************************)
(* Reference decoder: Dec(T, b) = [v, rest, w] or Err.                     *)
(* Every count / length is checked against the bytes that remain before    *)
(* anything is done with it, so the work `w` (number of decoding steps) is *)
(* linear in the input whatever the embedded length fields say             *)
(* (WorkBounded below; the design-level reason C07 is satisfiable).        *)
(***************************************************************************)
MaxZeroSizeCount == 4096        \* lists of zero-size elements: count capped
RECURSIVE MinSize(_)
RECURSIVE SumMin(_)
SumMin(ms) == IF ms = <<>> THEN 0 ELSE MinSize(Head(ms)) + SumMin(Tail(ms))
MinSize(T) ==
  CASE T.k \in NumKinds -> Width(T.k)
    [] T.k = "b" -> 1
    [] T.k \in {"s", "r", "list", "map"} -> 4
    [] T.k = "v" -> 0
    [] T.k = "X" -> 0
    [] T.k = "m" -> 5
    [] T.k = "o" -> MinSize(ObjRefT)
    [] T.k \in {"tuple", "struct"} -> SumMin(T.ms)

(* a 32-bit little-endian count at the head of b, as a number when it is   *)
(* below 2^16 (every larger count exceeds the inputs considered), else -1  *)
Count(b) == IF b[3] = 0 /\ b[4] = 0 THEN b[1] + 256 * b[2] ELSE -1

RECURSIVE Dec(_, _), DecN(_, _, _), DecMs(_, _)
DecN(T, b, n) ==
  IF n = 0 THEN [v |-> <<>>, rest |-> b, w |-> 0]
  ELSE LET r == Dec(T, b) IN
       IF IsErr(r) THEN Err
       ELSE LET q == DecN(T, r.rest, n - 1) IN
            IF IsErr(q) THEN Err ELSE [v |-> <<r.v>> \o q.v, rest |-> q.rest, w |-> r.w + q.w]
DecMs(ms, b) ==
  IF ms = <<>> THEN [v |-> <<>>, rest |-> b, w |-> 0]
  ELSE LET r == Dec(Head(ms), b) IN
       IF IsErr(r) THEN Err
       ELSE LET q == DecMs(Tail(ms), r.rest) IN
            IF IsErr(q) THEN Err ELSE [v |-> <<r.v>> \o q.v, rest |-> q.rest, w |-> r.w + q.w]
Dec(T, b) ==
  CASE T.k \in NumKinds ->
         LET n == Width(T.k) IN
         IF Len(b) < n THEN Err ELSE [v |-> NumName(T.k, Take(b, n)), rest |-> Drop(b, n), w |-> 1]
    [] T.k = "b" -> IF Len(b) < 1 THEN Err ELSE [v |-> (b[1] # 0), rest |-> Tail(b), w |-> 1]
    [] T.k \in {"s", "r"} ->
         IF Len(b) < 4 THEN Err
         ELSE LET n == Count(b) IN
              IF n < 0 \/ n > Len(b) - 4 THEN Err
              ELSE [v |-> SubSeq(b, 5, 4 + n), rest |-> Drop(b, 4 + n), w |-> 1 + n]
    [] T.k = "v" -> [v |-> "void", rest |-> b, w |-> 1]
    [] T.k = "X" -> Err
    [] T.k = "m" ->
         LET s == Dec(S("s"), b) IN
         IF IsErr(s) THEN Err
         ELSE LET U == IF s.v = <<Code["r"]>> THEN S("r") ELSE ParseSig(s.v) IN
              IF IsErr(U) THEN Err
              ELSE LET r == Dec(U, s.rest) IN
                   IF IsErr(r) THEN Err ELSE [v |-> <<U, r.v>>, rest |-> r.rest, w |-> s.w + r.w]
    [] T.k = "o" -> Dec(ObjRefT, b)
    [] T.k \in {"list", "map"} ->
         IF Len(b) < 4 THEN Err
         ELSE LET n == Count(b)
                  E == IF T.k = "list" THEN T.e ELSE Tup(<<T.key, T.val>>) IN
              IF n < 0 \/ n * MinSize(E) > Len(b) - 4 THEN Err
              ELSE IF MinSize(E) = 0 /\ n > MaxZeroSizeCount THEN Err
              ELSE LET r == DecN(E, Drop(b, 4), n) IN
                   IF IsErr(r) THEN Err ELSE [v |-> r.v, rest |-> r.rest, w |-> 1 + r.w]
    [] T.k \in {"tuple", "struct"} ->
         LET r == DecMs(T.ms, b) IN IF IsErr(r) THEN Err ELSE [v |-> r.v, rest |-> r.rest, w |-> 1 + r.w]

(***************************************************************************)
(* Theorems about the format (checked by TLC for every (T, v) of the       *)
(* bounded universe, see MCWire)                                           *)
(***************************************************************************)
Tails == {<<>>, <<7, 0, 255>>}
RoundTrip(T, v) == \A p \in Perms(T, v) : LET r == Dec(T, EncOrd(T, p)) IN ~IsErr(r) /\ r.v = p /\ r.rest = <<>>
SelfDelimiting(T, v) == \A p \in Perms(T, v) : \A tl \in Tails :
                           LET r == Dec(T, EncOrd(T, p) \o tl) IN ~IsErr(r) /\ r.v = p /\ r.rest = tl
PrefixFree(T, v) == \A b \in Enc(T, v) : \A n \in 0..(Len(b) - 1) : IsErr(Dec(T, Take(b, n)))
ReencodeIdentity(T, v) == \A b \in Enc(T, v) : LET r == Dec(T, b) IN ~IsErr(r) /\ EncOrd(T, r.v) = b
SigRoundTrip(T) == T.k = "r" \/ ParseSig(Sig(T)) = T
WorkBoundK == 2
WorkBoundC == MaxZeroSizeCount + 16
WorkBounded(T, b) == LET r == Dec(T, b) IN IsErr(r) \/ r.w <= WorkBoundK * Len(b) + WorkBoundC

(***************************************************************************)
(* Length / count / size fields of an encoding (esz: least size of one     *)
(* counted element; 0 = zero-size elements), and hostile mutants           *)
(***************************************************************************)
(* FixedSize(T): every value of T has the same number of bytes on the wire (= MinSize(T)): a counted  *)
(* sequence of such elements is  LE(count) \o element^count  - the SCALE LAW used by the harness to     *)
(* instantiate a vector at sizes TLC cannot enumerate (Scale below)                                     *)
RECURSIVE FixedSize(_)
FixedSize(T) == CASE T.k \in NumKinds \cup {"b", "v"} -> TRUE
                  [] T.k \in {"tuple", "struct"} -> \A i \in 1..Len(T.ms) : FixedSize(T.ms[i])
                  [] OTHER -> FALSE
RECURSIVE Fields(_, _, _), FieldsSeq(_, _, _)
FieldsSeq(ts, vs, off) ==
  IF ts = <<>> THEN {}
  ELSE Fields(Head(ts), Head(vs), off) \cup FieldsSeq(Tail(ts), Tail(vs), off + Len(EncOrd(Head(ts), Head(vs))))
Fields(T, v, off) ==     \* off: 0-based offset of the encoding of v
  CASE T.k = "s" -> {[pos |-> off, kind |-> "strlen", n |-> Len(v), esz |-> 1, fix |-> TRUE]}
    [] T.k = "r" -> {[pos |-> off, kind |-> "rawlen", n |-> Len(v), esz |-> 1, fix |-> TRUE]}
    [] T.k = "m" -> {[pos |-> off, kind |-> "siglen", n |-> Len(Sig(v[1])), esz |-> 1, fix |-> FALSE]}
                    \cup Fields(v[1], v[2], off + 4 + Len(Sig(v[1])))
    [] T.k = "o" -> Fields(ObjRefT, v, off)
    [] T.k = "list" -> {[pos |-> off, kind |-> "listcount", n |-> Len(v), esz |-> MinSize(T.e), fix |-> FixedSize(T.e)]}
                       \cup FieldsSeq([i \in 1..Len(v) |-> T.e], v, off + 4)
    [] T.k = "map" -> {[pos |-> off, kind |-> "mapcount", n |-> Len(v), esz |-> MinSize(T.key) + MinSize(T.val),
                        fix |-> FixedSize(T.key) /\ FixedSize(T.val)]}
                      \cup FieldsSeq([i \in 1..(2 * Len(v)) |-> IF i % 2 = 1 THEN T.key ELSE T.val],
                                     [i \in 1..(2 * Len(v)) |-> v[(i + 1) \div 2][IF i % 2 = 1 THEN 1 ELSE 2]],
                                     off + 4)
    [] T.k \in {"tuple", "struct"} -> FieldsSeq(T.ms, v, off)
    [] OTHER -> {}
LengthFieldPositions(T, v) == Fields(T, v, 0)

(* Scale(b, f, N): the encoding b with the counted sequence of field f (fixed-size elements, at least one)   *)
(* replaced by N copies of its first element.  ScaleLaw: for a list of fixed-size elements this is the         *)
(* encoding of the list of N copies (checked by TLC for small N; the layout is a concatenation, so the law      *)
(* carries over to every position of a composite and to every N)                                               *)
RECURSIVE Rep(_, _)
Rep(u, n) == IF n = 0 THEN <<>> ELSE u \o Rep(u, n - 1)
Scale(b, f, N) == SubSeq(b, 1, f.pos) \o LE(N, 4) \o Rep(SubSeq(b, f.pos + 5, f.pos + 4 + f.esz), N)
                  \o SubSeq(b, f.pos + 5 + f.n * f.esz, Len(b))
ScaleLaw(T, v) ==
  (T.k = "list" /\ FixedSize(T.e) /\ MinSize(T.e) > 0 /\ Len(v) > 0) =>
     \A N \in 0..3 : LET f == CHOOSE g \in Fields(T, v, 0) : g.pos = 0 IN
        /\ f.fix /\ f.esz = Len(EncOrd(T.e, v[1]))
        /\ (\A i \in 1..Len(v) : v[i] = v[1]) => Scale(EncOrd(T, v), f, N) = EncOrd(T, [i \in 1..N |-> v[1]])
        /\ Len(EncOrd(T, v)) = 4 + Len(v) * f.esz

Patch(b, pos, q) == [i \in 1..Len(b) |-> IF i > pos /\ i <= pos + 4 THEN q[i - pos] ELSE b[i]]
HostileNames == {"ff", "hi", "max31", "plus1", "rem1", "cap1", "strcap1", "big16", "strcap", "mid"}
Hostile(name, n, rem) ==      \* n: the honest value, rem: bytes that follow the field
  CASE name = "ff"      -> <<255, 255, 255, 255>>      \* 0xFFFFFFFF / -1
    [] name = "hi"      -> <<0, 0, 0, 128>>            \* 0x80000000 / min int32
    [] name = "max31"   -> <<255, 255, 255, 127>>      \* 0x7FFFFFFF
    [] name = "plus1"   -> LE(n + 1, 4)
    [] name = "rem1"    -> LE(rem + 1, 4)              \* one more than could possibly follow
    [] name = "cap1"    -> LE(4097, 4)                 \* list / map caps + 1
    [] name = "strcap1" -> <<1, 0, 160, 0>>            \* 10 MiB + 1
    [] name = "big16"   -> <<0, 0, 1, 0>>              \* 65536
    [] name = "strcap"  -> <<0, 0, 160, 0>>            \* 10 MiB exactly: a legal string / raw length, as a COUNT it
                                                       \* announces gigabytes
    [] name = "mid"     -> <<64, 75, 76, 0>>           \* 5 000 000: below every byte cap, far above every count cap
Mutants(T, v) ==
  LET b == EncOrd(T, v) IN
  {[pos |-> f.pos, kind |-> f.kind, esz |-> f.esz, h |-> h, bytes |-> Patch(b, f.pos, Hostile(h, f.n, Len(b) - f.pos - 4))]
     : f \in Fields(T, v, 0), h \in HostileNames}

(***************************************************************************)
(* Message frame (28-byte header, see also Framing.tla) for the message    *)
(* decoder's truncation / hostile-size vectors                             *)
(***************************************************************************)
MagicBE == <<66, 222, 173, 66>>
Hdr(id4, size4, type, flags, service4, object4, action4) ==
  MagicBE \o id4 \o size4 \o <<0, 0>> \o <<type>> \o <<flags>> \o service4 \o object4 \o action4
Frame(type, payload) == Hdr(<<4, 3, 2, 1>>, LE(Len(payload), 4), type, 0, <<1, 0, 0, 0>>, <<1, 0, 0, 0>>,
                            <<100, 0, 0, 0>>) \o payload
FrameMutants(type, payload) ==
  {[pos |-> 8, kind |-> "msgsize", esz |-> 1, h |-> h,
    bytes |-> Patch(Frame(type, payload), 8, Hostile(h, Len(payload), Len(payload)))] : h \in HostileNames}
=============================================================================
