SPECIFICATION Spec
CONSTANTS
  Gor = {"g1", "g2", "g3"}
  Eps = {"E"}
  Svcs = {"e"}
  Adv <- AdvAll
  MaxReq = 1
  MaxLoss = 0
  AuthMayRefuse = FALSE
  Dev_RUnlockUnderWriteLock = FALSE
  Dev_NilChannelWhenAllSkipped = FALSE
  Dev_AuthFailureLeaksConnection = FALSE
  Dev_DeadClientStaysInPool = FALSE
  Dev_PoolKeyedByAdvertised = FALSE
  Dev_CloserBeforeInsert = TRUE
INVARIANTS TypeOK AtMostOneConnPerEndpoint AllGetTheSharedClient
CHECK_DEADLOCK FALSE
