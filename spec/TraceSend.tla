----------------------------- MODULE TraceSend -----------------------------
(***************************************************************************)
(* Trace validation for C10 (send half): events recorded around one        *)
(* connection by the harness:                                               *)
(*   send  {s, m}        sender s is about to call endpoint.Send(message m) *)
(*   write {s, m, whole} the stream wrapper saw one Write call; whole = 1   *)
(*                       iff its bytes are exactly one complete frame (the  *)
(*                       wrapper serialises Write calls, so this is the     *)
(*                       order of the bytes on the wire); s, m from the tag *)
(*                       in the frame (-1 if not a whole frame)             *)
(*   sent  {s, m}        Send returned without error                        *)
(*   recv  {s, m, ok}    the peer's handler received a message, in arrival  *)
(*                       order; ok = 1 iff header and payload are intact    *)
(*   done  {}            everybody finished and the receiver drained        *)
(*   reset {}            next connection                                    *)
(* logged = 1 on a connection whose sending side is wrapped (write events   *)
(* exist); otherwise only per-sender order / exactly-once are checked.      *)
(***************************************************************************)
EXTENDS Integers, Sequences, FiniteSets, TLC, Json, IOUtils

ASSUME TLCSet(2, ndJsonDeserialize(IOEnv.TRACE))
TraceLog == TLCGet(2)
ASSUME TLCSet(3, Len(TraceLog))
TraceLen == TLCGet(3)

CONSTANTS MaxSenders
SenderRange == 1..MaxSenders

VARIABLES l,
          started,  \* [s -> number of messages whose Send started]
          written,  \* sequence of <<s, m>>: frames in the order the stream took them
          nrecv,    \* frames received so far
          last      \* [s -> last message of s received]
tvars == <<l, started, written, nrecv, last>>

TInit == /\ l = 1 /\ started = [s \in SenderRange |-> 0] /\ written = <<>> /\ nrecv = 0
         /\ last = [s \in SenderRange |-> 0]

E == TraceLog[l]
Is(name) == l <= TraceLen /\ E.ev = name /\ l' = l + 1

\* each sender sends its messages in order 1, 2, ...
TSend == Is("send") /\ E.m = started[E.s] + 1
         /\ started' = [started EXCEPT ![E.s] = E.m] /\ UNCHANGED <<written, nrecv, last>>

\* a stream Write call must carry exactly one whole frame of a message being sent
TWrite == /\ Is("write") /\ E.whole = 1
          /\ E.m <= started[E.s]
          /\ \A i \in 1..Len(written) : written[i] # <<E.s, E.m>>
          /\ written' = Append(written, <<E.s, E.m>>) /\ UNCHANGED <<started, nrecv, last>>

TSent == Is("sent") /\ E.m <= started[E.s] /\ UNCHANGED <<started, written, nrecv, last>>

\* the receiver gets the next frame of the wire (when the wire is logged),
\* intact, and in any case the next message of its sender
TRecv == /\ Is("recv") /\ E.ok = 1
         /\ E.m = last[E.s] + 1 /\ E.m <= started[E.s]
         /\ (E.logged = 1 => (nrecv < Len(written) /\ written[nrecv + 1] = <<E.s, E.m>>))
         /\ nrecv' = nrecv + 1 /\ last' = [last EXCEPT ![E.s] = E.m]
         /\ UNCHANGED <<started, written>>

\* at the end nothing sent may be missing
TDone == /\ Is("done")
         /\ \A s \in SenderRange : last[s] = started[s]
         /\ UNCHANGED <<started, written, nrecv, last>>

TReset == /\ Is("reset") /\ started' = [s \in SenderRange |-> 0] /\ written' = <<>> /\ nrecv' = 0
          /\ last' = [s \in SenderRange |-> 0]

TNext == TSend \/ TWrite \/ TSent \/ TRecv \/ TDone \/ TReset
TSpec == TInit /\ [][TNext]_tvars

Track == TLCSet(1, IF TLCGet(1) < l THEN l ELSE TLCGet(1))
ASSUME TLCSet(1, 0)
Accepted == IF TLCGet(1) = TraceLen + 1 THEN TRUE
            ELSE /\ PrintT(<<"REJECTED", ToJson([line |-> TLCGet(1), event |-> TraceLog[TLCGet(1)]])>>)
                 /\ FALSE
=============================================================================
