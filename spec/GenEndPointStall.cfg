SPECIFICATION GSpec
CONSTANTS
  Closers = {"c1", "c2"}
  Senders = {"s1"}
  Handlers = {"h1"}
  MaxIn = 2
  Permissive = FALSE
  LockFirst = FALSE
VIEW View
INVARIANTS TypeOK MutexHeldByOne QuiescentCloseDone
CHECK_DEADLOCK FALSE
