SPECIFICATION Spec
CONSTANTS
  MaxMsgs = 3
  PLens = {0, 1, 2, 5}
  WithCuts = TRUE
INVARIANTS TypeOK ConsumedExactly RejectedBeforePayload OutcomeIsExpected
PROPERTIES NoOverRead
CHECK_DEADLOCK FALSE
