SPECIFICATION SysSpec
CONSTANTS
  Conns <- AllConns
  InitAuthed <- AllConns
  Svcs = {1}
  Objs <- TwoObjs
  Methods = {100}
  GenericActs = {8}
  FailTags <- failB
  QCap = 2
  MCap = 1
  SrvAccept <- CodeFilter
  StubRuns <- ReqTypes
  AuthRuns <- CallOnly
  AuthMode = "yes"
  Script <- NoScript
  PeerMsgs <- NoPeerMsgs
  MaxSends = 0
  Hangups = FALSE
  Dev_CapMapUnsynchronised = FALSE
  Calls <- KB
  ClientOf <- clientB
  EpOf <- epB
  SvcOf <- svcB
  ObjOf <- objB
  ActOf <- actB
  Raws <- rawB
  Deviations <- NoDev
INVARIANTS TypeOK AtMostOneOutcome OwnResult ExecOnceIfOk ExecAtMostOnce PostAtMostOnce PostNoResponse FramesOwed OnlyCallAndPostExecute ErrorIsOwn
CHECK_DEADLOCK FALSE
