----------------------------- MODULE GenSession -----------------------------
(* Schedule export for Session.tla (DESIGN.md 2.2 b): one schedule per
   transition of the state graph (hist hidden by the VIEW; the PrintT sits
   inside the action).  The harness forces each schedule on a real
   session.Session with the gates of Session.client and then lets every
   goroutine run to completion.

   The update loop (Signal / Refresh) is left out: it does not touch the pool.
   Replayable: the harness parks goroutines only at the gates (before RLock,
   after RUnlock, after dial, after Lock), so it cannot hold a goroutine
   *inside* Lock(): schedules are not continued beyond a state in which a
   writer waits while another writer holds the lock or readers are queued
   (who goes next is then sync.RWMutex's choice, not the schedule's).       *)
EXTENDS Session, Json, IOUtils

CONSTANT SampleMod   \* 1: every transition; k > 1: the seeded 1/k sample chosen by the environment variable SEL (0..k-1)

VARIABLE hist
gvars == <<vars, hist>>

Rec(g, act) == [g |-> g, act |-> act, a |-> tgt'[g], pc |-> pc'[g], ret |-> ret'[g], conn |-> mine'[g],
                wfree |-> (writer' = NoG /\ wwait' \subseteq {g})]   \* nobody else holds or wants the write lock
Selected == SampleMod = 1 \/ TLCGet("generated") % SampleMod = (CHOOSE n \in 0..99 : ToString(n) = IOEnv.SEL)
Step(g, act) == /\ hist' = Append(hist, Rec(g, act))
                /\ Selected => PrintT(<<"T", ToJson([steps |-> hist',
                                         open |-> [a \in Addrs |-> Cardinality({c \in DOMAIN conns' : conns'[c].addr = a /\ conns'[c].open})],
                                         crashed |-> crashed', leaked |-> leaked'])>>)

GInit == Init /\ hist = <<>>
GNext == \E g \in Gor :
           \/ \E a \in Addrs : Start(g, a) /\ Step(g, "Start")
           \/ RLockEnter(g) /\ Step(g, "RLockEnter")
           \/ RLockGranted(g) /\ Step(g, "RLockGranted")
           \/ LookupHit(g) /\ Step(g, "LookupHit")
           \/ LookupMiss(g) /\ Step(g, "LookupMiss")
           \/ Dial(g) /\ Step(g, "Dial")
           \/ LockWait(g) /\ Step(g, "LockWait")
           \/ Lock(g) /\ Step(g, "Lock")
           \/ Insert(g) /\ Step(g, "Insert")
           \/ Dup(g) /\ Step(g, "Dup")
GSpec == GInit /\ [][GNext]_gvars
View == vars
Replayable == /\ Cardinality(wwait) <= 1
              /\ ~(wwait # {} /\ (QueuedReaders # {} \/ writer # NoG))
=============================================================================
