----------------------------- MODULE GenSession -----------------------------
(* Schedule export for Session.tla (DESIGN.md 2.2 b): one schedule per
   transition of the state graph (hist hidden by the VIEW; the PrintT sits
   inside the action).  The harness forces each schedule on a real
   session.Session with the gates of Session.client (enter, miss, dialed,
   locked, inserted), the gate of the closer, a listener that holds back the
   authentication of a new connection, an authenticator that refuses on
   demand and server-side streams it can cut - and then lets every goroutine
   run to completion.

   The update loop (Signal / Refresh) is left out: it does not touch the pool.
   Goroutines are interchangeable: only schedules in which they start in the
   order of GorOrder are exported.
   Replayable: the harness parks goroutines only at the gates, so it cannot
   hold a goroutine *inside* Lock(): schedules are not continued beyond a
   state in which a writer waits while another writer holds the lock or
   readers are queued (who goes next is then sync.RWMutex's choice, not the
   schedule's).                                                              *)
EXTENDS Session, Json, IOUtils

\* environment: MOD = 1: every transition; MOD = k > 1: the seeded 1/k sample chosen by SEL (0..k-1)
EnvNum(str) == CHOOSE n \in 0..9999 : ToString(n) = str
SampleMod == EnvNum(IOEnv.MOD)
SelNum == EnvNum(IOEnv.SEL)

VARIABLE hist
gvars == <<vars, hist>>

GorOrder == <<"g1", "g2", "g3", "g4">>
Pos(g) == CHOOSE i \in 1..Len(GorOrder) : GorOrder[i] = g
InOrder(g) == reqs[g] = 0 => \A h \in Gor : Pos(h) < Pos(g) => reqs[h] > 0

\* the world the harness has to build: the address list of every service
ASSUME PrintT(<<"W", ToJson([adv |-> [s \in Svcs |-> Adv[s]], eps |-> Eps, gor |-> Gor])>>)

StOf(c) == IF c = NULL THEN "" ELSE conns'[c].st
\* one step of goroutine g
Rec(g, act) == [g |-> g, act |-> act, svc |-> svc'[g], pc |-> pc'[g], conn |-> mine'[g],
                a |-> IF mine'[g] = NULL THEN "" ELSE conns'[mine'[g]].ep,          \* address dialed
                key |-> IF mine'[g] = NULL THEN "" ELSE conns'[mine'[g]].key,       \* pool key used
                res |-> res'[g], ret |-> ret'[g],
                st |-> StOf(ret'[g]),                                                \* state of the client returned
                cp |-> mine'[g] \in cpend',                                           \* closer of the own connection started
                wfree |-> (writer' = NoG /\ wwait' \subseteq {g})]   \* nobody else holds or wants the write lock
\* a step of the environment / of a closer on connection c
OwnerPc(c) == IF \E g \in Gor : mine[g] = c /\ pc[g] \notin {"idle", "stuck"}
                THEN pc[CHOOSE g \in Gor : mine[g] = c /\ pc[g] \notin {"idle", "stuck"}] ELSE ""
CRec(c, act) == [g |-> "", act |-> act, svc |-> "", pc |-> OwnerPc(c), conn |-> c,    \* pc: where the goroutine that dialed c stands
                 a |-> conns'[c].ep, key |-> conns'[c].key, res |-> "", ret |-> NULL, st |-> conns'[c].st,
                 cp |-> c \in cpend', wfree |-> TRUE]
Selected == SampleMod = 1 \/ TLCGet("generated") % SampleMod = SelNum
Out(h) == Selected => PrintT(<<"T", ToJson([steps |-> h,
                                 open |-> [a \in Eps |-> Cardinality({c \in DOMAIN conns' : conns'[c].ep = a /\ conns'[c].st = "open"})],
                                 conns |-> [c \in DOMAIN conns' |-> conns'[c].st],
                                 pool |-> [a \in AllAddrs |-> poll'[a]],
                                 crashed |-> crashed', leaked |-> leaked'])>>)
Step(g, act) == hist' = Append(hist, Rec(g, act)) /\ Out(hist')
CStep(c, act) == hist' = Append(hist, CRec(c, act)) /\ Out(hist')

GInit == Init /\ hist = <<>>
GNext == \/ \E g \in Gor :
              \/ \E s \in Svcs : InOrder(g) /\ Start(g, s) /\ Step(g, "Start")
              \/ RLockEnter(g) /\ Step(g, "RLockEnter")
              \/ RLockGranted(g) /\ Step(g, "RLockGranted")
              \/ LookupHit(g) /\ Step(g, "LookupHit")
              \/ LookupMiss(g) /\ Step(g, "LookupMiss")
              \/ SelectDial(g) /\ Step(g, "SelectDial")
              \/ SelectFail(g) /\ Step(g, "SelectFail")
              \/ AuthOK(g) /\ Step(g, "AuthOK")
              \/ AuthRefused(g) /\ Step(g, "AuthRefused")
              \/ AuthLost(g) /\ Step(g, "AuthLost")
              \/ LockWait(g) /\ Step(g, "LockWait")
              \/ Lock(g) /\ Step(g, "Lock")
              \/ Insert(g) /\ Step(g, "Insert")
              \/ AddHandler(g) /\ Step(g, "AddHandler")
              \/ Dup(g) /\ Step(g, "Dup")
         \/ \E c \in DOMAIN conns : Lose(c) /\ CStep(c, "Lose")
         \/ \E c \in cpend : wwait = {} /\ Closer(c) /\ CStep(c, "Closer")   \* (a goroutine released into Lock() already owns the real mutex)
GSpec == GInit /\ [][GNext]_gvars
View == vars
Replayable == /\ Cardinality(wwait) <= 1
              /\ ~(wwait # {} /\ (QueuedReaders # {} \/ writer # NoG))
=============================================================================
