----------------------------- MODULE GenService -----------------------------
(* Behaviour export for Service.tla (DESIGN.md 2.2 b): one test per transition
   of the bounded abstract state graph (hist and ret hidden by the VIEW, the
   PrintT inside the action).  Every step carries the operation - with the
   instance its identifier denotes, because real identifiers are random - and
   the expected observation: outcome, and per instance status, OnTerminate
   count, invocation count, per subscriber events received / termination
   notices received.  With ClientSide = TRUE (clientService, bus/service_reference.go)
   the operations are add / addfail / remove / rterminate / call / svcterminate /
   connclose and the identifiers are exact (real identifier 2^31 + id - 1).     *)
EXTENDS Service, Json, Sequences, IOUtils

CONSTANT SampleMod        \* 1: everything; k > 1: the seeded 1/k sample selected by the environment variable SEL
CONSTANTS Tag, MaxLen      \* Tag "T": transition coverage (VIEW); "S": every sequence up to MaxLen (no VIEW)

VARIABLE hist
gvars == <<vars, hist>>

\* the instance an identifier was given to (0: nobody - an unknown identifier)
Holder(id) == IF \E k \in Inst : st[k] # "new" /\ idOf[k] = id
                THEN CHOOSE k \in Inst : st[k] # "new" /\ idOf[k] = id ELSE 0
Op(op, id, s, k) == [op |-> op, id |-> id, inst |-> k, sub |-> s]
Obs == [ret |-> ret, st |-> st, term |-> term, exec |-> exec, got |-> got, told |-> told, subs |-> subs,
        idOf |-> idOf, up |-> (svc = "up"), open |-> (conn = "open")]
Selected == SampleMod = 1 \/ TLCGet("generated") % SampleMod = (CHOOSE n \in 0..99 : ToString(n) = IOEnv.SEL)
Step(o) == /\ hist' = Append(hist, [op |-> o, obs |-> Obs'])
           /\ Selected => PrintT(<<Tag, ToJson(hist')>>)

GInit == Init /\ hist = <<>>
GNext == \/ Add /\ Step(Op("add", 0, "", NextInst))
         \/ AddFail /\ Step(Op("addfail", 0, "", NextInst))
         \/ SvcTerminate /\ Step(Op("svcterminate", 0, "", 0))
         \/ ConnClose /\ Step(Op("connclose", 0, "", 0))
         \/ \E id \in Ids : Remove(id) /\ Step(Op("remove", id, "", Holder(id)))
         \/ \E id \in Ids : RemoteTerminate(id) /\ Step(Op("rterminate", id, "", Holder(id)))
         \/ \E id \in Ids : Call(id) /\ Step(Op("call", id, "", Holder(id)))
         \/ \E id \in Ids, s \in Subs : Subscribe(id, s) /\ Step(Op("subscribe", id, s, Holder(id)))
         \/ \E k \in Inst : Emit(k) /\ Step(Op("emit", idOf[k], "", k))
GSpec == GInit /\ [][GNext]_gvars
Short == Len(hist) < MaxLen
View == <<objects, boxes, st, idOf, term, exec, subs, told, got, svc, crashed, slot, handlers, conn>>
=============================================================================
