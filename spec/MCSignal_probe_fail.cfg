SPECIFICATION Spec
CONSTANTS
  Threads <- Cast94
  Conns = {"c2", "c3"}
  Signals = {"A"}
  Objects = {"o1"}
  ConnOf <- CastConn
  SigOf <- CastSig
  ObjOf <- CastObj
  Rounds <- CR1
  EmitSeq <- EmitO1
  QCap = 2
  Dev_ProxySectionsNotAtomic = FALSE
  Dev_SendAfterSnapshot = FALSE
  Devs = {}
  Probe <- ProbeFail
  Failing = {"c3"}
  Inject <- NoInject
  Rogue = {"c2"}
INVARIANTS ProbeSeen ProbePending
CHECK_DEADLOCK FALSE
