SPECIFICATION Spec
CONSTANTS
  Universe = "quick"
  MapOrder = {}
  LastChanceAny = {}
  WalkSorted = FALSE
  AssumeUserRange = TRUE
  QueryTypes = {"names"}
INVARIANTS NamesStable
CHECK_DEADLOCK FALSE
