SPECIFICATION Spec
CONSTANTS
  Universe = "quick"
  MapOrder = {}
  LastChanceAny = {}
  WalkSorted = FALSE
  AssumeUserRange = TRUE
INVARIANTS NamesStable
CHECK_DEADLOCK FALSE
