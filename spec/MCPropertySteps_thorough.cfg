SPECIFICATION Spec
CONSTANTS
  Updaters = {"u1", "u2"}
  Subs = {"s1", "s2"}
  ValuesOf <- ValuesT
  MaxOps <- OpsT3
INVARIANTS RegInvariants EventsAreWrites OneEventPerWriteAtRest NotifyAfterSave
PROPERTIES RefinesRegister
CHECK_DEADLOCK FALSE
