SPECIFICATION Spec
CONSTANTS
  Updaters = {"u1", "u2"}
  Subs = {"s1", "s2"}
  ValuesOf <- ValuesT
  MaxOps <- OpsT3
  InitTables <- TabNone
  Foreign = {}
  Movers = {}
  Closers = {}
  MaxMoves = 0
  Atomic = TRUE
  Dev_IterateLiveSlice = FALSE
  Dev_SendErrorFailsWrite = FALSE
INVARIANTS RegInvariants EventsAreWrites OneEventPerWriteAtRest NotifyAfterSave Accounting AcceptedWriteReturnsOK
PROPERTIES RefinesRegister
CHECK_DEADLOCK FALSE
