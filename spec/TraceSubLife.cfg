SPECIFICATION TSpec
CONSTANTS
  Handlers = {1, 2}
  Subs = {1, 2}
  Msgs = {11, 12, 19, 21, 22, 29}
  InitSlots = 2
  Designs = {TRUE, FALSE}
  StaleOnClosed = FALSE
INVARIANTS TypeOK CloserAtMostOnce QueueCloseAtMostOnce
CONSTRAINT Track
POSTCONDITION Accepted
CHECK_DEADLOCK FALSE
