--------------------------- MODULE GenSessionList ---------------------------
(* Behaviour export for SessionList.tla (DESIGN.md 2.2 b): the harness plays
   the environment and the gates, one COMMAND at a time; between commands the
   session's goroutines run on their own as far as the gates let them
   (Internal, to quiescence, in every order), and the observable state must
   then be the specification's (Obs).  One behaviour per (quiescent state,
   command, quiescent state) transition; `hist` is hidden by the VIEW once
   the state is settled, so every abstract state is reached by a shortest
   command sequence.

   The harness arms four gates for the session under test:
     session.update.enter      the loop has taken a signal, before Services()   (loop = "taken")
     session.update.fetched    Services() has returned, before the store        (loop = "got" / "failed")
     session.client.enter      a request has looked the list up, before the pool (rpc = "found")
     session.terminate.cancel  Terminate holds cancelMutex, before cancel()     (tpc = "cancelR")
   (+ session.new.listed in the configuration that replays the creation
   window of Dev_ListBeforeSubscribe).

   commands                      action of SessionList.tla
     new                         NewInit            session.NewSession returns
     newlist / newsub            NewList / NewSubscribe  (Dev_ListBeforeSubscribe: gate session.new.listed)
     reg n e / unreg n           DirReg / DirUnreg  a server registers / the directory forgets a service
     gone                        DirGone            the harness cuts the session's connection to the directory
     fetch                       DirServices | LoopCallFail   release `enter`
     store                       LoopStore | LoopFailTerminate   release `fetched`
     req g n / reqid g k         ReqFind / ReqFindId   goroutine g calls Proxy(n) / Object(ref of registration k)
     go g                        ReqResolve         release `client.enter` for g
     term t                      TermCall           goroutine t calls Terminate
     cancel t                    TermCancelR        release `terminate.cancel` for t
   on their own (Internal): LoopTake, LoopExit, TermLock, TermCancelA, TermClosePool, Closer,
   LoopTermReturned, LoopStoreNil.

   Where the runtime decides (`select` between two ready channels, a closed
   channel against a queued signal) the same command sequence has several
   outcomes: the check collects them per command prefix and the harness
   accepts any of them (and stops replaying a behaviour that took another
   branch than the exported one).                                            *)
EXTENDS SessionList, Json, Sequences, IOUtils

EnvNum(str) == CHOOSE n \in 0..9999 : ToString(n) = str
SampleMod == EnvNum(IOEnv.MOD)
SelNum == EnvNum(IOEnv.SEL)

CONSTANT MaxLen        \* commands per behaviour (state constraint Short)
VARIABLES hist, settled
gvars == <<vars, hist, settled>>

ASSUME PrintT(<<"W", ToJson([names |-> Names, eps |-> Eps, gor |-> Gor, terms |-> Terms, maxreg |-> MaxReg])>>)

LoopCode == CASE loop = "taken" -> 1
              [] loop = "got" -> 2
              [] loop = "failed" -> 3
              [] loop = "exited" -> 4
              [] loop \in {"term", "fstore"} -> 5
              [] OTHER -> 0
TermCode(t) == CASE tpc[t] = "idle" -> 0
                 [] tpc[t] = "cancelR" -> 1          \* parked at the gate
                 [] tpc[t] = "done" -> 3
                 [] OTHER -> 2                        \* inside Terminate (waiting for cancelMutex)
ReqCode(g) == CASE rpc[g] = "idle" -> 0 [] rpc[g] = "found" -> 1 [] OTHER -> 2
InCancel == Cardinality({t \in Actors : tpc[t] = "cancelA"})
Obs == [loop |-> LoopCode,
        list |-> [n \in Names |-> list[n]],
        nstore |-> nstore, nexit |-> nexit,
        ncancelled |-> IF crashed THEN 0 ELSE ncancel - InCancel,
        t |-> [t \in Actors |-> TermCode(t)],
        r |-> [g \in Gor |-> [pc |-> ReqCode(g), found |-> rfound[g], res |-> rres[g], reached |-> rreached[g]]],
        live |-> [e \in Eps |-> IF e \in live THEN 1 ELSE 0],
        ready |-> IF init = "ready" THEN 1 ELSE 0,
        crashed |-> IF crashed THEN 1 ELSE 0]

Cmd(o, g, n, e, k) == /\ hist' = Append(hist, [o |-> o, g |-> g, n |-> n, e |-> e, k |-> k, post |-> Obs])
                      /\ settled' = FALSE

Command ==
  \/ NewInit /\ Cmd("new", "", "", "", 0)
  \/ NewList /\ Cmd("newlist", "", "", "", 0)
  \/ NewSubscribe /\ Cmd("newsub", "", "", "", 0)
  \/ \E n \in Names, e \in Eps : DirReg(n, e) /\ Cmd("reg", "", n, e, nreg + 1)
  \/ \E n \in Names : DirUnreg(n) /\ Cmd("unreg", "", n, "", dir[n])
  \/ DirGone /\ Cmd("gone", "", "", "", 0)
  \/ (DirServices \/ LoopCallFail) /\ Cmd("fetch", "", "", "", 0)
  \/ (LoopStore \/ LoopFailTerminate) /\ Cmd("store", "", "", "", 0)
  \/ \E g \in Gor : \/ \E n \in Names : ReqFind(g, n) /\ Cmd("req", g, n, "", 0)
                    \/ \E k \in Regs : ReqFindId(g, k) /\ Cmd("reqid", g, "", "", k)
                    \/ ReqResolve(g) /\ Cmd("go", g, "", "", 0)
  \/ \E t \in Terms : TermCall(t) /\ Cmd("term", t, "", "", 0)
  \/ \E t \in Actors : TermCancelR(t) /\ Cmd("cancel", t, "", "", 0)

Internal ==
  \/ \E ch \in {"R", "A"} : LoopTake(ch) \/ LoopExit(ch)
  \/ LoopTermReturned \/ LoopStoreNil
  \/ \E t \in Actors : TermLock(t) \/ TermCancelA(t) \/ TermClosePool(t)
  \/ \E e \in Addrs : Closer(e)

Selected == SampleMod = 1 \/ TLCGet("generated") % SampleMod = SelNum
Settle == /\ ~settled /\ settled' = TRUE
          /\ hist' = [hist EXCEPT ![Len(hist)].post = Obs]
          /\ (Selected => PrintT(<<"T", ToJson(hist')>>))
          /\ UNCHANGED vars

GInit == Init /\ hist = <<>> /\ settled = TRUE
GNext == IF crashed THEN (IF ~settled THEN Settle ELSE FALSE)
         ELSE IF ENABLED Internal THEN (Internal /\ UNCHANGED <<hist, settled>>)
         ELSE IF ~settled THEN Settle
         ELSE Command
GSpec == GInit /\ [][GNext]_gvars
View == <<vars, settled, IF settled THEN <<>> ELSE hist>>

\* bound of the export: commands per behaviour
Short == Len(hist) <= MaxLen

\* counterexample export of the deviation configurations (DESIGN.md 2.2 b "targeted schedules"): the
\* shortest command sequence after which - nothing in flight, session in service - a request for a
\* REGISTERED service has returned "not found"
BadFinal == /\ settled /\ Quiescent
            /\ \E g \in Gor : rpc[g] = "done" /\ rres[g] = 2 /\ rname[g] # "" /\ dir[rname[g]] # 0
CexRegisteredNotFound == BadFinal => ~PrintT(<<"CEX", ToJson(hist)>>)
=============================================================================
