------------------------------- MODULE Signal -------------------------------
(* C13 - signal subscriptions end to end: the server's subscriber table
   (bus/signal.go), the proxy-side reference counting of a shared registration
   (bus/proxy.go SubscribeID + its cancel closure over bus/client.go State), the
   connection (FIFO), the client-side dispatch and the per-subscriber forwarding
   goroutine (bus/client.go Subscribe).

   A thread th \in Threads is one user of the generated Subscribe<Signal> API on
   connection ConnOf[th] for signal SigOf[th]; it subscribes, is acknowledged,
   later cancels, Rounds[th] times.  One emitter emits EmitSeq.

   action            | code
   ------------------+---------------------------------------------------------
   SubLocal(th)      | proxy.go l.98  client.Subscribe: keep-handler with a
                     |   100-slot queue + forwarding goroutine (client.go l.140-181)
   SubInc(th)        | l.103  State(key, +1)            (atomic under stateMutex)
   SubKey(th)        | l.105-106 handler := rand.Int(); State(hkey, handler) - ADDS
   SubRPC(th)        | l.108  RegisterEvent call sent
   ServerReg         | signal.go l.114-152 on the object's mailbox goroutine:
                     |   addSignalUser under signalsMutex, then the reply
   Deliver(c)        | endpoint dispatch of the next message of connection c:
                     |   an event goes to the queue of every local handler of that
                     |   signal; a reply wakes the caller
   Ack(th)           | SubscribeID returns: the subscription is acknowledged (for
                     |   the 2nd.. local subscriber right after SubInc)
   CancelReq(th)     | the user calls the cancel function
   UnsubDec(th)      | l.114  State(key, -1)
   UnsubRead(th)     | l.116  handler := State(hkey, 0)
   UnsubClear(th)    | l.117  State(hkey, -handler)
   UnsubRPC(th)      | l.119  UnregisterEvent call sent (an error is only logged)
   ServerUnreg       | signal.go l.154-184: removeSignalUser (same connection only)
   ServerReply       | SendReply/SendError of the request just processed; for an
                     |   unregistration this is the acknowledgement of the removal
   Abort(th)         | l.124  cancel(): close(abort); the cancel function returns
   CloseSub(th)      | client.go l.172-175 forwarding goroutine: RemoveHandler,
                     |   close(events)
   Forward(th)       | client.go l.165-171 forwarding goroutine: queue -> channel
   EmitCall          | the service calls Signal<X>(payload) / Update<Prop>
   EmitStart         | signal.go l.191-197 UpdateSignal: snapshot under RLock, in
                     |   the order of the slice
   SendTo            | l.199-209 one Send per snapshotted user, in order, outside
                     |   the lock
   EmitEnd           | UpdateSignal returns

   Deviations of the code from the property (DESIGN.md 3.3), both TRUE for the
   pinned tree, FALSE in the property-checking configuration:
   Dev_ProxySectionsNotAtomic  the two sections SubInc..registration acknowledged
        and UnsubDec..removal acknowledged of one (connection, signal) are not
        mutually exclusive: a 2nd subscriber is acknowledged before the
        registration exists, a re-subscription registers before the previous
        registration is removed, and State(hkey, handler) adds to a key a
        concurrent cancel has not cleared yet (handler-key arithmetic).
   Dev_SendAfterSnapshot  UpdateSignal sends from its snapshot after the
        removal of a registration has been acknowledged.                      *)
EXTENDS Integers, Sequences, FiniteSets, TLC

CONSTANTS
  Threads, Conns, Signals,
  ConnOf, SigOf, Rounds,      \* functions over Threads
  EmitSeq,                    \* the signals emitted, in order
  QCap,                       \* capacity of a subscription's queue (100 in the code)
  Dev_ProxySectionsNotAtomic,
  Dev_SendAfterSnapshot

\* ---- ready-made configurations (cfg files cannot write functions) ---------
T1 == {"t1"}
T2 == {"t1", "t2"}
T3 == {"t1", "t2", "t3"}
T13 == {"t1", "t3"}
OneConn   == [t \in T3 |-> "c1"]                               \* same proxy / same connection
TwoConn   == [t \in T3 |-> IF t = "t3" THEN "c2" ELSE "c1"]    \* t3 on another connection
SameSig   == [t \in T3 |-> "A"]
MixedSig  == [t \in T3 |-> IF t = "t2" THEN "B" ELSE "A"]
R1 == [t \in T3 |-> 1]
R2 == [t \in T3 |-> 2]
R21 == [t \in T3 |-> IF t = "t1" THEN 2 ELSE 1]
EmitA   == <<"A">>
EmitAA  == <<"A", "A">>
EmitAAA == <<"A", "A", "A">>
EmitAAB == <<"A", "A", "B">>
EmitAB  == <<"A", "B">>
EmitABA == <<"A", "B", "A">>

\* the fixed cast of the conformance harness (harness/cmd/signal/c13.go):
\*   t1, t2: connection c1, signal A (one bus.Client: shared reference count)
\*   t3    : connection c1, signal B        t4: connection c2, signal A
\*   t5    : connection c2, signal B
Cast     == {"t1", "t2", "t3", "t4", "t5"}
CastConn == [t \in Cast |-> IF t \in {"t4", "t5"} THEN "c2" ELSE "c1"]
CastSig  == [t \in Cast |-> IF t \in {"t3", "t5"} THEN "B" ELSE "A"]
Cast12   == {"t1", "t2"}
Cast124  == {"t1", "t2", "t4"}
Cast134  == {"t1", "t3", "t4"}
Cast1234 == {"t1", "t2", "t3", "t4"}
CR1  == [t \in Cast |-> 1]
CR2  == [t \in Cast |-> 2]
CR21 == [t \in Cast |-> IF t = "t1" THEN 2 ELSE 1]
CR99 == [t \in Cast |-> 99]
NoEmit == <<>>

Keys == Conns \X Signals
Key(th) == <<ConnOf[th], SigOf[th]>>
NoThread == ""
\* handler ids (rand.Int() in the code): powers of 3, so that the sums and
\* differences State() builds from them (coefficients -1, 0, 1) never collide
\* with each other or with an id - as for random 63-bit numbers
RECURSIVE Pow3(_)
Pow3(n) == IF n = 0 THEN 1 ELSE 3 * Pow3(n - 1)
Pow2(n) == Pow3(n)

VARIABLES
  \* server
  regs,        \* sequence of [u, c, sig]: signalHandler.signals (the order of the slice
               \*   matters: removal moves the last entry into the hole, sends follow it)
  mbox,        \* FIFO of register/unregister requests to the object (its mailbox)
  srep,        \* the reply the mailbox goroutine still has to send ([c = ""] when none)
  em,          \* emitter [pc, k, pending]: pending = snapshot entries still to be sent
  called,      \* number of emit calls made
  started,     \* number of snapshots taken
  completed,   \* number of emit calls returned
  emitted,     \* the signals of the emit calls made so far (emitted[k] = signal of event k)
  \* connections (server -> client)
  wire,        \* [Conns -> Seq(message)]
  \* proxy state of a connection's bus.Client
  cnt, hk,     \* [Keys -> Int]
  lock,        \* [Keys -> thread or NoThread]: the thread inside a proxy section; it excludes
               \*   the others only when ~Dev_ProxySectionsNotAtomic
  \* threads
  pc, h, round, nextU,
  \* client side of a subscription
  lh,          \* local handler installed
  q,           \* its queue
  got,         \* what the subscriber has read from its channel
  closed,      \* channel closed
  \* observation / history
  ackAt,       \* [Threads -> Int]: emit calls made when the subscription was acknowledged, -1 before
  cancelled,   \* [Threads -> BOOLEAN]: cancel requested (current subscription)
  cancelAt,    \* [Threads -> Int]: emit calls that had returned when the cancel was requested
  unregAcked,  \* set of <<c, u>>: the removal of u was acknowledged on connection c
  lateSend,    \* an event for an acknowledged removal was sent afterwards
  devUsed      \* the deviations this behaviour needed (a conforming design would have blocked)

srv  == <<regs, mbox, srep>>
emv  == <<em, called, started, completed, emitted>>
prox == <<cnt, hk, lock>>
thr  == <<pc, h, round, nextU>>
cli  == <<lh, q, got, closed>>
obs  == <<ackAt, cancelled, cancelAt, unregAcked, lateSend, devUsed>>
vars == <<srv, emv, wire, prox, thr, cli, obs>>

NoReply == [c |-> "", th |-> "", ok |-> TRUE, u |-> 0, unreg |-> FALSE]

Init ==
  /\ regs = <<>> /\ mbox = <<>> /\ srep = NoReply
  /\ em = [pc |-> "idle", k |-> 0, pending |-> <<>>]
  /\ called = 0 /\ started = 0 /\ completed = 0 /\ emitted = <<>>
  /\ wire = [c \in Conns |-> <<>>]
  /\ cnt = [x \in Keys |-> 0] /\ hk = [x \in Keys |-> 0] /\ lock = [x \in Keys |-> NoThread]
  /\ pc = [t \in Threads |-> "idle"] /\ h = [t \in Threads |-> 0] /\ round = [t \in Threads |-> 1]
  /\ nextU = 0
  /\ lh = [t \in Threads |-> FALSE] /\ q = [t \in Threads |-> <<>>] /\ got = [t \in Threads |-> <<>>]
  /\ closed = [t \in Threads |-> FALSE]
  /\ ackAt = [t \in Threads |-> -1] /\ cancelled = [t \in Threads |-> FALSE]
  /\ cancelAt = [t \in Threads |-> 0] /\ unregAcked = {} /\ lateSend = FALSE /\ devUsed = {}

Goto(th, l) == pc' = [pc EXCEPT ![th] = l]

\* ---------------------------------------------------------------------------
\* proxy: subscribe
\* ---------------------------------------------------------------------------
SubLocal(th) ==
  /\ pc[th] = "idle" /\ round[th] <= Rounds[th]
  /\ lh' = [lh EXCEPT ![th] = TRUE] /\ q' = [q EXCEPT ![th] = <<>>]
  /\ got' = [got EXCEPT ![th] = <<>>] /\ closed' = [closed EXCEPT ![th] = FALSE]
  /\ ackAt' = [ackAt EXCEPT ![th] = -1] /\ cancelled' = [cancelled EXCEPT ![th] = FALSE]
  /\ Goto(th, "inc")
  /\ UNCHANGED <<srv, emv, wire, prox, h, round, nextU, cancelAt, unregAcked, lateSend, devUsed>>

\* a conforming implementation makes SubInc..registration acknowledged and
\* UnsubDec..removal acknowledged one critical section per (connection, signal)
\* (with the deviation the lock is only tracked: entering an occupied section is
\* possible and recorded in devUsed)
Busy(th)    == lock[Key(th)] # NoThread /\ lock[Key(th)] # th
Free(th)    == Dev_ProxySectionsNotAtomic \/ ~Busy(th)
Acquire(th) == /\ Free(th)
               /\ lock' = [lock EXCEPT ![Key(th)] = th]
Release(th) == lock' = [lock EXCEPT ![Key(th)] = IF @ = th THEN NoThread ELSE @]
Overlap(th) == devUsed' = IF Busy(th) THEN devUsed \cup {"Dev_ProxySectionsNotAtomic"} ELSE devUsed

SubInc(th) ==
  /\ pc[th] = "inc"
  /\ cnt' = [cnt EXCEPT ![Key(th)] = @ + 1]
  /\ IF cnt'[Key(th)] = 1
     THEN Acquire(th) /\ Goto(th, "key")
     ELSE Free(th) /\ UNCHANGED lock /\ Goto(th, "ackready")
  /\ Overlap(th)
  /\ UNCHANGED <<srv, emv, wire, hk, h, round, nextU, cli, ackAt, cancelled, cancelAt, unregAcked, lateSend>>

SubKey(th) ==
  /\ pc[th] = "key"
  /\ h' = [h EXCEPT ![th] = Pow2(nextU)] /\ nextU' = nextU + 1
  /\ hk' = [hk EXCEPT ![Key(th)] = @ + Pow2(nextU)]          \* State(hkey, handler) adds
  /\ Goto(th, "rpc")
  /\ UNCHANGED <<srv, emv, wire, cnt, lock, round, cli, obs>>

SubRPC(th) ==
  /\ pc[th] = "rpc"
  /\ mbox' = Append(mbox, [t |-> "reg", c |-> ConnOf[th], sig |-> SigOf[th], u |-> h[th], th |-> th])
  /\ Goto(th, "waitreg")
  /\ UNCHANGED <<regs, srep, emv, wire, prox, h, round, nextU, cli, obs>>

\* SubscribeID returns to the user
Ack(th) ==
  /\ pc[th] = "ackready"
  /\ ackAt' = [ackAt EXCEPT ![th] = called]
  /\ Goto(th, "acked")
  /\ UNCHANGED <<srv, emv, wire, prox, h, round, nextU, cli, cancelled, cancelAt, unregAcked, lateSend, devUsed>>

\* ---------------------------------------------------------------------------
\* server: the object's mailbox goroutine
\* ---------------------------------------------------------------------------
Reply(th, ok) == [t |-> "rep", sig |-> "", k |-> 0, u |-> 0, th |-> th, ok |-> ok]
EventMsg(sig, k, u) == [t |-> "ev", sig |-> sig, k |-> k, u |-> u, th |-> NoThread, ok |-> TRUE]
Idx(seq, P(_)) == {i \in 1..Len(seq) : P(seq[i])}
\* removeSignalUser: signals[i] = signals[last]; signals = signals[:last]
SwapRemove(seq, i) == LET n == Len(seq) IN
                      IF i = n THEN SubSeq(seq, 1, n - 1)
                      ELSE [j \in 1..(n - 1) |-> IF j = i THEN seq[n] ELSE seq[j]]

\* addSignalUser under signalsMutex; the reply is sent afterwards
ServerReg ==
  /\ srep.c = "" /\ mbox # <<>> /\ Head(mbox).t = "reg"
  /\ LET m == Head(mbox) IN
       IF \E i \in 1..Len(regs) : regs[i].u = m.u
       THEN /\ UNCHANGED regs                                   \* "user already exists"
            /\ srep' = [c |-> m.c, th |-> m.th, ok |-> FALSE, u |-> m.u, unreg |-> FALSE]
       ELSE /\ regs' = Append(regs, [u |-> m.u, c |-> m.c, sig |-> m.sig])
            /\ srep' = [c |-> m.c, th |-> m.th, ok |-> TRUE, u |-> m.u, unreg |-> FALSE]
  /\ mbox' = Tail(mbox)
  /\ UNCHANGED <<emv, wire, prox, thr, cli, obs>>

InSeq(x, seq) == \E i \in 1..Len(seq) : seq[i] = x
\* removeSignalUser under signalsMutex; the reply (= the acknowledgement) afterwards
ServerUnreg ==
  /\ srep.c = "" /\ mbox # <<>> /\ Head(mbox).t = "unreg"
  /\ LET m == Head(mbox)
         hit == {i \in 1..Len(regs) : regs[i].u = m.u /\ regs[i].c = m.c}
     IN IF hit # {}
        THEN LET i == CHOOSE j \in hit : TRUE IN
             /\ regs' = SwapRemove(regs, i)
             /\ srep' = [c |-> m.c, th |-> m.th, ok |-> TRUE, u |-> m.u, unreg |-> TRUE]
        ELSE /\ UNCHANGED regs                                 \* "unknown user id"
             /\ srep' = [c |-> m.c, th |-> m.th, ok |-> FALSE, u |-> m.u, unreg |-> TRUE]
  /\ mbox' = Tail(mbox)
  /\ UNCHANGED <<emv, wire, prox, thr, cli, obs>>

\* SendReply / SendError of the request just processed
SendPending == srep.unreg /\ srep.ok /\
               \E i \in 1..Len(em.pending) : em.pending[i].u = srep.u /\ em.pending[i].c = srep.c
ServerReply ==
  /\ srep.c # ""
  \* a conforming server does not acknowledge a removal while a send for it is pending
  /\ Dev_SendAfterSnapshot \/ ~SendPending
  /\ devUsed' = IF SendPending THEN devUsed \cup {"Dev_SendAfterSnapshot"} ELSE devUsed
  /\ wire' = [wire EXCEPT ![srep.c] = Append(@, Reply(srep.th, srep.ok))]
  /\ unregAcked' = IF srep.unreg /\ srep.ok THEN unregAcked \cup {<<srep.c, srep.u>>} ELSE unregAcked
  /\ srep' = NoReply
  /\ UNCHANGED <<regs, mbox, emv, prox, thr, cli, ackAt, cancelled, cancelAt, lateSend>>

\* ---------------------------------------------------------------------------
\* emitter
\* ---------------------------------------------------------------------------
EmitSig(sig) ==
  /\ em.pc = "idle"
  /\ called' = called + 1 /\ emitted' = Append(emitted, sig)
  /\ em' = [pc |-> "called", k |-> called + 1, pending |-> <<>>]
  /\ UNCHANGED <<srv, started, completed, wire, prox, thr, cli, obs>>
EmitCall == called < Len(EmitSeq) /\ EmitSig(EmitSeq[called + 1])

EmitStart ==
  /\ em.pc = "called"
  /\ started' = started + 1
  /\ em' = [em EXCEPT !.pc = "sending",
                      !.pending = SelectSeq(regs, LAMBDA r : r.sig = emitted[em.k])]
  /\ UNCHANGED <<srv, called, completed, emitted, wire, prox, thr, cli, obs>>

SendTo ==
  /\ em.pc = "sending" /\ em.pending # <<>>
  /\ LET r == Head(em.pending) IN
       /\ wire' = [wire EXCEPT ![r.c] = Append(@, EventMsg(r.sig, em.k, r.u))]
       /\ lateSend' = (lateSend \/ <<r.c, r.u>> \in unregAcked)
  /\ em' = [em EXCEPT !.pending = Tail(@)]
  /\ UNCHANGED <<srv, called, started, completed, emitted, prox, thr, cli, ackAt, cancelled, cancelAt, unregAcked, devUsed>>

EmitEnd ==
  /\ em.pc = "sending" /\ em.pending = <<>>
  /\ em' = [em EXCEPT !.pc = "idle"]
  /\ completed' = completed + 1
  /\ UNCHANGED <<srv, called, started, emitted, wire, prox, thr, cli, obs>>

\* ---------------------------------------------------------------------------
\* client: dispatch of connection c, forwarding goroutines
\* ---------------------------------------------------------------------------
Room(t) == Len(q[t]) < QCap
Deliver(c) ==
  /\ wire[c] # <<>>
  /\ LET m == Head(wire[c]) IN
       IF m.t = "ev"
       THEN /\ q' = [t \in Threads |->
                       IF ConnOf[t] = c /\ SigOf[t] = m.sig /\ lh[t] /\ Room(t)
                       THEN Append(q[t], [sig |-> m.sig, k |-> m.k]) ELSE q[t]]
            /\ UNCHANGED <<pc, lock>>
       ELSE /\ UNCHANGED q
            /\ CASE pc[m.th] = "waitreg" /\ m.ok  -> Goto(m.th, "ackready") /\ Release(m.th)
                 \* SubscribeID returns the error: the local handler and the count stay
                 [] pc[m.th] = "waitreg" /\ ~m.ok -> Goto(m.th, "failed") /\ Release(m.th)
                 [] pc[m.th] = "waitunreg"        -> Goto(m.th, "lcancel") /\ Release(m.th)
                 [] OTHER -> FALSE
  /\ wire' = [wire EXCEPT ![c] = Tail(@)]
  /\ UNCHANGED <<srv, emv, cnt, hk, h, round, nextU, lh, got, closed, obs>>

Forward(th) ==
  /\ q[th] # <<>> /\ ~closed[th]
  /\ got' = [got EXCEPT ![th] = Append(@, Head(q[th]))]
  /\ q' = [q EXCEPT ![th] = Tail(@)]
  /\ UNCHANGED <<srv, emv, wire, prox, thr, lh, closed, obs>>

\* ---------------------------------------------------------------------------
\* proxy: cancel
\* ---------------------------------------------------------------------------
CancelReq(th) ==
  /\ pc[th] = "acked"
  /\ cancelled' = [cancelled EXCEPT ![th] = TRUE]
  /\ cancelAt' = [cancelAt EXCEPT ![th] = completed]
  /\ Goto(th, "dec")
  /\ UNCHANGED <<srv, emv, wire, prox, h, round, nextU, cli, ackAt, unregAcked, lateSend, devUsed>>

UnsubDec(th) ==
  /\ pc[th] = "dec"
  /\ cnt' = [cnt EXCEPT ![Key(th)] = @ - 1]
  /\ IF cnt'[Key(th)] = 0
     THEN Acquire(th) /\ Goto(th, "read")
     ELSE Free(th) /\ UNCHANGED lock /\ Goto(th, "lcancel")
  /\ Overlap(th)
  /\ UNCHANGED <<srv, emv, wire, hk, h, round, nextU, cli, ackAt, cancelled, cancelAt, unregAcked, lateSend>>

UnsubRead(th) ==
  /\ pc[th] = "read"
  /\ h' = [h EXCEPT ![th] = hk[Key(th)]]
  /\ Goto(th, "clear")
  /\ UNCHANGED <<srv, emv, wire, prox, round, nextU, cli, obs>>

UnsubClear(th) ==
  /\ pc[th] = "clear"
  /\ hk' = [hk EXCEPT ![Key(th)] = @ - h[th]]
  /\ Goto(th, "unrpc")
  /\ UNCHANGED <<srv, emv, wire, cnt, lock, h, round, nextU, cli, obs>>

UnsubRPC(th) ==
  /\ pc[th] = "unrpc"
  /\ mbox' = Append(mbox, [t |-> "unreg", c |-> ConnOf[th], sig |-> SigOf[th], u |-> h[th], th |-> th])
  /\ Goto(th, "waitunreg")
  /\ UNCHANGED <<regs, srep, emv, wire, prox, h, round, nextU, cli, obs>>

\* l.124 cancel(): close(abort); the call returns to the user ...
Abort(th) ==
  /\ pc[th] = "lcancel"
  /\ Goto(th, "closing")
  /\ UNCHANGED <<srv, emv, wire, prox, h, round, nextU, cli, obs>>

\* ... and the forwarding goroutine, when its select takes the abort branch, removes
\* the handler and closes the channel (client.go l.172-175); until then it may still
\* forward what is queued
CloseSub(th) ==
  /\ pc[th] = "closing"
  /\ lh' = [lh EXCEPT ![th] = FALSE] /\ closed' = [closed EXCEPT ![th] = TRUE]
  /\ q' = [q EXCEPT ![th] = <<>>]
  /\ Goto(th, "done")
  /\ UNCHANGED <<srv, emv, wire, prox, h, round, nextU, got, obs>>

Again(th) ==
  /\ pc[th] = "done" /\ round[th] < Rounds[th]
  /\ round' = [round EXCEPT ![th] = @ + 1]
  /\ Goto(th, "idle")
  /\ UNCHANGED <<srv, emv, wire, prox, h, nextU, cli, obs>>

ThreadStep(th) == \/ SubLocal(th) \/ SubInc(th) \/ SubKey(th) \/ SubRPC(th) \/ Ack(th) \/ CancelReq(th)
                  \/ UnsubDec(th) \/ UnsubRead(th) \/ UnsubClear(th) \/ UnsubRPC(th)
                  \/ Abort(th) \/ CloseSub(th) \/ Again(th)
Internal == \/ \E c \in Conns : Deliver(c)
            \/ \E th \in Threads : Forward(th)
Next == \/ \E th \in Threads : ThreadStep(th)
        \/ ServerReg \/ ServerUnreg \/ ServerReply
        \/ EmitCall \/ EmitStart \/ SendTo \/ EmitEnd
        \/ Internal

Spec == Init /\ [][Next]_vars
FairSpec == Spec /\ WF_vars(Next)

\* ---------------------------------------------------------------------------
\* the property
\* ---------------------------------------------------------------------------
EvK(seq) == [i \in 1..Len(seq) |-> seq[i].k]
\* the emissions thread th is entitled to: its signal, called after its
\* acknowledgement and returned before its request to cancel
Window(th) == IF ackAt[th] < 0 THEN {}
              ELSE {k \in (ackAt[th] + 1)..(IF cancelled[th] THEN cancelAt[th] ELSE called) :
                      emitted[k] = SigOf[th]}
InWin(th) == SelectSeq(EvK(got[th]), LAMBDA k : k \in Window(th))
Sorted(S) == LET RECURSIVE srt(_)
                 srt(X) == IF X = {} THEN <<>>
                           ELSE LET m == CHOOSE x \in X : \A y \in X : x <= y
                                IN <<m>> \o srt(X \ {m})
             IN srt(S)
IsPrefix(p, s) == Len(p) <= Len(s) /\ SubSeq(s, 1, Len(p)) = p

\* nothing of its window twice
NoDuplicate == \A th \in Threads : \A i, j \in 1..Len(InWin(th)) : i # j => InWin(th)[i] # InWin(th)[j]
\* in its window a subscriber gets the events in emission order without a gap ...
InOrderNoGap == \A th \in Threads : IsPrefix(InWin(th), Sorted(Window(th)))
\* ... and gets them all: once nothing is in flight any more, nothing is missing
InFlight(th) == \/ em.pc # "idle" \/ q[th] # <<>>
                \/ \E i \in 1..Len(wire[ConnOf[th]]) : wire[ConnOf[th]][i].t = "ev"
Complete == \A th \in Threads :
              (pc[th] = "acked" /\ ~InFlight(th)) => InWin(th) = Sorted(Window(th))
InWindowExactlyOnceInOrder == NoDuplicate /\ InOrderNoGap /\ Complete
\* only the subscribed signal, and with the emitted payload (k identifies it)
NoForeignSignal == \A th \in Threads : \A i \in 1..Len(got[th]) :
                      got[th][i].sig = SigOf[th] /\ got[th][i].k \in 1..called
                      /\ emitted[got[th][i].k] = SigOf[th]
\* the channel is closed once the subscriber has cancelled
ClosedAfterCancel == \A th \in Threads : pc[th] = "done" => (closed[th] /\ ~lh[th])
NothingAfterUnregisterAck == ~lateSend
\* one subscriber leaving does not disturb the others: Complete/InOrderNoGap of the
\* others; structurally: the registration stays while somebody listens
Settled(x) == /\ mbox = <<>> /\ srep.c = "" /\ wire[x[1]] = <<>>
              /\ \A t \in Threads : Key(t) = x => pc[t] \in {"idle", "acked", "done", "failed"}
OthersUndisturbed ==
  \A th \in Threads : (pc[th] = "acked" /\ Settled(Key(th)))
                      => \E i \in 1..Len(regs) : regs[i].c = ConnOf[th] /\ regs[i].sig = SigOf[th]
\* structural causes of duplicates / losses (auxiliary)
AtMostOneRegistration ==
  \A x \in Keys : Cardinality({i \in 1..Len(regs) : <<regs[i].c, regs[i].sig>> = x}) <= 1
AllDone == \A th \in Threads : pc[th] = "done" /\ round[th] = Rounds[th]
NoLeak == (AllDone /\ mbox = <<>> /\ srep.c = "") => regs = <<>>
\* liveness (FairSpec): a cancelled subscription gets closed
EventuallyClosed == \A th \in Threads : (cancelled[th] ~> (closed[th] \/ ~cancelled[th]))

\* the property invariants violated in the current state (names), for the behaviour
\* export and the trace validation
Violated == {n \in {"NoDuplicate", "InOrderNoGap", "Complete", "NoForeignSignal", "ClosedAfterCancel",
                     "NothingAfterUnregisterAck", "OthersUndisturbed"} :
               CASE n = "NoDuplicate" -> ~NoDuplicate
                 [] n = "InOrderNoGap" -> ~InOrderNoGap
                 [] n = "Complete" -> ~Complete
                 [] n = "NoForeignSignal" -> ~NoForeignSignal
                 [] n = "ClosedAfterCancel" -> ~ClosedAfterCancel
                 [] n = "NothingAfterUnregisterAck" -> ~NothingAfterUnregisterAck
                 [] n = "OthersUndisturbed" -> ~OthersUndisturbed}

PCs == {"idle", "inc", "key", "rpc", "waitreg", "ackready", "acked", "failed", "dec", "read",
        "clear", "unrpc", "waitunreg", "lcancel", "closing", "done"}
TypeOK == /\ pc \in [Threads -> PCs]
          /\ \A x \in Keys : cnt[x] \in Int /\ hk[x] \in Int
          /\ called \in 0..Len(EmitSeq) /\ started <= called /\ completed <= started
=============================================================================
