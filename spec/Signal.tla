------------------------------- MODULE Signal -------------------------------
(* C13 - signal subscriptions end to end: the server's subscriber table
   (bus/signal.go), the proxy-side reference counting of a shared registration
   (bus/proxy.go SubscribeID + its cancel closure over bus/client.go State), the
   connection (FIFO), the client-side dispatch and the per-subscriber forwarding
   goroutine (bus/client.go Subscribe).

   A thread th \in Threads is one user of the generated Subscribe<Signal> API on
   connection ConnOf[th] for signal SigOf[th] of object ObjOf[th]; it subscribes,
   is acknowledged, later cancels, Rounds[th] times.  One emitter emits EmitSeq
   (a sequence of (object, signal) pairs).

   Addressing.  An event is addressed (service, object, action): every object
   has its own subscriber table, mailbox and pending reply (regs[o], mbox[o],
   srep[o]); the proxy state of a bus.Client is keyed by (connection, object,
   signal) = the string "service.object.action" of proxy.go; a message on a
   connection carries its object and signal; the client-side filter of a
   subscription compares service, object id and action (client.go l.150-152),
   the forwarding goroutine forwards Event messages only (l.169).  The object
   universe is fixed: o1 = (s1, 1), o2 = (s1, 2) a sibling of the same type in
   the same service, o3 = (s2, 1) the object with o1's id in another service.

   Failing connections (c \in Failing).  BreakWrite(c, kind): from now on the
   server's writes to c fail (kind "eof": the stream returns io.EOF, "err": any
   other error) while the server's reader of c has noticed nothing: the
   registrations of c stay in the tables.  The client of c is gone: its threads
   take no further step and are not accounted any more.  SendFail: a Send of
   UpdateSignal fails; after io.EOF the emitter removes the registration itself
   (FailCleanup, signal.go l.225-229), after another error it only remembers the
   error; in both cases it goes on with the next subscriber.  ReaderNotices(c):
   the server's reader sees the end of the stream, the end point shuts down and
   runs the closer of every registration of c (CloserRun, signal.go l.87-91).

   action            | code
   ------------------+---------------------------------------------------------
   SubLocal(th)      | proxy.go l.98  client.Subscribe: keep-handler with a
                     |   100-slot queue + forwarding goroutine (client.go l.140-181)
   SubInc(th)        | l.103  State(key, +1)            (atomic under stateMutex)
   SubKey(th)        | l.105-106 handler := rand.Int(); State(hkey, handler) - ADDS
   SubRPC(th)        | l.108  RegisterEvent call sent
   ServerReg         | signal.go l.114-152 on the object's mailbox goroutine:
                     |   addSignalUser under signalsMutex, then the reply
   Deliver(c)        | endpoint dispatch of the next message of connection c:
                     |   an event goes to the queue of every local handler of that
                     |   signal; a reply wakes the caller
   Ack(th)           | SubscribeID returns: the subscription is acknowledged (for
                     |   the 2nd.. local subscriber right after SubInc)
   CancelReq(th)     | the user calls the cancel function
   UnsubDec(th)      | l.114  State(key, -1)
   UnsubRead(th)     | l.116  handler := State(hkey, 0)
   UnsubClear(th)    | l.117  State(hkey, -handler)
   UnsubRPC(th)      | l.119  UnregisterEvent call sent (an error is only logged)
   ServerUnreg       | signal.go l.154-184: removeSignalUser (same connection only)
   ServerReply       | SendReply/SendError of the request just processed; for an
                     |   unregistration this is the acknowledgement of the removal
   Abort(th)         | l.124  cancel(): close(abort); the cancel function returns
   CloseSub(th)      | client.go l.172-175 forwarding goroutine: RemoveHandler,
                     |   close(events)
   Forward(th)       | client.go l.165-171 forwarding goroutine: queue -> channel
   EmitCall          | the service calls Signal<X>(payload) / Update<Prop>
   EmitStart         | signal.go l.191-197 UpdateSignal: snapshot under RLock, in
                     |   the order of the slice
   SendTo            | l.199-209 one Send per snapshotted user, in order, outside
                     |   the lock
   EmitEnd           | UpdateSignal returns

   Inject(i)         | the environment puts a message on connection i.c that is
                     |   addressed like an event of (i.o, i.sig) but is not of
                     |   type Event (the filter queues it, the forwarder drops it)
   RogueUnreg(c,o,i) | connection c sends unregisterEvent with the user id of a
                     |   registration another connection made (signal.go l.117-119:
                     |   only the registering end point may remove it)
   BreakWrite(c,k)   | server -> c writes start failing (peer gone)
   SendFail          | l.224 replyEvent returns an error
   FailCleanup       | l.225-229 err == io.EOF: removeSignalUser
   ReaderNotices(c)  | endpoint.go process(): read error, closeWith: the closers
   CloserRun(x)      | signal.go l.87-91 forgetSignalUser on disconnection

   Deviations of the code from the property (DESIGN.md 3.3), both TRUE for the
   pinned tree, FALSE in the property-checking configuration:
   Dev_ProxySectionsNotAtomic  the two sections SubInc..registration acknowledged
        and UnsubDec..removal acknowledged of one (connection, signal) are not
        mutually exclusive: a 2nd subscriber is acknowledged before the
        registration exists, a re-subscription registers before the previous
        registration is removed, and State(hkey, handler) adds to a key a
        concurrent cancel has not cleared yet (handler-key arithmetic).
   Dev_SendAfterSnapshot  UpdateSignal sends from its snapshot after the
        removal of a registration has been acknowledged.
   Further named deviations, none of them in the pinned tree (Devs = {} in every
   property configuration and in the trace configuration): vacuity guards, each
   breaks the invariant named with it (MCSignal_probe*.cfg), and diagnosis of a
   recorded execution the specification cannot explain otherwise:
   Dev_FilterIgnoresService / Dev_FilterIgnoresObject / Dev_FilterIgnoresAction
        the subscription's filter does not compare that header field
        (NoForeignSignal);
   Dev_ForwardIgnoresType  the forwarding goroutine forwards messages of any
        type (NoForeignSignal);
   Dev_StopAtFirstFailedSend  UpdateSignal returns at the first subscriber whose
        Send fails: the subscribers behind it in the table lose the event
        (Complete);
   Dev_CleanupRemovesBlindly  the clean-up after a failed Send, when the
        registration is gone already, drops the last entry of the table instead
        (RemovedAtMostOnce, then Complete);
   Dev_UnregIgnoresConnection  forgetSignalUser matches the user id only: any
        connection can remove another connection's registration
        (OthersUndisturbed, Complete).                                         *)
EXTENDS Integers, Sequences, FiniteSets, TLC

CONSTANTS
  Threads, Conns, Signals, Objects,
  ConnOf, SigOf, ObjOf, Rounds,  \* functions over Threads
  EmitSeq,                    \* the (object, signal) pairs emitted, in order: [o, sig]
  QCap,                       \* capacity of a subscription's queue (100 in the code)
  Dev_ProxySectionsNotAtomic,
  Dev_SendAfterSnapshot,
  Devs,                       \* names of the further deviations that are switched on
  Probe,                      \* set of sets of names: a behaviour picks one at Init and has these
                              \*   deviations on as well ({{}} everywhere but in the vacuity runs)
  Failing,                    \* connections whose server -> client direction may break
  Inject,                     \* set of [c, o, sig]: non-Event messages addressed like an event of
                              \*   (o, sig) the environment may put on connection c, once each
  Rogue                       \* connections that may send, once each, an unregisterEvent for the user
                              \*   id of a registration that belongs to ANOTHER connection

\* ---- the object universe ---------------------------------------------------
Svc(o) == IF o = "o3" THEN "s2" ELSE "s1"
Oid(o) == IF o = "o2" THEN 2 ELSE 1

\* ---- ready-made configurations (cfg files cannot write functions) ---------
T1 == {"t1"}
T2 == {"t1", "t2"}
T3 == {"t1", "t2", "t3"}
T13 == {"t1", "t3"}
OneConn   == [t \in T3 |-> "c1"]                               \* same proxy / same connection
TwoConn   == [t \in T3 |-> IF t = "t3" THEN "c2" ELSE "c1"]    \* t3 on another connection
SameSig   == [t \in T3 |-> "A"]
AllO1     == [t \in T3 |-> "o1"]
E(o, sig) == [o |-> o, sig |-> sig]
MixedSig  == [t \in T3 |-> IF t = "t2" THEN "B" ELSE "A"]
R1 == [t \in T3 |-> 1]
R2 == [t \in T3 |-> 2]
R21 == [t \in T3 |-> IF t = "t1" THEN 2 ELSE 1]
EmitA   == <<E("o1", "A")>>
EmitAA  == <<E("o1", "A"), E("o1", "A")>>
EmitAAA == <<E("o1", "A"), E("o1", "A"), E("o1", "A")>>
EmitAAB == <<E("o1", "A"), E("o1", "A"), E("o1", "B")>>
EmitAB  == <<E("o1", "A"), E("o1", "B")>>
EmitABA == <<E("o1", "A"), E("o1", "B"), E("o1", "A")>>

\* the fixed cast of the conformance harness (harness/cmd/signal/c13.go):
\*   t1, t2: connection c1, object o1, signal A (one bus.Client: shared reference count)
\*   t3    : c1, o1, B        t4: c2, o1, A        t5: c2, o1, B
\*   t6    : c1, o2, A  the sibling object through the SAME client as t1 (object differs)
\*   t7    : c2, o2, A  the sibling object on another connection
\*   t8    : c1, o3, A  the object with o1's id in another service, same client (service differs)
\*   t9    : c3, o1, A        t10: c3, o2, A       c3 = the connection that breaks
Cast     == {"t1", "t2", "t3", "t4", "t5", "t6", "t7", "t8", "t9", "t10"}
CastConn == [t \in Cast |-> CASE t \in {"t4", "t5", "t7"} -> "c2"
                              [] t \in {"t9", "t10"} -> "c3"
                              [] OTHER -> "c1"]
CastSig  == [t \in Cast |-> IF t \in {"t3", "t5"} THEN "B" ELSE "A"]
CastObj  == [t \in Cast |-> CASE t \in {"t6", "t7", "t10"} -> "o2"
                              [] t = "t8" -> "o3"
                              [] OTHER -> "o1"]
Cast12   == {"t1", "t2"}
Cast124  == {"t1", "t2", "t4"}
Cast134  == {"t1", "t3", "t4"}
Cast1234 == {"t1", "t2", "t3", "t4"}
CR1  == [t \in Cast |-> 1]
CR2  == [t \in Cast |-> 2]
CR21 == [t \in Cast |-> IF t = "t1" THEN 2 ELSE 1]
CR99 == [t \in Cast |-> 99]
NoEmit == <<>>
\* casts and emission sequences of the object / failure configurations
Cast16   == {"t1", "t6"}
Cast18   == {"t1", "t8"}
Cast17   == {"t1", "t7"}
Cast13   == {"t1", "t3"}
Cast167  == {"t1", "t6", "t7"}
Cast1678 == {"t1", "t6", "t7", "t8"}
Cast9    == {"t9"}
Cast94   == {"t9", "t4"}
Cast914  == {"t9", "t1", "t4"}
Cast9410 == {"t9", "t4", "t10", "t7"}
EmitO12  == <<E("o1", "A"), E("o2", "A")>>
EmitO21  == <<E("o2", "A"), E("o1", "A")>>
EmitO13  == <<E("o1", "A"), E("o3", "A")>>
EmitO121 == <<E("o1", "A"), E("o2", "A"), E("o1", "A")>>
EmitO1231 == <<E("o1", "A"), E("o2", "A"), E("o3", "A"), E("o1", "A")>>
EmitO1   == <<E("o1", "A")>>
EmitO11  == <<E("o1", "A"), E("o1", "A")>>
EmitO112 == <<E("o1", "A"), E("o1", "A"), E("o2", "A")>>
NoInject == {}
NoRogue  == {}
InjC1O1A == {[c |-> "c1", o |-> "o1", sig |-> "A"]}
NoProbe  == {{}}
\* the vacuity guards: one deviation per behaviour
ProbeFilter == {{"Dev_FilterIgnoresService"}, {"Dev_FilterIgnoresObject"},
                {"Dev_FilterIgnoresAction"}, {"Dev_ForwardIgnoresType"}}
ProbeFail   == {{"Dev_StopAtFirstFailedSend"}, {"Dev_CleanupRemovesBlindly"}, {"Dev_UnregIgnoresConnection"}}
ProbeAll    == ProbeFilter \cup ProbeFail
\* cast of the vacuity run: for every header field a pair of subscribers on ONE client whose
\* subscriptions differ in exactly that field (t1/t8 service, t1/t6 object, t1/t3 action), an
\* injected non-Event message for t1 (simulation); the failure guards run on the cast of
\* MCSignal_fail.cfg (breadth-first)
CastProbe == {"t1", "t3", "t6", "t8"}
EmitProbe == <<E("o2", "A"), E("o3", "A"), E("o1", "B"), E("o1", "A")>>
EmitO2   == <<E("o2", "A")>>

Keys == Conns \X Objects \X Signals
Key(th) == <<ConnOf[th], ObjOf[th], SigOf[th]>>
NoThread == ""
\* handler ids (rand.Int() in the code): powers of 3, so that the sums and
\* differences State() builds from them (coefficients -1, 0, 1) never collide
\* with each other or with an id - as for random 63-bit numbers
RECURSIVE Pow3(_)
Pow3(n) == IF n = 0 THEN 1 ELSE 3 * Pow3(n - 1)
Pow2(n) == Pow3(n)

VARIABLES
  \* server, per object
  regs,        \* [Objects -> sequence of [u, c, sig]]: signalHandler.signals (the order of the slice
               \*   matters: removal moves the last entry into the hole, sends follow it)
  mbox,        \* [Objects -> FIFO of register/unregister requests]: the object's mailbox
  srep,        \* [Objects -> the reply the mailbox goroutine still has to send] ([c = ""] when none)
  em,          \* emitter [pc, k, pending]: pending = snapshot entries still to be sent
  called,      \* number of emit calls made
  started,     \* number of snapshots taken
  completed,   \* number of emit calls returned
  emitted,     \* the emit calls made so far: emitted[k] = [o, sig] of event k
  \* connections (server -> client)
  wire,        \* [Conns -> Seq(message)]
  wst,         \* [Conns -> "up" | "eof" | "err" | "down"]: the server's writes succeed / fail with
               \*   io.EOF / fail with another error / the server's reader has seen the end
  clos,        \* closers of a shut-down end point that have not run yet: set of [o, u, c]
  injected,    \* the members of Inject already put on their connection
  rogued,      \* the members of Rogue that have sent their foreign unregisterEvent
  \* proxy state of a connection's bus.Client
  cnt, hk,     \* [Keys -> Int]
  lock,        \* [Keys -> thread or NoThread]: the thread inside a proxy section; it excludes
               \*   the others only when ~Dev_ProxySectionsNotAtomic
  \* threads
  pc, h, round, nextU,
  \* client side of a subscription
  lh,          \* local handler installed
  q,           \* its queue
  got,         \* what the subscriber has read from its channel
  closed,      \* channel closed
  \* observation / history
  ackAt,       \* [Threads -> Int]: emit calls made when the subscription was acknowledged, -1 before
  cancelled,   \* [Threads -> BOOLEAN]: cancel requested (current subscription)
  cancelAt,    \* [Threads -> Int]: emit calls that had returned when the cancel was requested
  unregAcked,  \* set of <<c, u>>: the removal of u was acknowledged on connection c
  lateSend,    \* an event for an acknowledged removal was sent afterwards
  removed,     \* set of <<o, u>>: registrations taken out of a table so far
  dblrm,       \* a registration was "removed" a second time (something else left the table)
  devUsed,     \* the deviations this behaviour needed (a conforming design would have blocked)
  probe        \* the deviations of Probe this behaviour runs with

srv  == <<regs, mbox, srep>>
emv  == <<em, called, started, completed, emitted>>
net  == <<wire, wst, clos, injected, rogued>>
prox == <<cnt, hk, lock>>
thr  == <<pc, h, round, nextU>>
cli  == <<lh, q, got, closed>>
obs  == <<ackAt, cancelled, cancelAt, unregAcked, lateSend, removed, dblrm, devUsed, probe>>
vars == <<srv, emv, net, prox, thr, cli, obs>>

DevOn(d) == d \in Devs \/ d \in probe

NoReply == [c |-> "", th |-> "", ok |-> TRUE, u |-> 0, unreg |-> FALSE]
NoEntry == [u |-> 0, c |-> "", sig |-> ""]

Init ==
  /\ regs = [o \in Objects |-> <<>>] /\ mbox = [o \in Objects |-> <<>>]
  /\ srep = [o \in Objects |-> NoReply]
  /\ em = [pc |-> "idle", k |-> 0, pending |-> <<>>, failed |-> NoEntry]
  /\ called = 0 /\ started = 0 /\ completed = 0 /\ emitted = <<>>
  /\ wire = [c \in Conns |-> <<>>] /\ wst = [c \in Conns |-> "up"] /\ clos = {} /\ injected = {} /\ rogued = {}
  /\ cnt = [x \in Keys |-> 0] /\ hk = [x \in Keys |-> 0] /\ lock = [x \in Keys |-> NoThread]
  /\ pc = [t \in Threads |-> "idle"] /\ h = [t \in Threads |-> 0] /\ round = [t \in Threads |-> 1]
  /\ nextU = 0
  /\ lh = [t \in Threads |-> FALSE] /\ q = [t \in Threads |-> <<>>] /\ got = [t \in Threads |-> <<>>]
  /\ closed = [t \in Threads |-> FALSE]
  /\ ackAt = [t \in Threads |-> -1] /\ cancelled = [t \in Threads |-> FALSE]
  /\ cancelAt = [t \in Threads |-> 0] /\ unregAcked = {} /\ lateSend = FALSE
  /\ removed = {} /\ dblrm = FALSE /\ devUsed = {}
  /\ probe \in Probe

Goto(th, l) == pc' = [pc EXCEPT ![th] = l]
obsStatic == <<removed, dblrm, probe>>     \* what the thread / dispatch steps never touch

\* ---------------------------------------------------------------------------
\* proxy: subscribe
\* ---------------------------------------------------------------------------
SubLocal(th) ==
  /\ pc[th] = "idle" /\ round[th] <= Rounds[th]
  /\ lh' = [lh EXCEPT ![th] = TRUE] /\ q' = [q EXCEPT ![th] = <<>>]
  /\ got' = [got EXCEPT ![th] = <<>>] /\ closed' = [closed EXCEPT ![th] = FALSE]
  /\ ackAt' = [ackAt EXCEPT ![th] = -1] /\ cancelled' = [cancelled EXCEPT ![th] = FALSE]
  /\ Goto(th, "inc")
  /\ UNCHANGED <<srv, emv, net, prox, h, round, nextU, cancelAt, unregAcked, lateSend, devUsed, obsStatic>>

\* a conforming implementation makes SubInc..registration acknowledged and
\* UnsubDec..removal acknowledged one critical section per (connection, object, signal)
\* (with the deviation the lock is only tracked: entering an occupied section is
\* possible and recorded in devUsed)
Busy(th)    == lock[Key(th)] # NoThread /\ lock[Key(th)] # th
Free(th)    == Dev_ProxySectionsNotAtomic \/ ~Busy(th)
Acquire(th) == /\ Free(th)
               /\ lock' = [lock EXCEPT ![Key(th)] = th]
Release(th) == lock' = [lock EXCEPT ![Key(th)] = IF @ = th THEN NoThread ELSE @]
Overlap(th) == devUsed' = IF Busy(th) THEN devUsed \cup {"Dev_ProxySectionsNotAtomic"} ELSE devUsed

SubInc(th) ==
  /\ pc[th] = "inc"
  /\ cnt' = [cnt EXCEPT ![Key(th)] = @ + 1]
  /\ IF cnt'[Key(th)] = 1
     THEN Acquire(th) /\ Goto(th, "key")
     ELSE Free(th) /\ UNCHANGED lock /\ Goto(th, "ackready")
  /\ Overlap(th)
  /\ UNCHANGED <<srv, emv, net, hk, h, round, nextU, cli, ackAt, cancelled, cancelAt, unregAcked, lateSend, obsStatic>>

SubKey(th) ==
  /\ pc[th] = "key"
  /\ h' = [h EXCEPT ![th] = Pow2(nextU)] /\ nextU' = nextU + 1
  /\ hk' = [hk EXCEPT ![Key(th)] = @ + Pow2(nextU)]          \* State(hkey, handler) adds
  /\ Goto(th, "rpc")
  /\ UNCHANGED <<srv, emv, net, cnt, lock, round, cli, obs>>

Request(t, th) == [t |-> t, c |-> ConnOf[th], sig |-> SigOf[th], u |-> h[th], th |-> th]
SubRPC(th) ==
  /\ pc[th] = "rpc"
  /\ mbox' = [mbox EXCEPT ![ObjOf[th]] = Append(@, Request("reg", th))]
  /\ Goto(th, "waitreg")
  /\ UNCHANGED <<regs, srep, emv, net, prox, h, round, nextU, cli, obs>>

\* SubscribeID returns to the user
Ack(th) ==
  /\ pc[th] = "ackready"
  /\ ackAt' = [ackAt EXCEPT ![th] = called]
  /\ Goto(th, "acked")
  /\ UNCHANGED <<srv, emv, net, prox, h, round, nextU, cli, cancelled, cancelAt, unregAcked, lateSend, devUsed, obsStatic>>

\* ---------------------------------------------------------------------------
\* server: the mailbox goroutine of object o
\* ---------------------------------------------------------------------------
Reply(th, ok) == [t |-> "rep", o |-> "", sig |-> "", k |-> 0, u |-> 0, th |-> th, ok |-> ok]
EventMsg(o, sig, k, u) == [t |-> "ev", o |-> o, sig |-> sig, k |-> k, u |-> u, th |-> NoThread, ok |-> TRUE]
InjMsg(o, sig) == [t |-> "inj", o |-> o, sig |-> sig, k |-> 0, u |-> 0, th |-> NoThread, ok |-> TRUE]
Idx(seq, P(_)) == {i \in 1..Len(seq) : P(seq[i])}
\* removeSignalUser: signals[i] = signals[last]; signals = signals[:last]
SwapRemove(seq, i) == LET n == Len(seq) IN
                      IF i = n THEN SubSeq(seq, 1, n - 1)
                      ELSE [j \in 1..(n - 1) |-> IF j = i THEN seq[n] ELSE seq[j]]
\* forgetSignalUser(u, c) on the table of o, under signalsMutex
\* (the user id AND the connection must match: a registration belongs to its connection)
Hit(o, u, c) == {i \in 1..Len(regs[o]) : regs[o][i].u = u /\ (regs[o][i].c = c \/ DevOn("Dev_UnregIgnoresConnection"))}
Alien(o, u, c) == \E i \in Hit(o, u, c) : regs[o][i].c # c
Known(o, u, c) == Hit(o, u, c) # {}
ForgetIn(o, u, c) == [regs EXCEPT ![o] = SwapRemove(@, CHOOSE j \in Hit(o, u, c) : TRUE)]
NoteRemoved(o, u) == removed' = removed \cup {<<o, u>>}

\* addSignalUser under signalsMutex; the reply is sent afterwards
ServerReg(o) ==
  /\ srep[o].c = "" /\ mbox[o] # <<>> /\ Head(mbox[o]).t = "reg"
  /\ LET m == Head(mbox[o]) IN
       IF \E i \in 1..Len(regs[o]) : regs[o][i].u = m.u
       THEN /\ UNCHANGED regs                                   \* "user already exists"
            /\ srep' = [srep EXCEPT ![o] = [c |-> m.c, th |-> m.th, ok |-> FALSE, u |-> m.u, unreg |-> FALSE]]
       ELSE /\ regs' = [regs EXCEPT ![o] = Append(@, [u |-> m.u, c |-> m.c, sig |-> m.sig])]
            /\ srep' = [srep EXCEPT ![o] = [c |-> m.c, th |-> m.th, ok |-> TRUE, u |-> m.u, unreg |-> FALSE]]
  /\ mbox' = [mbox EXCEPT ![o] = Tail(@)]
  /\ UNCHANGED <<emv, net, prox, thr, cli, obs>>

InSeq(x, seq) == \E i \in 1..Len(seq) : seq[i] = x
\* removeSignalUser under signalsMutex; the reply (= the acknowledgement) afterwards
ServerUnreg(o) ==
  /\ srep[o].c = "" /\ mbox[o] # <<>> /\ Head(mbox[o]).t = "unreg"
  /\ LET m == Head(mbox[o]) IN
        IF Known(o, m.u, m.c)
        THEN /\ regs' = ForgetIn(o, m.u, m.c)
             /\ NoteRemoved(o, m.u)
             /\ srep' = [srep EXCEPT ![o] = [c |-> m.c, th |-> m.th, ok |-> TRUE, u |-> m.u, unreg |-> TRUE]]
             /\ devUsed' = IF Alien(o, m.u, m.c) THEN devUsed \cup {"Dev_UnregIgnoresConnection"} ELSE devUsed
        ELSE /\ UNCHANGED <<regs, removed, devUsed>>           \* "unknown user id"
             /\ srep' = [srep EXCEPT ![o] = [c |-> m.c, th |-> m.th, ok |-> FALSE, u |-> m.u, unreg |-> TRUE]]
  /\ mbox' = [mbox EXCEPT ![o] = Tail(@)]
  /\ UNCHANGED <<emv, net, prox, thr, cli, ackAt, cancelled, cancelAt, unregAcked, lateSend, dblrm, probe>>

\* SendReply / SendError of the request just processed (to a connection whose
\* writes fail the reply is lost; the requester is gone anyway)
EmitObj == emitted[em.k].o
SendPending(o) == /\ srep[o].unreg /\ srep[o].ok /\ em.pending # <<>> /\ EmitObj = o
                  /\ \E i \in 1..Len(em.pending) : em.pending[i].u = srep[o].u /\ em.pending[i].c = srep[o].c
ServerReply(o) ==
  /\ srep[o].c # ""
  \* a conforming server does not acknowledge a removal while a send for it is pending
  /\ Dev_SendAfterSnapshot \/ ~SendPending(o)
  /\ devUsed' = IF SendPending(o) THEN devUsed \cup {"Dev_SendAfterSnapshot"} ELSE devUsed
  /\ wire' = IF wst[srep[o].c] = "up"
             THEN [wire EXCEPT ![srep[o].c] = Append(@, Reply(srep[o].th, srep[o].ok))]
             ELSE wire
  /\ unregAcked' = IF srep[o].unreg /\ srep[o].ok /\ wst[srep[o].c] = "up"
                   THEN unregAcked \cup {<<srep[o].c, srep[o].u>>} ELSE unregAcked
  /\ srep' = [srep EXCEPT ![o] = NoReply]
  /\ UNCHANGED <<regs, mbox, emv, wst, clos, injected, rogued, prox, thr, cli, ackAt, cancelled, cancelAt, lateSend, obsStatic>>

\* ---------------------------------------------------------------------------
\* emitter
\* ---------------------------------------------------------------------------
EmitSig(o, sig) ==
  /\ em.pc = "idle"
  /\ called' = called + 1 /\ emitted' = Append(emitted, [o |-> o, sig |-> sig])
  /\ em' = [pc |-> "called", k |-> called + 1, pending |-> <<>>, failed |-> NoEntry]
  /\ UNCHANGED <<srv, started, completed, net, prox, thr, cli, obs>>
EmitCall == called < Len(EmitSeq) /\ EmitSig(EmitSeq[called + 1].o, EmitSeq[called + 1].sig)

EmitStart ==
  /\ em.pc = "called"
  /\ started' = started + 1
  /\ em' = [em EXCEPT !.pc = "sending",
                      !.pending = SelectSeq(regs[EmitObj], LAMBDA r : r.sig = emitted[em.k].sig)]
  /\ UNCHANGED <<srv, called, completed, emitted, net, prox, thr, cli, obs>>

\* replyEvent succeeds
SendTo ==
  /\ em.pc = "sending" /\ em.pending # <<>>
  /\ LET r == Head(em.pending) IN
       /\ wst[r.c] = "up"
       /\ wire' = [wire EXCEPT ![r.c] = Append(@, EventMsg(EmitObj, r.sig, em.k, r.u))]
       /\ lateSend' = (lateSend \/ <<r.c, r.u>> \in unregAcked)
  /\ em' = [em EXCEPT !.pending = Tail(@)]
  /\ UNCHANGED <<srv, called, started, completed, emitted, wst, clos, injected, rogued, prox, thr, cli, ackAt, cancelled,
                 cancelAt, unregAcked, removed, dblrm, devUsed, probe>>

\* what is left to send after a failure: everything but the failed entry - or
\* nothing (Dev_StopAtFirstFailedSend: return err)
AfterFailure(rest) == IF DevOn("Dev_StopAtFirstFailedSend") THEN <<>> ELSE rest
StopUsed(rest) == IF DevOn("Dev_StopAtFirstFailedSend") /\ rest # <<>>
                  THEN devUsed \cup {"Dev_StopAtFirstFailedSend"} ELSE devUsed
\* replyEvent fails: nothing reaches the connection.  After io.EOF the emitter
\* cleans up (next step), after another error it just goes on.
SendFail ==
  /\ em.pc = "sending" /\ em.pending # <<>>
  /\ LET r == Head(em.pending) IN
       /\ wst[r.c] # "up"
       /\ IF wst[r.c] = "eof"
          THEN em' = [em EXCEPT !.pc = "cleanup", !.failed = r, !.pending = Tail(@)] /\ UNCHANGED devUsed
          ELSE em' = [em EXCEPT !.pending = AfterFailure(Tail(@))] /\ devUsed' = StopUsed(Tail(em.pending))
  /\ UNCHANGED <<srv, called, started, completed, emitted, net, prox, thr, cli, ackAt, cancelled,
                 cancelAt, unregAcked, lateSend, removed, dblrm, probe>>

\* err == io.EOF: removeSignalUser(user.userID, user.context)
FailCleanup ==
  /\ em.pc = "cleanup"
  /\ LET r == em.failed  o == EmitObj IN
       IF Known(o, r.u, r.c)
       THEN /\ regs' = ForgetIn(o, r.u, r.c) /\ NoteRemoved(o, r.u) /\ UNCHANGED dblrm
            /\ devUsed' = StopUsed(em.pending)
       ELSE IF DevOn("Dev_CleanupRemovesBlindly") /\ regs[o] # <<>>
            THEN /\ regs' = [regs EXCEPT ![o] = SubSeq(@, 1, Len(@) - 1)]
                 /\ dblrm' = TRUE /\ UNCHANGED removed
                 /\ devUsed' = StopUsed(em.pending) \cup {"Dev_CleanupRemovesBlindly"}
            ELSE /\ UNCHANGED <<regs, removed, dblrm>>          \* "unknown user id"
                 /\ devUsed' = StopUsed(em.pending)
  /\ em' = [em EXCEPT !.pc = "sending", !.failed = NoEntry, !.pending = AfterFailure(@)]
  /\ UNCHANGED <<mbox, srep, called, started, completed, emitted, net, prox, thr, cli, ackAt, cancelled,
                 cancelAt, unregAcked, lateSend, probe>>

EmitEnd ==
  /\ em.pc = "sending" /\ em.pending = <<>>
  /\ em' = [em EXCEPT !.pc = "idle"]
  /\ completed' = completed + 1
  /\ UNCHANGED <<srv, called, started, emitted, net, prox, thr, cli, obs>>

\* ---------------------------------------------------------------------------
\* connections: foreign messages, failure of the server -> client direction
\* ---------------------------------------------------------------------------
InjectMsg(i) ==
  /\ i \in Inject \ injected /\ wst[i.c] = "up"
  /\ injected' = injected \cup {i}
  /\ wire' = [wire EXCEPT ![i.c] = Append(@, InjMsg(i.o, i.sig))]
  /\ UNCHANGED <<srv, emv, wst, clos, rogued, prox, thr, cli, obs>>

\* connection c asks object o to unregister the user id of a registration that another
\* connection made (a confused or hostile client; ids are not secrets: they travel in clear).
\* The request is an ordinary unregisterEvent in o's mailbox; nobody waits for its reply here.
RogueReq(c, o, sig, u) ==
  /\ c \in Rogue \ rogued /\ wst[c] = "up"
  /\ rogued' = rogued \cup {c}
  /\ mbox' = [mbox EXCEPT ![o] = Append(@, [t |-> "unreg", c |-> c, sig |-> sig, u |-> u, th |-> NoThread])]
  /\ UNCHANGED <<regs, srep, emv, wire, wst, clos, injected, prox, thr, cli, obs>>
RogueUnreg(c, o, i) ==
  /\ i \in 1..Len(regs[o]) /\ regs[o][i].c # c
  /\ RogueReq(c, o, regs[o][i].sig, regs[o][i].u)

\* the client of c is gone and the server's writes to c fail from now on, the
\* server's reader has not noticed.  The harness does this only while the
\* client of c is quiet (no call in flight).
OnConn(c) == {t \in Threads : ConnOf[t] = c}
BreakWrite(c, kind) ==
  /\ c \in Failing /\ wst[c] = "up"
  /\ \A t \in OnConn(c) : pc[t] \in {"idle", "acked", "done", "failed"}
  /\ wst' = [wst EXCEPT ![c] = kind]
  /\ wire' = [wire EXCEPT ![c] = <<>>]
  /\ pc' = [t \in Threads |-> IF ConnOf[t] = c THEN "dead" ELSE pc[t]]
  /\ lh' = [t \in Threads |-> IF ConnOf[t] = c THEN FALSE ELSE lh[t]]
  /\ q' = [t \in Threads |-> IF ConnOf[t] = c THEN <<>> ELSE q[t]]
  /\ got' = [t \in Threads |-> IF ConnOf[t] = c THEN <<>> ELSE got[t]]
  /\ closed' = [t \in Threads |-> IF ConnOf[t] = c THEN FALSE ELSE closed[t]]
  /\ ackAt' = [t \in Threads |-> IF ConnOf[t] = c THEN -1 ELSE ackAt[t]]
  /\ cancelled' = [t \in Threads |-> IF ConnOf[t] = c THEN FALSE ELSE cancelled[t]]
  /\ cnt' = [x \in Keys |-> IF x[1] = c THEN 0 ELSE cnt[x]]
  /\ hk' = [x \in Keys |-> IF x[1] = c THEN 0 ELSE hk[x]]
  /\ lock' = [x \in Keys |-> IF x[1] = c THEN NoThread ELSE lock[x]]
  /\ UNCHANGED <<srv, emv, clos, injected, rogued, h, round, nextU, cancelAt, unregAcked, lateSend, removed, dblrm, devUsed, probe>>

\* the server's reader of c sees the end of the stream: closeWith detaches every
\* handler of the end point and starts its closer; writes fail with "closed" now
ReaderNotices(c) ==
  /\ wst[c] \in {"eof", "err"}
  /\ wst' = [wst EXCEPT ![c] = "down"]
  /\ clos' = clos \cup UNION {{[o |-> o, u |-> regs[o][i].u, c |-> c] : i \in {j \in 1..Len(regs[o]) : regs[o][j].c = c}}
                             : o \in Objects}
  /\ UNCHANGED <<srv, emv, wire, injected, rogued, prox, thr, cli, obs>>

\* the closer of one registration: forgetSignalUser
CloserRun(x) ==
  /\ x \in clos
  /\ clos' = clos \ {x}
  /\ IF Known(x.o, x.u, x.c)
     THEN regs' = ForgetIn(x.o, x.u, x.c) /\ NoteRemoved(x.o, x.u)
     ELSE UNCHANGED <<regs, removed>>
  /\ UNCHANGED <<mbox, srep, emv, wire, wst, injected, rogued, prox, thr, cli, ackAt, cancelled, cancelAt, unregAcked,
                 lateSend, dblrm, devUsed, probe>>

\* ---------------------------------------------------------------------------
\* client: dispatch of connection c, forwarding goroutines
\* ---------------------------------------------------------------------------
Room(t) == Len(q[t]) < QCap
\* the filter of thread t's subscription (client.go l.150-152) on message m
SvcOK(t, m) == Svc(m.o) = Svc(ObjOf[t])
OidOK(t, m) == Oid(m.o) = Oid(ObjOf[t])
ActOK(t, m) == m.sig = SigOf[t]
Match(t, m) == /\ SvcOK(t, m) \/ DevOn("Dev_FilterIgnoresService")
               /\ OidOK(t, m) \/ DevOn("Dev_FilterIgnoresObject")
               /\ ActOK(t, m) \/ DevOn("Dev_FilterIgnoresAction")
FilterDevs(t, m) == {d \in {"Dev_FilterIgnoresService", "Dev_FilterIgnoresObject", "Dev_FilterIgnoresAction"} :
                       CASE d = "Dev_FilterIgnoresService" -> ~SvcOK(t, m)
                         [] d = "Dev_FilterIgnoresObject" -> ~OidOK(t, m)
                         [] d = "Dev_FilterIgnoresAction" -> ~ActOK(t, m)}
Takes(t, c, m) == ConnOf[t] = c /\ lh[t] /\ Match(t, m)
Deliver(c) ==
  /\ wire[c] # <<>>
  /\ LET m == Head(wire[c]) IN
       IF m.t # "rep"
       THEN /\ q' = [t \in Threads |->
                       IF Takes(t, c, m) /\ Room(t)
                       THEN Append(q[t], [t |-> m.t, o |-> m.o, sig |-> m.sig, k |-> m.k]) ELSE q[t]]
            /\ devUsed' = devUsed \cup UNION {FilterDevs(t, m) : t \in {x \in Threads : Takes(x, c, m)}}
            /\ UNCHANGED <<pc, lock>>
       ELSE /\ UNCHANGED <<q, devUsed>>
            /\ CASE m.th = NoThread                   -> UNCHANGED <<pc, lock>>     \* nobody of the cast waits for it
                 [] pc[m.th] = "waitreg" /\ m.ok  -> Goto(m.th, "ackready") /\ Release(m.th)
                 \* SubscribeID returns the error: the local handler and the count stay
                 [] pc[m.th] = "waitreg" /\ ~m.ok -> Goto(m.th, "failed") /\ Release(m.th)
                 [] pc[m.th] = "waitunreg"        -> Goto(m.th, "lcancel") /\ Release(m.th)
                 [] OTHER -> FALSE
  /\ wire' = [wire EXCEPT ![c] = Tail(@)]
  /\ UNCHANGED <<srv, emv, wst, clos, injected, rogued, cnt, hk, h, round, nextU, lh, got, closed,
                 ackAt, cancelled, cancelAt, unregAcked, lateSend, obsStatic>>

\* the forwarding goroutine takes the next queued message: an Event goes to the
\* subscriber's channel, anything else is dropped (client.go l.169)
Forwards(e) == e.t = "ev" \/ DevOn("Dev_ForwardIgnoresType")
Forward(th) ==
  /\ q[th] # <<>> /\ ~closed[th]
  /\ got' = [got EXCEPT ![th] = IF Forwards(Head(q[th])) THEN Append(@, Head(q[th])) ELSE @]
  /\ devUsed' = IF Head(q[th]).t # "ev" /\ DevOn("Dev_ForwardIgnoresType")
                THEN devUsed \cup {"Dev_ForwardIgnoresType"} ELSE devUsed
  /\ q' = [q EXCEPT ![th] = Tail(@)]
  /\ UNCHANGED <<srv, emv, net, prox, thr, lh, closed, ackAt, cancelled, cancelAt, unregAcked, lateSend, obsStatic>>

\* ---------------------------------------------------------------------------
\* proxy: cancel
\* ---------------------------------------------------------------------------
CancelReq(th) ==
  /\ pc[th] = "acked"
  /\ cancelled' = [cancelled EXCEPT ![th] = TRUE]
  /\ cancelAt' = [cancelAt EXCEPT ![th] = completed]
  /\ Goto(th, "dec")
  /\ UNCHANGED <<srv, emv, net, prox, h, round, nextU, cli, ackAt, unregAcked, lateSend, devUsed, obsStatic>>

UnsubDec(th) ==
  /\ pc[th] = "dec"
  /\ cnt' = [cnt EXCEPT ![Key(th)] = @ - 1]
  /\ IF cnt'[Key(th)] = 0
     THEN Acquire(th) /\ Goto(th, "read")
     ELSE Free(th) /\ UNCHANGED lock /\ Goto(th, "lcancel")
  /\ Overlap(th)
  /\ UNCHANGED <<srv, emv, net, hk, h, round, nextU, cli, ackAt, cancelled, cancelAt, unregAcked, lateSend, obsStatic>>

UnsubRead(th) ==
  /\ pc[th] = "read"
  /\ h' = [h EXCEPT ![th] = hk[Key(th)]]
  /\ Goto(th, "clear")
  /\ UNCHANGED <<srv, emv, net, prox, round, nextU, cli, obs>>

UnsubClear(th) ==
  /\ pc[th] = "clear"
  /\ hk' = [hk EXCEPT ![Key(th)] = @ - h[th]]
  /\ Goto(th, "unrpc")
  /\ UNCHANGED <<srv, emv, net, cnt, lock, h, round, nextU, cli, obs>>

UnsubRPC(th) ==
  /\ pc[th] = "unrpc"
  /\ mbox' = [mbox EXCEPT ![ObjOf[th]] = Append(@, Request("unreg", th))]
  /\ Goto(th, "waitunreg")
  /\ UNCHANGED <<regs, srep, emv, net, prox, h, round, nextU, cli, obs>>

\* l.124 cancel(): close(abort); the call returns to the user ...
Abort(th) ==
  /\ pc[th] = "lcancel"
  /\ Goto(th, "closing")
  /\ UNCHANGED <<srv, emv, net, prox, h, round, nextU, cli, obs>>

\* ... and the forwarding goroutine, when its select takes the abort branch, removes
\* the handler and closes the channel (client.go l.172-175); until then it may still
\* forward what is queued
CloseSub(th) ==
  /\ pc[th] = "closing"
  /\ lh' = [lh EXCEPT ![th] = FALSE] /\ closed' = [closed EXCEPT ![th] = TRUE]
  /\ q' = [q EXCEPT ![th] = <<>>]
  /\ Goto(th, "done")
  /\ UNCHANGED <<srv, emv, net, prox, h, round, nextU, got, obs>>

Again(th) ==
  /\ pc[th] = "done" /\ round[th] < Rounds[th]
  /\ round' = [round EXCEPT ![th] = @ + 1]
  /\ Goto(th, "idle")
  /\ UNCHANGED <<srv, emv, net, prox, h, nextU, cli, obs>>

ThreadStep(th) == \/ SubLocal(th) \/ SubInc(th) \/ SubKey(th) \/ SubRPC(th) \/ Ack(th) \/ CancelReq(th)
                  \/ UnsubDec(th) \/ UnsubRead(th) \/ UnsubClear(th) \/ UnsubRPC(th)
                  \/ Abort(th) \/ CloseSub(th) \/ Again(th)
Internal == \/ \E c \in Conns : Deliver(c)
            \/ \E th \in Threads : Forward(th)
Environment == \/ \E i \in Inject : InjectMsg(i)
               \/ \E c \in Rogue : \E o \in Objects : \E i \in 1..Len(regs[o]) : RogueUnreg(c, o, i)
               \/ \E c \in Failing : BreakWrite(c, "eof") \/ BreakWrite(c, "err") \/ ReaderNotices(c)
               \/ \E x \in clos : CloserRun(x)
Next == \/ \E th \in Threads : ThreadStep(th)
        \/ \E o \in Objects : ServerReg(o) \/ ServerUnreg(o) \/ ServerReply(o)
        \/ EmitCall \/ EmitStart \/ SendTo \/ SendFail \/ FailCleanup \/ EmitEnd
        \/ Internal
        \/ Environment

Spec == Init /\ [][Next]_vars
FairSpec == Spec /\ WF_vars(Next)

\* ---------------------------------------------------------------------------
\* the property
\* ---------------------------------------------------------------------------
EvK(seq) == [i \in 1..Len(seq) |-> seq[i].k]
\* the emissions thread th is entitled to: its signal of its object, called after
\* its acknowledgement and returned before its request to cancel
Mine(th, k) == emitted[k].o = ObjOf[th] /\ emitted[k].sig = SigOf[th]
Window(th) == IF ackAt[th] < 0 THEN {}
              ELSE {k \in (ackAt[th] + 1)..(IF cancelled[th] THEN cancelAt[th] ELSE called) : Mine(th, k)}
InWin(th) == SelectSeq(EvK(got[th]), LAMBDA k : k \in Window(th))
Sorted(S) == LET RECURSIVE srt(_)
                 srt(X) == IF X = {} THEN <<>>
                           ELSE LET m == CHOOSE x \in X : \A y \in X : x <= y
                                IN <<m>> \o srt(X \ {m})
             IN srt(S)
IsPrefix(p, s) == Len(p) <= Len(s) /\ SubSeq(s, 1, Len(p)) = p

\* nothing of its window twice
NoDuplicate == \A th \in Threads : \A i, j \in 1..Len(InWin(th)) : i # j => InWin(th)[i] # InWin(th)[j]
\* in its window a subscriber gets the events in emission order without a gap ...
InOrderNoGap == \A th \in Threads : IsPrefix(InWin(th), Sorted(Window(th)))
\* ... and gets them all: once nothing is in flight any more, nothing is missing.
\* (This is also what "a failing subscriber does not disturb the others" means: the
\* threads of a broken connection are dead, everybody else stays complete.)
InFlight(th) == \/ em.pc # "idle" \/ q[th] # <<>>
                \/ \E i \in 1..Len(wire[ConnOf[th]]) : wire[ConnOf[th]][i].t = "ev"
Complete == \A th \in Threads :
              (pc[th] = "acked" /\ ~InFlight(th)) => InWin(th) = Sorted(Window(th))
InWindowExactlyOnceInOrder == NoDuplicate /\ InOrderNoGap /\ Complete
\* only events (message type), only of the subscribed (service, object, signal), and
\* with the emitted payload (k identifies it)
NoForeignSignal == \A th \in Threads : \A i \in 1..Len(got[th]) :
                      /\ got[th][i].t = "ev"
                      /\ got[th][i].o = ObjOf[th] /\ got[th][i].sig = SigOf[th]
                      /\ got[th][i].k \in 1..called /\ Mine(th, got[th][i].k)
\* the channel is closed once the subscriber has cancelled
ClosedAfterCancel == \A th \in Threads : pc[th] = "done" => (closed[th] /\ ~lh[th])
NothingAfterUnregisterAck == ~lateSend
\* one subscriber leaving does not disturb the others: Complete/InOrderNoGap of the
\* others; structurally: the registration stays while somebody listens
Settled(x) == /\ mbox[x[2]] = <<>> /\ srep[x[2]].c = "" /\ wire[x[1]] = <<>>
              /\ \A t \in Threads : Key(t) = x => pc[t] \in {"idle", "acked", "done", "failed"}
RegOf(th) == {i \in 1..Len(regs[ObjOf[th]]) :
                regs[ObjOf[th]][i].c = ConnOf[th] /\ regs[ObjOf[th]][i].sig = SigOf[th]}
OthersUndisturbed ==
  \A th \in Threads : (pc[th] = "acked" /\ Settled(Key(th))) => RegOf(th) # {}
\* a registration leaves its table at most once (whoever removes it: unregisterEvent,
\* the clean-up after a failed send, the closer of a dead connection) and nothing
\* else leaves with it
RemovedAtMostOnce == ~dblrm
\* once the server has noticed that a connection is dead and the closers have run,
\* none of its registrations is left
NoDeadRegistration ==
  \A c \in Conns : (wst[c] = "down" /\ clos = {} /\ em.pc = "idle")
                   => \A o \in Objects : \A i \in 1..Len(regs[o]) : regs[o][i].c # c
\* structural causes of duplicates / losses (auxiliary)
AtMostOneRegistration ==
  \A x \in Keys : Cardinality({i \in 1..Len(regs[x[2]]) : regs[x[2]][i].c = x[1] /\ regs[x[2]][i].sig = x[3]}) <= 1
AllDone == \A th \in Threads : (pc[th] = "done" /\ round[th] = Rounds[th]) \/ pc[th] = "dead"
Idle == /\ \A o \in Objects : mbox[o] = <<>> /\ srep[o].c = ""
        /\ clos = {} /\ em.pc = "idle" /\ \A c \in Conns : wst[c] \in {"up", "down"}
NoLeak == (AllDone /\ Idle) => \A o \in Objects : regs[o] = <<>>
\* liveness (FairSpec): a cancelled subscription gets closed; an emit call returns
\* whatever happens to the subscribers' connections
EventuallyClosed == \A th \in Threads : (cancelled[th] ~> (closed[th] \/ ~cancelled[th]))
EmitReturns == (em.pc # "idle") ~> (em.pc = "idle")

\* the property invariants violated in the current state (names), for the behaviour
\* export and the trace validation
Violated == {n \in {"NoDuplicate", "InOrderNoGap", "Complete", "NoForeignSignal", "ClosedAfterCancel",
                     "NothingAfterUnregisterAck", "OthersUndisturbed", "RemovedAtMostOnce", "NoDeadRegistration"} :
               CASE n = "NoDuplicate" -> ~NoDuplicate
                 [] n = "InOrderNoGap" -> ~InOrderNoGap
                 [] n = "Complete" -> ~Complete
                 [] n = "NoForeignSignal" -> ~NoForeignSignal
                 [] n = "ClosedAfterCancel" -> ~ClosedAfterCancel
                 [] n = "NothingAfterUnregisterAck" -> ~NothingAfterUnregisterAck
                 [] n = "OthersUndisturbed" -> ~OthersUndisturbed
                 [] n = "RemovedAtMostOnce" -> ~RemovedAtMostOnce
                 [] n = "NoDeadRegistration" -> ~NoDeadRegistration}

\* vacuity guards (MCSignal_probe*.cfg): with exactly one deviation of Probe switched on
\* the invariant it is named with must break somewhere: the check reads the "PROBE"
\* lines of a run over the behaviours of all probes.
Breaks(d) == CASE d \in {"Dev_FilterIgnoresService", "Dev_FilterIgnoresObject", "Dev_FilterIgnoresAction",
                          "Dev_ForwardIgnoresType"} -> ~NoForeignSignal
               [] d = "Dev_StopAtFirstFailedSend" -> ~Complete
               [] d = "Dev_CleanupRemovesBlindly" -> ~RemovedAtMostOnce
               [] d = "Dev_UnregIgnoresConnection" -> ~OthersUndisturbed \/ ~Complete
               [] OTHER -> FALSE
ProbeReg(d) == CASE d = "Dev_FilterIgnoresService" -> 11 [] d = "Dev_FilterIgnoresObject" -> 12
                 [] d = "Dev_FilterIgnoresAction" -> 13 [] d = "Dev_ForwardIgnoresType" -> 14
                 [] d = "Dev_StopAtFirstFailedSend" -> 15 [] d = "Dev_CleanupRemovesBlindly" -> 16
                 [] OTHER -> 17
ASSUME \A i \in 11..17 : TLCSet(i, 0)
\* always TRUE; prints <<"PROBE", d>> the first time deviation d breaks its invariant (-workers 1)
ProbeSeen == \A d \in probe :
               Breaks(d) => \/ TLCGet(ProbeReg(d)) = 1
                            \/ PrintT(<<"PROBE", d>>) /\ TLCSet(ProbeReg(d), 1)
\* violated (= the run may stop) once every deviation of Probe has broken its invariant
ProbePending == \E p \in Probe : \E d \in p : TLCGet(ProbeReg(d)) = 0

PCs == {"idle", "inc", "key", "rpc", "waitreg", "ackready", "acked", "failed", "dec", "read",
        "clear", "unrpc", "waitunreg", "lcancel", "closing", "done", "dead"}
TypeOK == /\ pc \in [Threads -> PCs]
          /\ \A x \in Keys : cnt[x] \in Int /\ hk[x] \in Int
          /\ called \in 0..Len(EmitSeq) /\ started <= called /\ completed <= started
          /\ wst \in [Conns -> {"up", "eof", "err", "down"}]
          /\ \A c \in Conns : wst[c] # "up" => c \in Failing
=============================================================================
