------------------------------- MODULE Client -------------------------------
(***************************************************************************)
(* bus/client.go over one endpoint (EndPoint.tla) and a stream that can    *)
(* fail: concurrent Calls, one signal subscription, one disconnect         *)
(* callback, a peer that answers (possibly before the send has returned,   *)
(* possibly in two pieces), and the three ways a connection is lost:       *)
(* Fail (every read and write errors from now on), PeerClose (end of       *)
(* stream) and LocalClose (the user calls Close).                          *)
(*                                                                         *)
(*   Call k  = client.go l.39-136:                                         *)
(*     StartCall     MakeHandler(filter on the reply id, single shot)      *)
(*     SendBegin     endpoint.Send enters stream.Write (request visible)   *)
(*     SendEnd       Write returned nil                                    *)
(*     SendFail      Write returned an error -> RemoveHandler(id), error   *)
(*     AwaitReply / AwaitErr / AwaitClosed   the select of step 3          *)
(*   Subscribe = client.go l.140-181 (handler + forwarding goroutine)      *)
(*   OnDisconnect = client.go l.184-192 (handler whose closer is the cb)   *)
(***************************************************************************)
EXTENDS EndPoint

CONSTANTS Calls,   \* handler ids of the calls (the reply to call k is message k)
          HS,      \* handler id of the subscription (events are message EV)
          HD,      \* handler id of the disconnect callback
          EV,
          WithSub, WithDisc, WithHalf   \* BOOLEAN: which parts of the scenario the environment uses

ASSUME Handlers = Calls \cup {HS, HD} /\ Msgs = Calls \cup {EV}

VARIABLES cst,      \* [Calls -> "idle"|"reg"|"writing"|"wrote"|"done"]
          out,      \* [Calls -> 0 none | 2 value | 3 error]
          hslot,    \* [Calls -> slot returned by MakeHandler]
          late,     \* [Calls -> BOOLEAN] started after the reader goroutine had stopped
          peer,     \* "up" | "eof" | "failed"
          seen,     \* [Calls -> BOOLEAN] the request reached the peer
          replied,  \* [Calls -> BOOLEAN]
          half,     \* 0 or the call whose reply is half written by the peer
          derr,     \* [Handlers -> -1 | 0 | 1] error flag of the shutdown that detached the handler
          sub,      \* "off" | "on" | "closed"
          subGot,   \* events forwarded to the subscriber
          evSent,   \* the peer sent the event
          faulted   \* a fault was injected (history)

cvars == <<cst, out, hslot, late, peer, seen, replied, half, derr, sub, subGot, evSent, faulted>>
allvars == <<vars, cvars>>

CInit ==
  /\ Init
  /\ cst = [k \in Calls |-> "idle"] /\ out = [k \in Calls |-> 0] /\ hslot = [k \in Calls |-> 0]
  /\ late = [k \in Calls |-> FALSE]
  /\ peer = "up" /\ seen = [k \in Calls |-> FALSE] /\ replied = [k \in Calls |-> FALSE] /\ half = 0
  /\ derr = [h \in Handlers |-> -1]
  /\ sub = "off" /\ subGot = 0 /\ evSent = FALSE /\ faulted = FALSE

WriteOK == stream = "open" /\ peer # "failed"

(***************************************************************************)
(* Call                                                                     *)
(***************************************************************************)
StartCall(k) ==
  /\ cst[k] = "idle" /\ MakeHandler(k, 1)
  /\ cst' = [cst EXCEPT ![k] = "reg"] /\ hslot' = [hslot EXCEPT ![k] = FirstFree]
  /\ late' = [late EXCEPT ![k] = (proc = "stopped")]
  /\ UNCHANGED <<out, peer, seen, replied, half, derr, sub, subGot, evSent, faulted>>

SendBegin(k) ==
  /\ cst[k] = "reg"
  /\ cst' = [cst EXCEPT ![k] = "writing"]
  /\ seen' = [seen EXCEPT ![k] = WriteOK]
  /\ UNCHANGED <<vars, out, hslot, late, peer, replied, half, derr, sub, subGot, evSent, faulted>>

SendEnd(k) ==
  /\ cst[k] = "writing" /\ WriteOK
  /\ cst' = [cst EXCEPT ![k] = "wrote"]
  /\ UNCHANGED <<vars, out, hslot, late, peer, seen, replied, half, derr, sub, subGot, evSent, faulted>>

\* the write failed: RemoveHandler(id) (which may find the slot empty, or hold somebody
\* else's handler by now) and the call returns the error
SendFail(k) ==
  /\ cst[k] = "writing" /\ ~WriteOK
  /\ (RemoveBegin(hslot[k]) \/ RemoveErr(hslot[k]))
  /\ cst' = [cst EXCEPT ![k] = "done"] /\ out' = [out EXCEPT ![k] = 3]
  /\ UNCHANGED <<hslot, late, peer, seen, replied, half, derr, sub, subGot, evSent, faulted>>

AwaitReply(k) ==
  /\ cst[k] = "wrote" /\ QLen(k) > 0
  /\ taken' = [taken EXCEPT ![k] = @ + 1]
  /\ cst' = [cst EXCEPT ![k] = "done"] /\ out' = [out EXCEPT ![k] = 2]
  /\ UNCHANGED <<slots, hst, delivered, cap, closerN, closeN, stream, mu, proc, inbox, cur, res>>
  /\ UNCHANGED <<hslot, late, peer, seen, replied, half, derr, sub, subGot, evSent, faulted>>

\* the closer pushed the shutdown's error into the errors channel
AwaitErr(k) ==
  /\ cst[k] = "wrote" /\ derr[k] = 1 /\ closerN[k] = 1
  /\ cst' = [cst EXCEPT ![k] = "done"] /\ out' = [out EXCEPT ![k] = 3]
  /\ UNCHANGED <<vars, hslot, late, peer, seen, replied, half, derr, sub, subGot, evSent, faulted>>

\* the reply channel was closed and holds nothing: "Remote connection closed"
AwaitClosed(k) ==
  /\ cst[k] = "wrote" /\ QLen(k) = 0 /\ closeN[k] = 1
  /\ cst' = [cst EXCEPT ![k] = "done"] /\ out' = [out EXCEPT ![k] = 3]
  /\ UNCHANGED <<vars, hslot, late, peer, seen, replied, half, derr, sub, subGot, evSent, faulted>>

(***************************************************************************)
(* Subscription and disconnect callback                                      *)
(***************************************************************************)
StartSub ==
  /\ WithSub /\ sub = "off" /\ MakeHandler(HS, 3) /\ sub' = "on"
  /\ UNCHANGED <<cst, out, hslot, late, peer, seen, replied, half, derr, subGot, evSent, faulted>>

SubForward ==
  /\ sub = "on" /\ QLen(HS) > 0
  /\ taken' = [taken EXCEPT ![HS] = @ + 1] /\ subGot' = subGot + 1
  /\ UNCHANGED <<slots, hst, delivered, cap, closerN, closeN, stream, mu, proc, inbox, cur, res>>
  /\ UNCHANGED <<cst, out, hslot, late, peer, seen, replied, half, derr, sub, evSent, faulted>>

SubQueueClosed ==
  /\ sub = "on" /\ QLen(HS) = 0 /\ closeN[HS] = 1 /\ sub' = "closed"
  /\ UNCHANGED <<vars, cst, out, hslot, late, peer, seen, replied, half, derr, subGot, evSent, faulted>>

StartDisc ==
  /\ WithDisc /\ hst[HD] = "unreg" /\ MakeHandler(HD, 0)
  /\ UNCHANGED cvars

(***************************************************************************)
(* The endpoint's own steps with the client's filters                        *)
(***************************************************************************)
FMatch(h) == IF h \in Calls THEN cur = h ELSE IF h = HS THEN cur = EV ELSE FALSE
FKeep(h) == IF h \in Calls THEN cur # h ELSE TRUE

EPStep ==
  \/ \E h \in Handlers : \/ SyncCloser(h) \/ SyncQClose(h) \/ Visit(h, FMatch(h), FKeep(h))
                         \/ Deliver(h) \/ Blocked(h) \/ SelfRemove(h) \/ AsyncCloser(h) \/ AsyncQClose(h)
  \/ RemoveEnd \/ (peer # "failed" /\ ReadMsg) \/ DispatchBegin \/ ProcShutdown

DetachC(h) == Detach(h) /\ derr' = [derr EXCEPT ![h] = mu.err]
              /\ UNCHANGED <<cst, out, hslot, late, peer, seen, replied, half, sub, subGot, evSent, faulted>>

\* Message.Read fails: locally closed, failed, or end of stream (with a partial frame or nothing)
ReadErrC ==
  /\ proc = "reading"
  /\ \/ stream = "closed" \/ peer = "failed" \/ (peer = "eof" /\ inbox = <<>>)
  /\ proc' = "closing"
  /\ UNCHANGED <<slots, hst, delivered, taken, cap, closerN, closeN, stream, mu, inbox, cur, res>>
  /\ UNCHANGED cvars

(***************************************************************************)
(* The peer and the faults                                                   *)
(***************************************************************************)
PeerReply(k) ==
  /\ peer = "up" /\ stream = "open" /\ seen[k] /\ ~replied[k] /\ half = 0
  /\ inbox' = Append(inbox, k) /\ replied' = [replied EXCEPT ![k] = TRUE]
  /\ UNCHANGED <<slots, hst, delivered, taken, cap, closerN, closeN, stream, mu, proc, cur, res>>
  /\ UNCHANGED <<cst, out, hslot, late, peer, seen, half, derr, sub, subGot, evSent, faulted>>

PeerHalf(k) ==
  /\ WithHalf /\ peer = "up" /\ stream = "open" /\ seen[k] /\ ~replied[k] /\ half = 0
  /\ half' = k /\ replied' = [replied EXCEPT ![k] = TRUE]
  /\ UNCHANGED <<vars, cst, out, hslot, late, peer, seen, derr, sub, subGot, evSent, faulted>>

PeerRest ==
  /\ peer = "up" /\ stream = "open" /\ half # 0
  /\ inbox' = Append(inbox, half) /\ half' = 0
  /\ UNCHANGED <<slots, hst, delivered, taken, cap, closerN, closeN, stream, mu, proc, cur, res>>
  /\ UNCHANGED <<cst, out, hslot, late, peer, seen, replied, derr, sub, subGot, evSent, faulted>>

PeerEvent ==
  /\ peer = "up" /\ stream = "open" /\ ~evSent /\ half = 0 /\ sub = "on"
  /\ inbox' = Append(inbox, EV) /\ evSent' = TRUE
  /\ UNCHANGED <<slots, hst, delivered, taken, cap, closerN, closeN, stream, mu, proc, cur, res>>
  /\ UNCHANGED <<cst, out, hslot, late, peer, seen, replied, half, derr, sub, subGot, faulted>>

Fail ==
  /\ peer = "up" /\ peer' = "failed" /\ faulted' = TRUE
  /\ UNCHANGED <<vars, cst, out, hslot, late, seen, replied, half, derr, sub, subGot, evSent>>

PeerCloseC ==
  /\ peer = "up" /\ peer' = "eof" /\ faulted' = TRUE
  /\ UNCHANGED <<vars, cst, out, hslot, late, seen, replied, half, derr, sub, subGot, evSent>>

LocalClose ==
  /\ ~faulted /\ ShutdownBegin /\ faulted' = TRUE
  /\ UNCHANGED <<cst, out, hslot, late, peer, seen, replied, half, derr, sub, subGot, evSent>>

(***************************************************************************)
Internal ==
  \/ (EPStep /\ UNCHANGED cvars)
  \/ \E h \in Handlers : DetachC(h)
  \/ ReadErrC
  \/ \E k \in Calls : SendBegin(k) \/ AwaitReply(k) \/ AwaitErr(k) \/ AwaitClosed(k)
  \/ SubForward \/ SubQueueClosed

Env ==
  \/ \E k \in Calls : StartCall(k) \/ SendEnd(k) \/ SendFail(k) \/ PeerReply(k) \/ PeerHalf(k)
  \/ PeerRest \/ PeerEvent \/ StartSub \/ StartDisc \/ Fail \/ PeerCloseC \/ LocalClose

CNext == Internal \/ Env
\* the write gate is part of the environment in replays, but a real Write returns by itself
Progress == Internal \/ \E k \in Calls : SendEnd(k) \/ SendFail(k)
CSpec == CInit /\ [][CNext]_allvars /\ WF_allvars(Progress)
         /\ \A k \in Calls : WF_allvars(AwaitReply(k) \/ AwaitErr(k) \/ AwaitClosed(k))
         /\ \A h \in Handlers : WF_allvars((AsyncCloser(h) \/ AsyncQClose(h)) /\ UNCHANGED cvars)

(***************************************************************************)
(* Properties (C11)                                                         *)
(***************************************************************************)
Lost == peer # "up" \/ stream = "closed"

\* a value is only returned for a reply that was sent
OkMeansReplied == \A k \in Calls : out[k] = 2 => replied[k]
\* without any fault no call fails: in particular a reply that overtakes the return of
\* the send is delivered to its caller
NoFaultNoError == ~faulted => \A k \in Calls : out[k] # 3
\* calls started on a dead connection never return a value
LateCallsFail == \A k \in Calls : late[k] => out[k] # 2
DisconnectAtMostOnce == closerN[HD] <= 1

\* losing the connection ends every call, closes the subscription, fires the callback
CallsEnd == \A k \in Calls : (cst[k] # "idle" /\ Lost) ~> (cst[k] = "done")
\* (for handlers registered before the reader goroutine ran its shutdown: nobody closes later ones)
SubCloses == (sub = "on" /\ Lost /\ proc # "stopped") ~> (sub = "closed")
CallbackFires == (hst[HD] = "live" /\ Lost /\ proc # "stopped") ~> (closerN[HD] = 1)
\* without a fault every call that was answered returns
AnsweredCallsReturn == \A k \in Calls : (replied[k] /\ half # k) ~> (cst[k] = "done")
=============================================================================
