SPECIFICATION Spec
CONSTANTS
  LocalConns = {}
  FreeOrder = FALSE
  DevBoth = FALSE
  PinConn = FALSE
  WithGates = FALSE
  MaxGates = 0
  Modes = {"fast"}
  CloseErr = {1}
  Svcs = {1, 2}
  Objs = {11, 12, 21}
  InitSvcs = {1, 2}
  Conns = {1, 2}
  InitConns = {1, 2}
  Calls = {1}
  MaxSrvTerm = 1
  TermSvcs = {1}
  CallConns = {1}
  CallObjs = {11, 21}
  EnvOps = {}
  Dev_SecondTerminatePanics = FALSE
  Dev_TerminateAfterStopPanics = FALSE
  Dev_LateAcceptStaysOpen = FALSE
  Dev_FailedNewServiceKeepsName = FALSE
  Dev_CloseAllStopsAtError = FALSE
  Dev_SplitSvcSwap = FALSE
  Dev_TerminatorKeepsName = FALSE
  Dev_TerminatorRemovesAll = FALSE
  Dev_TerminateKeepsService = FALSE
  Dev_EnqueueDropsAfterTerminate = FALSE
  Dev_ListenFailNoStop = FALSE
PROPERTIES CallsEnd ThreadsEnd WaitReleased
CHECK_DEADLOCK FALSE
