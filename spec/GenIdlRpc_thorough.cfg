SPECIFICATION RSpec
CONSTANTS
  Pool = "c"
  MaxActions = 1
  MaxOps = 3
  MaxPick = 2
  Layouts = {"aux-first", "aux-last"}
INVARIANTS RTypeOK ItfTheorems SubsConsistent GetSeesLastSet GetDenotesLastSet DeliveredIffSubscribed RefsDenoteSent ExecutedOnce ImplHoldsServiceIds ClientRefsResolvable ForwardersSound HandlesFresh Export
CHECK_DEADLOCK FALSE
