SPECIFICATION RSpec
CONSTANTS
  Pool = "c"
  MaxActions = 1
  MaxOps = 3
INVARIANTS RTypeOK OnlyCarriable SubsConsistent GetSeesLastSet DeliveredIffSubscribed Export
CHECK_DEADLOCK FALSE
