SPECIFICATION RSpec
CONSTANTS
  Pool = "c"
  MaxActions = 1
  MaxOps = 3
  MaxPick = 2
  Layouts = {"aux-first", "aux-last"}
  Devs = {}
INVARIANTS RTypeOK ItfTheorems SubsConsistent GetSeesLastSet GetDenotesLastSet DeliveredIffSubscribed RefsDenoteSent ExecutedOnce RightOverloadRuns ImplHoldsServiceIds ClientRefsResolvable ForwardersSound HandlesFresh Export
CHECK_DEADLOCK FALSE
