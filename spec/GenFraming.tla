---------------------------- MODULE GenFraming ----------------------------
(* Behaviour / vector export for Framing (DESIGN.md 2.2 b):
   "L": layout vectors  (header fields -> the 28 documented bytes)
   "B": the defective headers used by the scenarios
   "T": one test per transition of the reader's state graph: scenario,
        chunk script (shortest path + the step) and the expected outcome.  *)
EXTENDS Framing, Json

VARIABLE hist
gvars == <<vars, hist>>

Fields == [id : U32Names, service : U32Names, object : U32Names, action : U32Names,
           type : {1}, flags : {0}, size : {0}]
          \cup [id : {"mixed"}, service : {"one"}, object : {"hi"}, action : {"ff"},
                type : 1..8, flags : {0, 1, 255}, size : {0, 1, 2, 300, MaxPayload}]
LayoutVec(f) == LET h == [magic |-> MagicBE, id |-> f.id, size |-> f.size, version |-> 0,
                          type |-> f.type, flags |-> f.flags, service |-> f.service,
                          object |-> f.object, action |-> f.action]
                IN [id |-> U32Table[f.id], service |-> U32Table[f.service],
                    object |-> U32Table[f.object], action |-> U32Table[f.action],
                    type |-> f.type, flags |-> f.flags, size |-> f.size, bytes |-> Hdr(h)]

ASSUME \A f \in Fields : ValidHdr([magic |-> MagicBE, version |-> 0, type |-> f.type, size |-> f.size])
ASSUME \A f \in Fields : PrintT(<<"L", ToJson(LayoutVec(f))>>)
ASSUME \A k \in BadKinds : ~ValidHdr(BadHdr(k)) /\ Len(Hdr(BadHdr(k))) = HeaderSize
ASSUME \A k \in BadKinds : PrintT(<<"B", ToJson([kind |-> k, bytes |-> Hdr(BadHdr(k))])>>)
ASSUME PrintT(<<"B", ToJson([kind |-> "base", bytes |-> Hdr(BaseHdr(2))])>>)

GInit == Init /\ hist = <<>>
Step(k, e) == /\ hist' = Append(hist, <<k, IF e THEN 1 ELSE 0>>)
              /\ PrintT(<<"T", ToJson([ps |-> sc.ps, bad |-> sc.bad, cut |-> sc.cut,
                                       chunks |-> hist', exp |-> Expected(sc)])>>)
GNext == \/ \E k \in 1..HeaderSize + 2, e \in BOOLEAN : ReadChunk(k, e) /\ Step(k, e)
         \/ ReadEOF /\ Step(0, TRUE)
GSpec == GInit /\ [][GNext]_gvars
View == vars
=============================================================================
