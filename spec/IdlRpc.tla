------------------------------ MODULE IdlRpc ------------------------------
(***************************************************************************)
(* C05: what "call", "emit" and "set / get" mean for an IDL interface, as   *)
(* a state machine on top of Idl's interface generator.                     *)
(*                                                                          *)
(* Phase "build": the interface is assembled (Idl!Add).  Freeze fixes it:   *)
(* the properties hold their initial values, nobody is subscribed.          *)
(* Phase "run": operations of a client and of the service implementation:   *)
(*    Call(i, args, ret)   the implementation must observe exactly args,    *)
(*                         the caller must receive exactly ret              *)
(*    Subscribe(i) / Unsubscribe(i)   on a signal or a property             *)
(*    Emit(i, payload)     reaches the subscriber iff subscribed, equal and *)
(*                         in order                                         *)
(*    Set(i, v)            the implementation's change callback observes v, *)
(*                         the property holds v, subscribers receive v      *)
(*    Get(i)               returns the value the property holds             *)
(* hist records every operation with the observation the generated proxy    *)
(* and stub must produce; the harness replays hist through code generated   *)
(* by stub.GeneratePackage from IdlText(interface).                         *)
(*                                                                          *)
(* Values: Val(T, k), k = 1..3, three values per type (an extreme, another  *)
(* one, the zero / empty one), built structurally; numbers outside TLC's    *)
(* range are names (the harness owns the table, shared with Convert).       *)
(***************************************************************************)
EXTENDS Idl

CONSTANTS MaxOps        \* operations per behaviour

(***************************************************************************)
(* Values                                                                   *)
(***************************************************************************)
ScVal == [i |-> <<"max32", "neg1", "zero">>,  I |-> <<"umax32", "one", "zero">>,
          l |-> <<"min64", "max16", "zero">>, L |-> <<"umax64", "umax16", "zero">>,
          c |-> <<"min8", "one", "zero">>,    C |-> <<"umax8", "one", "zero">>,
          w |-> <<"min16", "max8", "zero">>,  W |-> <<"umax16", "max8", "zero">>,
          f |-> <<"fmax32", "fneg2_25", "f0">>, d |-> <<"dpi", "f1_5", "f0">>,
          b |-> <<"true", "false", "false">>, s |-> <<"s_utf8", "s_a", "s_empty">>]
\* dynamic values carry their own signature
DynVal == << [sig |-> "i", v |-> "neg1"], [sig |-> "s", v |-> "s_utf8"], [sig |-> "b", v |-> "true"] >>

RECURSIVE Val(_, _)
Val(T, k) ==
  CASE T.k = "sc" /\ T.c = "m" -> DynVal[k]
    [] T.k = "sc"     -> ScVal[T.c][k]
    [] T.k = "list"   -> IF k = 1 THEN <<Val(T.e, 1), Val(T.e, 2)>>
                         ELSE IF k = 2 THEN <<Val(T.e, 2)>> ELSE <<>>
    [] T.k = "map"    -> IF k = 1 THEN {<<Val(T.key, 1), Val(T.val, 1)>>, <<Val(T.key, 2), Val(T.val, 2)>>}
                         ELSE IF k = 2 THEN {<<Val(T.key, 2), Val(T.val, 1)>>} ELSE {}
    [] OTHER          -> [j \in DOMAIN T.ms |-> Val(T.ms[j], k)]      \* tuple, struct
Ks == 1..3

\* types the generated code can carry as values (no object reference, no unknown, no void)
RECURSIVE Carriable(_)
Carriable(T) ==
  CASE T.k = "sc"   -> T.c \in DOMAIN ScVal \cup {"m"}
    [] T.k = "list" -> Carriable(T.e)
    [] T.k = "map"  -> Carriable(T.key) /\ Carriable(T.val) /\ T.key.k = "sc" /\ T.key.c # "m"
    [] OTHER        -> \A j \in DOMAIN T.ms : Carriable(T.ms[j])

\* the k-th argument tuple of an action: the parameters rotate through the three values
Args(a, k) == [j \in DOMAIN a.ps |-> Val(a.ps[j].t, ((k + j) % 3) + 1)]

(***************************************************************************)
(* IDL text of the interface (one string per line)                          *)
(***************************************************************************)
RECURSIVE SeqOfSet(_)
SeqOfSet(S) == IF S = {} THEN <<>>
               ELSE LET m == CHOOSE x \in S : \A y \in S : x <= y IN <<m>> \o SeqOfSet(S \ {m})
ChosenSeq == SeqOfSet(chosen)

RECURSIVE JoinParams(_)
JoinParams(ps) == IF ps = <<>> THEN ""
                  ELSE ps[1].n \o ": " \o IdlName(ps[1].t) \o
                       (IF Len(ps) = 1 THEN "" ELSE ", " \o JoinParams(Tail(ps)))
ActionLine(a) ==
  CASE a.kind = "method" ->
         "fn " \o a.name \o "(" \o JoinParams(a.ps) \o ")" \o
         (IF a.ret = Void THEN "" ELSE " -> " \o IdlName(a.ret)) \o " //uid:" \o ToString(a.id)
    [] a.kind = "signal"   -> "sig " \o a.name \o "(" \o JoinParams(a.ps) \o ") //uid:" \o ToString(a.id)
    [] a.kind = "property" -> "prop " \o a.name \o "(" \o JoinParams(a.ps) \o ") //uid:" \o ToString(a.id)

StructLines(S) == <<"struct " \o Str(S.name)>>
                  \o [j \in DOMAIN S.ms |-> Str(S.fs[j]) \o ": " \o IdlName(S.ms[j])]
                  \o <<"end">>
RECURSIVE FlatLines(_)
FlatLines(ss) == IF ss = <<>> THEN <<>> ELSE Head(ss) \o FlatLines(Tail(ss))
\* one declaration per struct name (Consistent holds outside the collision class)
AllStructs == UNION {ActionStructs(a) : a \in Actions}
StructNames == {s.name : s \in AllStructs}
RECURSIVE DeclLines(_)
DeclLines(names) == IF names = {} THEN <<>>
                    ELSE LET n == CHOOSE x \in names : TRUE
                             s == CHOOSE x \in AllStructs : x.name = n
                         IN StructLines(s) \o DeclLines(names \ {n})
IdlText == <<"package verifgen", "interface Itf">>
           \o [j \in DOMAIN ChosenSeq |-> ActionLine(ThePool[ChosenSeq[j]])]
           \o <<"end">> \o DeclLines(StructNames)

(***************************************************************************)
(* The machine                                                              *)
(***************************************************************************)
VARIABLES phase,    \* "build" | "run"
          store,    \* property pool index -> value index currently held (1..3)
          subs,     \* pool indices of the signals / properties subscribed to
          hist      \* operations with expected observations
rvars == <<chosen, last, phase, store, subs, hist>>

Kind(i) == ThePool[i].kind
InitK == 3          \* every property is initialised with its third value during activation

RInit == IInit /\ phase = "build" /\ store = <<>> /\ subs = {} /\ hist = <<>>

Build(i) == /\ phase = "build"
            /\ Add(i)
            /\ UNCHANGED <<phase, store, subs, hist>>
Freeze == /\ phase = "build" /\ chosen # {}
          /\ phase' = "run"
          /\ store' = [i \in {j \in chosen : Kind(j) = "property"} |-> InitK]
          /\ UNCHANGED <<chosen, last, subs, hist>>

Op(rec) == /\ phase = "run" /\ Len(hist) < MaxOps
           /\ hist' = Append(hist, rec)
           /\ UNCHANGED <<chosen, last, phase>>
\* every record has the same fields: op, id, k (argument / payload / value index),
\* r (return value index, 0: none), deliver (the subscriber must receive it)
Rec(op, i, k, r, deliver) == [op |-> op, id |-> ThePool[i].id, idx |-> i, k |-> k, r |-> r, deliver |-> deliver]

Call(i, k, r) == /\ Kind(i) = "method"
                 /\ (ThePool[i].ret = Void) <=> (r = 0)
                 /\ Op(Rec("call", i, k, r, FALSE))
                 /\ UNCHANGED <<store, subs>>
Subscribe(i) == /\ Kind(i) \in {"signal", "property"} /\ i \notin subs
                /\ Op(Rec("sub", i, 0, 0, FALSE))
                /\ subs' = subs \cup {i} /\ UNCHANGED store
Unsubscribe(i) == /\ i \in subs
                  /\ Op(Rec("unsub", i, 0, 0, FALSE))
                  /\ subs' = subs \ {i} /\ UNCHANGED store
Emit(i, k) == /\ Kind(i) = "signal"
              /\ Op(Rec("emit", i, k, 0, i \in subs))
              /\ UNCHANGED <<store, subs>>
Set(i, k) == /\ Kind(i) = "property"
             /\ Op(Rec("set", i, k, 0, i \in subs))
             /\ store' = [store EXCEPT ![i] = k] /\ UNCHANGED subs
Get(i) == /\ Kind(i) = "property"
          /\ Op(Rec("get", i, 0, store[i], FALSE))
          /\ UNCHANGED <<store, subs>>

RNext == \/ \E i \in DOMAIN ThePool : Build(i)
         \/ Freeze
         \/ \E i \in chosen :
              \/ \E k \in Ks, r \in 0..3 : Call(i, k, r)
              \/ Subscribe(i) \/ Unsubscribe(i)
              \/ \E k \in Ks : Emit(i, k) \/ Set(i, k)
              \/ Get(i)
RSpec == RInit /\ [][RNext]_rvars

(***************************************************************************)
(* Theorems: the bookkeeping of the machine agrees with a declarative       *)
(* reading of the history                                                   *)
(***************************************************************************)
\* a get returns the value of the latest set before it, else the initial value
GetSeesLastSet ==
  \A n \in DOMAIN hist : hist[n].op = "get" =>
     LET sets == {m \in 1..(n - 1) : hist[m].op = "set" /\ hist[m].idx = hist[n].idx}
     IN hist[n].r = IF sets = {} THEN InitK ELSE hist[CHOOSE m \in sets : \A m2 \in sets : m2 <= m].k
\* an event is delivered iff more subscriptions than cancellations precede it
DeliveredIffSubscribed ==
  \A n \in DOMAIN hist : hist[n].op \in {"emit", "set"} =>
     LET nsub == Cardinality({m \in 1..(n - 1) : hist[m].op = "sub" /\ hist[m].idx = hist[n].idx})
         nuns == Cardinality({m \in 1..(n - 1) : hist[m].op = "unsub" /\ hist[m].idx = hist[n].idx})
     IN hist[n].deliver <=> (nsub > nuns)
SubsConsistent == subs \subseteq chosen /\ \A i \in subs : Kind(i) # "method"
\* only values the generated code can carry are exchanged
OnlyCarriable == \A a \in Actions : (\A j \in DOMAIN a.ps : Carriable(a.ps[j].t))
                                    /\ (a.ret = Void \/ Carriable(a.ret))
RTypeOK == /\ phase \in {"build", "run"}
           /\ Len(hist) <= MaxOps
           /\ phase = "build" => hist = <<>> /\ subs = {}
=============================================================================
