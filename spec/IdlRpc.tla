------------------------------ MODULE IdlRpc ------------------------------
(***************************************************************************)
(* C05: what "call", "emit" and "set / get" mean for an IDL package, as a   *)
(* state machine on top of Idl's interface generator.                       *)
(*                                                                          *)
(* Phase "build": the interface Itf is assembled (Idl!Add).  Freeze fixes   *)
(* the package: Itf plus the interfaces its actions refer to (Probe; Relay, *)
(* which itself exchanges Probes; Itf itself), in one of two layouts of the *)
(* IDL text; the properties hold their initial values, nobody is            *)
(* subscribed, both sides hold references to their own objects.             *)
(* Phase "run": operations of a client and of the service implementation:   *)
(*    Call(i, args, ret)   the implementation must observe exactly args,    *)
(*                         the caller must receive exactly ret; the method  *)
(*                         that runs is the one the (name, parameter        *)
(*                         signature) of i resolves to: among overloads,    *)
(*                         i itself (RightOverloadRuns)                     *)
(*    Subscribe(i) / Unsubscribe(i)   on a signal or a property             *)
(*    Emit(i, payload)     reaches the subscriber iff subscribed, equal and *)
(*                         in order                                         *)
(*    Set(i, v)            the implementation's change callback observes v, *)
(*                         the property holds v, subscribers receive v      *)
(*    Get(i)               returns the value the property holds             *)
(*    Use(side, h)         a call (ident) through a reference received     *)
(*                         earlier: executed once, by the object it denotes *)
(*    Via(h, g)            the client calls pass(g) on a received Relay:    *)
(*                         the Relay observes g's object and returns it     *)
(* hist records every operation with the observation the generated proxy    *)
(* and stub must produce; the harness replays hist through code generated   *)
(* by stub.GeneratePackage from IdlText.                                    *)
(*                                                                          *)
(* Values: Val(T, k), k = 1..3, three values per type (an extreme, another  *)
(* one, the zero / empty one), built structurally; numbers outside TLC's    *)
(* range are names (the harness owns the table, shared with Convert).       *)
(* A dynamic value that holds a composite (Idl!Dyn) is the record           *)
(* [sig, t, v]: the signature and the type tree of what it holds and the    *)
(* k-th value of that type; the harness encodes v by t with an encoder of   *)
(* its own and wraps it (value.Opaque / the value constructors).            *)
(*                                                                          *)
(* Objects.  A value of an interface type is a reference.  Exchanging it is *)
(* part of the machine: each side holds references under handles (cheld:    *)
(* client, sheld: implementation); a reference is the object id that        *)
(* travels (the service id is constant: one service).  The service's object *)
(* table maps ids to hosted objects or to forwarders: a client-hosted       *)
(* object (id >= ClientBase, the code's 2^31) that reaches a stub is        *)
(* registered under a fresh service id that forwards to it                  *)
(* (bus.NewClientObject + service.Add in InterfaceType.Unmarshal with       *)
(* InterfaceTypeForStub); towards the client references travel unchanged.   *)
(* Resolve follows the table to the object that executes a call.  Which     *)
(* reference a sender puts into an object slot of a value is a parameter j  *)
(* of the operation: the j-th most recently acquired reference of the       *)
(* slot's interface, next slots the following ones.                         *)
(***************************************************************************)
EXTENDS Idl

CONSTANTS MaxOps,       \* operations per behaviour
          MaxPick,      \* choices of references per operation
          Layouts,      \* layouts of the IDL text explored ("aux-first", "aux-last")
          Devs          \* named deviations switched on ({} in every property-checking configuration):
                        \*   "by-name-only"  the proxy resolves the action id of a call by the method name alone

(***************************************************************************)
(* Values                                                                   *)
(***************************************************************************)
ScVal == [i |-> <<"max32", "neg1", "zero">>,  I |-> <<"umax32", "one", "zero">>,
          l |-> <<"min64", "max16", "zero">>, L |-> <<"umax64", "umax16", "zero">>,
          c |-> <<"min8", "one", "zero">>,    C |-> <<"umax8", "one", "zero">>,
          w |-> <<"min16", "max8", "zero">>,  W |-> <<"umax16", "max8", "zero">>,
          f |-> <<"fmax32", "fneg2_25", "f0">>, d |-> <<"dpi", "f1_5", "f0">>,
          b |-> <<"true", "false", "false">>, s |-> <<"s_utf8", "s_a", "s_empty">>]
\* dynamic values carry their own signature
DynVal == << [sig |-> "i", v |-> "neg1"], [sig |-> "s", v |-> "s_utf8"], [sig |-> "b", v |-> "true"] >>

IsRef(T) == T.k = "obj" \/ (T.k = "sc" /\ T.c = "o")

\* the object slots of the k-th value of a type, in the order of the value: the interface each
\* slot demands ("obj": the generic reference)
RECURSIVE Slots(_, _)
Slots(T, k) ==
  CASE T.k = "obj"  -> <<T.name>>
    [] T.k = "sc"   -> IF T.c = "o" THEN <<"obj">> ELSE <<>>
    [] T.k = "dyn"  -> <<>>                                   \* what a dynamic value holds has no references
    [] T.k = "list" -> IF k = 1 THEN Slots(T.e, 1) \o Slots(T.e, 2)
                       ELSE IF k = 2 THEN Slots(T.e, 2) ELSE <<>>
    [] T.k = "map"  -> IF k = 1 THEN Slots(T.val, 1) \o Slots(T.val, 2)       \* keys are never references
                       ELSE IF k = 2 THEN Slots(T.val, 1) ELSE <<>>
    [] OTHER        -> Flat([j \in DOMAIN T.ms |-> Slots(T.ms[j], k)])
\* slots of the members before the j-th
Before(seqs, j) == Len(Flat(SubSeq(seqs, 1, j - 1)))

\* the k-th value of T; an object slot is [slot |-> n], numbered from b + 1 in the order of Slots
RECURSIVE ValS(_, _, _)
ValS(T, k, b) ==
  CASE IsRef(T)                -> [slot |-> b + 1]
    [] T.k = "sc" /\ T.c = "m" -> DynVal[k]
    [] T.k = "dyn"    -> [sig |-> Str(Sig(T.ts[k])), t |-> T.ts[k], v |-> ValS(T.ts[k], k, 0)]
    [] T.k = "sc"              -> ScVal[T.c][k]
    [] T.k = "list"   -> IF k = 1 THEN <<ValS(T.e, 1, b), ValS(T.e, 2, b + Len(Slots(T.e, 1)))>>
                         ELSE IF k = 2 THEN <<ValS(T.e, 2, b)>> ELSE <<>>
    [] T.k = "map"    -> IF k = 1 THEN {<<ValS(T.key, 1, 0), ValS(T.val, 1, b)>>,
                                        <<ValS(T.key, 2, 0), ValS(T.val, 2, b + Len(Slots(T.val, 1)))>>}
                         ELSE IF k = 2 THEN {<<ValS(T.key, 2, 0), ValS(T.val, 1, b)>>} ELSE {}
    [] OTHER          -> LET ss == [j \in DOMAIN T.ms |-> Slots(T.ms[j], k)]      \* tuple, struct
                         IN [j \in DOMAIN T.ms |-> ValS(T.ms[j], k, b + Before(ss, j))]
Val(T, k) == ValS(T, k, 0)
Ks == 1..3

\* types the generated code can carry as values (no unknown, no void); a map key is a scalar
RECURSIVE Carriable(_)
Carriable(T) ==
  CASE T.k = "obj"  -> TRUE
    [] T.k = "sc"   -> T.c \in DOMAIN ScVal \cup {"m", "o"}
    [] T.k = "dyn"  -> DOMAIN T.ts = 1..3 /\ \A j \in DOMAIN T.ts : Carriable(T.ts[j]) /\ Slots(T.ts[j], j) = <<>> /\ T.ts[j].k # "dyn"
    [] T.k = "list" -> Carriable(T.e)
    [] T.k = "map"  -> Carriable(T.key) /\ Carriable(T.val) /\ T.key.k = "sc" /\ T.key.c \notin {"m", "o"}
    [] OTHER        -> \A j \in DOMAIN T.ms : Carriable(T.ms[j])

\* the k-th argument tuple of an action: the parameters rotate through the three values
ArgK(k, j) == ((k + j) % 3) + 1
ArgSlotSeqs(a, k) == [j \in DOMAIN a.ps |-> Slots(a.ps[j].t, ArgK(k, j))]
ArgSlots(a, k) == Flat(ArgSlotSeqs(a, k))
Args(a, k) == [j \in DOMAIN a.ps |-> ValS(a.ps[j].t, ArgK(k, j), Before(ArgSlotSeqs(a, k), j))]

\* the value indices that give different values: a reference has one value per choice j
ArgKs(a) == IF a.ps = <<>> \/ \A j \in DOMAIN a.ps : IsRef(a.ps[j].t) THEN {1} ELSE Ks
RetKs(a) == IF IsRef(a.ret) THEN {1} ELSE Ks

(***************************************************************************)
(* Objects of a behaviour: number |-> interface, host.  1 is the service's  *)
(* object (the one the client's proxy of the service denotes); 2..5 are     *)
(* created by the implementation in its service (Create<Itf>), 6 and 7 by   *)
(* the client (Create<Itf> on Proxy().ProxyService).                        *)
(***************************************************************************)
ObjItf  == <<"Itf", "Itf", "Probe", "Probe", "Relay", "Probe", "Probe">>
ObjHost == <<"svc", "svc", "svc",   "svc",   "svc",   "cli",   "cli">>
Objs == DOMAIN ObjItf
Root == 1
ClientBase == 1000           \* object ids from here are the client's (the code: 2^31)
FirstFresh == 8              \* handles and forwarder ids below are the initial ones
FirstFwd == 100
IsClientId(w) == w >= ClientBase
SlotItf(n) == IF n = "obj" THEN "Probe" ELSE n     \* generic references carry Probes

\* the interfaces of the package besides Itf ("Itf" is in it when Itf refers to itself)
RECURSIVE TypeItfs(_)
TypeItfs(T) ==
  CASE T.k = "obj"  -> {T.name}
    [] T.k = "sc"   -> IF T.c = "o" THEN {SlotItf("obj")} ELSE {}
    [] T.k = "dyn"  -> {}
    [] T.k = "list" -> TypeItfs(T.e)
    [] T.k = "map"  -> TypeItfs(T.key) \cup TypeItfs(T.val)
    [] OTHER        -> UNION {TypeItfs(T.ms[j]) : j \in DOMAIN T.ms}
Direct == UNION {TypeItfs(Tuple(ParamTypes(a))) \cup TypeItfs(a.ret) : a \in Actions}
PkgItfs == Direct \cup (IF "Relay" \in Direct THEN {"Probe"} ELSE {})
HasAux == PkgItfs \ {"Itf"} # {}

(***************************************************************************)
(* IDL text of the package (one string per line)                            *)
(***************************************************************************)
RECURSIVE SeqOfSet(_)
SeqOfSet(S) == IF S = {} THEN <<>>
               ELSE LET m == CHOOSE x \in S : \A y \in S : x <= y IN <<m>> \o SeqOfSet(S \ {m})
ChosenSeq == SeqOfSet(chosen)

RECURSIVE JoinParams(_)
JoinParams(ps) == IF ps = <<>> THEN ""
                  ELSE ps[1].n \o ": " \o IdlNameO(ps[1].t) \o
                       (IF Len(ps) = 1 THEN "" ELSE ", " \o JoinParams(Tail(ps)))
ActionLine(a) ==
  CASE a.kind = "method" ->
         "fn " \o a.name \o "(" \o JoinParams(a.ps) \o ")" \o
         (IF a.ret = Void THEN "" ELSE " -> " \o IdlNameO(a.ret)) \o " //uid:" \o ToString(a.id)
    [] a.kind = "signal"   -> "sig " \o a.name \o "(" \o JoinParams(a.ps) \o ") //uid:" \o ToString(a.id)
    [] a.kind = "property" -> "prop " \o a.name \o "(" \o JoinParams(a.ps) \o ") //uid:" \o ToString(a.id)

StructLines(S) == <<"struct " \o Str(S.name)>>
                  \o [j \in DOMAIN S.ms |-> Str(S.fs[j]) \o ": " \o IdlNameO(S.ms[j])]
                  \o <<"end">>
\* one declaration per struct name (Consistent holds outside the collision class)
AllStructs == UNION {ActionStructs(a) : a \in Actions}
StructNames == {s.name : s \in AllStructs}
RECURSIVE DeclLines(_)
DeclLines(names) == IF names = {} THEN <<>>
                    ELSE LET n == CHOOSE x \in names : TRUE
                             s == CHOOSE x \in AllStructs : x.name = n
                         IN StructLines(s) \o DeclLines(names \ {n})
\* every interface whose objects are exchanged can tell which object executes: ident
IdentUid == 900
IdentLine == "fn ident() -> int32 //uid:" \o ToString(IdentUid)
ProbeLines == <<"interface Probe", "fn ident() -> int32 //uid:100", "end">>
RelayLines == <<"interface Relay", "fn ident() -> int32 //uid:100",
                "fn pass(probe: Probe) -> Probe //uid:101", "end">>
ItfLines == <<"interface Itf">>
            \o [j \in DOMAIN ChosenSeq |-> ActionLine(ThePool[ChosenSeq[j]])]
            \o (IF "Itf" \in PkgItfs THEN <<IdentLine>> ELSE <<>>)
            \o <<"end">>
IfIn(n, lines) == IF n \in PkgItfs THEN lines ELSE <<>>
IdlTextOf(lay) ==
  <<"package verifgen">>
  \o (IF lay = "aux-last" THEN ItfLines \o IfIn("Relay", RelayLines) \o IfIn("Probe", ProbeLines)
      ELSE IfIn("Probe", ProbeLines) \o IfIn("Relay", RelayLines) \o ItfLines)
  \o DeclLines(StructNames)

(***************************************************************************)
(* The machine                                                              *)
(***************************************************************************)
VARIABLES phase,    \* "build" | "run"
          layout,   \* "aux-first" | "aux-last": where the other interfaces stand in the IDL text
          store,    \* property pool index -> [k: value index held (1..3), hs: the implementation's handles of its references]
          subs,     \* pool indices of the signals / properties subscribed to
          cheld,    \* client:         handle -> reference (object id) held
          sheld,    \* implementation: handle -> reference held
          table,    \* the service's objects: id -> [obj: hosted object | 0, fwd: client id it forwards to | 0]
          nexth,    \* next fresh handle
          nextid,   \* next fresh service object id
          execs,    \* object -> executions of ident / pass through references
          hist      \* operations with expected observations
ovars == <<cheld, sheld, table, nexth, nextid>>
rvars == <<chosen, last, phase, layout, store, subs, cheld, sheld, table, nexth, nextid, execs, hist>>

IdlText == IdlTextOf(layout)
Kind(i) == ThePool[i].kind
InitK == 3          \* every property is initialised with its third value during activation

Resolve(tbl, w) == IF IsClientId(w) THEN w - ClientBase
                   ELSE IF tbl[w].fwd = 0 THEN tbl[w].obj ELSE tbl[w].fwd - ClientBase

RECURSIVE SortedDesc(_)
SortedDesc(S) == IF S = {} THEN <<>>
                 ELSE LET m == CHOOSE x \in S : \A y \in S : y <= x IN <<m>> \o SortedDesc(S \ {m})
\* the handles of held references to objects of an interface, most recently acquired first
Cands(held, tbl, n) == SortedDesc({h \in DOMAIN held : ObjItf[Resolve(tbl, held[h])] = SlotItf(n)})
HasCands(held, tbl, slots) == \A s \in DOMAIN slots : Cands(held, tbl, slots[s]) # <<>>
Picks(held, tbl, slots, j) ==
  [s \in DOMAIN slots |-> LET c == Cands(held, tbl, slots[s]) IN c[((j + s - 2) % Len(c)) + 1]]

\* a reference as it travels: hs the sender's handle, hg the receiver's new handle (0: nobody
\* receives), hg2 a second receiver's (the subscriber of a property that is set), obj the object
Leaf(hs, hg, o, n) == [hs |-> hs, hg |-> hg, hg2 |-> 0, obj |-> o, itf |-> n]

\* client -> stub: a client-hosted object is registered under a fresh id that forwards to it
C2S(picks, slots, ch, sh, tbl, nh, ni) ==
  LET n == Len(slots)
      w(s) == ch[picks[s]]
      got(s) == IF IsClientId(w(s)) THEN ni + s - 1 ELSE w(s)
      fresh == {s \in 1..n : IsClientId(w(s))}
  IN [leaves |-> [s \in 1..n |-> Leaf(picks[s], nh + s - 1, Resolve(tbl, w(s)), slots[s])],
      sh  |-> [h \in DOMAIN sh \cup {nh + s - 1 : s \in 1..n} |->
                 IF h \in DOMAIN sh THEN sh[h] ELSE got(h - nh + 1)],
      tbl |-> [x \in DOMAIN tbl \cup {ni + s - 1 : s \in fresh} |->
                 IF x \in DOMAIN tbl THEN tbl[x] ELSE [obj |-> 0, fwd |-> w(x - ni + 1)]],
      nh  |-> nh + n,
      ni  |-> ni + n]
\* stub -> client: the reference travels as it is
S2C(picks, slots, sh, ch, tbl, nh) ==
  LET n == Len(slots)
  IN [leaves |-> [s \in 1..n |-> Leaf(picks[s], nh + s - 1, Resolve(tbl, sh[picks[s]]), slots[s])],
      ch |-> [h \in DOMAIN ch \cup {nh + s - 1 : s \in 1..n} |->
                IF h \in DOMAIN ch THEN ch[h] ELSE sh[picks[h - nh + 1]]],
      nh |-> nh + n]
\* nobody receives
Unsent(picks, slots, sh, tbl) ==
  [s \in DOMAIN slots |-> Leaf(picks[s], 0, Resolve(tbl, sh[picks[s]]), slots[s])]

(***************************************************************************)
(* Overloads.  Several actions of an interface may carry one name.  The     *)
(* generators give every action a Go name of its own                        *)
(* (MetaObject.ForEachMethodAndSignal + registerName): they walk the        *)
(* methods, then the signals, then the properties, each in uid order, and   *)
(* name an action Title(name) when no earlier action has that name, else    *)
(* Title(name)_n with the smallest n >= 0 that is free.  GoName(i) is that  *)
(* name before the first letter is upper-cased (strings.Title: the harness  *)
(* does it; Canon maps the pool names that differ by that letter only).     *)
(* The implementor interface, the signal helper and the proxy use it:       *)
(* <GoName>, Signal<GoName>, Subscribe<GoName>, Get/Set/Subscribe<GoName>,  *)
(* On<GoName>Change, Update<GoName>.                                        *)
(*                                                                          *)
(* A call through the proxy method GoName(i) sends the name and the         *)
(* parameter signature of action i (bus/proxy.go Call2 ->                   *)
(* MetaObject.MethodID(name, signature)); the object executes the method    *)
(* whose uid that resolves to (the stub's Receive switches on the uid):     *)
(* Resolves(i).  In a well-formed interface the parameter signatures of the *)
(* methods of one name differ (OverloadsDistinct), so Resolves(i) = {i}.    *)
(***************************************************************************)
Canon(n) == IF n = "Ping" THEN "ping" ELSE n
KindRank(kd) == CASE kd = "method" -> 1 [] kd = "signal" -> 2 [] OTHER -> 3
WalkBefore(i, j) == \/ KindRank(ThePool[i].kind) < KindRank(ThePool[j].kind)
                    \/ ThePool[i].kind = ThePool[j].kind /\ ThePool[i].id < ThePool[j].id
RECURSIVE WalkSeq(_)
WalkSeq(S) == IF S = {} THEN <<>>
              ELSE LET m == CHOOSE x \in S : \A y \in S \ {x} : WalkBefore(x, y) IN <<m>> \o WalkSeq(S \ {m})
Suffixed(base, n) == base \o "_" \o ToString(n)
FreshName(base, used) ==
  IF base \notin used THEN base
  ELSE Suffixed(base, CHOOSE n \in 0..99 : Suffixed(base, n) \notin used /\ \A m \in 0..(n - 1) : Suffixed(base, m) \in used)
RECURSIVE NameWalk(_, _)
NameWalk(seq, used) == IF seq = <<>> THEN {}
                       ELSE LET n == FreshName(Canon(ThePool[Head(seq)].name), used)
                            IN {<<Head(seq), n>>} \cup NameWalk(Tail(seq), used \cup {n})
GoNames == NameWalk(WalkSeq(chosen), {})
GoName(i) == (CHOOSE p \in GoNames : p[1] = i)[2]

ParamSig(a) == Str(Sig(Erase(Tuple(ParamTypes(a)))))
Resolves(i) == {x \in chosen : /\ ThePool[x].kind = "method" /\ ThePool[x].name = ThePool[i].name
                               /\ ("by-name-only" \in Devs \/ ParamSig(ThePool[x]) = ParamSig(ThePool[i]))}

RInit == /\ IInit /\ phase = "build" /\ layout = "aux-first" /\ store = <<>> /\ subs = {} /\ hist = <<>>
         /\ cheld = <<>> /\ sheld = <<>> /\ table = <<>> /\ nexth = FirstFresh /\ nextid = FirstFwd
         /\ execs = [o \in Objs |-> 0]

Build(i) == /\ phase = "build"
            /\ Add(i)
            /\ UNCHANGED <<phase, layout, store, subs, hist, ovars, execs>>
\* >= 2 members of an overload group at once
BuildGroup(S) == /\ phase = "build"
                 /\ AddGroup(S)
                 /\ UNCHANGED <<phase, layout, store, subs, hist, ovars, execs>>

\* the references both sides hold at the start
Table0 == [o \in {x \in Objs : ObjHost[x] = "svc" /\ (x = Root \/ ObjItf[x] \in PkgItfs)} |-> [obj |-> o, fwd |-> 0]]
SHeld0 == [h \in {x \in Objs : ObjHost[x] = "svc" /\ ObjItf[x] \in PkgItfs} |-> h]
CHeld0 == [h \in {x \in Objs : ObjItf[x] \in PkgItfs /\ (x = Root \/ ObjHost[x] = "cli")} |->
             IF h = Root THEN Root ELSE ClientBase + h]
Freeze(lay) ==
  /\ phase = "build" /\ chosen # {}
  /\ lay = "aux-last" => HasAux
  /\ phase' = "run" /\ layout' = lay
  /\ cheld' = CHeld0 /\ sheld' = SHeld0 /\ table' = Table0
  /\ store' = [i \in {j \in chosen : Kind(j) = "property"} |->
                 [k |-> InitK, hs |-> Picks(SHeld0, Table0, ArgSlots(ThePool[i], InitK), 1)]]
  /\ UNCHANGED <<chosen, last, subs, hist, nexth, nextid, execs>>

Op(rec) == /\ phase = "run" /\ Len(hist) < MaxOps
           /\ hist' = Append(hist, rec)
           /\ UNCHANGED <<chosen, last, phase, layout>>
\* every record has the same fields: op, id, idx, k (argument / payload / value index), r (return
\* value index, 0: none), deliver (the subscriber must receive it), j (choice of references),
\* side / h / g (use, via), objs / robjs (the references inside the arguments / the result),
\* exec (the object that executes a call through a reference), dev (named deviation of the
\* pinned code that the operation runs into, "": none)
\* ran (calls: the pool index of the method the object executes, else 0)
Rec(op, i, k, r, deliver, j, x) ==
  [op |-> op, id |-> IF i = 0 THEN 0 ELSE ThePool[i].id, idx |-> i, k |-> k, r |-> r, deliver |-> deliver,
   j |-> j, side |-> x.side, h |-> x.h, g |-> x.g, objs |-> x.objs, robjs |-> x.robjs,
   exec |-> x.exec, dev |-> x.dev, ran |-> x.ran]
NoX == [side |-> "", h |-> 0, g |-> 0, objs |-> <<>>, robjs |-> <<>>, exec |-> 0, dev |-> "", ran |-> 0]

\* the stub asks the object it returns for its description while it still executes the call:
\* an object that returns itself waits for itself (InterfaceType.Marshal in the stub method)
ReturnDev(rleaves) == IF \E s \in DOMAIN rleaves : rleaves[s].obj = Root THEN "returns-itself" ELSE ""

Call(i, k, r, j, x) ==
  LET a  == ThePool[i]
      as == ArgSlots(a, k)
      rs == IF r = 0 THEN <<>> ELSE Slots(a.ret, r)
  IN /\ Kind(i) = "method"
     /\ (a.ret = Void) <=> (r = 0)
     /\ k \in ArgKs(a) /\ (r = 0 \/ r \in RetKs(a))
     /\ (a.grp # "" /\ a.ps # <<>>) => r \in {0, k}      \* overloads: the k-th arguments with the k-th result
     /\ (j = 0) <=> (as = <<>> /\ rs = <<>>)
     /\ HasCands(cheld, table, as)
     /\ x \in Resolves(i)                  \* the method the object executes
     /\ LET x1 == C2S(Picks(cheld, table, as, j), as, cheld, sheld, table, nexth, nextid)
            x2 == S2C(Picks(x1.sh, x1.tbl, rs, j), rs, x1.sh, cheld, x1.tbl, x1.nh)
        IN /\ Op(Rec("call", i, k, r, FALSE, j,
                     [NoX EXCEPT !.objs = x1.leaves, !.robjs = x2.leaves, !.dev = ReturnDev(x2.leaves), !.ran = x]))
           /\ sheld' = x1.sh /\ table' = x1.tbl /\ nextid' = x1.ni
           /\ cheld' = x2.ch /\ nexth' = x2.nh
     /\ UNCHANGED <<store, subs, execs>>
Subscribe(i) == /\ Kind(i) \in {"signal", "property"} /\ i \notin subs
                /\ Op(Rec("sub", i, 0, 0, FALSE, 0, NoX))
                /\ subs' = subs \cup {i} /\ UNCHANGED <<store, ovars, execs>>
Unsubscribe(i) == /\ i \in subs
                  /\ Op(Rec("unsub", i, 0, 0, FALSE, 0, NoX))
                  /\ subs' = subs \ {i} /\ UNCHANGED <<store, ovars, execs>>
Emit(i, k, j) ==
  LET ss == ArgSlots(ThePool[i], k)
      ps == Picks(sheld, table, ss, j)
  IN /\ Kind(i) = "signal" /\ k \in ArgKs(ThePool[i])
     /\ (j = 0) <=> (ss = <<>>)
     /\ IF i \in subs
        THEN LET x == S2C(ps, ss, sheld, cheld, table, nexth)
             IN /\ Op(Rec("emit", i, k, 0, TRUE, j, [NoX EXCEPT !.objs = x.leaves]))
                /\ cheld' = x.ch /\ nexth' = x.nh
        ELSE /\ Op(Rec("emit", i, k, 0, FALSE, j, [NoX EXCEPT !.objs = Unsent(ps, ss, sheld, table)]))
             /\ UNCHANGED <<cheld, nexth>>
     /\ UNCHANGED <<store, subs, sheld, table, nextid, execs>>
Set(i, k, j) ==
  LET ss == ArgSlots(ThePool[i], k)
  IN /\ Kind(i) = "property" /\ k \in ArgKs(ThePool[i])
     /\ (j = 0) <=> (ss = <<>>)
     /\ HasCands(cheld, table, ss)
     /\ LET x1 == C2S(Picks(cheld, table, ss, j), ss, cheld, sheld, table, nexth, nextid)
            ih == [s \in DOMAIN ss |-> x1.leaves[s].hg]            \* what the property holds now
            x2 == S2C(ih, ss, x1.sh, cheld, x1.tbl, x1.nh)
            lv == [s \in DOMAIN ss |-> [x1.leaves[s] EXCEPT !.hg2 = IF i \in subs THEN x2.leaves[s].hg ELSE 0]]
        IN /\ Op(Rec("set", i, k, 0, i \in subs, j, [NoX EXCEPT !.objs = lv]))
           /\ store' = [store EXCEPT ![i] = [k |-> k, hs |-> ih]]
           /\ sheld' = x1.sh /\ table' = x1.tbl /\ nextid' = x1.ni
           /\ IF i \in subs THEN cheld' = x2.ch /\ nexth' = x2.nh
                            ELSE cheld' = cheld /\ nexth' = x1.nh
     /\ UNCHANGED <<subs, execs>>
Get(i) ==
  /\ Kind(i) = "property"
  /\ LET ss == ArgSlots(ThePool[i], store[i].k)
         x  == S2C(store[i].hs, ss, sheld, cheld, table, nexth)
     IN /\ Op(Rec("get", i, 0, store[i].k, FALSE, 0, [NoX EXCEPT !.robjs = x.leaves]))
        /\ cheld' = x.ch /\ nexth' = x.nh
  /\ UNCHANGED <<store, subs, sheld, table, nextid, execs>>
\* a call through a reference received earlier
Use(side, h) ==
  LET held == IF side = "c" THEN cheld ELSE sheld
  IN /\ phase = "run" /\ h \in DOMAIN held /\ h >= FirstFresh
     /\ LET o == Resolve(table, held[h])
        IN /\ Op(Rec("use", 0, 0, 0, FALSE, 0,
                     [NoX EXCEPT !.side = side, !.h = h, !.exec = o, !.objs = <<Leaf(h, 0, o, ObjItf[o])>>]))
           /\ execs' = [execs EXCEPT ![o] = @ + 1]
     /\ UNCHANGED <<store, subs, ovars>>
\* the client calls pass(g) on a received Relay hosted by the service
Via(h, g) ==
  /\ phase = "run" /\ h \in DOMAIN cheld /\ g \in DOMAIN cheld
  /\ LET o == Resolve(table, cheld[h])
     IN /\ ObjItf[o] = "Relay" /\ ObjHost[o] = "svc"
        /\ ObjItf[Resolve(table, cheld[g])] = "Probe"
        /\ LET x1 == C2S(<<g>>, <<"Probe">>, cheld, sheld, table, nexth, nextid)
               x2 == S2C(<<x1.leaves[1].hg>>, <<"Probe">>, x1.sh, cheld, x1.tbl, x1.nh)
           IN /\ Op(Rec("via", 0, 0, 0, FALSE, 0,
                        [NoX EXCEPT !.side = "c", !.h = h, !.g = g, !.exec = o,
                                    !.objs = x1.leaves, !.robjs = x2.leaves]))
              /\ sheld' = x1.sh /\ table' = x1.tbl /\ nextid' = x1.ni
              /\ cheld' = x2.ch /\ nexth' = x2.nh
        /\ execs' = [execs EXCEPT ![o] = @ + 1]
  /\ UNCHANGED <<store, subs>>

RNext == \/ \E i \in DOMAIN ThePool : Build(i)
         \/ \E S \in GroupSets : BuildGroup(S)
         \/ \E lay \in Layouts : Freeze(lay)
         \/ /\ phase = "run" /\ Len(hist) < MaxOps
            /\ \/ \E i \in chosen :
                    \/ \E k \in Ks, r \in 0..3, j \in 0..MaxPick, x \in chosen : Call(i, k, r, j, x)
                    \/ Subscribe(i) \/ Unsubscribe(i)
                    \/ \E k \in Ks, j \in 0..MaxPick : Emit(i, k, j) \/ Set(i, k, j)
                    \/ Get(i)
               \/ \E side \in {"c", "s"}, h \in DOMAIN cheld \cup DOMAIN sheld : Use(side, h)
               \/ \E h, g \in DOMAIN cheld : Via(h, g)
RSpec == RInit /\ [][RNext]_rvars

(***************************************************************************)
(* Theorems: the bookkeeping of the machine agrees with a declarative       *)
(* reading of the history                                                   *)
(***************************************************************************)
\* a get returns the value of the latest set before it, else the initial value
LastSet(n) == LET sets == {m \in 1..(n - 1) : hist[m].op = "set" /\ hist[m].idx = hist[n].idx}
              IN IF sets = {} THEN 0 ELSE CHOOSE m \in sets : \A m2 \in sets : m2 <= m
GetSeesLastSet ==
  \A n \in DOMAIN hist : hist[n].op = "get" =>
     hist[n].r = IF LastSet(n) = 0 THEN InitK ELSE hist[LastSet(n)].k
\* ... and its references denote the objects of the references that were set
GetDenotesLastSet ==
  \A n \in DOMAIN hist : (hist[n].op = "get" /\ LastSet(n) # 0) =>
     [s \in DOMAIN hist[n].robjs |-> hist[n].robjs[s].obj]
       = [s \in DOMAIN hist[LastSet(n)].objs |-> hist[LastSet(n)].objs[s].obj]
\* an event is delivered iff more subscriptions than cancellations precede it
DeliveredIffSubscribed ==
  \A n \in DOMAIN hist : hist[n].op \in {"emit", "set"} =>
     LET nsub == Cardinality({m \in 1..(n - 1) : hist[m].op = "sub" /\ hist[m].idx = hist[n].idx})
         nuns == Cardinality({m \in 1..(n - 1) : hist[m].op = "unsub" /\ hist[m].idx = hist[n].idx})
     IN hist[n].deliver <=> (nsub > nuns)
SubsConsistent == subs \subseteq chosen /\ \A i \in subs : Kind(i) # "method"
\* only values the generated code can carry are exchanged
OnlyCarriable == \A a \in Actions : (\A j \in DOMAIN a.ps : Carriable(a.ps[j].t))
                                    /\ (a.ret = Void \/ Carriable(a.ret))

\* every object reference received denotes the object sent, and an object of the interface the
\* slot demands: who sent / received the references of a record
ArgsFromClient(e) == e.op \in {"call", "set", "via"}
RefsDenoteSent ==
  \A n \in DOMAIN hist :
    LET e == hist[n]
        sender == IF e.op = "use" THEN (IF e.side = "c" THEN cheld ELSE sheld)
                  ELSE IF ArgsFromClient(e) THEN cheld ELSE sheld
        receiver == IF ArgsFromClient(e) THEN sheld ELSE cheld
    IN /\ \A s \in DOMAIN e.objs :
            LET l == e.objs[s]
            IN /\ Resolve(table, sender[l.hs]) = l.obj
               /\ l.hg # 0 => Resolve(table, receiver[l.hg]) = l.obj
               /\ l.hg2 # 0 => Resolve(table, cheld[l.hg2]) = l.obj
               /\ ObjItf[l.obj] = SlotItf(l.itf)
       /\ \A s \in DOMAIN e.robjs :
            LET l == e.robjs[s]
            IN /\ Resolve(table, sheld[l.hs]) = l.obj
               /\ Resolve(table, cheld[l.hg]) = l.obj
               /\ ObjItf[l.obj] = SlotItf(l.itf)
\* a call through a received reference is executed by the object it denotes, exactly once
ExecutedOnce ==
  /\ \A o \in Objs : execs[o] = Cardinality({n \in DOMAIN hist : hist[n].exec = o})
  /\ \A n \in DOMAIN hist : hist[n].op = "use" => hist[n].exec = hist[n].objs[1].obj
  /\ \A n \in DOMAIN hist : hist[n].op = "via" =>
        /\ hist[n].objs[1].obj = hist[n].robjs[1].obj         \* the Relay returns what it was given
        /\ ObjItf[hist[n].exec] = "Relay"
\* the implementation never holds a client id: what it calls goes through its own service
ImplHoldsServiceIds == \A h \in DOMAIN sheld : ~IsClientId(sheld[h]) /\ sheld[h] \in DOMAIN table
ClientRefsResolvable == \A h \in DOMAIN cheld : IsClientId(cheld[h]) \/ cheld[h] \in DOMAIN table
ForwardersSound ==
  \A x \in DOMAIN table :
    IF table[x].fwd = 0 THEN table[x].obj \in Objs /\ ObjHost[table[x].obj] = "svc" /\ x = table[x].obj
    ELSE /\ table[x].obj = 0 /\ x >= FirstFwd /\ x < nextid
         /\ IsClientId(table[x].fwd) /\ ObjHost[table[x].fwd - ClientBase] = "cli"
\* a call through the proxy method of an overload is executed by that overload: the implementation
\* method that runs is the one whose Go name the proxy method carries (Go names are unique: GoNamesUnique)
RightOverloadRuns == \A n \in DOMAIN hist : hist[n].op = "call" => hist[n].ran = hist[n].idx
\* the methods of one name are told apart by their parameter signatures
OverloadsDistinct ==
  \A i, j \in chosen : (i # j /\ ThePool[i].kind = "method" /\ ThePool[j].kind = "method"
                         /\ ThePool[i].name = ThePool[j].name) => ParamSig(ThePool[i]) # ParamSig(ThePool[j])
\* every action has a Go name of its own; an action keeps its bare name unless an action that the
\* generators visit earlier carries that Go name already
GoNameTheorems ==
  LET gn == GoNames
      nameOf(i) == (CHOOSE p \in gn : p[1] = i)[2]
  IN /\ \A p, q \in gn : p[2] = q[2] => p[1] = q[1]
     /\ {p[1] : p \in gn} = chosen
     /\ \A i \in chosen : \/ nameOf(i) = Canon(ThePool[i].name)
                          \/ \E j \in chosen : WalkBefore(j, i) /\ nameOf(j) = Canon(ThePool[i].name)
\* handles are never reused, on either side
HandlesFresh == \A h \in DOMAIN cheld \cup DOMAIN sheld : h < nexth
\* Idl's theorems about the interface: it changes in the build phase only
\* (what holds per action - SigsInGrammar, TupleShaped, OnlyCarriable - is decided once for the whole pool)
PoolTheorems ==
  \A i \in DOMAIN ThePool :
    LET a == ThePool[i]
    IN /\ RoundTrip(Erase(PayloadType(a))) /\ RoundTrip(Erase(a.ret))
       /\ ~a.bare => PayloadType(a).k = "tuple"
       /\ (\A j \in DOMAIN a.ps : Carriable(a.ps[j].t)) /\ (a.ret = Void \/ Carriable(a.ret))
       /\ a.name # "ident"                                \* the method IdlRpc adds to exchanged interfaces
ASSUME PoolTheorems
ItfTheorems == phase = "build" =>
                 (UniqueIds /\ Consistent /\ AtMostOneSpecial
                  /\ GroupsTogether /\ UnitsBounded /\ OverloadsDistinct /\ GoNameTheorems)
RTypeOK == /\ phase \in {"build", "run"}
           /\ layout \in {"aux-first", "aux-last"}
           /\ Len(hist) <= MaxOps
           /\ phase = "build" => hist = <<>> /\ subs = {} /\ cheld = <<>> /\ sheld = <<>>
           /\ layout = "aux-last" => HasAux
=============================================================================
