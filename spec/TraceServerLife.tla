-------------------------- MODULE TraceServerLife --------------------------
(* Validation of recorded concurrent executions of a real server against ServerLife.tla (DESIGN.md 2.2 c).
   The harness lets clients call, users terminate a service / the server (or the listener fail) at the same
   time, with no gate; the hook events (each emitted under the lock that protects the step it names) and the
   harness's own events, in the order of the process-wide sequence counter:

     srvterm t / srvret t     Server.Terminate is called / has returned            (harness)
     svcterm s / svcret s     Service.Terminate of service s                        (harness)
     listenfail               the listener starts failing                           (harness)
     swap                     router.go:38-42   Router.Terminate swapped the map    (router, under the lock)
     sterm s                  service.go:187-193 the object table of s was swapped  (servicelife, under the lock)
     onterm o                 OnTerminate of object o runs                          (implementor)
     rtremove s ok            router.go:72-82   Router.Remove(s)                    (router, under the lock)
     nsremove s ok            namespace.go:44-62 Namespace.Remove(s)                (namespace, under the lock)
     closeall                 server.go:263     closeAll holds contextsMutex        (server, under the lock)
     ctxclose c               server.go:267     the end point of c was closed       (server, under the lock)
     stopped                  server.go:256     before waitChan <- err              (server)
     start k c o / res k code a client sends call k / gets its outcome              (harness)
     route k ok               router.go:87-90   look-up of the service              (router, under the read lock)
     box k ok                 service.go:173-176 look-up of the mailbox             (service, under the read lock)
     exec k                   the method of call k runs                             (implementor)

   Steps without an event are silent: close(closeChan), listen.Close, the walks over the swapped maps,
   the close of an end point itself (its event comes after it, and the client may see the loss first),
   the queueing of a mail, the answer "Service not found", the accept loop leaving.  Every invariant of
   ServerLife.tla is evaluated at every step.  Acceptance: the trace is consumed (high-water mark).      *)
EXTENDS ServerLife, Json, IOUtils, TLCExt

ASSUME TLCSet(2, ndJsonDeserialize(IOEnv.TRACE))
TraceLog == TLCGet(2)
ASSUME TLCSet(3, Len(TraceLog))
TraceLen == TLCGet(3)

VARIABLE l
tvars == <<vars, l>>
T == TraceLog[l]
Is(k) == l <= TraceLen /\ T.k = k
Adv == l' = l + 1
Same == UNCHANGED vars

TInit == Init /\ l = 1

TReset ==
  /\ Is("reset") /\ Adv
  /\ pc' = [t \in Threads |-> IF t = TA THEN "accepting" ELSE "idle"]
  /\ todoS' = [t \in Threads |-> {}] /\ cur' = [t \in Threads |-> 0]
  /\ todoO' = [t \in Threads |-> {}] /\ todoC' = [t \in Threads |-> {}]
  /\ curO' = [t \in Threads |-> 0] /\ curC' = [t \in Threads |-> 0]
  /\ closeCh' = FALSE /\ lis' = "open" /\ waitDone' = FALSE
  /\ rt' = InitSvcs /\ rt0' = TRUE
  /\ ns' = [s \in Svcs |-> IF s \in InitSvcs THEN "enabled" ELSE "free"]
  /\ tbl' = [s \in Svcs |-> IF s \in InitSvcs THEN ObjsOf(s) ELSE {}]
  /\ ctxs' = InitConns /\ ctxMu' = 0 /\ caDone' = FALSE
  /\ cn' = [c \in Conns |-> IF c \in InitConns THEN "open" ELSE "none"]
  /\ accC' = 0
  /\ term' = [o \in Objs |-> 0] /\ exec' = [o \in Objs |-> 0]
  /\ cst' = [k \in Calls |-> "idle"] /\ res' = [k \in Calls |-> "none"]
  /\ cc' = [k \in Calls |-> 0] /\ co' = [k \in Calls |-> 0]
  /\ mode' = [k \in Calls |-> "fast"] /\ rel' = [k \in Calls |-> FALSE]
  /\ boxq' = [o \in Objs |-> <<>>] /\ busy' = [o \in Objs |-> 0]
  /\ gTerm' = {} /\ gClose' = {} /\ gAccept' = FALSE /\ armed' = 0
  /\ doomed' = {} /\ svcDown' = {} /\ late' = [k \in Calls |-> FALSE] /\ devs' = {} /\ nfail' = {}

\* what the client may report for call k: the specification's outcome; a reply and the loss of the
\* connection that are both there when client.Call looks (client.go:98-106, a select) give either
Code(k) == CASE res[k] = "none" -> 0 [] res[k] = "pending" -> 1 [] res[k] = "ok" -> 2
             [] res[k] \in {"nosvc", "noobj"} -> 3 [] OTHER -> 5
ResOK(k, code) == code = Code(k) \/ (code = 5 /\ res[k] \in {"ok", "nosvc", "noobj"} /\ cn[cc[k]] = "closed")

TSrvTerm == Is("srvterm") /\ SrvTermCall(T.a) /\ Adv
TSvcTerm == Is("svcterm") /\ SvcTermCall(T.a) /\ Adv
TListenF == Is("listenfail") /\ ListenFail /\ Adv
TSwap    == Is("swap") /\ (\E t \in Threads : RSwap(t)) /\ Adv
TSTerm   == Is("sterm") /\ (\E t \in Threads : cur[t] = T.a /\ SSwap(t)) /\ Adv
TOnTerm  == Is("onterm") /\ (\E t \in Threads : curO[t] = T.a /\ SOn(t)) /\ Adv
TRtRem   == Is("rtremove") /\ (\E t \in Threads : cur[t] = T.a /\ ((T.b = 1) <=> (T.a \in rt)) /\ SRt(t)) /\ Adv
TNsRem   == Is("nsremove") /\ (\E t \in Threads : cur[t] = T.a /\ ((T.b = 1) <=> (ns[T.a] # "free")) /\ SNs(t)) /\ Adv
TCloseA  == Is("closeall") /\ (\E t \in Threads : CALock(t)) /\ Adv
TCtxCl   == Is("ctxclose") /\ cn[T.a] = "closed" /\ Same /\ Adv
TStopped == Is("stopped") /\ (\E t \in Threads : WSend(t)) /\ Adv
TSrvRet  == Is("srvret") /\ pc[T.a] = "ret" /\ Same /\ Adv
TSvcRet  == Is("svcret") /\ pc[TU(T.a)] = "ret" /\ Same /\ Adv
TStart   == Is("start") /\ Start(T.a, T.b, T.c, "fast") /\ Adv
\* a call on a connection the server has closed already: the write fails, nothing reaches the server
TStartL  == /\ Is("start") /\ cn[T.b] = "closed" /\ cst[T.a] = "idle" /\ Adv
            /\ cst' = [cst EXCEPT ![T.a] = "lost"] /\ res' = [res EXCEPT ![T.a] = "closed"]
            /\ cc' = [cc EXCEPT ![T.a] = T.b] /\ co' = [co EXCEPT ![T.a] = T.c]
            /\ UNCHANGED <<lvars, svars, mode, rel, boxq, busy, gvars0, hvars>>
TRoute   == Is("route") /\ Route(T.a) /\ ((T.b = 1) <=> (cst'[T.a] = "routed")) /\ Adv
TBox     == Is("box") /\ cst[T.a] = "routed" /\ Deliver(T.a) /\ ((T.b = 1) <=> (cst'[T.a] = "looked")) /\ Adv
TExec    == Is("exec") /\ Exec(T.a) /\ Adv
TRes     == Is("res") /\ ResOK(T.a, T.b) /\ Same /\ Adv
\* the end of a round: every operation has returned, nothing may be left undone
TEnd     == /\ Is("end") /\ Same /\ Adv
            /\ \A t \in Threads : pc[t] \in {"idle", "ret", "done", "accepting"}
            /\ \A k \in Calls : res[k] # "pending"

Silent == /\ UNCHANGED l
          /\ \/ \E t \in Threads : TClose(t) \/ TListen(t) \/ RIter(t) \/ SPick(t) \/ CAPick(t) \/ CAClose(t) \/ CAUnlock(t)
             \/ \E k \in Calls : Enqueue(k) \/ (cst[k] = "noroute" /\ Deliver(k))
             \/ AcceptErr \/ AErr

TNext == TReset \/ TSrvTerm \/ TSvcTerm \/ TListenF \/ TSwap \/ TSTerm \/ TOnTerm \/ TRtRem \/ TNsRem \/ TCloseA \/ TCtxCl
         \/ TStopped \/ TSrvRet \/ TSvcRet \/ TStart \/ TStartL \/ TRoute \/ TBox \/ TExec \/ TRes \/ TEnd \/ Silent
TSpec == TInit /\ [][TNext]_tvars

Track == TLCSet(1, IF TLCGet(1) < l THEN l ELSE TLCGet(1))
Accepted == /\ PrintT(<<"HWM", TLCGet(1), TraceLen>>)
            /\ TLCGet(1) = TraceLen + 1
ASSUME TLCSet(1, 0)
=============================================================================
