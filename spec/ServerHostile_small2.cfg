SPECIFICATION Spec
CONSTANTS
  MaxLen = 2
  Alphabet = "small"
  Dev_DupUserStucksObject = FALSE
  Dev_AuthFloodCrashes = FALSE
  Dev_HostileCountCrashes = FALSE
INVARIANTS Export ServerUp AllServe
CHECK_DEADLOCK FALSE
