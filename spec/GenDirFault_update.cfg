SPECIFICATION GSpec
CONSTANTS
  Names = {"a"}
  MaxId = 3
  BadKinds = {"noname"}
  Eps = {"e2"}
  UpdKinds = {"ok"}
  ObsSeq <- Obs2
  WithBreak = TRUE
  WithDrop = FALSE
  WithStall = FALSE
  WithReads = TRUE
  WithPlans = FALSE
  SeqMode = FALSE
  MaxLen = 99
  Dev_ReturnSendError = FALSE
  Dev_RollbackOnSendError = FALSE
  Dev_EmitThenCommit = FALSE
  Dev_StopAtFirstError = FALSE
  Dev_ResendOnError = FALSE
  Dev_LiveTable = FALSE
VIEW View
INVARIANTS OutcomeIsSequential StateIsSequential HealthyObserversSeeEveryTransitionOnce EveryObserverSeesAPrefix
CHECK_DEADLOCK FALSE
