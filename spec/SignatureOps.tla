--------------------------- MODULE SignatureOps ---------------------------
(***************************************************************************)
(* The QiMessaging type-signature grammar (doc/about-qimessaging.md,        *)
(* "Signatures"; meta/signature/signature.go l.28-299, type.go printers).   *)
(*                                                                          *)
(*   * abstract type trees  T  (scalars, m, o, X, v, list, map, tuple,      *)
(*     named struct incl. template-style names)                             *)
(*   * Sig(T)      the printed signature, a sequence of characters          *)
(*   * IdlName(T)  the IDL name the type must print (SignatureIDL)          *)
(*   * GoKind(T)   the shape of the Go type that must represent it          *)
(*   * Parse(s)    a reference recogniser/parser over character sequences,  *)
(*                 written like the implementation's scannerless PEG        *)
(*                 (ordered choice, greedy repetition, blanks skipped       *)
(*                 before every token, whole input must be consumed)        *)
(* Pure operators; the generator machine, the universes, the near misses    *)
(* and the theorems are in Signature.tla, the IDL layer in Idl.tla.         *)
(*                                                                          *)
(* TLC strings cannot be indexed: a signature is a sequence of 1-character  *)
(* strings; Str(s) concatenates it into a TLC string for export.            *)
(***************************************************************************)
EXTENDS Integers, Sequences, FiniteSets, TLC

Range(f) == {f[i] : i \in DOMAIN f}

RECURSIVE Str(_)
Str(s) == IF s = <<>> THEN "" ELSE Head(s) \o Str(Tail(s))

RECURSIVE Flat(_)
Flat(ss) == IF ss = <<>> THEN <<>> ELSE Head(ss) \o Flat(Tail(ss))

(***************************************************************************)
(* Characters                                                               *)
(***************************************************************************)
LowerS == <<"a","b","c","d","e","f","g","h","i","j","k","l","m",
            "n","o","p","q","r","s","t","u","v","w","x","y","z">>
UpperS == <<"A","B","C","D","E","F","G","H","I","J","K","L","M",
            "N","O","P","Q","R","S","T","U","V","W","X","Y","Z">>
Lower == Range(LowerS)
Upper == Range(UpperS)
Digit == {"0","1","2","3","4","5","6","7","8","9"}
Letter == Lower \cup Upper
IdentChar == Letter \cup Digit \cup {"_"}
Blank == {" ", "\t", "\n", "\r"}
ToUpper(c) == IF c \in Lower THEN UpperS[CHOOSE i \in 1..26 : LowerS[i] = c] ELSE c

(***************************************************************************)
(* Scalars: signature character -> IDL name, Go kind ("any": the statement  *)
(* demands nothing beyond existence for m, o, X, v).                        *)
(***************************************************************************)
ScalarTable ==
  [i |-> [idl |-> "int32",   go |-> "int32"],
   I |-> [idl |-> "uint32",  go |-> "uint32"],
   l |-> [idl |-> "int64",   go |-> "int64"],
   L |-> [idl |-> "uint64",  go |-> "uint64"],
   c |-> [idl |-> "int8",    go |-> "int8"],
   C |-> [idl |-> "uint8",   go |-> "uint8"],
   w |-> [idl |-> "int16",   go |-> "int16"],
   W |-> [idl |-> "uint16",  go |-> "uint16"],
   f |-> [idl |-> "float32", go |-> "float32"],
   d |-> [idl |-> "float64", go |-> "float64"],
   b |-> [idl |-> "bool",    go |-> "bool"],
   s |-> [idl |-> "str",     go |-> "string"],
   m |-> [idl |-> "any",     go |-> "any"],
   o |-> [idl |-> "obj",     go |-> "any"],
   X |-> [idl |-> "unknown", go |-> "any"],
   v |-> [idl |-> "nothing", go |-> "any"]]
ScalarChars == DOMAIN ScalarTable

(***************************************************************************)
(* Type trees                                                               *)
(***************************************************************************)
Sc(c)            == [k |-> "sc", c |-> c]
List(e)          == [k |-> "list", e |-> e]
Map(key, val)    == [k |-> "map", key |-> key, val |-> val]
Tuple(ms)        == [k |-> "tuple", ms |-> ms]
Struct(n, ms, fs) == [k |-> "struct", name |-> n, ms |-> ms, fs |-> fs]

Scalars == {Sc(c) : c \in ScalarChars}

RECURSIVE Depth(_)
Max(S) == CHOOSE x \in S : \A y \in S : y <= x
Depth(T) ==
  CASE T.k = "sc"   -> 0
    [] T.k = "list" -> 1 + Depth(T.e)
    [] T.k = "map"  -> 1 + Max({Depth(T.key), Depth(T.val)})
    [] OTHER        -> 1 + Max({0} \cup {Depth(T.ms[i]) : i \in DOMAIN T.ms})

(***************************************************************************)
(* Printer  (type.go: ListType l.490, MapType l.590, TupleType l.731,       *)
(* StructType l.896 - the empty struct prints "()<Name>")                   *)
(***************************************************************************)
RECURSIVE Sig(_)
SigAll(ms) == Flat([i \in DOMAIN ms |-> Sig(ms[i])])
CommaNames(fs) == Flat([i \in DOMAIN fs |-> <<",">> \o fs[i]])
Sig(T) ==
  CASE T.k = "sc"     -> <<T.c>>
    [] T.k = "list"   -> <<"[">> \o Sig(T.e) \o <<"]">>
    [] T.k = "map"    -> <<"{">> \o Sig(T.key) \o Sig(T.val) \o <<"}">>
    [] T.k = "tuple"  -> <<"(">> \o SigAll(T.ms) \o <<")">>
    [] T.k = "struct" -> <<"(">> \o SigAll(T.ms) \o <<")", "<">> \o T.name
                         \o CommaNames(T.fs) \o <<">">>

(***************************************************************************)
(* IDL name  (type.go SignatureIDL: l.496, 596, 755, 915)                   *)
(***************************************************************************)
RECURSIVE IdlName(_)
RECURSIVE JoinComma(_)
JoinComma(ss) == IF ss = <<>> THEN ""
                 ELSE IF Len(ss) = 1 THEN ss[1]
                 ELSE ss[1] \o "," \o JoinComma(Tail(ss))
IdlName(T) ==
  CASE T.k = "sc"     -> ScalarTable[T.c].idl
    [] T.k = "list"   -> "Vec<" \o IdlName(T.e) \o ">"
    [] T.k = "map"    -> "Map<" \o IdlName(T.key) \o "," \o IdlName(T.val) \o ">"
    [] T.k = "tuple"  -> "Tuple<" \o JoinComma([i \in DOMAIN T.ms |-> IdlName(T.ms[i])]) \o ">"
    [] T.k = "struct" -> Str(T.name)

(***************************************************************************)
(* Go representation.  A Go map key must be comparable: no slice, no map,   *)
(* and not the object reference (a struct that contains maps); a type with  *)
(* such a map anywhere inside has no Go representation (GoRepresentable).   *)
(* Field names are the member names with the first letter upper-cased       *)
(* (name.go CleanName); tuple members are P0, P1, ...                       *)
(***************************************************************************)
RECURSIVE GoKeyOK(_)
GoKeyOK(T) ==
  CASE T.k = "sc"   -> T.c # "o"
    [] T.k = "list" -> FALSE
    [] T.k = "map"  -> FALSE
    [] OTHER        -> \A i \in DOMAIN T.ms : GoKeyOK(T.ms[i])

RECURSIVE GoRepresentable(_)
GoRepresentable(T) ==
  CASE T.k = "sc"   -> TRUE
    [] T.k = "list" -> GoRepresentable(T.e)
    [] T.k = "map"  -> GoKeyOK(T.key) /\ GoRepresentable(T.key) /\ GoRepresentable(T.val)
    [] OTHER        -> \A i \in DOMAIN T.ms : GoRepresentable(T.ms[i])

Title(name) == Str(<<ToUpper(Head(name))>> \o Tail(name))

RECURSIVE GoKind(_)
GoKind(T) ==
  CASE T.k = "sc"     -> [k |-> ScalarTable[T.c].go]
    [] T.k = "list"   -> [k |-> "slice", e |-> GoKind(T.e)]
    [] T.k = "map"    -> [k |-> "map", key |-> GoKind(T.key), val |-> GoKind(T.val)]
    [] T.k = "tuple"  -> [k |-> "struct",
                          fs |-> [i \in DOMAIN T.ms |->
                                    [n |-> "P" \o ToString(i - 1), t |-> GoKind(T.ms[i])]]]
    [] T.k = "struct" -> [k |-> "struct",
                          fs |-> [i \in DOMAIN T.ms |->
                                    [n |-> Title(T.fs[i]), t |-> GoKind(T.ms[i])]]]

(***************************************************************************)
(* Reference parser.  Results: [ok |-> TRUE, t |-> T, p |-> next position]  *)
(* or Fail.  A failing alternative consumes nothing (parsec And/OrdChoice); *)
(* repetitions are greedy and never fail (Kleene).  A struct whose member   *)
(* count differs from its name count yields an error node in the code,      *)
(* which surfaces as an error of the whole Parse: it is a Fail here (the    *)
(* fall-back to the tuple alternative then meets the "<" and fails too).    *)
(***************************************************************************)
Fail == [ok |-> FALSE]

RECURSIVE SkipWS(_, _)
SkipWS(s, p) == IF p <= Len(s) /\ s[p] \in Blank THEN SkipWS(s, p + 1) ELSE p

RECURSIVE IdentEnd(_, _)
IdentEnd(s, p) == IF p <= Len(s) /\ s[p] \in IdentChar THEN IdentEnd(s, p + 1) ELSE p
\* first position after the identifier starting at p (= p: no identifier)
PIdent(s, p) == IF p <= Len(s) /\ s[p] \in Letter THEN IdentEnd(s, p + 1) ELSE p

At(s, p, c) == p <= Len(s) /\ s[p] = c

\* struct name: template form  Ident "<" Ident ">"  is tried first (OrdTokens)
PStructName(s, p0) ==
  LET p  == SkipWS(s, p0)
      e1 == PIdent(s, p)
  IN IF e1 = p THEN Fail
     ELSE LET e2 == IF At(s, e1, "<") THEN PIdent(s, e1 + 1) ELSE e1 + 1
          IN IF At(s, e1, "<") /\ e2 > e1 + 1 /\ At(s, e2, ">")
             THEN [ok |-> TRUE, name |-> SubSeq(s, p, e2), p |-> e2 + 1]
             ELSE [ok |-> TRUE, name |-> SubSeq(s, p, e1 - 1), p |-> e1]

\* Kleene(And(",", Ident))
RECURSIVE PMembers(_, _, _)
PMembers(s, p0, acc) ==
  LET p == SkipWS(s, p0)
  IN IF ~At(s, p, ",") THEN [names |-> acc, p |-> p0]
     ELSE LET q == SkipWS(s, p + 1)
              e == PIdent(s, q)
          IN IF e = q THEN [names |-> acc, p |-> p0]
             ELSE PMembers(s, e, Append(acc, SubSeq(s, q, e - 1)))

RECURSIVE PType(_, _), PTypes(_, _, _)
\* Kleene(declarationType)
PTypes(s, p, acc) ==
  LET r == PType(s, p)
  IN IF r.ok THEN PTypes(s, r.p, Append(acc, r.t)) ELSE [ts |-> acc, p |-> p]

\* "<" structName members ">" after the closing parenthesis at position p - 1
PStructTail(s, p0, ts) ==
  LET p == SkipWS(s, p0)
  IN IF ~At(s, p, "<") THEN Fail
     ELSE LET n == PStructName(s, p + 1)
          IN IF ~n.ok THEN Fail
             ELSE LET m == PMembers(s, n.p, <<>>)
                      q == SkipWS(s, m.p)
                  IN IF At(s, q, ">") /\ Len(m.names) = Len(ts)
                     THEN [ok |-> TRUE, t |-> Struct(n.name, ts, m.names), p |-> q + 1]
                     ELSE Fail

PType(s, p0) ==
  LET p == SkipWS(s, p0)
  IN IF p > Len(s) THEN Fail
     ELSE LET c == s[p] IN
       IF c \in ScalarChars THEN [ok |-> TRUE, t |-> Sc(c), p |-> p + 1]
       ELSE IF c = "{" THEN
         LET a == PType(s, p + 1) IN
         IF ~a.ok THEN Fail
         ELSE LET b == PType(s, a.p) IN
              IF ~b.ok THEN Fail
              ELSE LET q == SkipWS(s, b.p) IN
                   IF At(s, q, "}") THEN [ok |-> TRUE, t |-> Map(a.t, b.t), p |-> q + 1]
                   ELSE Fail
       ELSE IF c = "[" THEN
         LET a == PType(s, p + 1) IN
         IF ~a.ok THEN Fail
         ELSE LET q == SkipWS(s, a.p) IN
              IF At(s, q, "]") THEN [ok |-> TRUE, t |-> List(a.t), p |-> q + 1]
              ELSE Fail
       ELSE IF c = "(" THEN
         LET l == PTypes(s, p + 1, <<>>)
             q == SkipWS(s, l.p)
         IN IF ~At(s, q, ")") THEN Fail
            ELSE LET st == PStructTail(s, q + 1, l.ts)
                 IN IF st.ok THEN st                       \* struct before tuple
                    ELSE [ok |-> TRUE, t |-> Tuple(l.ts), p |-> q + 1]
       ELSE Fail

\* Parse: exactly one type, the whole input consumed (trailing blanks are not)
Parse(s) == LET r == PType(s, 1)
            IN IF r.ok /\ r.p = Len(s) + 1 THEN [ok |-> TRUE, t |-> r.t] ELSE Fail

(***************************************************************************)
(* Names                                                                    *)
(***************************************************************************)
N_A        == <<"A">>
N_Point    == <<"P","o","i","n","t","2","D">>
N_lower    == <<"s","o","m","e","_","t","y","p","e">>
N_Template == <<"L","i","s","t","<","d","o","u","b","l","e",">">>
N_Tpl2     == <<"m","<","i",">">>          \* every character is also a type character
NameSets == [one  |-> {N_A},
             two  |-> {N_Point, N_Template},
             four |-> {N_A, N_lower, N_Template, N_Tpl2}]
AllNames == NameSets["four"] \cup {N_Point}

\* field names: the k-th member of a struct is called Field[k]; they include
\* names that are also type characters ("i", "s") and a name with "_" / digits
Field == << <<"x">>, <<"i">>, <<"s","o","m","e","_","f","1">> >>
Fields(n) == SubSeq(Field, 1, n)
\* member names that are words of the languages the types are carried into (Go keywords and predeclared
\* names, words of the IDL): in a signature they are names like any other
WordNames == { <<"t","y","p","e">>, <<"r","a","n","g","e">>, <<"f","u","n","c">>, <<"m","a","p">>,
               <<"d","e","f","a","u","l","t">>, <<"s","t","r","i","n","g">>, <<"e","r","r","o","r">>,
               <<"i","n","t","e","r","f","a","c","e">>, <<"v","a","r">>, <<"g","o">>, <<"i","f">>,
               <<"f","n">>, <<"s","t","r","u","c","t">>, <<"e","n","d">>, <<"i","n","t","3","2">>, <<"l","e","n">> }

(***************************************************************************)
(* Theorems about one type / one string                                     *)
(***************************************************************************)
RoundTrip(T) == Parse(Sig(T)) = [ok |-> TRUE, t |-> T]
\* whatever the parser accepts prints to a signature that parses to the same type
FixedPoint(s) == LET r == Parse(s) IN r.ok => RoundTrip(r.t)
=============================================================================
