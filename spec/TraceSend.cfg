SPECIFICATION TSpec
CONSTANTS
  MaxSenders = 8
CONSTRAINT Track
POSTCONDITION Accepted
CHECK_DEADLOCK FALSE
