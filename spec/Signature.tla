----------------------------- MODULE Signature -----------------------------
(***************************************************************************)
(* C09: the signature grammar as a generator.  SignatureOps defines the     *)
(* type trees, the printer Sig, IdlName, GoKind and the reference parser.   *)
(* Here:                                                                    *)
(*   * the universes (Wide: every scalar in every position at depth <= 1)   *)
(*   * NearMiss(s): single-character edits of a printed signature           *)
(*   * a generator state machine: a type is grown by wrapping it into       *)
(*     contexts (list of . / map with . as key / struct with . as second    *)
(*     member ...); every reachable state is a type tree, the theorems are  *)
(*     invariants of that machine:                                          *)
(*        RoundTrip  ==  Parse(Sig(t)) = t        (hence Sig is injective)  *)
(*        FixedPoint ==  what the parser accepts prints to a fixed point    *)
(***************************************************************************)
EXTENDS SignatureOps

CONSTANTS MaxDepth,     \* the generator wraps a base type at most MaxDepth times
          SibSet,       \* name of the sibling set used by the contexts (SibSets)
          NameSet       \* name of the struct-name set used by the contexts

Names == NameSets[NameSet]

(***************************************************************************)
(* Universes                                                                *)
(***************************************************************************)
I32 == Sc("i")
Str_ == Sc("s")
SibSets == [one   |-> {I32},
            two   |-> {Str_, List(Sc("m"))},
            three |-> {I32, List(Sc("m")), Struct(N_A, <<Str_>>, Fields(1))},
            four  |-> {Sc("I"), Map(Str_, Sc("o")), Tuple(<<>>),
                       Struct(N_Template, <<Sc("d"), Sc("d")>>, Fields(2))}]
Sibs == SibSets[SibSet]

\* depth <= 1, every scalar in every single position and every pair of scalars
Wide ==
  Scalars
  \cup {List(e) : e \in Scalars}
  \cup {Map(a, b) : a \in Scalars, b \in Scalars}
  \cup {Tuple(<<a>>) : a \in Scalars}
  \cup {Tuple(<<a, b>>) : a \in Scalars, b \in Scalars}
  \cup {Struct(n, <<>>, <<>>) : n \in AllNames}
  \cup {Struct(n, <<a>>, Fields(1)) : n \in AllNames, a \in Scalars}
  \cup {Struct(N_A, <<a, b>>, Fields(2)) : a \in Scalars, b \in Scalars}
  \cup {Tuple(<<a, b, c>>) : a \in {I32, Str_, Sc("m")}, b \in {Sc("o"), Sc("b")}, c \in {Sc("X"), Sc("L"), Sc("v")}}
  \cup {Struct(N_Template, <<a, b, c>>, Fields(3)) : a \in {I32, Sc("m")}, b \in {Sc("o"), Sc("w")}, c \in {Sc("C"), Sc("f")}}
  \cup {Struct(N_A, <<I32>>, <<w>>) : w \in WordNames}
  \cup {Struct(N_Point, <<Str_, List(Struct(N_A, <<I32>>, <<w>>))>>, <<w, <<"x">>>>) : w \in WordNames}

\* the generator's initial types
Base == Scalars \cup {Tuple(<<>>)} \cup {Struct(n, <<>>, <<>>) : n \in Names}

\* contexts: a function from the hole's content to a type is not a TLC-friendly
\* value, so a context is a record and Plug interprets it
Ctxs ==
  {[c |-> "list"]}
  \cup {[c |-> "mapK", o |-> x] : x \in Sibs} \cup {[c |-> "mapV", o |-> x] : x \in Sibs}
  \cup {[c |-> "tup1"]}
  \cup {[c |-> "tup2a", o |-> x] : x \in Sibs} \cup {[c |-> "tup2b", o |-> x] : x \in Sibs}
  \cup {[c |-> "tup3", o |-> x] : x \in Sibs}
  \cup {[c |-> "st1", n |-> n] : n \in Names}
  \cup {[c |-> "st2a", n |-> n, o |-> x] : n \in Names, x \in Sibs}
  \cup {[c |-> "st2b", n |-> n, o |-> x] : n \in Names, x \in Sibs}
  \cup {[c |-> "st3", n |-> n, o |-> x] : n \in Names, x \in Sibs}

Plug(c, T) ==
  CASE c.c = "list"  -> List(T)
    [] c.c = "mapK"  -> Map(T, c.o)
    [] c.c = "mapV"  -> Map(c.o, T)
    [] c.c = "tup1"  -> Tuple(<<T>>)
    [] c.c = "tup2a" -> Tuple(<<T, c.o>>)
    [] c.c = "tup2b" -> Tuple(<<c.o, T>>)
    [] c.c = "tup3"  -> Tuple(<<c.o, T, c.o>>)
    [] c.c = "st1"   -> Struct(c.n, <<T>>, Fields(1))
    [] c.c = "st2a"  -> Struct(c.n, <<T, c.o>>, Fields(2))
    [] c.c = "st2b"  -> Struct(c.n, <<c.o, T>>, Fields(2))
    [] c.c = "st3"   -> Struct(c.n, <<c.o, T, c.o>>, Fields(3))

(***************************************************************************)
(* Near misses: single-character edits over the grammar's alphabet          *)
(***************************************************************************)
Alphabet == {"i", "s", "m", "[", "]", "{", "}", "(", ")", "<", ">", ",", " ", "A", "x", "_", "1"}
Del(s, i)    == SubSeq(s, 1, i - 1) \o SubSeq(s, i + 1, Len(s))
Ins(s, i, c) == SubSeq(s, 1, i - 1) \o <<c>> \o SubSeq(s, i, Len(s))      \* before position i
Rep(s, i, c) == SubSeq(s, 1, i - 1) \o <<c>> \o SubSeq(s, i + 1, Len(s))
Dup(s, i)    == SubSeq(s, 1, i) \o SubSeq(s, i, Len(s))
NearMiss(s) ==
  {Del(s, i) : i \in 1..Len(s)} \cup {Dup(s, i) : i \in 1..Len(s)}
  \cup {Ins(s, i, c) : i \in 1..Len(s) + 1, c \in Alphabet}
  \cup {Rep(s, i, c) : i \in 1..Len(s), c \in Alphabet}

\* the signatures whose neighbourhoods are explored: one per production and
\* per pair of nested productions
Seeds ==
  {I32, List(Str_), Map(Str_, Sc("m")), Tuple(<<>>), Tuple(<<I32, Str_>>),
   Struct(N_A, <<>>, <<>>), Struct(N_A, <<I32>>, Fields(1)),
   Struct(N_Template, <<Str_, Sc("m")>>, Fields(2)), Struct(N_Tpl2, <<I32>>, Fields(1)),
   List(Map(I32, Tuple(<<Str_>>))), Map(Tuple(<<I32>>), Struct(N_A, <<Str_>>, Fields(1))),
   Tuple(<<List(I32), Struct(N_lower, <<Sc("m"), I32, Str_>>, Fields(3))>>),
   Struct(N_Point, <<Struct(N_A, <<I32>>, Fields(1)), List(Str_)>>, Fields(2))}

(***************************************************************************)
(* Theorems                                                                 *)
(***************************************************************************)
\* blanks are accepted only in front of tokens, never at the very end
TrailingBlankRejected(T) == ~Parse(Sig(T) \o <<" ">>).ok
LeadingBlankAccepted(T) == Parse(<<" ">> \o Sig(T)) = [ok |-> TRUE, t |-> T]

(***************************************************************************)
(* Generator state machine                                                  *)
(***************************************************************************)
VARIABLES cur,      \* the type built so far
          wraps     \* number of contexts applied
vars == <<cur, wraps>>

Init == cur \in Base /\ wraps = 0
Wrap(ctx) == /\ wraps < MaxDepth
             /\ cur' = Plug(ctx, cur)
             /\ wraps' = wraps + 1
Next == \E ctx \in Ctxs : Wrap(ctx)
Spec == Init /\ [][Next]_vars

TypeOK == wraps \in 0..MaxDepth /\ Depth(cur) >= wraps   \* siblings may be deeper than the spine
InvRoundTrip == RoundTrip(cur)
InvBlanks == TrailingBlankRejected(cur) /\ LeadingBlankAccepted(cur)
InvKey == GoKeyOK(cur) => GoRepresentable(cur)
=============================================================================
