SPECIFICATION GSpec
CONSTANTS
  Valid = {1, 2, 3}
  Invalid <- DefInvalid
  Subs = {"s1", "s2"}
  WrongKinds <- AllWrong
  Dev_ValidateByBytesOnly = FALSE
  MaxWrites = 99
  Mode = "seq"
  Depth = 12
  Hows = {"name", "id"}
CHECK_DEADLOCK FALSE
