SPECIFICATION GSpec
CONSTANTS
  Universe = "quick"
  MapOrder = {"s", "p"}
  LastChanceAny = {"m", "s", "p"}
  WalkSorted = TRUE
  AssumeUserRange = TRUE
  QueryTypes = {"lookup", "names", "full", "action"}
  SampleMod = 2
INVARIANTS Export
CHECK_DEADLOCK FALSE
