SPECIFICATION XSpec
CONSTANTS
  Handlers = {1, 2, 10, 11}
  Msgs = {1, 2, 20}
  InitSlots = 2
  Calls = {1, 2}
  HS = 10
  HD = 11
  EV = 20
  WithSub = FALSE
  WithDisc = FALSE
  WithHalf = FALSE
  Kinds = {2}
  Cancellable = {1}
  Cleanup = "none"
  Dev_NoPreCheck = FALSE
  Dev_CancelBeforeSend = FALSE
  Dev_ResendCancel = FALSE
  Dev_WrongId = FALSE
  Dev_FilterIgnoresId = FALSE
  Dev_SharedCancel = FALSE
  Dev_WaitsForAck = FALSE
INVARIANTS NoHandlerLeft
CHECK_DEADLOCK FALSE
