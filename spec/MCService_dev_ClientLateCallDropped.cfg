SPECIFICATION Spec
CONSTANTS
  MaxInst = 3
  MaxExec = 1
  MaxEmit = 1
  Subs = {}
  Dev_BoxKeptAfterRemove = FALSE
  Dev_IdZeroAfterMainRemoved = FALSE
  Dev_TerminateKeepsObjects = FALSE
  Dev_FailedAddLeavesEntry = FALSE
  ClientSide = TRUE
  Dev_ClientRemoveKeepsEntry = FALSE
  Dev_ClientLateCallDropped = TRUE
CONSTRAINT Bounded
INVARIANTS TypeOK UniqueLiveIds TerminateHookExactlyOnce SubscribersTold NoCrash ClientTable EveryCallAnswered
PROPERTIES NoInvocationAfterRemoval NoLateSubscription OthersUnaffected
CHECK_DEADLOCK FALSE
