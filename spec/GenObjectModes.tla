--------------------------- MODULE GenObjectModes ---------------------------
(***************************************************************************)
(* Behaviour export for ObjectModes (DESIGN.md 2.2 b).  The harness plays   *)
(* the clients one command at a time:                                       *)
(*    send  connection c sends request number n (template a / sig / u / b)  *)
(*    disc  connection c is closed                                          *)
(* and lets the object and the closers run until nothing moves (the steps   *)
(* of the specification have priority over the next command).  After every  *)
(* command the expected observation is what each connection has READ since  *)
(* the command was given - answers with their values, events with the       *)
(* registration they belong to, trace events with (id, kind, slot) - plus   *)
(* the mode flags and the subscriber table (diagnostics).  The only         *)
(* nondeterminism left is the order of the closers of one connection: the   *)
(* check groups the exported behaviours by command sequence and the harness *)
(* accepts each of the specification's outcomes.                            *)
(*                                                                         *)
(* "T": one behaviour per (quiescent state, command) transition of the      *)
(* state graph: hist is hidden by the VIEW while the system is settled, the *)
(* PrintT sits inside the Settle action.                                    *)
(***************************************************************************)
EXTENDS MCObjectModes, Json

VARIABLES hist, settled
gvars == <<vars, hist, settled>>

GInit == Init /\ hist = <<>> /\ settled = TRUE

WireJ(f) == [k |-> f.k, n |-> f.n, sig |-> f.sig, e |-> f.e, id |-> f.id, tk |-> f.tk, ts |-> f.ts, r |-> f.r,
             cnt |-> {<<a, f.cnt[a]>> : a \in {x \in Ids : f.cnt[x] > 0}}]
Obs == [out |-> [c \in Conns |-> [i \in 1..Len(out[c]) |-> WireJ(out[c][i])]],
        stats |-> statsOn, trace |-> traceOn,
        subs |-> [i \in 1..Len(subs) |-> <<subs[i].u, subs[i].sig, subs[i].c, subs[i].mid>>],
        crashed |-> overflow]

Cmd(o, c, t, n) == /\ hist' = Append(hist, [o |-> o, c |-> c, n |-> n, a |-> t.a, sig |-> t.sig, u |-> t.u, b |-> t.b, post |-> Obs])
                  /\ settled' = FALSE
Command ==
  \/ \E c \in Conns, t \in Alphabet : ClientSend(c, t) /\ Cmd("send", c, t, sent + 1)
  \/ \E c \in Conns : Disconnect(c) /\ Cmd("disc", c, Tmpl(0, 0, 0, 0), 0)

Settle == /\ ~settled /\ settled' = TRUE
          /\ hist' = [hist EXCEPT ![Len(hist)].post = Obs]
          /\ PrintT(<<"T", ToJson(hist')>>)
          /\ UNCHANGED vars

GNext == IF ENABLED Internal THEN (Internal /\ UNCHANGED <<hist, settled>>)
         ELSE IF ~settled THEN Settle
         ELSE Command
GSpec == GInit /\ [][GNext]_gvars
View == <<core, settled, IF settled THEN <<>> ELSE <<hist, out>>>>
=============================================================================
