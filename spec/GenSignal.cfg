SPECIFICATION GSpec
CONSTANTS
  Threads <- Cast124
  Conns = {"c1", "c2"}
  Signals = {"A", "B"}
  ConnOf <- CastConn
  SigOf <- CastSig
  Rounds <- CR21
  EmitSeq <- EmitABA
  QCap = 8
  Dev_ProxySectionsNotAtomic = TRUE
  Dev_SendAfterSnapshot = TRUE
  Objects = {"o1"}
  ObjOf <- CastObj
  Devs = {}
  Probe <- NoProbe
  Failing = {}
  Inject <- NoInject
  Rogue = {}
  Hunt = ""
CHECK_DEADLOCK FALSE
