SPECIFICATION GSpec
CONSTANTS
  Threads <- Cast124
  Conns = {"c1", "c2"}
  Signals = {"A", "B"}
  ConnOf <- CastConn
  SigOf <- CastSig
  Rounds <- CR21
  EmitSeq <- EmitABA
  QCap = 8
  Dev_ProxySectionsNotAtomic = TRUE
  Dev_SendAfterSnapshot = TRUE
  Hunt = ""
CHECK_DEADLOCK FALSE
