SPECIFICATION GSpec
CONSTANTS
  Gor = {"g1", "g2", "g3"}
  Eps = {"E", "F"}
  Svcs = {"xe", "e", "t"}
  Adv <- AdvAll
  MaxReq = 1
  MaxLoss = 0
  AuthMayRefuse = FALSE
  Dev_RUnlockUnderWriteLock = FALSE
  Dev_NilChannelWhenAllSkipped = FALSE
  Dev_AuthFailureLeaksConnection = FALSE
  Dev_DeadClientStaysInPool = FALSE
  Dev_PoolKeyedByAdvertised = FALSE
  Dev_CloserBeforeInsert = FALSE
VIEW View
CONSTRAINT Replayable
INVARIANTS ProcessAlive NoBadUnlock MutexOK RequestOutcome ReturnedIsOpen AtMostOneConnPerEndpoint ExtraConnectionsClosed PoolHoldsLiveClients AllGetTheSharedClient
CHECK_DEADLOCK FALSE
