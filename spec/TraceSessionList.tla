-------------------------- MODULE TraceSessionList --------------------------
(* Validation of recorded free-running executions of a real session.Session
   against SessionList.tla (DESIGN.md 2.2 c).  Records, in the order of the
   process-wide sequence counter of the hooks (`registry c19list-free`, plain
   rounds: a driver registers / unregisters services on two servers, two
   goroutines call Proxy() / Object(), nothing is gated):

     reset                 a new round (fresh session, fresh names)
     new                   session.go `subscribed`: NewAuthSession has listed and subscribed
     reg(n, id)            emitted INSIDE directory.go ServiceReady's critical section (gate
                           directory.ready.moved): the id-th registration of the round, name n
     unreg(n, id)          the same in UnregisterService (gate directory.unregister.deleted)
     signal(ch)            updateLoop received from `added` ("A") / `removed` ("R")
     store(list)           updateServiceList, under serviceListMutex: the list (name -> registration)
     find(n, id)           findServiceName, under serviceListMutex: what it returned (0: not found)
     findid(n, id, ch)     findServiceID for registration id: ch = "found" | ""
     quiet                 the harness has seen every announced signal taken and stored

   The Services() call of a refresh is not logged: DirServices is a silent
   step that TLC places between `signal` and `store` - the stored list must be
   the directory's content at SOME moment after the signal was taken.  find /
   findid must read the list stored last; at `quiet` the list is the
   directory's; every invariant of SessionList.tla is evaluated at every step. *)
EXTENDS SessionList, Json, IOUtils, TLCExt, Sequences

ASSUME TLCSet(2, ndJsonDeserialize(IOEnv.TRACE))
TraceLog == TLCGet(2)
ASSUME TLCSet(3, Len(TraceLog))
TraceLen == TLCGet(3)

VARIABLE l
tvars == <<vars, l>>
T == TraceLog[l]
Is(k) == l <= TraceLen /\ T.k = k
Adv == l' = l + 1
Same == UNCHANGED vars

TInit == Init /\ l = 1

TReset == /\ Is("reset") /\ Adv
          /\ dir' = NoList /\ nreg' = 0
          /\ regName' = [k \in Regs |-> ""] /\ regEp' = [k \in Regs |-> ""]
          /\ snaps' = {NoList}
          /\ init' = "none" /\ list' = NoList
          /\ chR' = FALSE /\ chA' = FALSE /\ qR' = 0 /\ qA' = 0
          /\ loop' = "off" /\ snap' = NoList
          /\ cmOwner' = "" /\ cancelSet' = FALSE
          /\ tpc' = [t \in Actors |-> "idle"] /\ ncancel' = 0 /\ crashed' = FALSE
          /\ pool' = {} /\ live' = {}
          /\ rpc' = [g \in Gor |-> "idle"] /\ rname' = [g \in Gor |-> ""] /\ rfound' = [g \in Gor |-> 0]
          /\ rres' = [g \in Gor |-> 0] /\ rreached' = [g \in Gor |-> 0]
          /\ nstore' = 0 /\ nexit' = 0 /\ failedRefresh' = "no"

AnyEp == CHOOSE e \in Eps : TRUE
TNew    == Is("new") /\ NewInit /\ Adv
TReg    == Is("reg") /\ T.id = nreg + 1 /\ DirReg(T.n, AnyEp) /\ Adv
TUnreg  == Is("unreg") /\ dir[T.n] = T.id /\ DirUnreg(T.n) /\ Adv
TSignal == Is("signal") /\ LoopTake(T.ch) /\ Adv
TFetch  == l <= TraceLen /\ DirServices /\ UNCHANGED l                    \* silent
TStore  == Is("store") /\ loop = "got" /\ snap = T.list /\ LoopStore /\ Adv
TFind   == Is("find") /\ init = "ready" /\ list[T.n] = T.id /\ Same /\ Adv
TFindId == Is("findid") /\ init = "ready" /\ ((T.ch = "found") <=> Listed(T.id)) /\ Same /\ Adv
TQuiet  == Is("quiet") /\ Quiescent /\ list = dir /\ Same /\ Adv

TNext == TReset \/ TNew \/ TReg \/ TUnreg \/ TSignal \/ TFetch \/ TStore \/ TFind \/ TFindId \/ TQuiet
TSpec == TInit /\ [][TNext]_tvars

Track == TLCSet(1, IF TLCGet(1) < l THEN l ELSE TLCGet(1))
Accepted == /\ PrintT(<<"HWM", TLCGet(1), TraceLen>>)
            /\ TLCGet(1) = TraceLen + 1
ASSUME TLCSet(1, 0)
=============================================================================
