SPECIFICATION HSpec
CONSTANTS
  Handlers = {1, 2, 10, 11}
  Msgs = {1, 2, 20}
  InitSlots = 2
  Calls = {1, 2}
  HS = 10
  HD = 11
  EV = 20
  WithSub = FALSE
  WithDisc = FALSE
  WithHalf = FALSE
INVARIANTS TypeOK CloserAtMostOnce QueueCloseAtMostOnce CloserBeforeQueueClose SlotUniqueAmongLive
           OkMeansReplied NoFaultNoError LateCallsFail DisconnectAtMostOnce HeldCallIsWritten
PROPERTIES CallsEnd AnsweredCallsReturn
CHECK_DEADLOCK FALSE
