SPECIFICATION RSpec
CONSTANTS
  Pool = "c"
  MaxActions = 1
  MaxOps = 4
  MaxPick = 2
  Layouts = {"aux-first"}
  Devs = {}
INVARIANTS RTypeOK ItfTheorems SubsConsistent GetSeesLastSet GetDenotesLastSet DeliveredIffSubscribed RefsDenoteSent ExecutedOnce RightOverloadRuns ImplHoldsServiceIds ClientRefsResolvable ForwardersSound HandlesFresh
CHECK_DEADLOCK FALSE
