SPECIFICATION GSpec
CONSTANTS
  Closers = {"c1", "c2"}
  Senders = {"s1", "s2"}
  Handlers = {"h1", "h2"}
  MaxIn = 3
  Permissive = FALSE
  LockFirst = FALSE
VIEW View
INVARIANTS TypeOK MutexHeldByOne QuiescentCloseDone
CHECK_DEADLOCK FALSE
